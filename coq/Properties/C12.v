(** C12 — access rules and route authentication gate every request
    (route/access_rules.go, route/auth.go, proxy/http_proxy.go:99-124, proxy/tcp/*_proxy.go).
    This file contains only statements, [exact], and [Print Assumptions].
    net.ParseIP / net.ParseCIDR / net.SplitHostPort and the scheme table are universally
    quantified functions: every theorem holds whatever they answer. *)
From Coq Require Import String List NArith Bool.
From Fabio Require Import Lib.Outcome Lib.Bytes Model.Access Proofs.Access Model.BasicReload Proofs.BasicReload
     Model.BasicSchemes Proofs.BasicSchemes Model.GateRequest Proofs.GateRequest
     Model.ReloadRemoval Proofs.ReloadRemoval Model.TcpTargets Proofs.TcpTargets.
Import ListNotations.
Local Open Scope N_scope.

(* ---- "an allow list admits only addresses inside its blocks" (all rule maps, all addresses) ---- *)
Theorem C12_allow_only_inside : forall r l ip,
  r_allow r = Some l -> deny_by_ip r (Some ip) = false ->
  exists b, In b l /\ contains b ip = true.
Proof. exact allow_only_inside. Qed.
Print Assumptions C12_allow_only_inside.

Theorem C12_allow_inside_admitted : forall r l ip b,
  r_allow r = Some l -> In b l -> contains b ip = true -> deny_by_ip r (Some ip) = false.
Proof. exact allow_inside_admitted. Qed.
Print Assumptions C12_allow_inside_admitted.

(* an allow list without blocks (Target.denyAll, 1cbe751) admits no address *)
Theorem C12_empty_allow_denies_all : forall r ip,
  r_allow r = Some [] -> deny_by_ip r (Some ip) = true.
Proof. exact empty_allow_denies_all. Qed.
Print Assumptions C12_empty_allow_denies_all.

(* ---- "a deny list rejects addresses inside its blocks" (and only those) ---- *)
Theorem C12_deny_inside : forall r l ip b,
  r_allow r = None -> r_deny r = Some l -> In b l -> contains b ip = true ->
  deny_by_ip r (Some ip) = true.
Proof. exact deny_inside. Qed.
Print Assumptions C12_deny_inside.

Theorem C12_deny_only_inside : forall r ip,
  r_allow r = None -> deny_by_ip r (Some ip) = true ->
  exists l b, r_deny r = Some l /\ In b l /\ contains b ip = true.
Proof. exact deny_only_inside. Qed.
Print Assumptions C12_deny_only_inside.

(* ---- "inside a block" is bit-level CIDR membership: net.IPNet.Contains as modelled (by
        shifting, v4-mapped unmapped) = same family and agreement on the first [ones] bits ---- *)
Theorem C12_contains_spec : forall n ip,
  wf_net n -> wf_ip ip ->
  (contains n ip = true <-> exists b, sblock_of n = Some b /\ in_sblock b (canon ip)).
Proof. exact contains_spec. Qed.
Print Assumptions C12_contains_spec.

(* the brute-force reference evaluated in the correspondence check decides the same predicate *)
Theorem C12_reference_is_spec : forall b a,
  s_len b <= width (s_v6 b) -> (in_sblock_b b a = true <-> in_sblock b a).
Proof. exact in_sblock_b_spec. Qed.
Print Assumptions C12_reference_is_spec.

(* ---- "an unknown scheme rejects everything" ---- *)
Theorem C12_unknown_scheme_rejects : forall (creds : Type) name (schemes : scheme_table creds) c,
  name <> [] -> schemes name = None -> authorized name schemes c = false.
Proof. exact unknown_scheme_rejects. Qed.
Print Assumptions C12_unknown_scheme_rejects.

Theorem C12_authorized_iff : forall (creds : Type) name (schemes : scheme_table creds) c,
  authorized name schemes c = true <-> name = [] \/ exists s, schemes name = Some s /\ s c = true.
Proof. exact authorized_iff. Qed.
Print Assumptions C12_authorized_iff.

(* MECHANISM LEMMA, not coverage: a fact about [map] that fixes the case type of the request
   histories the harness runs on one loaded scheme set (that is where the content is) *)
Theorem C12_auth_history_independent :
  forall (creds : Type) name (schemes : scheme_table creds) pre c post d,
  nth (List.length pre) (auth_history name schemes (pre ++ c :: post)) d = authorized name schemes c.
Proof. exact auth_history_independent. Qed.
Print Assumptions C12_auth_history_independent.

(* MECHANISM LEMMAS, not coverage: facts about [map]; the histories on one long-lived target
   are run by the harness (classes http/access-history, tcp/access-history) *)
Theorem C12_access_history_independent :
  forall parse_ip split_host r pre remote xff post d,
  nth (List.length pre) (http_access_history parse_ip split_host r (pre ++ (remote, xff) :: post)) d
  = access_denied_http parse_ip split_host r remote xff.
Proof. exact http_access_history_independent. Qed.
Print Assumptions C12_access_history_independent.

Theorem C12_access_history_independent_tcp : forall r pre p post d,
  nth (List.length pre) (tcp_access_history r (pre ++ p :: post)) d = access_denied_tcp r p.
Proof. exact tcp_access_history_independent. Qed.
Print Assumptions C12_access_history_independent_tcp.

(* ---- the gates come before any upstream action (unfoldings of serve_http / serve_tcp:
        mechanism lemmas; the property's statement composed from them is the section
        "the property, composed" below) ---- *)
Theorem C12_gate_before_upstream_http :
  forall parse_ip split_host (creds : Type) t (schemes : scheme_table creds) remote xff c,
  In EUpstream (serve_http parse_ip split_host creds t schemes remote xff c) ->
  exists tg, t = Some tg
    /\ access_denied_http parse_ip split_host (t_rules tg) remote xff = false
    /\ authorized (t_auth tg) schemes c = true
    /\ exists host, split_host remote = Some host.
Proof. exact gate_before_upstream_http. Qed.
Print Assumptions C12_gate_before_upstream_http.

(* a redirect answer (3xx + Location) is given only behind the same two gates *)
Theorem C12_gate_before_redirect_http :
  forall parse_ip split_host (creds : Type) t (schemes : scheme_table creds) remote xff c code,
  In (ERedirect code) (serve_http parse_ip split_host creds t schemes remote xff c) ->
  exists tg, t = Some tg /\ t_redirect tg = code /\ code <> 0
    /\ access_denied_http parse_ip split_host (t_rules tg) remote xff = false
    /\ authorized (t_auth tg) schemes c = true.
Proof. exact gate_before_redirect_http. Qed.
Print Assumptions C12_gate_before_redirect_http.

(* the gate's answer for a request (403 / 401 / passed) does not depend on whether the route
   forwards or redirects, nor on the code: ServeHTTP sees the copy Table.Lookup returns *)
Theorem C12_gate_independent_of_redirect :
  forall parse_ip split_host (creds : Type) tg (schemes : scheme_table creds) remote xff c code code',
  gate_answer (serve_http parse_ip split_host creds (Some (with_redirect tg code)) schemes remote xff c)
  = gate_answer (serve_http parse_ip split_host creds (Some (with_redirect tg code')) schemes remote xff c).
Proof. exact gate_independent_of_redirect. Qed.
Print Assumptions C12_gate_independent_of_redirect.

Theorem C12_nonvacuous_redirect_gate :
  serve_http ex_parse_ip ex_split_host unit (Some {| t_rules := ex_deny_6666; t_auth := []; t_redirect := 301 |})
             (fun _ => None) (bs "1.1.1.1:1") [bs "8.8.8.8, 1.1.1.1"] tt = [ERedirect 301] /\
  serve_http ex_parse_ip ex_split_host unit (Some {| t_rules := ex_deny_6666; t_auth := []; t_redirect := 301 |})
             (fun _ => None) (bs "1.1.1.1:1") [bs "8.8.8.8, 6.6.6.6"] tt = [ERespond 403] /\
  serve_http ex_parse_ip ex_split_host unit (Some {| t_rules := deny_all_rules; t_auth := []; t_redirect := 308 |})
             (fun _ => None) (bs "1.1.1.1:1") [] tt = [ERespond 403] /\
  serve_http ex_parse_ip ex_split_host unit (Some {| t_rules := ex_deny_6666; t_auth := bs "nosuch"; t_redirect := 302 |})
             (fun _ => None) (bs "1.1.1.1:1") [] tt = [ERespond 401].
Proof. exact redirect_gate_nonvacuous. Qed.
Print Assumptions C12_nonvacuous_redirect_gate.

Theorem C12_denied_gets_403 :
  forall parse_ip split_host (creds : Type) tg (schemes : scheme_table creds) remote xff c,
  access_denied_http parse_ip split_host (t_rules tg) remote xff = true ->
  serve_http parse_ip split_host creds (Some tg) schemes remote xff c = [ERespond 403].
Proof. exact denied_gets_403. Qed.
Print Assumptions C12_denied_gets_403.

Theorem C12_unauthorized_gets_401 :
  forall parse_ip split_host (creds : Type) tg (schemes : scheme_table creds) remote xff c,
  access_denied_http parse_ip split_host (t_rules tg) remote xff = false ->
  authorized (t_auth tg) schemes c = false ->
  serve_http parse_ip split_host creds (Some tg) schemes remote xff c = [ERespond 401].
Proof. exact unauthorized_gets_401. Qed.
Print Assumptions C12_unauthorized_gets_401.

Theorem C12_gate_before_upstream_tcp : forall t p,
  In EUpstream (serve_tcp t p) -> exists tg, t = Some tg /\ access_denied_tcp (t_rules tg) p = false.
Proof. exact gate_before_upstream_tcp. Qed.
Print Assumptions C12_gate_before_upstream_tcp.

(* ---- the peer and every element of every X-Forwarded-For value are checked ---- *)
Theorem C12_peer_checked : forall parse_ip split_host r remote xff host ip,
  access_denied_http parse_ip split_host r remote xff = false ->
  split_host remote = Some host -> parse_ip (strip_zone host) = Some ip -> deny_by_ip r (Some ip) = false.
Proof. exact peer_checked. Qed.
Print Assumptions C12_peer_checked.

(* a zone-scoped peer "a%z" is checked as the address a (since f5e2970) *)
Theorem C12_zone_peer_checked : forall parse_ip split_host r remote xff a z ip,
  access_denied_http parse_ip split_host r remote xff = false ->
  split_host remote = Some (a ++ 37 :: z) -> ~ In 37 a -> parse_ip a = Some ip ->
  deny_by_ip r (Some ip) = false.
Proof. exact zone_peer_checked. Qed.
Print Assumptions C12_zone_peer_checked.

(* every element of every X-Forwarded-For field value (all header lines, since 273c6ed) *)
Theorem C12_xff_all_checked : forall parse_ip split_host r remote host xff,
  access_denied_http parse_ip split_host r remote xff = false ->
  split_host remote = Some host -> parse_ip [] = None ->
  forall v x ip, In v xff -> In x (split_byte v 44) -> parse_ip (strip_zone (trim_space x)) = Some ip ->
                 deny_by_ip r (Some ip) = false.
Proof. exact xff_all_checked. Qed.
Print Assumptions C12_xff_all_checked.

(* ---- end to end: forwarded / dialled only if admitted ---- *)
Theorem C12_http_upstream_only_if_allowed :
  forall parse_ip split_host (creds : Type) tg l (schemes : scheme_table creds) remote xff c,
  In EUpstream (serve_http parse_ip split_host creds (Some tg) schemes remote xff c) ->
  r_allow (t_rules tg) = Some l -> parse_ip [] = None ->
  exists host, split_host remote = Some host /\
    (forall ip, parse_ip (strip_zone host) = Some ip -> exists b, In b l /\ contains b ip = true) /\
    (forall v x ip, In v xff -> In x (split_byte v 44) ->
       parse_ip (strip_zone (trim_space x)) = Some ip -> exists b, In b l /\ contains b ip = true).
Proof. exact http_upstream_only_if_allowed. Qed.
Print Assumptions C12_http_upstream_only_if_allowed.

Theorem C12_tcp_upstream_only_if_allowed : forall tg l ip,
  In EUpstream (serve_tcp (Some tg) (TCPAddr (Some ip))) -> r_allow (t_rules tg) = Some l ->
  exists b, In b l /\ contains b ip = true.
Proof. exact tcp_upstream_only_if_allowed. Qed.
Print Assumptions C12_tcp_upstream_only_if_allowed.

Theorem C12_tcp_upstream_only_if_not_denied : forall tg l ip b,
  In EUpstream (serve_tcp (Some tg) (TCPAddr (Some ip))) ->
  r_allow (t_rules tg) = None -> r_deny (t_rules tg) = Some l -> In b l -> contains b ip = false.
Proof. exact tcp_upstream_only_if_not_denied. Qed.
Print Assumptions C12_tcp_upstream_only_if_not_denied.

(* ---- "a rule that cannot be parsed never widens access": holds for EVERY rule text since
        1cbe751 (every error return of ProcessAccessRules is preceded by denyAll). ---- *)
(* whoever the rules in force admit is admitted by the rules built from the parsable items
   only; and a text with an unusable item (or with both options) admits no address at all *)
Theorem C12_fail_closed : forall parse_ip parse_cidr allow_opt deny_opt ip,
  (deny_by_ip (target_rules parse_ip parse_cidr allow_opt deny_opt) (Some ip) = false ->
   intended_admits parse_ip parse_cidr allow_opt deny_opt ip = true) /\
  (rule_well_formed parse_ip parse_cidr allow_opt deny_opt = false ->
   deny_by_ip (target_rules parse_ip parse_cidr allow_opt deny_opt) (Some ip) = true).
Proof. exact fail_closed_every_text. Qed.
Print Assumptions C12_fail_closed.

(* ProcessAccessRules completely: intended blocks on a well-formed text, denyAll's map otherwise *)
Theorem C12_process_access_rules_spec : forall parse_ip parse_cidr allow_opt deny_opt,
  process_access_rules parse_ip parse_cidr allow_opt deny_opt =
    if rule_well_formed parse_ip parse_cidr allow_opt deny_opt then
      ({| r_allow := if is_nil allow_opt then None else Some (intended_blocks parse_ip parse_cidr allow_opt);
          r_deny := if is_nil deny_opt then None else Some (intended_blocks parse_ip parse_cidr deny_opt) |}, true)
    else (deny_all_rules, false).
Proof. exact process_access_rules_spec. Qed.
Print Assumptions C12_process_access_rules_spec.

Theorem C12_fail_closed_nonvacuous :
  rule_well_formed ex_parse_ip ex_parse_cidr (bs "ip:10.0.0.0/8,ip:10.0.0.0/33") [] = false /\
  target_rules ex_parse_ip ex_parse_cidr (bs "ip:10.0.0.0/8,ip:10.0.0.0/33") [] = deny_all_rules /\
  intended_admits ex_parse_ip ex_parse_cidr (bs "ip:10.0.0.0/8,ip:10.0.0.0/33") [] (IP4 168364297) = true /\
  deny_by_ip (target_rules ex_parse_ip ex_parse_cidr (bs "ip:10.0.0.0/8,ip:10.0.0.0/33") []) (Some (IP4 168364297)) = true /\
  r_allow (target_rules_unrepaired ex_parse_ip ex_parse_cidr (bs "ip:10.0.0.0/8,ip:10.0.0.0/33") []) = Some [ex_net_10] /\
  deny_by_ip (target_rules ex_parse_ip ex_parse_cidr (bs "ip:10.0.0.0/8, IP:6.6.6.6") []) (Some (IP4 168364297)) = false.
Proof. exact fail_closed_nonvacuous. Qed.
Print Assumptions C12_fail_closed_nonvacuous.

(* corollaries: on a well-formed text the decision IS the intended one; an allow option alone *)
Theorem C12_fail_closed_on_domain : forall parse_ip parse_cidr allow_opt deny_opt ip,
  rule_well_formed parse_ip parse_cidr allow_opt deny_opt = true ->
  deny_by_ip (target_rules parse_ip parse_cidr allow_opt deny_opt) (Some ip)
  = negb (intended_admits parse_ip parse_cidr allow_opt deny_opt ip).
Proof. exact fail_closed_on_domain. Qed.
Print Assumptions C12_fail_closed_on_domain.

Theorem C12_allow_only_fail_closed_on_domain : forall parse_ip parse_cidr allow_opt ip,
  deny_by_ip (target_rules parse_ip parse_cidr allow_opt []) (Some ip) = false ->
  intended_admits parse_ip parse_cidr allow_opt [] ip = true.
Proof. exact allow_only_fail_closed. Qed.
Print Assumptions C12_allow_only_fail_closed_on_domain.

(* It was FALSE before 1cbe751 (F-C12-1, fixed): the three refutations are about the code
   before that commit ([target_rules_unrepaired]: an error return left the map empty or
   partially filled), followed by the same witnesses being denied by the code as it is. *)
Theorem C12_bad_rule_widens_refuted :
  exists parse_ip parse_cidr allow_opt deny_opt ip,
    deny_by_ip (target_rules_unrepaired parse_ip parse_cidr allow_opt deny_opt) (Some ip) = false /\
    intended_admits parse_ip parse_cidr allow_opt deny_opt ip = false.
Proof. exact bad_rule_widens_refuted. Qed.
Print Assumptions C12_bad_rule_widens_refuted.

Theorem C12_bad_first_deny_item_refuted :
  exists parse_ip parse_cidr deny_opt ip,
    deny_by_ip (target_rules_unrepaired parse_ip parse_cidr [] deny_opt) (Some ip) = false /\
    intended_admits parse_ip parse_cidr [] deny_opt ip = false.
Proof. exact bad_first_deny_item_refuted. Qed.
Print Assumptions C12_bad_first_deny_item_refuted.

Theorem C12_allow_and_deny_refuted :
  exists parse_ip parse_cidr allow_opt deny_opt ip,
    allow_opt <> [] /\ deny_opt <> [] /\
    items_ok parse_ip parse_cidr allow_opt = true /\ items_ok parse_ip parse_cidr deny_opt = true /\
    deny_by_ip (target_rules_unrepaired parse_ip parse_cidr allow_opt deny_opt) (Some ip) = false /\
    intended_admits parse_ip parse_cidr allow_opt deny_opt ip = false.
Proof. exact allow_and_deny_refuted. Qed.
Print Assumptions C12_allow_and_deny_refuted.

Theorem C12_unusable_rules_now_denied :
  target_rules ex_parse_ip ex_parse_cidr (bs "ip:10.0.0.0/33") [] = deny_all_rules /\
  deny_by_ip (target_rules ex_parse_ip ex_parse_cidr (bs "ip:10.0.0.0/33") []) (Some ip_8888) = true /\
  deny_by_ip (target_rules ex_parse_ip ex_parse_cidr [] (bs "ip:bad,ip:6.6.6.6")) (Some ip_6666) = true /\
  deny_by_ip (target_rules ex_parse_ip ex_parse_cidr (bs "ip:10.0.0.0/8") (bs "ip:6.6.6.6")) (Some ip_6666) = true.
Proof. exact unusable_rules_now_denied. Qed.
Print Assumptions C12_unusable_rules_now_denied.

(* ---- request level: "every address the request carries is admitted".
        It was FALSE for zone-scoped addresses (F-C12-2, repaired by f5e2970) and for several
        X-Forwarded-For field values (F-C12-3, repaired by 273c6ed); the refutations below are
        about the code before those commits (the [_unrepaired] variants of the model), each
        followed by the same witness being denied by the code as it is. ---- *)
Theorem C12_zone_peer_admitted_refuted :
  exists parse_ip split_host addr_of r remote host,
    (forall s a, parse_ip s = Some a -> addr_of s = Some a) /\
    split_host remote = Some host /\
    access_denied_http_zone_unrepaired parse_ip split_host r remote [] = false /\
    ~ http_admitted_spec addr_of r host [].
Proof. exact zone_peer_admitted_refuted. Qed.
Print Assumptions C12_zone_peer_admitted_refuted.

Theorem C12_zone_peer_now_denied :
  access_denied_http ex_parse_ip_z ex_split_host ex_allow_10 (bs "[fe80::1%eth0]:1234") [] = true /\
  access_denied_http_zone_unrepaired ex_parse_ip_z ex_split_host ex_allow_10 (bs "[fe80::1%eth0]:1234") [] = false.
Proof. exact zone_peer_now_denied. Qed.
Print Assumptions C12_zone_peer_now_denied.

Theorem C12_multi_value_xff_refuted :
  exists parse_ip split_host r remote host xff,
    split_host remote = Some host /\
    (forall s, In s (request_strings host xff) -> parse_ip s <> None) /\
    access_denied_http_first_value_unrepaired parse_ip split_host r remote xff = false /\
    ~ http_admitted_spec parse_ip r host xff.
Proof. exact multi_value_xff_refuted. Qed.
Print Assumptions C12_multi_value_xff_refuted.

Theorem C12_multi_value_xff_now_denied :
  access_denied_http ex_parse_ip ex_split_host ex_deny_6666 (bs "1.1.1.1:1") [bs "1.1.1.1"; bs "6.6.6.6"] = true.
Proof. exact multi_value_xff_now_denied. Qed.
Print Assumptions C12_multi_value_xff_now_denied.

(* the code as it is: a non-denial means every address of the request is admitted, for any
   number of header lines and with zones; the only hypothesis left (one direction): whatever a
   string of the request means as an address, net.ParseIP reads the same address (up to
   v4-mapping) once the zone is cut *)
Theorem C12_http_gate_spec_on_domain : forall parse_ip split_host addr_of r remote host xff,
  (forall s a, In s (request_strings host xff) -> addr_of s = Some a ->
               exists ip, parse_ip (strip_zone s) = Some ip /\ canon ip = canon a) ->
  parse_ip [] = None ->
  split_host remote = Some host ->
  access_denied_http parse_ip split_host r remote xff = false ->
  http_admitted_spec addr_of r host xff.
Proof. exact http_gate_spec_on_domain. Qed.
Print Assumptions C12_http_gate_spec_on_domain.

(* what remains fail-open, and why it is not a finding: a peer host that is not an address even
   without its zone (net/http never supplies one) is admitted as the nil IP *)
Theorem C12_unparsable_peer_admitted : forall parse_ip split_host r remote host,
  split_host remote = Some host -> parse_ip (strip_zone host) = None ->
  access_denied_http parse_ip split_host r remote [] = false.
Proof. exact unparsable_peer_admitted. Qed.
Print Assumptions C12_unparsable_peer_admitted.

(* the boolean reference of the correspondence check decides the intended reading of the
   rule text whenever it was handed the blocks that reading denotes *)
Theorem C12_reference_is_intended : forall parse_ip parse_cidr allow_opt deny_opt rr ip,
  wf_ip ip ->
  (forall n, In n (intended_blocks parse_ip parse_cidr allow_opt) -> wf_net n) ->
  (forall n, In n (intended_blocks parse_ip parse_cidr deny_opt) -> wf_net n) ->
  ref_allow rr = (if is_nil allow_opt then None else Some (sblocks (intended_blocks parse_ip parse_cidr allow_opt))) ->
  ref_deny rr = (if is_nil deny_opt then None else Some (sblocks (intended_blocks parse_ip parse_cidr deny_opt))) ->
  ref_admits rr (canon ip) = intended_admits parse_ip parse_cidr allow_opt deny_opt ip.
Proof. exact ref_admits_is_intended. Qed.
Print Assumptions C12_reference_is_intended.

(* ================= the property, composed =================
   For every rule text (well-formed or not), RemoteAddr, X-Forwarded-For header set, scheme name,
   scheme table, credentials, on a forwarding or a redirect route whose rule map is what
   ProcessAccessRules leaves; "admitted" is the independent [intended_admits] reading of the
   rule text (parsable items only; membership proved equal to the bit-level CIDR spec). *)
Theorem C12_http_forwarded_only_if :
  forall parse_ip parse_cidr split_host (creds : Type) allow_opt deny_opt auth redirect
         (schemes : scheme_table creds) remote host xff c,
  split_host remote = Some host -> parse_ip [] = None ->
  (In EUpstream (serve_http parse_ip split_host creds (Some (route_target parse_ip parse_cidr allow_opt deny_opt auth redirect)) schemes remote xff c)
   \/ exists code, In (ERedirect code) (serve_http parse_ip split_host creds (Some (route_target parse_ip parse_cidr allow_opt deny_opt auth redirect)) schemes remote xff c)) ->
  request_admitted parse_ip parse_cidr allow_opt deny_opt host xff /\ authorized auth schemes c = true.
Proof. exact http_forwarded_only_if. Qed.
Print Assumptions C12_http_forwarded_only_if.

Theorem C12_http_rejected_gets_403 :
  forall parse_ip parse_cidr split_host (creds : Type) allow_opt deny_opt auth redirect
         (schemes : scheme_table creds) remote host xff c s ip,
  split_host remote = Some host -> parse_ip [] = None ->
  In s (request_strings host xff) -> parse_ip (strip_zone s) = Some ip ->
  intended_admits parse_ip parse_cidr allow_opt deny_opt ip = false ->
  serve_http parse_ip split_host creds (Some (route_target parse_ip parse_cidr allow_opt deny_opt auth redirect)) schemes remote xff c
  = [ERespond 403].
Proof. exact http_rejected_gets_403. Qed.
Print Assumptions C12_http_rejected_gets_403.

Theorem C12_http_unauthorised_gets_401 :
  forall parse_ip parse_cidr split_host (creds : Type) allow_opt deny_opt auth redirect
         (schemes : scheme_table creds) remote xff c,
  access_denied_http parse_ip split_host (target_rules parse_ip parse_cidr allow_opt deny_opt) remote xff = false ->
  authorized auth schemes c = false ->
  serve_http parse_ip split_host creds (Some (route_target parse_ip parse_cidr allow_opt deny_opt auth redirect)) schemes remote xff c
  = [ERespond 401].
Proof. exact http_unauthorised_gets_401. Qed.
Print Assumptions C12_http_unauthorised_gets_401.

(* on a well-formed rule text the premise of the 401 theorem is "every address is admitted by
   the intended reading" *)
Theorem C12_http_admitted_not_denied :
  forall parse_ip parse_cidr split_host allow_opt deny_opt remote host xff,
  rule_well_formed parse_ip parse_cidr allow_opt deny_opt = true ->
  split_host remote = Some host -> parse_ip [] = None ->
  request_admitted parse_ip parse_cidr allow_opt deny_opt host xff ->
  access_denied_http parse_ip split_host (target_rules parse_ip parse_cidr allow_opt deny_opt) remote xff = false.
Proof. exact http_admitted_not_denied. Qed.
Print Assumptions C12_http_admitted_not_denied.

(* completeness of the walk: any address of the request that the rule map rejects denies *)
Theorem C12_rejected_address_denies : forall parse_ip split_host r remote host xff s ip,
  split_host remote = Some host -> parse_ip [] = None ->
  In s (request_strings host xff) -> parse_ip (strip_zone s) = Some ip ->
  deny_by_ip r (Some ip) = true ->
  access_denied_http parse_ip split_host r remote xff = true.
Proof. exact rejected_address_denies. Qed.
Print Assumptions C12_rejected_address_denies.

Theorem C12_denied_tcp_closes : forall t p,
  access_denied_tcp (t_rules t) p = true -> serve_tcp (Some t) p = [EClose].
Proof. exact denied_tcp_closes. Qed.
Print Assumptions C12_denied_tcp_closes.

Theorem C12_tcp_dialled_only_if : forall parse_ip parse_cidr allow_opt deny_opt ip,
  In EUpstream (serve_tcp (Some (route_target parse_ip parse_cidr allow_opt deny_opt [] 0)) (TCPAddr (Some ip))) ->
  intended_admits parse_ip parse_cidr allow_opt deny_opt ip = true.
Proof. exact tcp_dialled_only_if. Qed.
Print Assumptions C12_tcp_dialled_only_if.

Theorem C12_tcp_rejected_closes : forall parse_ip parse_cidr allow_opt deny_opt ip,
  intended_admits parse_ip parse_cidr allow_opt deny_opt ip = false ->
  serve_tcp (Some (route_target parse_ip parse_cidr allow_opt deny_opt [] 0)) (TCPAddr (Some ip)) = [EClose].
Proof. exact tcp_rejected_closes. Qed.
Print Assumptions C12_tcp_rejected_closes.

(* a reachable rule map never holds both keys (closes the [r_allow r = None] hypothesis of the
   deny-list theorems) *)
Theorem C12_reachable_rules_one_key : forall parse_ip parse_cidr allow_opt deny_opt,
  r_allow (target_rules parse_ip parse_cidr allow_opt deny_opt) = None \/
  r_deny (target_rules parse_ip parse_cidr allow_opt deny_opt) = None.
Proof. exact reachable_rules_one_key. Qed.
Print Assumptions C12_reachable_rules_one_key.

Theorem C12_property_nonvacuous :
  serve_http ex_parse_ip ex_split_host unit (Some (route_target ex_parse_ip ex_parse_cidr [] (bs "ip:6.6.6.6") [] 0))
             (fun _ => None) (bs "1.1.1.1:1") [bs "8.8.8.8"; bs "1.1.1.1"] tt = [EUpstream] /\
  serve_http ex_parse_ip ex_split_host unit (Some (route_target ex_parse_ip ex_parse_cidr [] (bs "ip:6.6.6.6") [] 0))
             (fun _ => None) (bs "1.1.1.1:1") [bs "8.8.8.8"; bs "6.6.6.6"] tt = [ERespond 403] /\
  intended_admits ex_parse_ip ex_parse_cidr [] (bs "ip:6.6.6.6") (IP16 (mapped 101058054)) = false /\
  serve_http ex_parse_ip ex_split_host unit (Some (route_target ex_parse_ip ex_parse_cidr [] (bs "ip:6.6.6.6") (bs "nosuch") 0))
             (fun _ => None) (bs "1.1.1.1:1") [] tt = [ERespond 401] /\
  serve_http ex_parse_ip ex_split_host unit (Some (route_target ex_parse_ip ex_parse_cidr (bs "ip:10.0.0.0/33") [] [] 0))
             (fun _ => None) (bs "1.1.1.1:1") [] tt = [ERespond 403] /\
  serve_tcp (Some (route_target ex_parse_ip ex_parse_cidr (bs "ip:10.0.0.0/8") [] [] 0)) (TCPAddr (Some ip_8888)) = [EClose] /\
  serve_tcp (Some (route_target ex_parse_ip ex_parse_cidr (bs "ip:10.0.0.0/8") [] [] 0)) (TCPAddr (Some (IP4 168430090))) = [EUpstream].
Proof. exact property_nonvacuous. Qed.
Print Assumptions C12_property_nonvacuous.

(* ================= gRPC: F-C12-4 (OPEN) =================
   proxy/grpc_handler.go applies no gate: the allow / deny / auth options of a proto=grpc(s)
   route have no effect.  Region = gRPC route with any access or auth option. *)
Theorem C12_grpc_not_gated_refuted :
  exists (t : target) (ip : ipaddr),
    deny_by_ip (t_rules t) (Some ip) = true /\ In EUpstream (serve_grpc (Some t)).
Proof. exact grpc_not_gated_refuted. Qed.
Print Assumptions C12_grpc_not_gated_refuted.

Theorem C12_grpc_unauthorised_refuted :
  exists (t : target) (schemes : scheme_table unit),
    authorized (t_auth t) schemes tt = false /\ In EUpstream (serve_grpc (Some t)).
Proof. exact grpc_unauthorised_refuted. Qed.
Print Assumptions C12_grpc_unauthorised_refuted.

(* outside the region (no access and no auth option) a forwarded call is admitted and authorised *)
Theorem C12_grpc_gate_on_domain : forall (creds : Type) t (schemes : scheme_table creds) c ip,
  rules_empty (t_rules t) = true -> t_auth t = [] ->
  In EUpstream (serve_grpc (Some t)) ->
  deny_by_ip (t_rules t) ip = false /\ authorized (t_auth t) schemes c = true.
Proof. exact grpc_gate_on_domain. Qed.
Print Assumptions C12_grpc_gate_on_domain.

(* ---- non-vacuity ---- *)
Theorem C12_nonvacuous_contains :
  wf_net ex_net_10 /\ wf_ip (IP16 (mapped 168364297)) /\
  contains ex_net_10 (IP16 (mapped 168364297)) = true /\ contains ex_net_10 ip_8888 = false.
Proof. exact contains_nonvacuous. Qed.
Print Assumptions C12_nonvacuous_contains.

Theorem C12_nonvacuous_well_formed :
  rule_well_formed ex_parse_ip ex_parse_cidr (bs "ip:10.0.0.0/8, IP:6.6.6.6") [] = true /\
  r_allow (target_rules ex_parse_ip ex_parse_cidr (bs "ip:10.0.0.0/8, IP:6.6.6.6") []) =
    Some [ex_net_10; {| n_ip := IP4 101058054; n_ones := 32; n_m16 := false |}].
Proof. exact well_formed_nonvacuous. Qed.
Print Assumptions C12_nonvacuous_well_formed.

Theorem C12_nonvacuous_gate :
  serve_http ex_parse_ip ex_split_host unit (Some {| t_rules := ex_deny_6666; t_auth := []; t_redirect := 0 |})
             (fun _ => None) (bs "1.1.1.1:1") [bs "8.8.8.8, 1.1.1.1"] tt = [EUpstream] /\
  serve_http ex_parse_ip ex_split_host unit (Some {| t_rules := ex_deny_6666; t_auth := []; t_redirect := 0 |})
             (fun _ => None) (bs "1.1.1.1:1") [bs "8.8.8.8, 6.6.6.6"] tt = [ERespond 403] /\
  serve_http ex_parse_ip ex_split_host unit (Some {| t_rules := ex_deny_6666; t_auth := bs "nosuch"; t_redirect := 0 |})
             (fun _ => None) (bs "1.1.1.1:1") [] tt = [ERespond 401] /\
  serve_tcp (Some {| t_rules := ex_allow_10; t_auth := []; t_redirect := 0 |}) (TCPAddr (Some ip_8888)) = [EClose] /\
  serve_tcp (Some {| t_rules := ex_allow_10; t_auth := []; t_redirect := 0 |}) (TCPAddr (Some (IP4 168430090))) = [EUpstream].
Proof. exact gate_nonvacuous. Qed.
Print Assumptions C12_nonvacuous_gate.

(* ================= X-Forwarded-For lists of any length =================
   C12_xff_all_checked / C12_rejected_address_denies speak about membership; the same said with
   the position explicit: whatever stands before the element (any number of elements, no bound
   on the length of the list) and after it, in whichever header line. *)
Theorem C12_xff_rejected_at_any_position :
  forall parse_ip split_host r remote host before x after ip,
  split_host remote = Some host -> parse_ip [] = None ->
  ~ In 44 x ->
  parse_ip (strip_zone (trim_space x)) = Some ip -> deny_by_ip r (Some ip) = true ->
  access_denied_http parse_ip split_host r remote [join (before ++ x :: after) [44]] = true.
Proof. exact xff_rejected_at_any_position. Qed.
Print Assumptions C12_xff_rejected_at_any_position.

Theorem C12_xff_rejected_in_any_line :
  forall parse_ip split_host r remote host lines_before before x after lines_after ip,
  split_host remote = Some host -> parse_ip [] = None ->
  ~ In 44 x ->
  parse_ip (strip_zone (trim_space x)) = Some ip -> deny_by_ip r (Some ip) = true ->
  access_denied_http parse_ip split_host r remote
    (lines_before ++ join (before ++ x :: after) [44] :: lines_after) = true.
Proof. exact xff_rejected_in_any_line. Qed.
Print Assumptions C12_xff_rejected_in_any_line.

Theorem C12_xff_long_nonvacuous :
  access_denied_http ex_parse_ip ex_split_host ex_deny_6666 (bs "1.1.1.1:1")
    [join (repeat (bs "8.8.8.8") 40 ++ bs " 6.6.6.6" :: repeat (bs "8.8.8.8") 3) [44]] = true /\
  access_denied_http ex_parse_ip ex_split_host ex_deny_6666 (bs "1.1.1.1:1")
    [join (repeat (bs "8.8.8.8") 44) [44]] = false.
Proof. exact xff_long_nonvacuous. Qed.
Print Assumptions C12_xff_long_nonvacuous.

(* ================= the basic scheme with a refreshed htpasswd file =================
   auth/basic.go + go-htpasswd as a machine of atomic actions (Model/BasicReload.v): the operator
   replaces / removes the file, the refresh goroutine takes its next step (Stat, Open, one line of
   the scanner loop, the final Store), requests are judged by Match.  For EVERY initial file and
   EVERY schedule: a request is accepted iff the file the scheme has most recently read
   COMPLETELY has a line for the user with that password (and no later line for that user). *)
Theorem C12_reload_verdicts_follow_loaded_file : forall init mt sched pre c b post,
  fst (rrun (rboot init mt) sched) = pre ++ EvVerdict c b :: post ->
  (b = true <-> file_accepts (last_loaded init pre) c).
Proof. exact reload_verdicts_follow_loaded_file. Qed.
Print Assumptions C12_reload_verdicts_follow_loaded_file.

Theorem C12_reload_in_force_is_loaded_file : forall init mt sched,
  in_force (snd (rrun (rboot init mt) sched))
  = table_of (last_loaded init (fst (rrun (rboot init mt) sched))).
Proof. exact reload_in_force_is_loaded_file. Qed.
Print Assumptions C12_reload_in_force_is_loaded_file.

(* Match on the table a complete read builds = the declarative reading of the file *)
Theorem C12_reload_match_is_file_reading : forall f c,
  (c_ok c = true /\ pt_match (table_of f) (c_user c) (c_pw c) = true) <-> file_accepts f c.
Proof. exact match_table_of_iff. Qed.
Print Assumptions C12_reload_match_is_file_reading.

(* nothing is ever loaded that the operator did not give the file (the empty table: a removal) *)
Theorem C12_reload_loads_only_given_files : forall init mt sched f,
  In (EvLoaded f) (fst (rrun (rboot init mt) sched)) ->
  f = [] \/ f = init \/ exists mt', In (AWrite f mt') sched.
Proof. exact reload_loads_only_given_files. Qed.
Print Assumptions C12_reload_loads_only_given_files.

(* and a changed file does come into force: Stat, Open, one step per line, Store - however
   requests are interleaved with these steps (so the theorems above are not about a scheme that
   never reloads) *)
Theorem C12_reload_changed_file_comes_into_force : forall st c mt sched,
  pc st = RIdle -> fs st = Some (c, mt) -> mt <> cfg_mtime st ->
  forallb (fun a => negb (is_env a)) sched = true ->
  List.length (filter is_refresher sched) = (3 + List.length c)%nat ->
  in_force (snd (rrun st sched)) = table_of c /\ cfg_mtime (snd (rrun st sched)) = mt.
Proof. exact reload_changed_file_comes_into_force. Qed.
Print Assumptions C12_reload_changed_file_comes_into_force.

(* composed with the gate: after any schedule, a request is forwarded (or redirected) through a
   route with auth=<the scheme> only if the most recently loaded file accepts its credentials;
   otherwise 401 (403 when the access rules deny first) *)
Theorem C12_reload_forwarded_only_if_file_accepts :
  forall parse_ip split_host init mt sched tg remote xff c,
  t_auth tg <> [] ->
  (In EUpstream (serve_http parse_ip split_host bcreds (Some tg)
                   (basic_scheme_table (t_auth tg) (snd (rrun (rboot init mt) sched))) remote xff c)
   \/ exists code, In (ERedirect code) (serve_http parse_ip split_host bcreds (Some tg)
                   (basic_scheme_table (t_auth tg) (snd (rrun (rboot init mt) sched))) remote xff c)) ->
  file_accepts (last_loaded init (fst (rrun (rboot init mt) sched))) c.
Proof. exact reload_forwarded_only_if_file_accepts. Qed.
Print Assumptions C12_reload_forwarded_only_if_file_accepts.

Theorem C12_reload_rejected_gets_401 :
  forall parse_ip split_host init mt sched tg remote xff c,
  t_auth tg <> [] ->
  access_denied_http parse_ip split_host (t_rules tg) remote xff = false ->
  ~ file_accepts (last_loaded init (fst (rrun (rboot init mt) sched))) c ->
  serve_http parse_ip split_host bcreds (Some tg)
             (basic_scheme_table (t_auth tg) (snd (rrun (rboot init mt) sched))) remote xff c = [ERespond 401].
Proof. exact reload_rejected_gets_401. Qed.
Print Assumptions C12_reload_rejected_gets_401.

(* the boolean reference of the correspondence check decides [file_accepts] on files that name
   no user twice (the harness generates only such files; checked per case) *)
Theorem C12_reload_reference_is_spec : forall f c,
  str_nodup (users_of f) = true -> (file_accepts_b f c = true <-> file_accepts f c).
Proof. exact file_accepts_b_spec. Qed.
Print Assumptions C12_reload_reference_is_spec.

(* non-vacuity: alice is removed from the file; while the new file is being read (bad-line
   callback) the old one is in force and she is accepted, bob is not; after the Store she is
   rejected and bob accepted *)
Theorem C12_reload_nonvacuous :
  fst (rrun (rboot ex_file1 1) ex_sched) =
    [EvVerdict ex_alice true; EvBadLine; EvVerdict ex_alice true; EvVerdict ex_bob false;
     EvLoaded ex_file2; EvVerdict ex_alice false; EvVerdict ex_bob true] /\
  file_accepts ex_file1 ex_alice /\ ~ file_accepts ex_file2 ex_alice /\ file_accepts ex_file2 ex_bob.
Proof. exact reload_nonvacuous. Qed.
Print Assumptions C12_reload_nonvacuous.

(* ================= a SET of basic schemes in one process =================
   auth.LoadAuthSchemes + Target.Authorized + auth/basic.go for any number of configured schemes
   (Model/BasicSchemes.v): every scheme is the machine above with a realm and a file of its own; a
   schedule mixes, over all schemes, the operator's actions on each file, the steps of each refresh
   goroutine and requests on routes with auth=<any name>.  For EVERY configuration - whatever the
   realms, equal or not - and EVERY schedule: *)

(* ISOLATION: the events of scheme n are exactly those of the single machine run on n's own
   actions (its own file operations, its own goroutine, the requests on ITS routes), and so is its
   state; nothing another scheme has or did, and no request on another scheme's route, enters *)
Theorem C12_schemes_isolated : forall cfg sched n k,
  n <> [] -> sget cfg n = Some k ->
  events_of n (fst (srun (sboot cfg) sched))
  = fst (rrun (rboot (bc_file k) (bc_mtime k)) (actions_of n sched)) /\
  sget (snd (srun (sboot cfg) sched)) n
  = Some {| sc_realm := bc_realm k;
            sc_st := snd (rrun (rboot (bc_file k) (bc_mtime k)) (actions_of n sched)) |}.
Proof. exact schemes_isolated. Qed.
Print Assumptions C12_schemes_isolated.

(* a request on a route with auth=n is accepted iff the file scheme n has most recently read
   completely has a line for the user with that password (and no later line for that user) *)
Theorem C12_schemes_verdicts_follow_own_file : forall cfg sched pre n c b post k,
  n <> [] -> sget cfg n = Some k ->
  fst (srun (sboot cfg) sched) = pre ++ SEv n (EvVerdict c b) :: post ->
  (b = true <-> file_accepts (last_loaded (bc_file k) (events_of n pre)) c).
Proof. exact schemes_verdicts_follow_own_file. Qed.
Print Assumptions C12_schemes_verdicts_follow_own_file.

(* a route that names a scheme which is not configured rejects every request *)
Theorem C12_schemes_unknown_scheme_rejects : forall cfg sched n c b,
  n <> [] -> sget cfg n = None ->
  In (SEv n (EvVerdict c b)) (fst (srun (sboot cfg) sched)) -> b = false.
Proof. exact schemes_unknown_scheme_rejects. Qed.
Print Assumptions C12_schemes_unknown_scheme_rejects.

Theorem C12_schemes_authorized_iff : forall cfg sched n c,
  n <> [] ->
  (authorized n (set_table (snd (srun (sboot cfg) sched))) c = true <->
   exists k, sget cfg n = Some k /\
             file_accepts (last_loaded (bc_file k) (events_of n (fst (srun (sboot cfg) sched)))) c).
Proof. exact schemes_authorized_iff. Qed.
Print Assumptions C12_schemes_authorized_iff.

(* composed with the gate: forwarded (or redirected) through a route with auth=n only if n is
   configured and n's own most recently loaded file accepts the credentials ... *)
Theorem C12_schemes_forwarded_only_if_own_file_accepts :
  forall parse_ip split_host cfg sched tg remote xff c,
  t_auth tg <> [] ->
  (In EUpstream (serve_http parse_ip split_host bcreds (Some tg)
                   (set_table (snd (srun (sboot cfg) sched))) remote xff c)
   \/ exists code, In (ERedirect code) (serve_http parse_ip split_host bcreds (Some tg)
                   (set_table (snd (srun (sboot cfg) sched))) remote xff c)) ->
  exists k, sget cfg (t_auth tg) = Some k /\
            file_accepts (last_loaded (bc_file k) (events_of (t_auth tg) (fst (srun (sboot cfg) sched)))) c.
Proof. exact schemes_forwarded_only_if_own_file_accepts. Qed.
Print Assumptions C12_schemes_forwarded_only_if_own_file_accepts.

(* ... otherwise 401: also for credentials another scheme of the set accepts and has accepted
   earlier in the schedule, whatever realm the two announce *)
Theorem C12_schemes_rejected_gets_401 :
  forall parse_ip split_host cfg sched tg remote xff c,
  t_auth tg <> [] ->
  access_denied_http parse_ip split_host (t_rules tg) remote xff = false ->
  (forall k, sget cfg (t_auth tg) = Some k ->
             ~ file_accepts (last_loaded (bc_file k) (events_of (t_auth tg) (fst (srun (sboot cfg) sched)))) c) ->
  serve_http parse_ip split_host bcreds (Some tg)
             (set_table (snd (srun (sboot cfg) sched))) remote xff c = [ERespond 401].
Proof. exact schemes_rejected_gets_401. Qed.
Print Assumptions C12_schemes_rejected_gets_401.

(* the realm only ever shows in the challenge, and there it is the realm of the route's own scheme *)
Theorem C12_schemes_challenge_is_own_realm : forall cfg sched auth c r,
  route_challenge auth (snd (srun (sboot cfg) sched)) c = Some r ->
  exists k, sget cfg auth = Some k /\ r = bc_realm k /\ c_ok c = false.
Proof. exact schemes_challenge_is_own_realm. Qed.
Print Assumptions C12_schemes_challenge_is_own_realm.

(* non-vacuity: schemes staff and vault, different files, the SAME realm; alice is a staff user
   only: rejected on the vault route before AND after her login on the staff route *)
Theorem C12_schemes_nonvacuous :
  fst (srun (sboot ex_two_schemes) ex_cross_sched) =
    [SEv (bs "vault") (EvVerdict ex_alice false); SEv (bs "staff") (EvVerdict ex_alice true);
     SEv (bs "vault") (EvVerdict ex_root true); SEv (bs "vault") (EvVerdict ex_alice false);
     SEv (bs "staff") (EvVerdict ex_alice_vault_pw false); SEv (bs "nosuch") (EvVerdict ex_alice false)] /\
  file_accepts ex_file1 ex_alice /\ ~ file_accepts ex_vault_file ex_alice /\
  route_challenge (bs "vault") (snd (srun (sboot ex_two_schemes) ex_cross_sched)) ex_nocreds = Some (bs "Restricted") /\
  serve_http (fun _ => None) (fun _ => Some (bs "192.0.2.7")) bcreds
             (Some {| t_rules := no_rules; t_auth := bs "vault"; t_redirect := 0 |})
             (set_table (snd (srun (sboot ex_two_schemes) ex_cross_sched))) (bs "192.0.2.7:4711") [] ex_alice
  = [ERespond 401] /\
  serve_http (fun _ => None) (fun _ => Some (bs "192.0.2.7")) bcreds
             (Some {| t_rules := no_rules; t_auth := bs "staff"; t_redirect := 0 |})
             (set_table (snd (srun (sboot ex_two_schemes) ex_cross_sched))) (bs "192.0.2.7:4711") [] ex_alice
  = [EUpstream].
Proof. exact schemes_nonvacuous. Qed.
Print Assumptions C12_schemes_nonvacuous.

(* ================= the gates on WHOLE requests: any method, any header map =================
   Model/GateRequest.v: a request is a method, a RemoteAddr and a header map (any keys, any number
   of field values); ServeHTTP's gates read RemoteAddr, the X-Forwarded-For values and - through
   request.BasicAuth() - the first Authorization value, nothing else.  net/http's parseBasicAuth is
   universally quantified like net.ParseIP and net.SplitHostPort. *)

(* the property's first sentence for whole requests: whatever the method and whatever the headers,
   an upstream action or a redirect answer only for a request whose peer / X-Forwarded-For list is
   not denied and whose Authorization field the route's scheme accepts *)
Theorem C12_request_passes_only_if :
  forall parse_ip split_host parse_basic_auth t (schemes : scheme_table bcreds) q,
  passes_gate (serve_http_request parse_ip split_host parse_basic_auth t schemes q) ->
  exists tg, t = Some tg
    /\ access_denied_http parse_ip split_host (t_rules tg) (q_remote q) (request_xff q) = false
    /\ authorized (t_auth tg) schemes (request_creds parse_basic_auth q) = true.
Proof. exact gate_request_passes_only_if. Qed.
Print Assumptions C12_request_passes_only_if.

Theorem C12_request_denied_gets_403 :
  forall parse_ip split_host parse_basic_auth tg (schemes : scheme_table bcreds) q,
  access_denied_http parse_ip split_host (t_rules tg) (q_remote q) (request_xff q) = true ->
  rejected_with 403 (serve_http_request parse_ip split_host parse_basic_auth (Some tg) schemes q).
Proof. exact gate_request_denied_403. Qed.
Print Assumptions C12_request_denied_gets_403.

Theorem C12_request_unauthorized_gets_401 :
  forall parse_ip split_host parse_basic_auth tg (schemes : scheme_table bcreds) q,
  access_denied_http parse_ip split_host (t_rules tg) (q_remote q) (request_xff q) = false ->
  authorized (t_auth tg) schemes (request_creds parse_basic_auth q) = false ->
  rejected_with 401 (serve_http_request parse_ip split_host parse_basic_auth (Some tg) schemes q).
Proof. exact gate_request_unauthorized_401. Qed.
Print Assumptions C12_request_unauthorized_gets_401.

(* nothing else is ever answered: a request passes, or gets one of 403 / 401 / 404 (no route) /
   500 (RemoteAddr is not host:port) with no upstream action *)
Theorem C12_request_outcomes :
  forall parse_ip split_host parse_basic_auth t (schemes : scheme_table bcreds) q,
  passes_gate (serve_http_request parse_ip split_host parse_basic_auth t schemes q) \/
  exists s, rejected_with s (serve_http_request parse_ip split_host parse_basic_auth t schemes q)
            /\ (s = 403 \/ s = 401 \/ s = 404 \/ s = 500).
Proof. exact gate_request_outcomes. Qed.
Print Assumptions C12_request_outcomes.

(* NON-INTERFERENCE: requests that agree on the peer, on the X-Forwarded-For values and on the
   first Authorization value get the same answer - whatever their methods, whatever else their
   header maps hold *)
Theorem C12_request_verdict_reads_only_peer_xff_authorization :
  forall parse_ip split_host parse_basic_auth t (schemes : scheme_table bcreds) q q',
  gate_view q = gate_view q' ->
  serve_http_request parse_ip split_host parse_basic_auth t schemes q =
  serve_http_request parse_ip split_host parse_basic_auth t schemes q'.
Proof. exact gate_request_frame. Qed.
Print Assumptions C12_request_verdict_reads_only_peer_xff_authorization.

(* "a header never opens the gate": any other method and any number of further fields under names
   other than X-Forwarded-For / Authorization leave a rejected request rejected, same status *)
Theorem C12_no_header_opens_gate :
  forall parse_ip split_host parse_basic_auth t (schemes : scheme_table bcreds) q s m' (extra : hheaders),
  rejected_with s (serve_http_request parse_ip split_host parse_basic_auth t schemes q) ->
  forallb foreign_key (map fst extra) = true ->
  rejected_with s (serve_http_request parse_ip split_host parse_basic_auth t schemes
                     {| q_method := m'; q_remote := q_remote q; q_headers := extra ++ q_headers q |}).
Proof. exact no_header_opens_gate. Qed.
Print Assumptions C12_no_header_opens_gate.

(* the two names that are read.  X-Forwarded-For: AccessDeniedHTTP answers true exactly when an
   address the request carries is rejected by the rules ... *)
Theorem C12_denied_iff_rejected_address : forall parse_ip split_host r remote host xff,
  split_host remote = Some host -> parse_ip [] = None ->
  (access_denied_http parse_ip split_host r remote xff = true <->
   exists s ip, In s (request_strings host xff) /\ parse_ip (strip_zone s) = Some ip /\
                deny_by_ip r (Some ip) = true).
Proof. exact denied_iff_rejected_address. Qed.
Print Assumptions C12_denied_iff_rejected_address.

(* ... so a further field value never turns a 403 into anything else *)
Theorem C12_more_xff_keeps_403 :
  forall parse_ip split_host parse_basic_auth tg (schemes : scheme_table bcreds) q v,
  parse_ip [] = None ->
  rejected_with 403 (serve_http_request parse_ip split_host parse_basic_auth (Some tg) schemes q) ->
  rejected_with 403 (serve_http_request parse_ip split_host parse_basic_auth (Some tg) schemes
     {| q_method := q_method q; q_remote := q_remote q; q_headers := h_add (q_headers q) k_xff v |}).
Proof. exact more_xff_keeps_403. Qed.
Print Assumptions C12_more_xff_keeps_403.

(* Authorization: a further field value is not read when there is one already *)
Theorem C12_second_authorization_not_read :
  forall parse_ip split_host parse_basic_auth t (schemes : scheme_table bcreds) q a rest v,
  h_values (q_headers q) k_authorization = a :: rest ->
  serve_http_request parse_ip split_host parse_basic_auth t schemes
    {| q_method := q_method q; q_remote := q_remote q; q_headers := h_add (q_headers q) k_authorization v |}
  = serve_http_request parse_ip split_host parse_basic_auth t schemes q.
Proof. exact second_authorization_not_read. Qed.
Print Assumptions C12_second_authorization_not_read.

(* "an unknown scheme rejects everything": every request, whatever it is made of *)
Theorem C12_unknown_scheme_rejects_any_request :
  forall parse_ip split_host parse_basic_auth tg (schemes : scheme_table bcreds) q,
  t_auth tg <> [] -> schemes (t_auth tg) = None ->
  ~ passes_gate (serve_http_request parse_ip split_host parse_basic_auth (Some tg) schemes q).
Proof. exact unknown_scheme_rejects_any_request. Qed.
Print Assumptions C12_unknown_scheme_rejects_any_request.

(* basic schemes, any set in any state: a request without an Authorization field passes no route
   that has an auth option - no method and no other header stands in for credentials *)
Theorem C12_anonymous_request_never_passes :
  forall parse_ip split_host parse_basic_auth tg (ss : scheme_set) q,
  t_auth tg <> [] -> h_values (q_headers q) k_authorization = [] ->
  ~ passes_gate (serve_http_request parse_ip split_host parse_basic_auth (Some tg) (set_table ss) q).
Proof. exact anonymous_request_never_passes. Qed.
Print Assumptions C12_anonymous_request_never_passes.

(* with credentials: only if the route's scheme is configured and ITS htpasswd file has a line
   for the pair the Authorization field decodes to *)
Theorem C12_request_passes_only_if_file_accepts :
  forall parse_ip split_host parse_basic_auth cfg tg q,
  t_auth tg <> [] ->
  passes_gate (serve_http_request parse_ip split_host parse_basic_auth (Some tg) (set_table (sboot cfg)) q) ->
  exists k, sget cfg (t_auth tg) = Some k /\ file_accepts (bc_file k) (request_creds parse_basic_auth q) /\
            h_values (q_headers q) k_authorization <> [].
Proof. exact gate_request_passes_only_if_file_accepts. Qed.
Print Assumptions C12_request_passes_only_if_file_accepts.

(* non-vacuity: a route with auth=staff behind deny=ip:6.6.6.6; a CORS preflight (OPTIONS, Origin,
   Access-Control-Request-Method) without credentials, with a wrong password, with the right pair
   under Proxy-Authorization: 401; with the right pair: forwarded; listing 6.6.6.6: 403 *)
Theorem C12_request_nonvacuous :
  let serve := serve_http_request ex_parse_ip ex_split_host ex_parse_basic in
  let staff := set_table (sboot ex_staff_cfg) in
  serve (Some ex_staff_route) staff (ex_request "GET" []) = [ERespond 401] /\
  serve (Some ex_staff_route) staff (ex_request "OPTIONS" ex_preflight_headers) = [ERespond 401] /\
  serve (Some ex_staff_route) staff
        (ex_request "OPTIONS" ((bs "Authorization", [bs "Basic YWxpY2U6eA=="]) :: ex_preflight_headers)) = [ERespond 401] /\
  serve (Some ex_staff_route) staff
        (ex_request "OPTIONS" ((bs "Proxy-Authorization", [bs "Basic YWxpY2U6d29uZGVybGFuZA=="]) :: ex_preflight_headers))
    = [ERespond 401] /\
  serve (Some ex_staff_route) staff
        (ex_request "OPTIONS" (ex_preflight_headers ++ [(bs "Authorization", [bs "Basic YWxpY2U6d29uZGVybGFuZA=="])])) = [EUpstream] /\
  serve (Some ex_staff_route) staff
        (ex_request "DELETE" [(bs "Authorization", [bs "Basic YWxpY2U6eA=="; bs "Basic YWxpY2U6d29uZGVybGFuZA=="])]) = [ERespond 401] /\
  serve (Some ex_staff_route) staff
        (ex_request "OPTIONS" (ex_preflight_headers ++ [(bs "X-Forwarded-For", [bs "8.8.8.8"; bs "6.6.6.6"]);
                                                       (bs "Authorization", [bs "Basic YWxpY2U6d29uZGVybGFuZA=="])])) = [ERespond 403] /\
  serve (Some {| t_rules := no_rules; t_auth := bs "nosuch"; t_redirect := 302 |}) staff
        (ex_request "OPTIONS" ((bs "Authorization", [bs "Basic YWxpY2U6d29uZGVybGFuZA=="]) :: ex_preflight_headers)) = [ERespond 401] /\
  forallb foreign_key (map fst ex_preflight_headers) = true /\
  file_accepts ex_file1 ex_alice.
Proof. exact gate_request_nonvacuous. Qed.
Print Assumptions C12_request_nonvacuous.

(* ================= round 8: a TCP route with SEVERAL targets (Model/TcpTargets.v) ================= *)
(* tcp.Proxy.ServeTCP on a route whose targets carry access rules of their own and whose instances
   may be gone; Lookup's answers (first call and any later call), the aliveness of every instance,
   the target list and the peer are universally quantified. *)

(* a target is dialled only if ITS OWN rules admit the peer *)
Theorem C12_tcp_route_dial_only_admitted : forall ts c i ok,
  In (TDial i ok) (serve_tcp_route ts c) ->
  exists r, nth_error ts i = Some r /\ access_denied_tcp r (tc_peer c) = false.
Proof. exact tcp_route_dial_only_admitted. Qed.
Print Assumptions C12_tcp_route_dial_only_admitted.

Theorem C12_tcp_route_tunnel_only_admitted : forall ts c i,
  In (TTunnel i) (serve_tcp_route ts c) ->
  tc_pick c 0 = Some i /\ tc_alive c i = true /\
  exists r, nth_error ts i = Some r /\ access_denied_tcp r (tc_peer c) = false.
Proof. exact tcp_route_tunnel_only_admitted. Qed.
Print Assumptions C12_tcp_route_tunnel_only_admitted.

(* the picked target rejects the peer: closed, no dial - whatever the other targets say *)
Theorem C12_tcp_route_denied_closes : forall ts c i r,
  tc_pick c 0 = Some i -> nth_error ts i = Some r -> access_denied_tcp r (tc_peer c) = true ->
  serve_tcp_route ts c = [TLookup 0 (Some i); TClose].
Proof. exact tcp_route_denied_closes. Qed.
Print Assumptions C12_tcp_route_denied_closes.

(* the dial to the admitted target fails: closed; no second Lookup, no other target contacted *)
Theorem C12_tcp_route_failed_dial_closes : forall ts c i r,
  tc_pick c 0 = Some i -> nth_error ts i = Some r -> access_denied_tcp r (tc_peer c) = false ->
  tc_alive c i = false ->
  serve_tcp_route ts c = [TLookup 0 (Some i); TDial i false; TClose].
Proof. exact tcp_route_failed_dial_closes. Qed.
Print Assumptions C12_tcp_route_failed_dial_closes.

Theorem C12_tcp_route_one_lookup_at_most_one_dial : forall ts c,
  lookups_of (serve_tcp_route ts c) = 1%N /\
  (List.length (filter is_dial (serve_tcp_route ts c)) <= 1)%nat /\
  forall j, (accepts_of (serve_tcp_route ts c) j <= 1)%N.
Proof. exact tcp_route_one_lookup_at_most_one_dial. Qed.
Print Assumptions C12_tcp_route_one_lookup_at_most_one_dial.

Theorem C12_tcp_route_contact_is_first_pick : forall ts c i ok,
  In (TDial i ok) (serve_tcp_route ts c) -> tc_pick c 0 = Some i /\ ok = tc_alive c i.
Proof. exact tcp_route_contact_is_first_pick. Qed.
Print Assumptions C12_tcp_route_contact_is_first_pick.

(* frame: the other targets' rules, their aliveness and Lookup's later answers do not matter *)
Theorem C12_tcp_route_reads_only_first_pick : forall ts ts' c c',
  tc_peer c = tc_peer c' -> tc_pick c 0 = tc_pick c' 0 ->
  (forall i, tc_pick c 0 = Some i -> nth_error ts i = nth_error ts' i /\ tc_alive c i = tc_alive c' i) ->
  serve_tcp_route ts c = serve_tcp_route ts' c'.
Proof. exact tcp_route_reads_only_first_pick. Qed.
Print Assumptions C12_tcp_route_reads_only_first_pick.

(* composed with the meaning of the lists *)
Theorem C12_tcp_route_dial_allow_list : forall ts c i ok ip r l,
  In (TDial i ok) (serve_tcp_route ts c) -> tc_peer c = TCPAddr (Some ip) ->
  nth_error ts i = Some r -> r_allow r = Some l ->
  exists b, In b l /\ contains b ip = true.
Proof. exact tcp_route_dial_allow_list. Qed.
Print Assumptions C12_tcp_route_dial_allow_list.

Theorem C12_tcp_route_dial_deny_list : forall ts c i ok ip r l b,
  In (TDial i ok) (serve_tcp_route ts c) -> tc_peer c = TCPAddr (Some ip) ->
  nth_error ts i = Some r -> r_allow r = None -> r_deny r = Some l -> In b l ->
  contains b ip = false.
Proof. exact tcp_route_dial_deny_list. Qed.
Print Assumptions C12_tcp_route_dial_deny_list.

(* a listener's connections: each judged alone *)
Theorem C12_tcp_conns_dial_only_admitted : forall ts cs n c i ok,
  nth_error cs n = Some c -> In (TDial i ok) (nth n (serve_tcp_conns ts cs) []) ->
  exists r, nth_error ts i = Some r /\ access_denied_tcp r (tc_peer c) = false.
Proof. exact tcp_conns_dial_only_admitted. Qed.
Print Assumptions C12_tcp_conns_dial_only_admitted.

(* non-vacuity: a gone instance admitting 127.0.0.0/8 and a live one admitting 10.0.0.0/8 only, round
   robin: 127.0.0.1 is closed after the failed dial, the live instance (which rejects it, and which a
   second Lookup would answer) is not contacted *)
Theorem C12_tcp_route_nonvacuous :
  serve_tcp_route ex_targets (ex_conn 2130706433 0) = [TLookup 0 (Some 0%nat); TDial 0 false; TClose] /\
  access_denied_tcp ex_allow_10 (TCPAddr (Some (IP4 2130706433))) = true /\
  tc_pick (ex_conn 2130706433 0) 1 = Some 1%nat /\ tc_alive (ex_conn 2130706433 0) 1 = true /\
  serve_tcp_route ex_targets (ex_conn 167837953 0) = [TLookup 0 (Some 0%nat); TClose] /\
  serve_tcp_route ex_targets (ex_conn 2130706433 1) = [TLookup 0 (Some 1%nat); TClose] /\
  serve_tcp_route ex_targets (ex_conn 167837953 1) = [TLookup 0 (Some 1%nat); TDial 1 true; TTunnel 1; TClose].
Proof. exact tcp_route_nonvacuous. Qed.
Print Assumptions C12_tcp_route_nonvacuous.

(* ================= round 8: EVERY removal of the htpasswd file locks out (Model/ReloadRemoval.v) ================= *)
(* after any schedule: the `cleared` flag is up only while the empty table is in force *)
Theorem C12_reload_cleared_means_empty : forall init mt sched,
  cleared (snd (rrun (rboot init mt) sched)) = true -> in_force (snd (rrun (rboot init mt) sched)) = [].
Proof. exact reload_cleared_means_empty. Qed.
Print Assumptions C12_reload_cleared_means_empty.

(* after ANY schedule (earlier removals, restorations, re-reads, requests) that leaves the file absent:
   once the goroutine has taken removal_bound further steps, requests interleaved at will, no
   credentials are accepted *)
Theorem C12_reload_every_removal_locks_out : forall init mt sched tail c,
  fs (snd (rrun (rboot init mt) sched)) = None ->
  forallb (fun a => negb (is_env a)) tail = true ->
  (removal_bound (snd (rrun (rboot init mt) sched)) <= List.length (filter is_refresher tail))%nat ->
  basic_authorized (snd (rrun (rboot init mt) (sched ++ tail))) c = false.
Proof. exact reload_every_removal_locks_out. Qed.
Print Assumptions C12_reload_every_removal_locks_out.

Theorem C12_reload_every_removal_gets_401 : forall parse_ip split_host init mt sched tail tg remote xff c,
  t_auth tg <> [] ->
  access_denied_http parse_ip split_host (t_rules tg) remote xff = false ->
  fs (snd (rrun (rboot init mt) sched)) = None ->
  forallb (fun a => negb (is_env a)) tail = true ->
  (removal_bound (snd (rrun (rboot init mt) sched)) <= List.length (filter is_refresher tail))%nat ->
  serve_http parse_ip split_host bcreds (Some tg)
             (basic_scheme_table (t_auth tg) (snd (rrun (rboot init mt) (sched ++ tail)))) remote xff c
    = [ERespond 401].
Proof. exact reload_every_removal_gets_401. Qed.
Print Assumptions C12_reload_every_removal_gets_401.

(* non-vacuity: present / removed / restored / removed - the second removal locks alice out too *)
Theorem C12_reload_removal_nonvacuous :
  fst (rrun (rboot ex_file1 1) (ex_cycle ++ ex_cycle_tail)) =
    [EvVerdict ex_alice true;
     EvStatFailed; EvLoaded []; EvVerdict ex_alice false;
     EvLoaded ex_file1; EvVerdict ex_alice true;
     EvStatFailed; EvVerdict ex_alice true; EvLoaded []; EvStatFailed; EvVerdict ex_alice false] /\
  fs (snd (rrun (rboot ex_file1 1) ex_cycle)) = None /\
  cleared (snd (rrun (rboot ex_file1 1) ex_cycle)) = false /\
  forallb (fun a => negb (is_env a)) ex_cycle_tail = true /\
  (removal_bound (snd (rrun (rboot ex_file1 1) ex_cycle)) <= List.length (filter is_refresher ex_cycle_tail))%nat.
Proof. exact reload_removal_nonvacuous. Qed.
Print Assumptions C12_reload_removal_nonvacuous.
