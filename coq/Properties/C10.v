(** C10 — SNI extraction (proxy/tcp/tls_clienthello.go, sni_proxy.go:45-73).
    This file contains only statements, [exact], and [Print Assumptions]. *)
From Coq Require Import String List NArith.
From Fabio Require Import Lib.Outcome Lib.Bytes Model.ClientHello Proofs.ClientHello Model.SniServe Proofs.SniServe.
Import ListNotations.
Local Open Scope N_scope.

(* ============ clause (c): no input makes the extraction panic or read out of bounds ============ *)
(* The parser never crashes, whatever the bytes (every Go index / slice expression of the
   model is a checked access that yields [Panic] where Go's run-time check would fire). *)
Theorem C10_unmarshal_never_panics : forall d : str, read_server_name d <> Panic.
Proof. exact read_server_name_never_panics. Qed.
Print Assumptions C10_unmarshal_never_panics.

Theorem C10_buffer_size_never_panics : forall d : str, client_hello_buffer_size d <> Panic.
Proof. exact buffer_size_never_panics. Qed.
Print Assumptions C10_buffer_size_never_panics.

Theorem C10_sni_route_never_panics : forall stream, sni_route_name stream <> Panic.
Proof. exact sni_route_never_panics. Qed.
Print Assumptions C10_sni_route_never_panics.

(* The loops of the model run on fuel.  Any fuel above the length of the input gives the same
   result on EVERY input, so the fuel-exhausted branches (which return a normal-looking value)
   are unreachable from the fuel the model passes ([S (length d)]). *)
Theorem C10_names_fuel_adequate : forall d f,
  (length d < f)%nat -> names f d = names (S (length d)) d.
Proof. exact names_fuel_adequate. Qed.
Print Assumptions C10_names_fuel_adequate.

Theorem C10_exts_fuel_adequate : forall d sn f,
  (length d < f)%nat -> exts f d sn = exts (S (length d)) d sn.
Proof. exact exts_fuel_adequate. Qed.
Print Assumptions C10_exts_fuel_adequate.

(* ============ clause (b): nothing beyond the first TLS record is buffered ============ *)
(* The size is at least the 9 peeked bytes + 1, at most record header + record length,
   at most 5 + 2^14. *)
Theorem C10_buffer_size_bound : forall d n,
  client_hello_buffer_size d = Ok n ->
  exists rl, u16 d 3 = Ok rl /\ 10 <= n /\ n <= rl + 5 /\ rl <= 16384 /\
             idx d 0 = Ok 22 /\ idx d 5 = Ok 1.
Proof. exact buffer_size_bound_lemma. Qed.
Print Assumptions C10_buffer_size_bound.

Theorem C10_sni_route_bound : forall stream n name,
  sni_route_name stream = Ok (n, name) ->
  exists rl, u16 stream 3 = Ok rl /\ 10 <= n /\ n <= rl + 5 /\ n <= 16389 /\ n <= nlen stream.
Proof. exact sni_route_bound. Qed.
Print Assumptions C10_sni_route_bound.

(* ============ clause (a): on every well-formed ClientHello the name is the hello's ============ *)
(* [wf_hello]: RFC 5246 7.4.1.2 shape; every field a byte string that fits its length
   prefix.  Its encoding is then a string of bytes: the theorems' domain consists of
   byte strings. *)
Theorem C10_enc_handshake_bytes : forall h, wf_hello h -> all_bytes (enc_handshake h).
Proof. exact enc_handshake_bytes. Qed.
Print Assumptions C10_enc_handshake_bytes.

Theorem C10_enc_record_bytes : forall hi lo h,
  hi < 256 -> lo < 256 -> wf_hello h -> nlen (enc_handshake h) < 65536 ->
  all_bytes (enc_record hi lo h).
Proof. exact enc_record_bytes. Qed.
Print Assumptions C10_enc_record_bytes.

(* No bound on the number or size of extensions, names, cipher suites beyond what the length
   prefixes can carry: with at most one extension per type (RFC 8446 4.2) the result is the
   server_name extension's first host_name ... *)
Theorem C10_read_encode : forall h es e l,
  wf_hello h -> h_exts h = Some es -> NoDup (map ext_type es) -> In e es -> is_sni_ext e l ->
  read_server_name (enc_handshake h) = Ok (match sni_of_list l with Some n => n | None => [] end).
Proof. exact read_encode_rfc. Qed.
Print Assumptions C10_read_encode.

(* ... and the empty name when there is none. *)
Theorem C10_read_encode_no_sni : forall h,
  wf_hello h ->
  (match h_exts h with None => True | Some es => forall e, In e es -> ext_type e <> 0 end) ->
  read_server_name (enc_handshake h) = Ok [].
Proof. exact read_encode_no_sni. Qed.
Print Assumptions C10_read_encode_no_sni.

(* The same on RFC-shaped hellos ([rfc_hello]: one extension per type; the ServerNameList is
   not empty, host names are not empty and have no trailing dot, at most one host_name): the
   parser returns THE host_name of THE list, or nothing. *)
Theorem C10_rfc_hello_read : forall h,
  wf_hello h -> rfc_hello h ->
  exists r, read_server_name (enc_handshake h) = Ok r /\ hello_denotes h r /\
    match h_exts h with
    | None => r = []
    | Some es =>
        (forall e, In e es -> ext_type e <> 0) /\ r = [] \/
        exists e l, In e es /\ is_sni_ext e l /\ rfc_sni_list l /\
                    r = match sni_of_list l with Some n => n | None => [] end
    end.
Proof. exact rfc_hello_read. Qed.
Print Assumptions C10_rfc_hello_read.

(* MECHANISM LEMMAS (not coverage of the property by themselves: [exts_denote] and [exts_parse]
   describe the parser's own left fold — the last server_name extension that has a host_name
   wins; bytes after the first host_name entry of a list are not read). They are what the
   completeness direction of [C10_sni_route_exact] rests on. *)
Theorem C10_read_encode_general : forall h r,
  wf_hello h -> hello_denotes h r -> read_server_name (enc_handshake h) = Ok r.
Proof. exact read_encode_lemma. Qed.
Print Assumptions C10_read_encode_general.

Theorem C10_read_parse : forall h r,
  wf_hello h -> hello_parses h r -> read_server_name (enc_handshake h) = Ok r.
Proof. exact read_parse_lemma. Qed.
Print Assumptions C10_read_parse.

(* The path through SNIProxy.ServeTCP (peek 9, size, read that many, parse data[5:]): on a
   stream that starts with a record carrying a well-formed hello it finds the name and consumes
   exactly that record, whatever bytes follow ... *)
Theorem C10_sni_route_encode : forall hi lo h r extra,
  wf_hello h -> hello_denotes h r -> nlen (enc_handshake h) <= 16384 ->
  sni_route_name (enc_record hi lo h ++ extra) = Ok (nlen (enc_record hi lo h), r).
Proof. exact sni_route_encode. Qed.
Print Assumptions C10_sni_route_encode.

(* ... and when the record is longer than the message (hl + 4 < rl) exactly header + message. *)
Theorem C10_sni_route_parse : forall hi lo rl h r extra,
  wf_hello h -> hello_parses h r ->
  nlen (enc_handshake h) <= rl -> rl <= 16384 ->
  sni_route_name ([22; hi; lo] ++ enc16 rl ++ enc_handshake h ++ extra)
  = Ok (5 + nlen (enc_handshake h), r).
Proof. exact sni_route_parse. Qed.
Print Assumptions C10_sni_route_parse.

(* ============ clause (d): malformed or truncated input is rejected ============ *)
(* SOUNDNESS, the converse of the above.  If a stream of bytes is accepted (name [r], [n]
   bytes consumed) then those [n] bytes ARE a handshake record header (any version bytes),
   a record length [rl] <= 2^14 and the complete encoding of a well-formed ClientHello:
   every length field is consistent with the bytes that follow it and nothing is left over
   inside the message.  What the parser does not guarantee, stated exactly: [rl] may exceed
   the message (the record's remaining bytes are not consumed); [hello_parses] instead of
   [hello_denotes] (see [exts_parse], [sni_body]: bytes after the first host_name entry inside
   a server_name list are arbitrary; server_name may repeat). *)
Theorem C10_sni_route_sound : forall s n r,
  all_bytes s -> sni_route_name s = Ok (n, r) ->
  exists hi lo rl h,
    wf_hello h /\ hello_parses h r /\
    firstn (N.to_nat n) s = [22; hi; lo] ++ enc16 rl ++ enc_handshake h /\
    n = 5 + nlen (enc_handshake h) /\ nlen (enc_handshake h) <= rl /\ rl <= 16384.
Proof. exact sni_route_sound. Qed.
Print Assumptions C10_sni_route_sound.

(* Both directions: the exact set of byte streams that are routed. *)
Theorem C10_sni_route_exact : forall s n r,
  all_bytes s ->
  (sni_route_name s = Ok (n, r) <->
   exists hi lo rl h extra,
     wf_hello h /\ hello_parses h r /\
     s = [22; hi; lo] ++ enc16 rl ++ enc_handshake h ++ extra /\
     n = 5 + nlen (enc_handshake h) /\ nlen (enc_handshake h) <= rl /\ rl <= 16384).
Proof. exact sni_route_exact. Qed.
Print Assumptions C10_sni_route_exact.

(* If moreover the hello is RFC-shaped, the name routed on is the one its list denotes. *)
Theorem C10_sni_route_sound_rfc : forall s n r,
  all_bytes s -> sni_route_name s = Ok (n, r) ->
  exists hi lo rl h,
    wf_hello h /\
    firstn (N.to_nat n) s = [22; hi; lo] ++ enc16 rl ++ enc_handshake h /\
    (rfc_hello h -> hello_denotes h r).
Proof. exact sni_route_sound_rfc. Qed.
Print Assumptions C10_sni_route_sound_rfc.

(* TRUNCATION: every strict prefix of what an accepted stream had consumed is rejected
   (Err 10: Peek / ReadFull run out of bytes), for arbitrary streams ... *)
Theorem C10_sni_route_truncated : forall s n r k,
  sni_route_name s = Ok (n, r) -> (k < N.to_nat n)%nat ->
  sni_route_name (firstn k s) = Err 10.
Proof. exact sni_route_truncated. Qed.
Print Assumptions C10_sni_route_truncated.

(* ... in particular every strict prefix of a record that carries a well-formed hello. *)
Theorem C10_enc_record_truncated : forall hi lo h r k,
  wf_hello h -> hello_denotes h r -> nlen (enc_handshake h) <= 16384 ->
  (k < length (enc_record hi lo h))%nat ->
  sni_route_name (firstn k (enc_record hi lo h)) = Err 10.
Proof. exact enc_record_truncated. Qed.
Print Assumptions C10_enc_record_truncated.

(* OPEN FINDINGS: server_name data that RFC 8446 4.2 / RFC 6066 3 forbid and a standard TLS
   server rejects is accepted and routed on.  Each theorem exhibits a well-formed hello that is
   not RFC-shaped and is routed on a non-empty name: (F-C10-1) two server_name extensions, the
   last wins; (F-C10-2) a second host_name after the first, the first wins (nothing after the
   first host_name entry is read); (F-C10-3) a host_name with a trailing dot. *)
Theorem C10_duplicate_sni_routed_refuted :
  exists h r, wf_hello h /\
    sni_route_name (enc_record 3 1 h) = Ok (nlen (enc_record 3 1 h), r) /\ r <> [] /\ ~ rfc_hello h.
Proof. exact duplicate_sni_routed_refuted. Qed.
Print Assumptions C10_duplicate_sni_routed_refuted.

Theorem C10_second_host_name_routed_refuted :
  exists h r, wf_hello h /\
    sni_route_name (enc_record 3 1 h) = Ok (nlen (enc_record 3 1 h), r) /\ r <> [] /\ ~ rfc_hello h.
Proof. exact second_host_name_routed_refuted. Qed.
Print Assumptions C10_second_host_name_routed_refuted.

Theorem C10_trailing_dot_routed_refuted :
  exists h r, wf_hello h /\
    sni_route_name (enc_record 3 1 h) = Ok (nlen (enc_record 3 1 h), r) /\ r <> [] /\ ~ rfc_hello h.
Proof. exact trailing_dot_routed_refuted. Qed.
Print Assumptions C10_trailing_dot_routed_refuted.

(* ============ non-vacuity: concrete inputs meet the hypotheses ============ *)
Theorem C10_nonvacuous : wf_hello ex_hello /\ hello_denotes ex_hello (bs "foo.com"%string).
Proof. exact ex_hello_wf. Qed.
Print Assumptions C10_nonvacuous.

(* the premises of C10_read_encode and C10_rfc_hello_read *)
Theorem C10_nonvacuous_rfc :
  exists es e l, h_exts ex_hello = Some es /\ NoDup (map ext_type es) /\ In e es /\ is_sni_ext e l /\
                 rfc_hello ex_hello.
Proof. exact ex_hello_rfc_premises. Qed.
Print Assumptions C10_nonvacuous_rfc.

(* the premises of C10_sni_route_sound / _truncated *)
Theorem C10_nonvacuous_sound :
  all_bytes (enc_record 3 1 ex_hello ++ [23; 3; 3]) /\
  sni_route_name (enc_record 3 1 ex_hello ++ [23; 3; 3]) = Ok (nlen (enc_record 3 1 ex_hello), bs "foo.com"%string).
Proof. exact ex_route_sound_nonvacuous. Qed.
Print Assumptions C10_nonvacuous_sound.

(* legacy_session_id<0..32> (RFC 5246 7.4.1.2, RFC 8446 4.1.2): a hello whose session id is
   longer than 32 bytes is malformed and is never parsed, whatever else it contains.  crypto/tls's
   own unmarshal does not enforce this bound, so a crypto/tls server does hand out a
   ClientHelloInfo for such bytes: the check treats them as malformed (Check/C10.v sid_too_long),
   not as a well-formed hello fabio fails to read. *)
Theorem C10_long_session_id_rejected : forall (d : str) (sl : N) (n : str),
  idx d 38 = Ok sl -> (32 < sl)%N -> read_server_name d <> Ok n.
Proof. exact long_session_id_rejected. Qed.
Print Assumptions C10_long_session_id_rejected.

(* ============ the decision of SNIProxy.ServeTCP itself (Model/SniServe.v) ============ *)
(* ServeTCP runs on a bare goroutine of tcp.Server without recover: a panic anywhere between
   Peek and Lookup - not only inside the parser - ends the process.  The whole decision, the
   "unable to parse" and "server_name missing" branches included, is total on every stream ... *)
Theorem C10_sni_serve_never_panics : forall stream, sni_serve stream <> Panic.
Proof. exact sni_serve_never_panics. Qed.
Print Assumptions C10_sni_serve_never_panics.

Theorem C10_sni_serve_decides : forall stream,
  sni_serve stream = Ok Dropped \/ exists n h, sni_serve stream = Ok (Routed n h).
Proof. exact sni_serve_decides. Qed.
Print Assumptions C10_sni_serve_decides.

(* ... it routes exactly the streams of C10_sni_route_exact whose name is not empty, on that name,
   with that many bytes buffered (so the soundness / truncation / bound theorems above speak
   about ServeTCP's decision) ... *)
Theorem C10_sni_serve_routed_iff : forall s n h,
  sni_serve s = Ok (Routed n h) <-> sni_route_name s = Ok (n, h) /\ h <> [].
Proof. exact sni_serve_routed_iff. Qed.
Print Assumptions C10_sni_serve_routed_iff.

Theorem C10_sni_serve_bound : forall s n h,
  sni_serve s = Ok (Routed n h) ->
  exists rl, u16 s 3 = Ok rl /\ 10 <= n /\ n <= rl + 5 /\ n <= 16389 /\ n <= nlen s.
Proof. exact sni_serve_bound. Qed.
Print Assumptions C10_sni_serve_bound.

(* ... and everything too small to be a ClientHello is REJECTED, not crashed on: a stream of
   fewer than 47 bytes (record header 5 + handshake header 4 + the smallest hello body 38: every
   truncation of every tiny record), and a stream whose handshake header announces a body of
   fewer than 38 bytes, whatever the record length, whatever follows, wherever it is cut. *)
Theorem C10_short_stream_dropped : forall s,
  nlen s < 9 + min_hello_body -> sni_serve s = Ok Dropped.
Proof. exact sni_serve_short_stream_dropped. Qed.
Print Assumptions C10_short_stream_dropped.

Theorem C10_short_hello_dropped : forall s hl,
  u24 s 6 = Ok hl -> hl < min_hello_body -> sni_serve s = Ok Dropped.
Proof. exact sni_serve_short_hello_dropped. Qed.
Print Assumptions C10_short_hello_dropped.

(* non-vacuity: 16 03 01 00 05 01 00 00 01 00 passes the size function (the parser is reached with
   a 5-byte message), meets the hypotheses of both theorems and is dropped; ex_hello is routed *)
Theorem C10_tiny_hello_nonvacuous :
  client_hello_buffer_size (firstn 9 tiny_hello) = Ok 10 /\
  u24 tiny_hello 6 = Ok 1 /\ 1 < min_hello_body /\ nlen tiny_hello < 9 + min_hello_body /\
  sni_serve tiny_hello = Ok Dropped.
Proof. exact tiny_hello_dropped. Qed.
Print Assumptions C10_tiny_hello_nonvacuous.

Theorem C10_sni_serve_nonvacuous :
  sni_serve (enc_record 3 1 ex_hello ++ [23; 3; 3])
  = Ok (Routed (nlen (enc_record 3 1 ex_hello)) (bs "foo.com"%string)).
Proof. exact ex_hello_served. Qed.
Print Assumptions C10_sni_serve_nonvacuous.
