(** C10 — SNI extraction (proxy/tcp/tls_clienthello.go, sni_proxy.go:45-73).
    This file contains only statements, [exact], and [Print Assumptions]. *)
From Coq Require Import String List NArith.
From Fabio Require Import Lib.Outcome Lib.Bytes Model.ClientHello Proofs.ClientHello.
Import ListNotations.
Local Open Scope N_scope.

(* The parser never crashes, whatever the bytes. *)
Theorem C10_unmarshal_never_panics : forall d : str, read_server_name d <> Panic.
Proof. exact read_server_name_never_panics. Qed.
Print Assumptions C10_unmarshal_never_panics.

Theorem C10_buffer_size_never_panics : forall d : str, client_hello_buffer_size d <> Panic.
Proof. exact buffer_size_never_panics. Qed.
Print Assumptions C10_buffer_size_never_panics.

(* Nothing beyond the first TLS record is ever asked for: the size is at least the
   9 peeked bytes + 1, at most record header + record length, at most 5 + 2^14. *)
Theorem C10_buffer_size_bound : forall d n,
  client_hello_buffer_size d = Ok n ->
  exists rl, u16 d 3 = Ok rl /\ 10 <= n /\ n <= rl + 5 /\ rl <= 16384 /\
             idx d 0 = Ok 22 /\ idx d 5 = Ok 1.
Proof. exact buffer_size_bound_lemma. Qed.
Print Assumptions C10_buffer_size_bound.

(* Correct on every well-formed ClientHello, no bound on the number or size of
   extensions, names, cipher suites: with at most one server_name extension
   (RFC 6066) the result is that extension's first host_name ... *)
Theorem C10_read_encode : forall h es e l,
  wf_hello h -> h_exts h = Some es -> NoDup (map ext_type es) -> In e es -> is_sni_ext e l ->
  read_server_name (enc_handshake h) = Ok (match sni_of_list l with Some n => n | None => [] end).
Proof. exact read_encode_rfc. Qed.
Print Assumptions C10_read_encode.

(* ... and the empty name when there is none. *)
Theorem C10_read_encode_no_sni : forall h,
  wf_hello h ->
  (match h_exts h with None => True | Some es => forall e, In e es -> ext_type e <> 0 end) ->
  read_server_name (enc_handshake h) = Ok [].
Proof. exact read_encode_no_sni. Qed.
Print Assumptions C10_read_encode_no_sni.

(* The general form (repeated server_name extensions: the last one with a host_name wins,
   which is what the code does and what [exts_denote] says). *)
Theorem C10_read_encode_general : forall h r,
  wf_hello h -> hello_denotes h r -> read_server_name (enc_handshake h) = Ok r.
Proof. exact read_encode_lemma. Qed.
Print Assumptions C10_read_encode_general.

(* The path through SNIProxy.ServeTCP (peek 9, size, read that many, parse data[5:]):
   never crashes on any stream, never consumes a byte beyond the first record, and on a
   stream that starts with a record carrying a well-formed hello it finds the name and
   consumes exactly that record, whatever bytes follow. *)
Theorem C10_sni_route_never_panics : forall stream, sni_route_name stream <> Panic.
Proof. exact sni_route_never_panics. Qed.
Print Assumptions C10_sni_route_never_panics.

Theorem C10_sni_route_bound : forall stream n name,
  sni_route_name stream = Ok (n, name) ->
  exists rl, u16 stream 3 = Ok rl /\ 10 <= n /\ n <= rl + 5 /\ n <= 16389 /\ n <= nlen stream.
Proof. exact sni_route_bound. Qed.
Print Assumptions C10_sni_route_bound.

Theorem C10_sni_route_encode : forall hi lo h r extra,
  wf_hello h -> hello_denotes h r -> nlen (enc_handshake h) <= 16384 ->
  sni_route_name (enc_record hi lo h ++ extra) = Ok (nlen (enc_record hi lo h), r).
Proof. exact sni_route_encode. Qed.
Print Assumptions C10_sni_route_encode.

(* non-vacuity: a concrete hello meets the hypotheses *)
Theorem C10_nonvacuous : wf_hello ex_hello /\ hello_denotes ex_hello (bs "foo.com"%string).
Proof. exact ex_hello_wf. Qed.
