(** C06 - concurrent requests do not influence each other's routing
    (route/picker.go:26-30, route/glob_cache.go, route/table.go:424-433, route/target.go:72-124,
    proxy/http_proxy.go:136-142).  Statements, [exact], [Print Assumptions] only.

    Threads are machines of atomic actions over a shared state, a schedule is a list of thread
    ids, [run step sched state threads] executes it; every theorem quantifying over [sched] and the
    thread list holds for every interleaving of any number of goroutines. *)
From Coq Require Import String List NArith Bool Arith Permutation.
From Fabio Require Import Lib.Outcome Lib.Bytes Model.Interleave Model.GlobCacheC06 Model.GlobCacheFine Model.Access Model.AccessC06 Model.LookupConc
  Proofs.Interleave Proofs.GlobCacheC06 Proofs.GlobCacheFine Proofs.InterleaveMore Proofs.LookupConc.
Import ListNotations.

(* ---- the host-pattern cache, one goroutine at a time ---- *)
(* For every size > 0 and every history of Get calls on a fresh cache: n <= size, the map has at most
   size entries, all of them in the ring l, and every call returns the compiled pattern it asked for
   (an error only for a pattern that does not compile) - in particular no call panics. *)
Theorem C06_globcache_seq_inv : forall size calls, 0 < size ->
  let '(s, os) := gc_history (gc_new size) calls in
  c_n s <= size /\ length (m_keys (c_m s)) <= size /\ incl (m_keys (c_m s)) (c_l s) /\ length (c_l s) = size
  /\ Forall2 call_ok calls os.
Proof. exact globcache_seq_inv_l. Qed.
Print Assumptions C06_globcache_seq_inv.

(* ---- the host-pattern cache under concurrency: the code as it is (fix d9b7eff: lock-free fast path,
   then re-check and bookkeeping in one critical section) ---- *)
(* A fresh cache of any size > 0, any number of goroutines each calling Get with any pattern, EVERY
   schedule - hence every reachable state: n <= size, at most size map entries, all of them in l; no Get
   has panicked; every finished Get has returned the glob compiled from its own pattern (an error only
   for a pattern that does not compile). *)
Theorem C06_globcache_conc_inv : forall size calls sched, 0 < size ->
  let r := run g_step sched (gc_new size) (map (fun c => g_init (fst c) (snd c)) calls) in
  c_n (fst r) <= size /\ length (m_keys (c_m (fst r))) <= size /\ incl (m_keys (c_m (fst r))) (c_l (fst r))
  /\ length (c_l (fst r)) = size /\ Forall q_thread_ok (snd r).
Proof. exact globcache_conc_inv_l. Qed.
Print Assumptions C06_globcache_conc_inv.

(* the same from any state that satisfies the sequential invariant, with threads anywhere in their Get *)
Theorem C06_globcache_every_schedule : forall size sched s ts, gc_inv size s -> Forall q_thread_ok ts ->
  gc_inv size (fst (run g_step sched s ts)) /\ Forall q_thread_ok (snd (run g_step sched s ts)).
Proof. exact globcache_every_schedule_l. Qed.
Print Assumptions C06_globcache_every_schedule.

(* ---- lock reduction: the same for the FINE-grained machine of the repaired code, mutex explicit
   (Model/GlobCacheFine.v: fast-path Load; Lock, enabled only while the mutex is free; then every read and
   write of l, h, n and every sync.Map call of the critical section as its own action; Unlock), lock-free
   fast-path Loads of other goroutines interleaving anywhere.  Assumed: each sync.Map Load/Store/Delete is
   one linearizable action; sync.Mutex gives mutual exclusion (Lock takes a free mutex in one action).
   EVERY schedule, any number of goroutines: whenever the mutex is free the sequential invariant holds, and
   at every point no Get has panicked or returned anything but the glob compiled from its own pattern. ---- *)
Theorem C06_globcache_fine_inv : forall size calls sched, 0 < size ->
  let r := run f_step sched (f_new size) (map (fun c => f_init (fst c) (snd c)) calls) in
  (f_lock (fst r) = false ->
     c_n (f_c (fst r)) <= size /\ length (m_keys (c_m (f_c (fst r)))) <= size
     /\ incl (m_keys (c_m (f_c (fst r)))) (c_l (f_c (fst r))) /\ length (c_l (f_c (fst r))) = size)
  /\ Forall f_thread_ok (snd r).
Proof. exact globcache_fine_inv_l. Qed.
Print Assumptions C06_globcache_fine_inv.

(* the inductive invariant itself ([f_inv]: one holder or none; sequential invariant at release points; the
   holder is on the path of the uninterrupted Get from the state it locked in; the map is sound at every
   point), from any state satisfying it *)
Theorem C06_globcache_fine_every_schedule : forall size sched s ts, f_inv size s ts ->
  f_inv size (fst (run f_step sched s ts)) (snd (run f_step sched s ts)).
Proof. exact globcache_fine_every_schedule_l. Qed.
Print Assumptions C06_globcache_fine_every_schedule.

(* ---- the cache BEFORE fix d9b7eff ([g_step_unrepaired]: no mutex, every access its own action) ---- *)
(* even there a Get that returned a glob returned the one compiled from the requested pattern ... *)
Theorem C06_globcache_any_schedule_result : forall sched s ts, m_wf (c_m s) -> Forall g_thread_ok ts ->
  m_wf (c_m (fst (run g_step_unrepaired sched s ts))) /\ Forall g_thread_ok (snd (run g_step_unrepaired sched s ts)).
Proof. exact globcache_any_schedule_result_l. Qed.
Print Assumptions C06_globcache_any_schedule_result.

(* ... but (findings F-C06-3 / F-C06-4, fixed by d9b7eff) the ring bookkeeping was unsynchronised.  Two goroutines on a cache of
   size 1: n = 2 > len(l), two map entries; after one more miss the head is outside the ring and every
   later miss panics, for ever.  Second witness: the immediate index-out-of-range panic. *)
Theorem C06_globcache_race_refuted :
  exists sched, let '(s, ts) := run g_step_unrepaired sched (gc_new 1) [g_init_unrepaired (bs "a*") true; g_init_unrepaired (bs "b*") true] in
    g_results_unrepaired ts = [Some (Ok (bs "a*")); Some (Ok (bs "b*"))]
    /\ c_n s = 2 /\ length (c_l s) = 1 /\ length (m_keys (c_m s)) = 2
    /\ let '(s1, o1) := gc_get s (bs "c*") true in o1 = Some (Ok (bs "c*")) /\ c_h s1 = 1
    /\ let '(s2, o2) := gc_get s1 (bs "d*") true in o2 = Some Panic /\ s2 = s1
    /\ forall pat, m_load (c_m s1) pat = None -> gc_get s1 pat true = (s1, Some Panic).
Proof. exact globcache_race_refuted_w. Qed.
Print Assumptions C06_globcache_race_refuted.

Theorem C06_globcache_race_panic_refuted :
  exists sched, let '(s, ts) := run g_step_unrepaired sched (gc_new 1) [g_init_unrepaired (bs "a*") true; g_init_unrepaired (bs "b*") true] in
    g_results_unrepaired ts = [Some (Ok (bs "a*")); Some Panic].
Proof. exact globcache_race_panic_w. Qed.
Print Assumptions C06_globcache_race_panic_refuted.

Theorem C06_globcache_dead_state : forall s pat, length (c_l s) <= c_h s -> length (c_l s) <= c_n s ->
  m_load (c_m s) pat = None -> gc_get s pat true = (s, Some Panic).
Proof. exact gc_dead_state_l. Qed.
Print Assumptions C06_globcache_dead_state.

(* ---- round robin ---- *)
(* The code as it is (fix 633ec31: a pick is one fetch-and-add): for every schedule, every number of goroutines and of picks each,
   the cursor values the picks indexed the ring with are exactly the next j consecutive values of the
   cursor (uint64 wrap included), each once: every ring position gets its exact share. *)
Theorem C06_rr_atomic_exact : forall sched c ts, (c < two64)%N ->
  exists j, Permutation (all_seen (snd (run rr_step_atomic sched c ts))) (all_seen ts ++ consecutive c j)
            /\ fst (run rr_step_atomic sched c ts) = N.modulo (c + N.of_nat j) two64.
Proof. exact rr_atomic_exact_l. Qed.
Print Assumptions C06_rr_atomic_exact.

(* hence exact shares: k full turns of the ring from any cursor value (no uint64 wrap inside the run) use
   every ring position exactly k times, so with C06_rr_atomic_exact every target receives exactly
   k x (its number of ring slots) of the k*len lookups performed, under every interleaving *)
Theorem C06_rr_exact_shares : forall len c k p, 0 < len -> (c + N.of_nat (k * len) <= two64)%N -> p < len ->
  count_nat p (positions len (consecutive c (k * len))) = k.
Proof. exact rr_exact_shares_l. Qed.
Print Assumptions C06_rr_exact_shares.

(* per target, for ANY ring: over k full turns target t is picked exactly k x (number of ring slots holding t)
   times ([slot ring x] is what a pick that used cursor value x returns: C06_picks_are_slots) *)
Theorem C06_rr_exact_target_shares : forall (ring : list nat) d c k t, ring <> [] ->
  (c + N.of_nat (k * length ring) <= two64)%N ->
  count_nat t (map (fun p => nth p ring d) (positions (length ring) (consecutive c (k * length ring)))) = k * count_nat t ring.
Proof. exact rr_exact_target_shares_l. Qed.
Print Assumptions C06_rr_exact_target_shares.

Theorem C06_picks_are_slots : forall (ring : list nat) d cs, ring <> [] ->
  map (slot ring) cs = map Ok (map (fun p => nth p ring d) (positions (length ring) cs)).
Proof. exact picks_are_slots. Qed.
Print Assumptions C06_picks_are_slots.

(* the list Check/C06.v computes for the expected picks ([window]: walk round the ring from c mod len) is
   the list of what the picks return *)
Theorem C06_window_is_slots : forall (ring : list nat) c j, ring <> [] -> (c + N.of_nat j <= two64)%N ->
  map (slot ring) (consecutive c j) = map Ok (window ring c j).
Proof. exact window_is_slots_l. Qed.
Print Assumptions C06_window_is_slots.

(* COMPOSED with C06_rr_atomic_exact - the clause "under any interleaving round-robin still hands each target
   its exact share of the lookups performed": fresh goroutines, ANY schedule, any split of the picks among
   them: when k*len lookups have been performed target t has been returned exactly k x (its ring slots) times
   ([pickv ring d x] is what the pick that drew cursor value x returns: C06_picks_are_slots) *)
Theorem C06_rr_exact_share_every_schedule : forall sched (ring : list nat) d c ts k t,
  (c < two64)%N -> ring <> [] -> all_seen ts = [] ->
  length (all_seen (snd (run rr_step_atomic sched c ts))) = k * length ring ->
  (c + N.of_nat (k * length ring) <= two64)%N ->
  count_nat t (map (pickv ring d) (all_seen (snd (run rr_step_atomic sched c ts)))) = k * count_nat t ring.
Proof. exact rr_exact_share_every_schedule_l. Qed.
Print Assumptions C06_rr_exact_share_every_schedule.

(* ... and for ANY number of lookups (not a multiple of the ring length): between floor and ceil of the number
   of turns, times the slots - for an unweighted route (one slot per target): the counts of any two targets
   differ by at most one.  (That a weighted ring spreads a target's slots evenly, which would make this the
   floor/ceil of the configured share, is C04's subject.) *)
Theorem C06_rr_share_bounds_every_schedule : forall sched (ring : list nat) d c ts t,
  (c < two64)%N -> ring <> [] -> all_seen ts = [] ->
  let picks := all_seen (snd (run rr_step_atomic sched c ts)) in
  (c + N.of_nat (length picks) <= two64)%N ->
  (length picks / length ring) * count_nat t ring <= count_nat t (map (pickv ring d) picks)
  /\ count_nat t (map (pickv ring d) picks) <= (length picks / length ring + 1) * count_nat t ring.
Proof. exact rr_share_bounds_every_schedule_l. Qed.
Print Assumptions C06_rr_share_bounds_every_schedule.

(* ---- round robin concurrent with table replacement ---- *)
(* route.SetTable is ONE atomic publication; a table is immutable afterwards except for its own cursors,
   which only lookups advance; a lookup is GetTable (one atomic load) then the fetch-and-add on the route of
   THAT table.  Every schedule of lookups and table replacements, any number of goroutines and writers: for
   EVERY table generation g the picks it served are exactly the next j consecutive values of its cursor,
   each once (0, 1, 2, ... for a table installed during the run) - with C06_rr_exact_target_shares: every
   table hands each target its exact share of the lookups that table served. *)
Theorem C06_rr_exact_per_table : forall g sched s ts, tb_wf s ts ->
  exists j, Permutation (seen_gen g (snd (run tb_step sched s ts))) (seen_gen g ts ++ consecutive (cur_of s g) j)
            /\ cur_of (fst (run tb_step sched s ts)) g = N.modulo (cur_of s g + N.of_nat j) two64.
Proof. exact rr_exact_per_table_l. Qed.
Print Assumptions C06_rr_exact_per_table.

(* finding F-C06-2 (fixed by 633ec31): rrPicker before the fix ([rr_step_unrepaired]: plain read, later atomic add): both goroutines index slot 0,
   slot 1 is skipped, although the cursor advanced by two *)
Theorem C06_rr_torn_refuted :
  exists sched, let '(total, ts) := run rr_step_unrepaired sched 0%N [rr_init 1; rr_init 1] in
    total = 2%N /\ map rr_seen ts = [[0%N]; [0%N]] /\ ~ Permutation (all_seen ts) (consecutive 0 2).
Proof. exact rr_torn_refuted_w. Qed.
Print Assumptions C06_rr_torn_refuted.

(* ... while the cursor itself stayed exact under every interleaving even before the fix: cursor plus
   the picks still pending is invariant (mod 2^64), so when all goroutines are done it has advanced by
   exactly the number of picks *)
Theorem C06_rr_torn_counter_exact : forall sched c ts, Forall rr_wf ts ->
  Forall rr_wf (snd (run rr_step_unrepaired sched c ts)) /\
  N.modulo (fst (run rr_step_unrepaired sched c ts) + N.of_nat (pending_sum (snd (run rr_step_unrepaired sched c ts)))) two64
  = N.modulo (c + N.of_nat (pending_sum ts)) two64.
Proof. exact rr_torn_counter_exact_l. Qed.
Print Assumptions C06_rr_torn_counter_exact.

(* ---- the random picker (default strategy): its only shared state is the index source ---- *)
(* for every index source that returns indices below the ring length (one linearizable action per draw -
   math/rand's package-level generator), EVERY schedule, any number of goroutines and picks: every pick
   returns a member of the ring (a target with a positive weight), never a panic *)
Theorem C06_rnd_pick_member : forall {St} (draw : St -> nat -> St * nat) ring,
  (forall st n, 0 < n -> snd (draw st n) < n) -> ring <> [] ->
  forall sched st ts, Forall (rn_ok ring) ts -> Forall (rn_ok ring) (snd (run (rn_step draw ring) sched st ts)).
Proof. exact @rnd_pick_member_l. Qed.
Print Assumptions C06_rnd_pick_member.

(* ---- the redirect URL: the code as it is (fix ddf101c: built on a per-request copy of the target) ---- *)
(* (true by the shape of the model: [rd_step] works on the goroutine's own object; all the content is in the choice of
   [rd_step] over [rd_step_unrepaired], which the forced-schedule, serial-history and stress classes tie to the code) *)
(* EVERY schedule, any number of requests, any template ($path, $host, both, none): the shared state is
   never written, and every request that has been answered got the URL made from ITS own path and Host *)
Theorem C06_redirect_every_schedule : forall tmpl sched reqs,
  let r := run (rd_step tmpl) sched rd_start (map (fun q => rd_init (fst q) (snd q)) reqs) in
  fst r = rd_start /\
  Forall (fun l => rq_at l = DDone -> rq_got l = Some (Ok (rd_own tmpl (rq_path l) (rq_host l)))) (snd r).
Proof. exact redirect_every_schedule_results_l. Qed.
Print Assumptions C06_redirect_every_schedule.

(* ---- the redirect URL BEFORE fix ddf101c ([rd_step_unrepaired]: stored on the shared target) ---- *)
(* finding F-C06-1 (fixed by ddf101c): A looks up, B looks up, A continues: A is redirected to B's URL *)
Theorem C06_redirect_cross_talk_refuted :
  exists sched, let '(_, ts) := run (rd_step_unrepaired w_tmpl) sched rd_start [rd_init_unrepaired (bs "/from-A") (bs "old.example"); rd_init_unrepaired (bs "/from-B") (bs "old.example")] in
    rd_results_unrepaired ts = [Some (Ok (bs "http://new.example/from-B")); Some (Ok (bs "http://new.example/from-B"))]
    /\ rd_own w_tmpl (bs "/from-A") (bs "old.example") = bs "http://new.example/from-A".
Proof. exact redirect_cross_talk_refuted_w. Qed.
Print Assumptions C06_redirect_cross_talk_refuted.

(* ... while ONE target kept across any SERIAL history of requests (any template: $path, $host, both,
   none; whatever earlier requests left on the target) answers every request with the URL it would get
   alone on a fresh table: without overlap there is no cross-request effect *)
Theorem C06_redirect_serial_history_ok : forall tmpl reqs,
  rd_results_unrepaired (snd (run (rd_step_unrepaired tmpl) (serial 5 0 (length reqs)) rd_start (map (fun q => rd_init_unrepaired (fst q) (snd q)) reqs)))
  = map (fun q => Some (Ok (rd_own tmpl (fst q) (snd q)))) reqs.
Proof. exact redirect_serial_history_ok_l. Qed.
Print Assumptions C06_redirect_serial_history_ok.

(* ... and a STATIC template (no $path, no $host: the shared write stores the same value whoever performs
   it) is answered correctly under EVERY schedule, any number of requests - which delimits the open finding
   F-C06-1 exactly: templates that substitute something from the request *)
Theorem C06_redirect_static_every_schedule : forall tmpl sched reqs, static tmpl ->
  Forall (fun l => match rd_got l with
                   | None => rd_at l <> DDone
                   | Some r => r = Ok (rd_own tmpl (rd_path l) (rd_host l))
                   end)
         (snd (run (rd_step_unrepaired tmpl) sched rd_start (map (fun q => rd_init_unrepaired (fst q) (snd q)) reqs))).
Proof. exact redirect_static_every_schedule_l. Qed.
Print Assumptions C06_redirect_static_every_schedule.

(* ---- the access decision ---- *)
(* (true by the shape of the model: [ac_step] reads the rule map and writes nothing shared - AccessDeniedHTTP keeps
   nothing between calls; the tie to the code is the access-history classes, sequential and concurrent) *)
(* The verdict is C12's access function ([access_denied_http]: rule map, peer address, X-Forwarded-For values;
   net.ParseIP / net.SplitHostPort are parameters).  Any number of requests against one target, EVERY
   schedule: the rule map is never written, and the verdict each request receives is the access function of
   THAT request alone - whatever other requests (same peer with another X-Forwarded-For, same
   X-Forwarded-For from another peer) were decided before or meanwhile. *)
Theorem C06_access_every_schedule : forall pip sh sched r reqs,
  let res := run (ac_step pip sh) sched r (map ac_init reqs) in
  fst res = r /\ Forall (fun l => forall v, ac_verdict l = Some v -> v = ac_alone pip sh r (ac_rq l)) (snd res).
Proof. exact access_every_schedule_results_l. Qed.
Print Assumptions C06_access_every_schedule.

(* ---- a lookup and its shared effects ---- *)
(* [lookup]: the sequential Table.Lookup over the candidate hosts in visiting order, self-redirect skip
   included; shared state = one cursor per route and the targets' RedirectURL fields.
   (A mechanism lemma, true by the shape of the model: [lookup_pure] is [lookup] with the state threaded
   out; its content is that the picks of one lookup never read a cursor an earlier pick of the same lookup
   advanced.  The tie of "the lookup reads nothing else" to the code is the correspondence run: class
   lookup-seq runs every request twice on the real table with different cursors on all other routes and a
   different glob cache and demands the same answer.) *)
Theorem C06_lookup_pure_modulo_shared : forall hosts path host proto s,
  fst (lookup hosts path host proto s) = lookup_pure hosts path host proto (lk_cursor s).
Proof. exact lookup_pure_modulo_shared_l. Qed.
Print Assumptions C06_lookup_pure_modulo_shared.

(* the answer reads ONE cursor, that of the answering route: with any other cursor values on all other routes
   (those of skipped self-redirect routes included - their pick is made and discarded) the answer is the same;
   a miss reads none.  [rings_ok]: every candidate route can pick (one target, or a non-empty ring). *)
Theorem C06_lookup_reads_one_cursor : forall hosts path host proto f g res, rings_ok hosts ->
  lookup_pure hosts path host proto f = Ok (Some res) -> g (lk_route res) = f (lk_route res) ->
  lookup_pure hosts path host proto g = Ok (Some res).
Proof. exact lookup_reads_one_cursor_l. Qed.
Print Assumptions C06_lookup_reads_one_cursor.

Theorem C06_lookup_miss_reads_none : forall hosts path host proto f g, rings_ok hosts ->
  lookup_pure hosts path host proto f = Ok None -> lookup_pure hosts path host proto g = Ok None.
Proof. exact lookup_miss_reads_none_l. Qed.
Print Assumptions C06_lookup_miss_reads_none.

(* the only shared effect of a lookup is advancing load balancing: no target is written; every cursor is
   unchanged or advanced by exactly one; and only [touched] routes advance: the answering route AND every
   skipped self-redirect route with several targets (Table.lookup picks before Table.Lookup decides to skip:
   the skipped route's cursor has moved although it does not answer - load-balancing state, nothing else) *)
Theorem C06_lookup_frame : forall hosts path host proto s,
  lk_redirect (snd (lookup hosts path host proto s)) = lk_redirect s /\
  forall id, lk_cursor (snd (lookup hosts path host proto s)) id = lk_cursor s id \/
             (lk_cursor (snd (lookup hosts path host proto s)) id = N.modulo (lk_cursor s id + 1) two64
              /\ touched path host proto hosts 0 (fst (lookup hosts path host proto s)) id).
Proof. exact lookup_frame_l. Qed.
Print Assumptions C06_lookup_frame.

(* ---- the composed concurrent lookup ---- *)
(* Model/LookupConc.v: one request = GetTable; for every host pattern of the loaded table a Get on the SHARED glob
   cache (the coarse two-action machine), the returned glob deciding whether the host is a candidate; one
   fetch-and-add per visited candidate route on the cursor of that route OF THE LOADED TABLE; redirect URL and
   self-redirect skip on a per-request copy; writers publish new tables by one atomic SetTable.
   Any number of requests and table replacements, a cache of any size > 0, [hmatch] any glob semantics,
   EVERY schedule: a request that has been answered got exactly the pure lookup over those hosts of the table
   IT loaded whose PATTERN matches its host - whatever the cache contained and whoever else used it - with the
   cursor values it drew: a function of the request, that table and those cursor values, and of nothing else.
   (Here non-interference is a THEOREM about a machine in which the requests do share the cache, the cursors and
   the table pointer; C06_access_every_schedule and C06_redirect_every_schedule above are true by the shape
   of their step functions - the access check and the redirect build touch no shared state in the model - and
   their tie to the code is the forced-schedule, history and stress classes of the correspondence run.) *)
Theorem C06_lookup_conc_every_schedule : forall hmatch size sched tb0 reqs tbs, 0 < size ->
  let s0 := {| cm_cur := 0; cm_tables := [tb0]; cm_cursor := fun _ _ => 0%N; cm_cache := gc_new size |} in
  let r := run (c_step hmatch) sched s0 (map c_init reqs ++ map c_writer tbs) in
  Forall (fun l => forall a, c_ans l = Some a ->
            exists tb, nth_error (cm_tables (fst r)) (c_gen l) = Some tb /\ a = c_alone hmatch tb (c_req l) (c_drawn l)) (snd r).
Proof. exact lookup_conc_every_schedule_l. Qed.
Print Assumptions C06_lookup_conc_every_schedule.

(* the inductive invariant behind it, from any state satisfying it *)
Theorem C06_lookup_conc_inv : forall hmatch size sched s ts, 0 < size -> c_inv hmatch size s ts ->
  c_inv hmatch size (fst (run (c_step hmatch) sched s ts)) (snd (run (c_step hmatch) sched s ts)).
Proof. exact lookup_conc_inv_l. Qed.
Print Assumptions C06_lookup_conc_inv.
