(** C09 — transparent tunnels.  Statements only. *)
From Coq Require Import String List NArith.
From Fabio Require Import Lib.Outcome Lib.Bytes Model.BufioR Model.Tunnel Proofs.Tunnel.
Import ListNotations.

Theorem C09_placeholder : True.
Proof. exact placeholder_true. Qed.
Print Assumptions C09_placeholder.
