(** C09 — TCP, TCP+SNI, tcp-dynamic and WebSocket tunnels are transparent byte streams
    (proxy/tcp/copy_buffer.go, proxy_proto.go, tcp_proxy.go, tcp_dynamic_proxy.go,
    sni_proxy.go, proxy/ws_handler.go).
    This file contains only statements, [exact], and [Print Assumptions]. *)
From Coq Require Import String List NArith Bool.
From Fabio Require Import Lib.Outcome Lib.Bytes Model.ClientHello Model.BufioR Model.Tunnel Model.WsHijack Model.ConnDeadline Proofs.Tunnel Proofs.WsHijack Proofs.ConnDeadline.
Import ListNotations.

(* The copy loop: for every segmentation of the source (every chunking of the reads) the
   destination receives exactly the source's bytes; the loop terminates. *)
Theorem C09_copy_preserves_stream : forall src : list str, copy_buffer src = Ok (concat src).
Proof. exact copy_preserves_stream. Qed.
Print Assumptions C09_copy_preserves_stream.

Theorem C09_copy_any_buffer_size : forall m src, (0 < m)%nat ->
  copy_loop (S (src_measure src)) m src = Some (concat src).
Proof. exact copy_any_buffer_size. Qed.
Print Assumptions C09_copy_any_buffer_size.

(* The same for sources whose reads return bytes together with an error (n > 0, err != nil;
   io.EOF or another error): the chunk is written first, then the error ends the loop, so all
   bytes read are written.  [src_read_st] is the read step (chunk, rest, status). *)
Theorem C09_copy_preserves_stream_st : forall fin (src : list str), copy_buffer_st fin src = Ok (concat src).
Proof. exact copy_preserves_stream_st. Qed.
Print Assumptions C09_copy_preserves_stream_st.

Theorem C09_copy_final_read_carries_data :
  src_read_st 1 8 [[1; 2]%N; [3]%N] = ([1; 2]%N, [[]; [3]%N], 0%N) /\
  src_read_st 1 8 [[]; [3]%N] = ([3]%N, [[]], 1%N) /\
  copy_buffer_st 1 [[1; 2]%N; [3]%N] = Ok [1; 2; 3]%N /\ copy_buffer_st 9 [[1; 2]%N; [3]%N] = Ok [1; 2; 3]%N.
Proof. exact copy_st_final_read_carries_data. Qed.
Print Assumptions C09_copy_final_read_carries_data.

Theorem C09_upstream_stream_f_eq : forall k pp line segs fin,
  upstream_stream_f k pp line segs fin = upstream_stream k pp line segs.
Proof. exact upstream_stream_f_eq. Qed.
Print Assumptions C09_upstream_stream_f_eq.

(* (mechanism lemma, definitional: restates proxy_line; the content is the injectivity below) PROXY protocol v1 line: shape, and fields without a space can be read back. *)
Theorem C09_proxy_line_format : forall is4 ca sa cp sp,
  proxy_line is4 ca sa cp sp =
    bs "PROXY "%string ++ (if is4 then bs "TCP4"%string else bs "TCP6"%string) ++ bs " "%string ++ ca ++ bs " "%string ++ sa
      ++ bs " "%string ++ cp ++ bs " "%string ++ sp ++ [13%N; 10%N].
Proof. exact proxy_line_format. Qed.
Print Assumptions C09_proxy_line_format.

Theorem C09_proxy_line_injective : forall is4 is4' ca sa cp sp ca' sa' cp' sp',
  no_sep ca -> no_sep sa -> no_sep cp -> no_sep ca' -> no_sep sa' -> no_sep cp' ->
  proxy_line is4 ca sa cp sp = proxy_line is4' ca' sa' cp' sp' ->
  is4 = is4' /\ ca = ca' /\ sa = sa' /\ cp = cp' /\ sp = sp'.
Proof. exact proxy_line_injective. Qed.
Print Assumptions C09_proxy_line_injective.

(* tcp: for every segmentation the upstream receives [PROXY line] ++ the client's stream. *)
Theorem C09_tcp_upstream_stream : forall pp line segs,
  upstream_stream KTcp pp line segs = Ok (Some (spec_upstream KTcp pp line (concat segs))).
Proof. exact tcp_upstream_meets_spec. Qed.
Print Assumptions C09_tcp_upstream_stream.

(* tcp-dynamic (fix commit 341d532: the PROXY header is written when pxyproto is set): like tcp,
   for every segmentation the upstream receives [PROXY line] ++ the client's stream. *)
Theorem C09_dynamic_upstream_stream : forall pp line segs,
  upstream_stream KDyn pp line segs = Ok (Some (spec_upstream KDyn pp line (concat segs))).
Proof. exact dynamic_upstream_stream. Qed.
Print Assumptions C09_dynamic_upstream_stream.

(* F-C09-4, repaired by 341d532.  The unrepaired proxy never wrote the PROXY line: with
   pxyproto=true the upstream's stream was not the specified one for any non-empty line. *)
Theorem C09_dynamic_ignores_proxyproto_refuted : forall line segs, line <> [] ->
  upstream_stream_dyn_unrepaired segs = Ok (Some (concat segs)) /\
  upstream_stream_dyn_unrepaired segs <> Ok (Some (spec_upstream KDyn true line (concat segs))) /\
  upstream_stream KDyn true line segs = Ok (Some (spec_upstream KDyn true line (concat segs))).
Proof. exact dynamic_ignores_proxyproto_refuted. Qed.
Print Assumptions C09_dynamic_ignores_proxyproto_refuted.

(* Reading on through the bufio.Reader after Peek / ReadFull yields exactly what is pending
   (buffered bytes, then the connection), for every segmentation. *)
Theorem C09_copy_from_reader_preserves : forall b, wf b -> copy_from_reader b = Ok (pending b).
Proof. exact copy_from_reader_preserves. Qed.
Print Assumptions C09_copy_from_reader_preserves.

(* tcp+sni (fix commit c17abb6: the client->upstream copier reads through the bufio.Reader):
   for every segmentation, whenever the handshake routes the connection, the upstream receives
   [PROXY line] ++ the client's stream from its very first byte, including anything sent
   together with the ClientHello. *)
Theorem C09_sni_upstream_stream_when_routed : forall (pp : bool) (line : str) segs up,
  upstream_stream KSni pp line segs = Ok (Some up) ->
  up = spec_upstream KSni pp line (concat segs).
Proof. exact sni_upstream_stream. Qed.
Print Assumptions C09_sni_upstream_stream_when_routed.

(* Unconditionally: for every segmentation of a stream that starts with a record the handshake
   accepts (C10's sni_route_name on the whole stream, non-empty server name), the upstream
   receives [PROXY line] ++ the whole client stream.  Peek / ReadFull / the reader-copy loop
   are proved to terminate within the fuel the model supplies. *)
Theorem C09_sni_upstream_stream : forall (pp : bool) (line : str) segs n name,
  sni_route_name (concat segs) = Ok (n, name) -> name <> [] ->
  upstream_stream KSni pp line segs = Ok (Some (spec_upstream KSni pp line (concat segs))).
Proof. exact sni_upstream_stream_total. Qed.
Print Assumptions C09_sni_upstream_stream.

(* Err 77 (fuel exhausted) is unreachable, for every scripted source. *)
Theorem C09_peek_never_out_of_fuel : forall b n, peek b n <> Err 77%N.
Proof. exact peek_never_out_of_fuel. Qed.
Print Assumptions C09_peek_never_out_of_fuel.

Theorem C09_read_full_never_out_of_fuel : forall b n, read_full b n <> Err 77%N.
Proof. exact read_full_never_out_of_fuel. Qed.
Print Assumptions C09_read_full_never_out_of_fuel.

Theorem C09_upstream_stream_never_out_of_fuel : forall k pp line segs, upstream_stream k pp line segs <> Err 77%N.
Proof. exact upstream_stream_never_out_of_fuel. Qed.
Print Assumptions C09_upstream_stream_never_out_of_fuel.

Theorem C09_sni_upstream_nonvacuous :
  upstream_stream KSni false [] [wit_hello ++ [1; 2; 3]%N; [9%N]] = Ok (Some (wit_hello ++ [1; 2; 3; 9]%N)) /\
  upstream_stream KSni false [] [firstn 20 wit_hello; skipn 20 wit_hello ++ [1%N]; [2; 3]%N]
    = Ok (Some (wit_hello ++ [1; 2; 3]%N)).
Proof. exact sni_upstream_nonvacuous. Qed.
Print Assumptions C09_sni_upstream_nonvacuous.

(* F-C09-1, repaired by c17abb6.  The unrepaired copier read the raw connection: the upstream
   received the stream with exactly the bytes stuck in the reader cut out ... *)
Theorem C09_sni_unrepaired_stream : forall (pp : bool) (line : str) segs up,
  upstream_stream_sni_unrepaired pp line segs = Ok (Some up) ->
  exists data rest, up = (if pp then line else []) ++ data ++ rest /\
    data ++ sni_leftover_unrepaired (if pp then line else []) segs ++ rest = concat segs.
Proof. exact sni_unrepaired_stream. Qed.
Print Assumptions C09_sni_unrepaired_stream.

(* ... witness: hello ++ 3 bytes in one segment, then 1 byte: the 3 bytes vanished; the
   repaired model delivers them. *)
Theorem C09_sni_leftover_refuted :
  exists segs, sni_leftover_unrepaired [] segs = [1; 2; 3]%N /\
    upstream_stream_sni_unrepaired false [] segs = Ok (Some (wit_hello ++ [9%N])) /\
    concat segs = wit_hello ++ [1; 2; 3; 9]%N /\
    upstream_stream_sni_unrepaired false [] segs <> Ok (Some (spec_upstream KSni false [] (concat segs))) /\
    upstream_stream KSni false [] segs = Ok (Some (spec_upstream KSni false [] (concat segs))).
Proof. exact sni_leftover_refuted. Qed.
Print Assumptions C09_sni_leftover_refuted.

(* When the old code was right: with a segment boundary exactly at the end of the ClientHello
   record nothing is buffered beyond it, and the unrepaired copier delivered the whole stream. *)
Theorem C09_sni_boundary_nothing_buffered : forall line s1 s2 n name,
  sni_route_name (concat (s1 ++ s2)) = Ok (n, name) -> name <> [] ->
  length (concat s1) = N.to_nat n ->
  sni_leftover_unrepaired line (s1 ++ s2) = [].
Proof. exact sni_boundary_nothing_buffered. Qed.
Print Assumptions C09_sni_boundary_nothing_buffered.

Theorem C09_sni_unrepaired_right_on_boundary : forall (pp : bool) (line : str) s1 s2 n name,
  sni_route_name (concat (s1 ++ s2)) = Ok (n, name) -> name <> [] ->
  length (concat s1) = N.to_nat n ->
  upstream_stream_sni_unrepaired pp line (s1 ++ s2) = Ok (Some (spec_upstream KSni pp line (concat (s1 ++ s2)))).
Proof. exact sni_unrepaired_right_on_boundary. Qed.
Print Assumptions C09_sni_unrepaired_right_on_boundary.

Theorem C09_sni_boundary_nonvacuous :
  sni_route_name (concat ([firstn 20 wit_hello; skipn 20 wit_hello] ++ [[1; 2; 3]%N])) = Ok (nlen wit_hello, bs "foo.com"%string) /\
  length (concat [firstn 20 wit_hello; skipn 20 wit_hello]) = N.to_nat (nlen wit_hello).
Proof. exact sni_boundary_nonvacuous. Qed.
Print Assumptions C09_sni_boundary_nonvacuous.

(* The tunnel (proxy/tcp/tunnel.go, fix commit e0f2d05; inline in ws_handler.go): two copiers, a
   clean EOF closes the write side of the other connection, the tunnel ends when a direction
   reports non-nil or both are done.  For every schedule of the two copiers, every pair of
   streams, every segmentation, every order of closing and both kinds of connection (with /
   without CloseWrite): each side has received a prefix of what the other sent - every byte at
   most once, in order, unmodified ... *)
Theorem C09_tunnel_delivers_prefixes : forall sched c ceof u ueof co ci,
  let s := hrun sched (hinit c ceof u ueof co ci) in
  (exists rest, concat c = h_c_done s ++ rest) /\ (exists rest, concat u = h_u_done s ++ rest).
Proof. exact tunnel_delivers_prefixes. Qed.
Print Assumptions C09_tunnel_delivers_prefixes.

(* ... whichever side finishes - first or second - has had all of its data delivered ... *)
Theorem C09_finisher_fully_delivered : forall sched c ceof u ueof co ci,
  let s := hrun sched (hinit c ceof u ueof co ci) in
  (h_c_fin s <> None -> h_c_done s = concat c) /\ (h_u_fin s <> None -> h_u_done s = concat u).
Proof. exact finisher_fully_delivered. Qed.
Print Assumptions C09_finisher_fully_delivered.

(* ... a client that half-closes (or closes) after sending still receives the reply: with an
   upstream connection that can be closed for writing (the dialled TCP connection), whenever
   the tunnel has ended the upstream's whole output has been delivered ... *)
Theorem C09_half_close_reply_delivered : forall sched c ceof u ueof ci,
  let s := hrun sched (hinit c ceof u ueof true ci) in
  h_ended s = true -> h_u_done s = concat u.
Proof. exact half_close_reply_delivered. Qed.
Print Assumptions C09_half_close_reply_delivered.

(* ... and when both connections can be closed for writing the tunnel ends only when both
   directions are done: every byte delivered exactly once, in order, both ways. *)
Theorem C09_tunnel_end_all_delivered : forall sched c ceof u ueof,
  let s := hrun sched (hinit c ceof u ueof true true) in
  h_ended s = true -> h_c_done s = concat c /\ h_u_done s = concat u.
Proof. exact tunnel_end_all_delivered. Qed.
Print Assumptions C09_tunnel_end_all_delivered.

Theorem C09_tunnel_half_close_nonvacuous :
  let s := hrun [C2U; C2U; U2C; U2C] (hinit [[1; 2; 3]%N] true [[7; 8]%N] true true true) in
  h_ended s = true /\ h_c_done s = [1; 2; 3]%N /\ h_u_done s = [7; 8]%N.
Proof. exact tunnel_half_close_nonvacuous. Qed.
Print Assumptions C09_tunnel_half_close_nonvacuous.

(* Liveness.  Both sides end their streams and both connections can be closed for writing: every
   schedule which lets the client direction run more than [length c] times and the upstream
   direction more than [length u] times ends the tunnel with every byte delivered both ways
   (one step per chunk and one for the EOF) ... *)
Theorem C09_tunnel_fair_schedule_ends : forall sched c u,
  (length c < nC sched)%nat -> (length u < nU sched)%nat ->
  let s := hrun sched (hinit c true u true true true) in
  h_ended s = true /\ h_c_done s = concat c /\ h_u_done s = concat u.
Proof. exact tunnel_fair_schedule_ends. Qed.
Print Assumptions C09_tunnel_fair_schedule_ends.

(* ... and with an upstream that never closes the tunnel never ends, and every schedule with at
   least [length u] upstream steps has delivered the whole reply to a client that may long have
   half-closed. *)
Theorem C09_half_close_reply_delivered_live : forall sched c ceof u ci,
  (length u <= nU sched)%nat ->
  let s := hrun sched (hinit c ceof u false true ci) in
  h_ended s = false /\ h_u_done s = concat u.
Proof. exact half_close_reply_delivered_live. Qed.
Print Assumptions C09_half_close_reply_delivered_live.

(* F-C09-7 (OPEN).  The accepted connection cannot be closed for writing only - the Conn of
   github.com/armon/go-proxyproto, listeners with pxyproto=true - and the upstream half-closes
   while the client still has bytes to send: tunnel.go's closeWrite reports io.EOF, the tunnel
   ends at once, the rest of the client's stream is not delivered although the upstream still
   reads.  Region: [region_upstream_half_close] (syntactic on the scenario).  Outside it:
   C09_scenario_meets_spec. *)
Theorem C09_upstream_half_close_no_closewrite_refuted :
  (let s := hrun [U2C; U2C; C2U] (hinit [[1; 2]%N; [3]%N] true [[7; 8]%N] true true false) in
   h_ended s = true /\ h_u_fin s = Some false /\ h_u_done s = [7; 8]%N /\ h_c_done s = [] /\ h_c_done s <> [1; 2; 3]%N) /\
  (let e := tunnel_expect [1; 2; 3]%N [7; 8]%N false false false CHalf UAtConnect UHalf in
   region_upstream_half_close [1; 2; 3]%N false UAtConnect UHalf = true /\ e_up_lo e = 0%N /\ e_ends e = Some true /\
   within [] (e_up e) (e_up_lo e) (nlen' (e_up e)) = true /\
   spec_core [1; 2; 3]%N [7; 8]%N false CHalf UAtConnect UHalf [] [7; 8]%N = false /\
   spec_core [1; 2; 3]%N [7; 8]%N false CHalf UAtConnect UHalf [1; 2; 3]%N [7; 8]%N = true).
Proof. exact upstream_half_close_no_closewrite_refuted. Qed.
Print Assumptions C09_upstream_half_close_no_closewrite_refuted.

(* F-C09-2, repaired by e0f2d05.  The unrepaired tunnel ("the first finished direction ends the
   tunnel"): a schedule exists in which the client direction sees EOF first and the reply never
   arrives ... *)
Theorem C09_half_close_reply_refuted :
  exists sched req reply,
    let s := trun_unrepaired sched (tinit_unrepaired [req] true [reply] true) in
    reply <> [] /\ t_ended s = Some C2U /\ t_c_done s = req /\ t_u_done s = [] /\ t_u_done s <> reply.
Proof. exact half_close_reply_refuted. Qed.
Print Assumptions C09_half_close_reply_refuted.

(* ... the same witness on the current tunnel: it does not end at the client's EOF, and ends with
   request and reply delivered once the upstream direction is done too; on the scripted
   scenario: everything delivered, the tunnel ends, and an observation without the reply would
   fail the specification. *)
Theorem C09_half_close_reply_refuted_now_delivered :
  (let s := trun_unrepaired [C2U; C2U; U2C] (tinit_unrepaired [[1; 2; 3]%N] true [[7; 8]%N] true) in
   t_ended s = Some C2U /\ t_u_done s = [] /\ t_u_done s <> [7; 8]%N) /\
  (let s := hrun [C2U; C2U] (hinit [[1; 2; 3]%N] true [[7; 8]%N] true true true) in
   h_ended s = false /\ h_c_fin s = Some true) /\
  (let s := hrun [C2U; C2U; U2C; U2C] (hinit [[1; 2; 3]%N] true [[7; 8]%N] true true true) in
   h_ended s = true /\ h_c_done s = [1; 2; 3]%N /\ h_u_done s = [7; 8]%N).
Proof. exact half_close_reply_refuted_now_delivered. Qed.
Print Assumptions C09_half_close_reply_refuted_now_delivered.

Theorem C09_half_close_scenario_delivered :
  exists e, scenario_expect KTcp false [] [[1; 2; 3]%N] 0 false false CHalf UOnEOF [7; 8]%N 0 0 UClose = Ok e /\
    e_up e = [1; 2; 3]%N /\ e_up_lo e = 3%N /\ e_cl e = [7; 8]%N /\ e_cl_lo e = 2%N /\ e_ends e = Some true /\
    spec_b KTcp false [] [1; 2; 3]%N false CHalf UOnEOF [7; 8]%N UClose [1; 2; 3]%N [7; 8]%N = true /\
    spec_b KTcp false [] [1; 2; 3]%N false CHalf UOnEOF [7; 8]%N UClose [1; 2; 3]%N [] = false.
Proof. exact half_close_scenario_delivered. Qed.
Print Assumptions C09_half_close_scenario_delivered.

(* F-C09-5, repaired by ad209fd (proxy/tcp/server.go: the tcp server's connection wrapper got a
   delegating CloseWrite).  Before, behind that wrapper an upstream half-close ended the tunnel at
   once (closeWrite -> io.EOF) and cut what the client was still sending; the same schedule now
   goes on, the client sees EOF after the upstream's data and everything it sends is delivered.
   Still without CloseWrite, and therefore still in [region_upstream_half_close]: connections of
   listeners with pxyproto=true (github.com/armon/go-proxyproto Conn). *)
Theorem C09_upstream_half_close_refuted :
  (let s := hrun [U2C; U2C; C2U] (hinit [[1; 2]%N; [3]%N] true [[7; 8]%N] true true (wrapper_cw_unrepaired true)) in
   h_ended s = true /\ h_u_done s = [7; 8]%N /\ h_c_done s = [] /\ h_c_done s <> [1; 2; 3]%N) /\
  (let s := hrun [U2C; U2C; C2U] (hinit [[1; 2]%N; [3]%N] true [[7; 8]%N] true true (wrapper_cw true)) in
   h_ended s = false /\ h_u_fin s = Some true /\ h_c_done s = [1; 2]%N) /\
  (let s := hrun [U2C; U2C; C2U; C2U; C2U] (hinit [[1; 2]%N; [3]%N] true [[7; 8]%N] true true (wrapper_cw true)) in
   h_ended s = true /\ h_u_done s = [7; 8]%N /\ h_c_done s = [1; 2; 3]%N) /\
  (let e := tunnel_expect [1; 2; 3]%N [7; 8]%N (wrapper_cw_unrepaired true) false false CHalf UAtConnect UHalf in
   region_upstream_half_close [1; 2; 3]%N (wrapper_cw_unrepaired true) UAtConnect UHalf = true /\ e_up_lo e = 0%N /\ e_cl_eof e = Some false) /\
  (let e := tunnel_expect [1; 2; 3]%N [7; 8]%N (wrapper_cw true) false false CHalf UAtConnect UHalf in
   region_upstream_half_close [1; 2; 3]%N (wrapper_cw true) UAtConnect UHalf = false /\ e_up_lo e = 3%N /\ e_cl_lo e = 2%N /\
   e_cl_eof e = Some true /\ e_ends e = Some true).
Proof. exact upstream_half_close_refuted. Qed.
Print Assumptions C09_upstream_half_close_refuted.

(* websocket, bytes the client sends together with its upgrade request (fix commit 66d5585: the
   hijacked reader's buffered bytes are copied to the upstream after the request): for every
   split of the client's stream into what the http server had buffered and the rest, in any
   segmentation, the upstream receives the whole stream in order.  F-C09-6: the unrepaired handler
   discarded the reader and lost exactly the buffered bytes. *)
Theorem C09_ws_early_bytes_delivered : forall buffered rest,
  ws_client_stream buffered rest = Ok (buffered ++ concat rest).
Proof. exact ws_early_bytes_delivered. Qed.
Print Assumptions C09_ws_early_bytes_delivered.

Theorem C09_ws_early_bytes_refuted : forall buffered rest, buffered <> [] ->
  ws_client_stream_unrepaired buffered rest = Ok (concat rest) /\
  ws_client_stream_unrepaired buffered rest <> Ok (buffered ++ concat rest) /\
  ws_client_stream buffered rest = Ok (buffered ++ concat rest).
Proof. exact ws_early_bytes_refuted. Qed.
Print Assumptions C09_ws_early_bytes_refuted.

(* websocket (fix commit 9c9f13b: io.ReadAtLeast(out, b, 12)): however an upstream reply that
   starts with "HTTP/1.1 101" is cut into segments, the handshake read succeeds (never out of
   fuel), the forwarded chunk passes the prefix test and chunk ++ the rest the relay copies is
   the reply unmodified. *)
Theorem C09_ws_upgrade_any_segmentation : forall useg, has_prefix (concat useg) ws_101 = true ->
  exists chunk rest, ws_read_first useg = Ok (Some (chunk, rest)) /\
    has_prefix chunk ws_101 = true /\ chunk ++ concat rest = concat useg.
Proof. exact ws_upgrade_any_segmentation. Qed.
Print Assumptions C09_ws_upgrade_any_segmentation.

(* The same for everything the upstream sends (head, payload in the same chunk, what follows):
   the forwarded chunk (at most 1024 bytes) followed by what the relay copies from the rest of
   the connection is that stream, without a hole. *)
Theorem C09_ws_client_stream_any_segmentation : forall useg, has_prefix (concat useg) ws_101 = true ->
  exists chunk rest, ws_read_first useg = Ok (Some (chunk, rest)) /\
    has_prefix chunk ws_101 = true /\ (length chunk <= 1024)%nat /\
    exists c, copy_buffer rest = Ok c /\ chunk ++ c = concat useg.
Proof. exact ws_client_stream_any_segmentation. Qed.
Print Assumptions C09_ws_client_stream_any_segmentation.

Theorem C09_ws_head_with_payload_one_chunk :
  exists chunk rest, ws_read_first [wit_reply_head ++ symseq 0 3000] = Ok (Some (chunk, rest)) /\
    length chunk = 1024%nat /\ chunk ++ concat rest = wit_reply_head ++ symseq 0 3000.
Proof. exact ws_head_with_payload_one_chunk. Qed.
Print Assumptions C09_ws_head_with_payload_one_chunk.

Theorem C09_ws_read_first_never_out_of_fuel : forall useg, ws_read_first useg <> Err 77%N.
Proof. exact ws_read_first_never_out_of_fuel. Qed.
Print Assumptions C09_ws_read_first_never_out_of_fuel.

(* F-C09-3, repaired by 9c9f13b.  The unrepaired single Read: the reply arriving as
   "HTTP/1.1 1" + rest failed the prefix test; the same witness on the current model: the
   upgrade succeeds and every byte is relayed. *)
Theorem C09_ws_split_101_refuted :
  has_prefix wit_reply ws_101 = true /\
  ws_first_chunk_unrepaired (firstn 10 wit_reply) = firstn 10 wit_reply /\
  ws_upgraded_unrepaired (firstn 10 wit_reply) = false /\
  exists e, scenario_expect KWs false [] [[1; 2]%N] 0 true false CStay UAtConnect wit_reply 10 (nlen' wit_reply) UStay = Ok e /\
    e_cl e = wit_reply /\ e_cl_lo e = nlen' wit_reply /\ e_up e = [1; 2]%N /\ e_up_lo e = 2%N /\
    spec_b KWs false [] [1; 2]%N false CStay UAtConnect wit_reply UStay (e_up e) (e_cl e) = true.
Proof. exact ws_split_101_refuted. Qed.
Print Assumptions C09_ws_split_101_refuted.

(* An upstream that ends before 12 bytes have arrived: nothing is forwarded to the client. *)
Theorem C09_ws_short_reply_nothing_forwarded :
  exists e, scenario_expect KWs false [] [[1; 2]%N] 0 true false CStay UAtConnect (firstn 10 wit_reply) 4 10 UClose = Ok e /\
    e_cl e = [] /\ e_cl_hi e = 0%N /\ e_up e = [].
Proof. exact ws_short_reply_nothing_forwarded. Qed.
Print Assumptions C09_ws_short_reply_nothing_forwarded.

(* The link between the scenario analysis and the specification, with the interval semantics of
   the correspondence check: for all scenarios (proxy kind, PROXY option, segmentation,
   final-read status, close order incl. half-closes of either side, trigger, client connection
   with or without CloseWrite), every observation within the model's forced outcome - streams
   within their intervals, the tunnel ending or not as predicted - satisfies spec_b.  Verdict 4
   cannot arise from the model side.  No open finding region is left.  Excluded by name:
   [region_upstream_half_close] (the upstream half-closes while client bytes are still on
   their way behind a client connection without CloseWrite: tunnel.go ends the tunnel there and
   timing decides how much of the client's stream is cut; kept out of the generated domain) and
   [ws_head_first] (on the websocket path the harness's upstream may send only the first [whead]
   bytes before it waits for its trigger; they must contain the status line). *)
Theorem C09_tunnel_expect_meets_spec : forall up reply cw_in cerr cwait ce ut ue o_up o_cl,
  let e := tunnel_expect up reply cw_in cerr cwait ce ut ue in
  region_upstream_half_close up cw_in ut ue = false ->
  within o_up (e_up e) (e_up_lo e) (nlen' (e_up e)) = true ->
  is_prefix o_cl (e_cl e) = true -> (e_cl_lo e <= nlen' o_cl)%N ->
  spec_core up reply cwait ce ut ue o_up o_cl = true.
Proof. exact tunnel_expect_meets_spec. Qed.
Print Assumptions C09_tunnel_expect_meets_spec.

Theorem C09_scenario_meets_spec : forall k pp line segs fin cw_in cwait ce ut reply rseg1 whead ue e o_up o_cl,
  scenario_expect k pp line segs fin cw_in cwait ce ut reply rseg1 whead ue = Ok e ->
  region_upstream_half_close (spec_upstream k pp line (concat segs)) cw_in ut ue = false ->
  ws_head_first k ut whead = true ->
  within o_up (e_up e) (e_up_lo e) (nlen' (e_up e)) = true ->
  within o_cl (e_cl e) (e_cl_lo e) (e_cl_hi e) = true ->
  spec_b k pp line (concat segs) cwait ce ut reply ue o_up o_cl = true.
Proof. exact scenario_meets_spec. Qed.
Print Assumptions C09_scenario_meets_spec.

Theorem C09_scenario_meets_spec_nonvacuous :
  exists e, scenario_expect KSni true [80; 32]%N [wit_hello ++ [1; 2]%N; [3]%N] 1 false false CHalf UOnEOF [7; 8]%N 0 0 UHalf = Ok e /\
    within ([80; 32]%N ++ wit_hello ++ [1; 2; 3]%N) (e_up e) (e_up_lo e) (nlen' (e_up e)) = true /\
    within [7; 8]%N (e_cl e) (e_cl_lo e) (e_cl_hi e) = true /\
    region_upstream_half_close (spec_upstream KSni true [80; 32]%N (wit_hello ++ [1; 2; 3]%N)) false UOnEOF UHalf = false.
Proof. exact scenario_meets_spec_nonvacuous. Qed.
Print Assumptions C09_scenario_meets_spec_nonvacuous.

(* What the model itself guarantees beyond the property's statement (compared in the
   correspondence, not part of spec_b): whenever [spec_req_ends] the tunnel returns by itself,
   whenever [spec_req_eof] the client sees EOF after the upstream's data. *)
Theorem C09_model_tunnel_ends : forall up reply cw_in cerr cwait ce ut ue,
  spec_req_ends (nlen' up) (nlen' reply) cwait ce ut = true ->
  e_ends (tunnel_expect up reply cw_in cerr cwait ce ut ue) = Some true.
Proof. exact expect_ends. Qed.
Print Assumptions C09_model_tunnel_ends.

Theorem C09_model_client_sees_eof : forall up reply cw_in cerr cwait ce ut ue,
  spec_req_eof (nlen' up) (nlen' reply) cw_in cerr cwait ce ut ue = true ->
  e_cl_eof (tunnel_expect up reply cw_in cerr cwait ce ut ue) = Some true.
Proof. exact expect_eof. Qed.
Print Assumptions C09_model_client_sees_eof.

(* websocket, the client does not wait for the 101 (Model/WsHijack.v): net/http's server reads the
   connection through a 4096-byte bufio.Reader; what the client sent in the segment(s) of its
   upgrade request sits in that reader when the handler hijacks the connection (up to 4096 bytes
   minus what the last fill held of the request, plus the one byte of the server's background
   read), and ws_handler.go forwards it with io.CopyN(out, brw.Reader, Buffered()) before the
   relay copies the raw connection.
   The CopyN forwards EVERYTHING the reader holds, whatever its length (not only what fits some
   scratch buffer), reads nothing from the connection and leaves the reader empty. *)
Theorem C09_ws_buffered_bytes_all_forwarded : forall b, ws_copy_buffered b = Ok (b_buf b, 0%N, set_buf b []).
Proof. exact ws_copy_buffered_all. Qed.
Print Assumptions C09_ws_buffered_bytes_all_forwarded.

(* Reading the request head through the reader (line by line, one Read of the connection per
   fill): for every segmentation of a stream whose head - the lines up to the first blank one
   after the request line, defined on the flat stream - fits the reader, exactly the head is
   consumed and what follows stays pending, in order ... *)
Theorem C09_ws_request_head_any_segmentation : forall segs h rest,
  flat_head (concat segs) = Some (h, rest) -> (length h <= http_buf_size)%nat ->
  exists b1, http_read_head (new_reader http_buf_size segs) = Ok (Some (h, b1)) /\ pending b1 = rest.
Proof. exact http_read_head_total. Qed.
Print Assumptions C09_ws_request_head_any_segmentation.

(* ... and conversely whatever the reader hands out as the head is the head of the flat stream. *)
Theorem C09_ws_request_head_is_flat_head : forall cap segs h b1,
  http_read_head (new_reader cap segs) = Ok (Some (h, b1)) -> flat_head (concat segs) = Some (h, pending b1).
Proof. exact http_read_head_flat. Qed.
Print Assumptions C09_ws_request_head_is_flat_head.

(* The upstream's stream.  For every way the client's bytes are cut into segments and sent before
   ([early]) or after ([late]) the 101, whatever part of them the server has buffered at Hijack
   time, with or without the background byte: the upstream receives, after the request, exactly
   what follows the request head in the client's stream - from its very first byte, every byte
   once, in order. *)
Theorem C09_ws_early_bytes_any_segmentation : forall early late bg h rest,
  flat_head (concat early) = Some (h, rest) -> (length h <= http_buf_size)%nat ->
  exists fw c, ws_early_upstream early late bg = Ok (Some (h, fw, c)) /\ fw ++ c = rest ++ concat late.
Proof. exact ws_early_upstream_stream. Qed.
Print Assumptions C09_ws_early_bytes_any_segmentation.

(* Without any assumption: whenever the model yields a tunnel, the head it read is the flat
   stream's head and head ++ forwarded ++ relayed is the client's stream: nothing lost, duplicated
   or reordered. *)
Theorem C09_ws_early_bytes_sound : forall early late bg h fw c,
  ws_early_upstream early late bg = Ok (Some (h, fw, c)) ->
  flat_head (concat early) = Some (h, skipn (length h) (concat early)) /\ h ++ fw ++ c = concat (early ++ late).
Proof. exact ws_early_upstream_sound. Qed.
Print Assumptions C09_ws_early_bytes_sound.

(* Err 77 (fuel) is unreachable in ReadSlice, the head loop and the whole early path. *)
Theorem C09_read_slice_never_out_of_fuel : forall b, read_slice b <> Err 77%N.
Proof. exact read_slice_never_out_of_fuel. Qed.
Print Assumptions C09_read_slice_never_out_of_fuel.

Theorem C09_http_read_head_never_out_of_fuel : forall b, http_read_head b <> Err 77%N.
Proof. exact http_read_head_never_out_of_fuel. Qed.
Print Assumptions C09_http_read_head_never_out_of_fuel.

Theorem C09_ws_early_upstream_never_out_of_fuel : forall early late bg, ws_early_upstream early late bg <> Err 77%N.
Proof. exact ws_early_upstream_never_out_of_fuel. Qed.
Print Assumptions C09_ws_early_upstream_never_out_of_fuel.

(* Non-vacuity: 3000 bytes in the request's segment - all 3000 (3001 with the background byte) are
   in the reader at Hijack time and reach the upstream, followed by the rest; a request cut after
   7 bytes with 5000 more bytes in its second segment fills the reader to its 4096 bytes. *)
Theorem C09_ws_early_bytes_nonvacuous :
  flat_head (wit_ws_req ++ symseq 0 3000) = Some (wit_ws_req, symseq 0 3000) /\
  ws_buffered_at_hijack [wit_ws_req ++ symseq 0 3000; symseq 3000 10] false = Ok (Some 3000%nat) /\
  ws_buffered_at_hijack [wit_ws_req ++ symseq 0 3000; symseq 3000 10] true = Ok (Some 3001%nat) /\
  ws_early_upstream [wit_ws_req ++ symseq 0 3000; symseq 3000 10] [symseq 3010 5] false
    = Ok (Some (wit_ws_req, symseq 0 3000, symseq 3000 15)) /\
  ws_early_upstream [wit_ws_req ++ symseq 0 3000; symseq 3000 10] [symseq 3010 5] true
    = Ok (Some (wit_ws_req, symseq 0 3001, symseq 3001 14)) /\
  ws_buffered_at_hijack [firstn 7 wit_ws_req; skipn 7 wit_ws_req ++ symseq 0 5000] false
    = Ok (Some (4096 - length wit_ws_req)%nat) /\
  (exists fw c, ws_early_upstream [firstn 7 wit_ws_req; skipn 7 wit_ws_req ++ symseq 0 5000] [symseq 5000 9] true
    = Ok (Some (wit_ws_req, fw, c)) /\ fw ++ c = symseq 0 5009).
Proof. exact ws_early_upstream_nonvacuous. Qed.
Print Assumptions C09_ws_early_bytes_nonvacuous.

(* The link for the scenario with early bytes (interval semantics of the correspondence check):
   every observation within the model's forced outcome satisfies spec_b on the client's WHOLE
   stream.  Same named exclusions as C09_scenario_meets_spec; [e_conn]: the server did read a
   request. *)
Theorem C09_ws_early_scenario_meets_spec : forall req rsplit segs nearly bg fin cw_in cwait ce ut reply rseg1 whead ue e o_up o_cl,
  scenario_expect_ws_early req rsplit segs nearly bg fin cw_in cwait ce ut reply rseg1 whead ue = Ok e ->
  e_conn e = true ->
  region_upstream_half_close (concat segs) cw_in ut ue = false ->
  ws_head_first KWs ut whead = true ->
  within o_up (e_up e) (e_up_lo e) (nlen' (e_up e)) = true ->
  within o_cl (e_cl e) (e_cl_lo e) (e_cl_hi e) = true ->
  spec_b KWs false [] (concat segs) cwait ce ut reply ue o_up o_cl = true.
Proof. exact ws_early_scenario_meets_spec. Qed.
Print Assumptions C09_ws_early_scenario_meets_spec.

(* Non-vacuity, with the observation the specification rejects: the first 1024 of 3000 early
   bytes followed by the late ones. *)
Theorem C09_ws_early_scenario_nonvacuous :
  exists e, scenario_expect_ws_early wit_ws_req 7 [symseq 0 3000; [1; 2]%N] 1 true 0 true false CHalf UOnEOF (wit_reply ++ [7; 8]%N) 0 (nlen' wit_reply) UClose = Ok e /\
    e_conn e = true /\ e_up e = symseq 0 3000 ++ [1; 2]%N /\ e_up_lo e = 3002%N /\ e_cl_lo e = nlen' (wit_reply ++ [7; 8]%N) /\
    region_upstream_half_close (concat [symseq 0 3000; [1; 2]%N]) true UOnEOF UClose = false /\
    spec_b KWs false [] (concat [symseq 0 3000; [1; 2]%N]) false CHalf UOnEOF (wit_reply ++ [7; 8]%N) UClose
      (symseq 0 3000 ++ [1; 2]%N) (wit_reply ++ [7; 8]%N) = true /\
    spec_b KWs false [] (concat [symseq 0 3000; [1; 2]%N]) false CHalf UOnEOF (wit_reply ++ [7; 8]%N) UClose
      (symseq 0 1024 ++ [1; 2]%N) (wit_reply ++ [7; 8]%N) = false.
Proof. exact ws_early_scenario_nonvacuous. Qed.
Print Assumptions C09_ws_early_scenario_nonvacuous.

(* ---------- round 8: the listener's read / write timeouts on a tunnelled connection ----------
   (proxy/tcp/server.go, type conn: Read arms the read deadline, Write the write deadline of the
   accepted connection, each before every operation; Model/ConnDeadline.v.)  A copier whose
   operation is cut by a deadline ends the tunnel, so the property needs: an operation is cut only
   when IT had to wait for the whole timeout of its direction.  [op_cut] is the specification: a
   predicate on the single operation, without state or history. *)
Theorem C09_timeouts_cut_only_the_silent : forall rt wt ops,
  wrun rt wt fresh_conn ops = map (op_cut rt wt) ops.
Proof. exact wrun_meets_spec. Qed.
Print Assumptions C09_timeouts_cut_only_the_silent.

(* the fate of an operation does not depend on what came before it on the connection: how long
   it has lived, how many operations there were, what the other direction did in between *)
Theorem C09_timeouts_history_independent : forall rt wt pre1 pre2 o,
  last (wrun rt wt fresh_conn (pre1 ++ [o])) false = last (wrun rt wt fresh_conn (pre2 ++ [o])) false.
Proof. exact wrun_history_independent. Qed.
Print Assumptions C09_timeouts_history_independent.

(* a live tunnel is never cut: if no single operation waits as long as the timeout of its
   direction, none is cut - every number of operations, every interleaving of the two copiers,
   every combination of rt and wt, however far the conversation outlives them *)
Theorem C09_live_tunnel_never_cut_by_timeouts : forall rt wt ops,
  forallb (op_live rt wt) ops = true ->
  existsb (fun b => b) (wrun rt wt fresh_conn ops) = false.
Proof. exact live_tunnel_never_cut. Qed.
Print Assumptions C09_live_tunnel_never_cut_by_timeouts.

(* the timeouts are not switched off: a peer silent for the whole timeout is cut *)
Theorem C09_silent_peer_is_cut : forall rt wt pre o,
  (0 < timeout_of rt wt (w_kind o))%N -> (w_now o + timeout_of rt wt (w_kind o) <= w_avail o)%N ->
  last (wrun rt wt fresh_conn (pre ++ [o])) false = true.
Proof. exact silent_peer_is_cut. Qed.
Print Assumptions C09_silent_peer_is_cut.

(* the scripted conversation of the correspondence run (the proxy writes the upstream's message
   to the client just before it reads the client's answer), for every number of rounds *)
Theorem C09_conversation_never_cut : forall rt wt rounds t gap,
  (rt = 0 \/ gap < rt)%N ->
  existsb (fun b => b) (wrun rt wt fresh_conn (conversation rounds t gap)) = false.
Proof. exact conversation_never_cut. Qed.
Print Assumptions C09_conversation_never_cut.

Theorem C09_conversation_nonvacuous :
  length (conversation 12 0 150) = 24%nat /\
  forallb (op_live 800 800) (conversation 12 0 150) = true /\
  wrun 800 800 fresh_conn (conversation 12 0 150) = repeat false 24 /\
  wrun 800 800 fresh_conn (conversation 2 0 900) = [true; false; true; false].
Proof. exact conversation_nonvacuous. Qed.
Print Assumptions C09_conversation_nonvacuous.

(* what the specification rejects: a wrapper with ONE "last armed" stamp for both deadlines (not
   the code of /repo) cuts a Read of this live conversation in the middle - with both options
   set, not with one of them *)
Theorem C09_shared_deadline_stamp_refuted :
  exists ops, forallb (op_live 800 800) ops = true /\
    existsb (fun b => b) (wrun 800 800 fresh_conn ops) = false /\
    existsb (fun b => b) (wrun_shared_stamp 800 800 {| s_c := fresh_conn; s_armed := None |} ops) = true /\
    existsb (fun b => b) (wrun_shared_stamp 800 0 {| s_c := fresh_conn; s_armed := None |} ops) = false.
Proof. exact shared_stamp_refuted. Qed.
Print Assumptions C09_shared_deadline_stamp_refuted.

(* the link for the deadline log of the correspondence run (case CDeadlines): a log the model
   reproduces satisfies the specification evaluated on the observables alone *)
Theorem C09_deadline_log_meets_spec : forall rt wt log c,
  dl_agrees rt wt c log = true -> dl_spec rt wt log = true.
Proof. exact dl_agrees_meets_spec. Qed.
Print Assumptions C09_deadline_log_meets_spec.

Theorem C09_deadline_log_nonvacuous :
  dl_agrees 800 800 fresh_conn wit_log_ok = true /\ dl_spec 800 800 wit_log_ok = true /\
  dl_agrees 800 800 fresh_conn wit_log_stale = false /\ dl_spec 800 800 wit_log_stale = false.
Proof. exact dl_log_nonvacuous. Qed.
Print Assumptions C09_deadline_log_nonvacuous.
