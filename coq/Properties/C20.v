(** C20 — access logging and the fast formatters (logger/pattern.go, logger/logger.go,
    proxy/http_headers.go:150-181, uuid/format.go:36-62).
    This file contains only statements, [exact], and [Print Assumptions]. *)
From Coq Require Import String List NArith ZArith.
From Fabio Require Import Lib.Outcome Lib.Bytes Model.Logger Proofs.Logger.
Import ListNotations.
Local Open Scope N_scope.

(* atoi: for EVERY int64 except MinInt64 and every padding up to 127 the bytes appended
   are the decimal rendering: optional '-', digits only, they parse back to |i|, at
   least max(1,pad) of them and no leading zero beyond that width.  Never panics. *)
Theorem C20_atoi_spec : forall i pad : Z,
  int64_ok i = true -> (pad <= 127)%Z ->
  exists s, atoi i pad = Ok s /\ is_dec (Z.to_nat pad) i s = true.
Proof. exact atoi_spec. Qed.
Print Assumptions C20_atoi_spec.

(* what the code does outside that domain (not reachable from a log field) *)
Theorem C20_atoi_min_int64_degenerate : atoi min_int64 0 = Ok [45].
Proof. exact atoi_min_int64_degenerate. Qed.
Print Assumptions C20_atoi_min_int64_degenerate.

Theorem C20_atoi_pad_overflow_panics : atoi 7 129 = Panic /\ atoi (-7) 128 = Panic.
Proof. exact atoi_pad_overflow_panics. Qed.
Print Assumptions C20_atoi_pad_overflow_panics.

(* i32toa: every int32 *)
Theorem C20_i32toa_spec : forall n : Z,
  (- 2 ^ 31 <= n < 2 ^ 31)%Z -> exists s, i32toa n = Ok s /\ is_dec 0 n s = true.
Proof. exact i32toa_spec. Qed.
Print Assumptions C20_i32toa_spec.

(* uint16base16: all 65536 values: "0x" and four lower-case hex digits that parse back *)
Theorem C20_u16_hex_spec : forall n : N,
  n < 65536 -> exists s, uint16base16 n = Ok s /\ is_hex16 n s = true.
Proof. exact hex16_spec. Qed.
Print Assumptions C20_u16_hex_spec.

(* uuid.ToString: every byte array: the RFC 4122 text form of the first 16 bytes *)
Theorem C20_uuid_spec : forall u : str,
  (16 <= length u)%nat -> uuid_to_string u = Ok (uuid_text u).
Proof. exact uuid_spec. Qed.
Print Assumptions C20_uuid_spec.

(* the format lexer always consumes at least one character and never more than there
   is; a header item is long enough for its "$header." prefix to be cut off *)
Theorem C20_format_lexer_progress : forall s : str, s <> [] ->
  (1 <= snd (lex s) <= length s)%nat /\ (fst (lex s) = THeader -> (9 <= snd (lex s))%nat).
Proof. exact lex_progress. Qed.
Print Assumptions C20_format_lexer_progress.

(* logger.New terminates and never panics on any format string; the only failures are
   "invalid field" (1) and "empty log format" (2) *)
Theorem C20_new_logger_total : forall format : str,
  (exists p, new_logger format = Ok p /\ p <> []) \/ new_logger format = Err 1 \/ new_logger format = Err 2.
Proof. exact new_logger_total. Qed.
Print Assumptions C20_new_logger_total.

(* one Write per event: nothing when every field rendered empty, otherwise the fields
   followed by exactly one newline *)
Theorem C20_one_line_per_event : forall p e out,
  pattern_write p e = Ok out ->
  exists body, write_items p e = Ok body /\
    ((body = [] /\ out = []) \/
     (body <> [] /\ out = body ++ [10] /\ (~ In 10 body -> newlines out = 1%nat))).
Proof. exact one_line_per_event. Qed.
Print Assumptions C20_one_line_per_event.

(* ---- hostport never panics, for EVERY address: with a ':' it splits at the last one
   (the port contains none), without one the host is the whole string ---- *)
Theorem C20_hostport_total : forall s : str,
  exists h p, hostport s = Ok (h, p) /\
    (has_colon s = true -> s = h ++ [58] ++ p /\ has_colon p = false) /\
    (has_colon s = false -> h = s /\ p = []).
Proof. exact hostport_total. Qed.
Print Assumptions C20_hostport_total.

(* ---- Logger.Log never panics: any format, any addresses (with or without port), any
   zone, any headers; [event_ok] only says the numbers are ones time.Time / net/http can
   produce (instant representable by UnixNano, a Response present) ---- *)
Theorem C20_log_never_panics : forall p e, event_ok e = true -> exists out, pattern_write p e = Ok out.
Proof. exact log_never_panics. Qed.
Print Assumptions C20_log_never_panics.

Theorem C20_log_line_never_panics : forall format e, event_ok e = true ->
  (exists out, log_line format e = Ok out) \/ log_line format e = Err 1 \/ log_line format e = Err 2.
Proof. exact log_line_never_panics. Qed.
Print Assumptions C20_log_line_never_panics.

Theorem C20_log_never_panics_nonvacuous :
  event_ok (ex_event (bs "backend") 10800) = true /\
  log_line (bs "$upstream_host:$upstream_port [$time_common]") (ex_event (bs "backend") 10800)
  = Ok (bs "backend: [21/Sep/2026:14:13:20 +0000]" ++ [10]).
Proof. exact log_never_panics_nonvacuous. Qed.
Print Assumptions C20_log_never_panics_nonvacuous.

(* ---- time in UTC, for events in ANY zone: the line does not depend on the zone of
   End, and the civil fields are the canonical decimal renderings of the calendar
   fields of the instant itself, in the RFC 3339 / common-log layout ---- *)
Theorem C20_log_zone_independent : forall format e off,
  log_line format (in_zone e off) = log_line format e.
Proof. exact log_zone_independent. Qed.
Print Assumptions C20_log_zone_independent.

Theorem C20_time_rfc3339_is_utc : forall e, event_ok e = true ->
  let c := civil_of (e_unix e) in
  exists Y M D h m s,
    is_dec 4 (c_year c) Y = true /\ is_dec 2 (c_month c) M = true /\ is_dec 2 (c_day c) D = true /\
    is_dec 2 (c_hour c) h = true /\ is_dec 2 (c_min c) m = true /\ is_dec 2 (c_sec c) s = true /\
    render_field FTimeRfc e =
      Ok (Y ++ [45] ++ M ++ [45] ++ D ++ [84] ++ h ++ [58] ++ m ++ [58] ++ s ++ [90]).
Proof. exact time_rfc3339_is_utc. Qed.
Print Assumptions C20_time_rfc3339_is_utc.

Theorem C20_time_common_is_utc : forall e, event_ok e = true ->
  let c := civil_of (e_unix e) in
  exists Y Mn D h m s,
    is_dec 4 (c_year c) Y = true /\ nth_error short_month_names (Z.to_nat (c_month c)) = Some Mn /\
    (1 <= c_month c <= 12)%Z /\ is_dec 2 (c_day c) D = true /\
    is_dec 2 (c_hour c) h = true /\ is_dec 2 (c_min c) m = true /\ is_dec 2 (c_sec c) s = true /\
    render_field FTimeCommon e =
      Ok (D ++ [47] ++ Mn ++ [47] ++ Y ++ [58] ++ h ++ [58] ++ m ++ [58] ++ s ++ [32;43;48;48;48;48]).
Proof. exact time_common_is_utc. Qed.
Print Assumptions C20_time_common_is_utc.

(* ---- the two defects the code had, REPAIRED in /repo (bb1b4e7, 1da7601): the theorems
   are about the [_unrepaired] definitions kept in Model/Logger.v and also state what
   the repaired code does on the same witness ---- *)
Theorem C20_upstream_no_port_panics_refuted :
  exists format e, (exists p, new_logger format = Ok p) /\ e_upaddr e = bs "backend" /\
                   log_line_unrepaired format e = Panic /\
                   log_line format e = Ok (bs "10.0.0.7:51234 backend" ++ [10]).
Proof. exact upstream_no_port_panics_refuted. Qed.
Print Assumptions C20_upstream_no_port_panics_refuted.

Theorem C20_local_time_labelled_utc_refuted :
  exists format e1 e2,
    e_unix e1 = e_unix e2 /\ e_nsec e1 = e_nsec e2 /\ e_off e1 = 10800%Z /\ e_off e2 = 0%Z /\
    log_line_unrepaired format e1 = Ok (bs "2026-09-21T17:13:20Z [21/Sep/2026:17:13:20 +0000]" ++ [10]) /\
    log_line_unrepaired format e2 = Ok (bs "2026-09-21T14:13:20Z [21/Sep/2026:14:13:20 +0000]" ++ [10]) /\
    log_line format e1 = log_line format e2 /\
    log_line format e1 = Ok (bs "2026-09-21T14:13:20Z [21/Sep/2026:14:13:20 +0000]" ++ [10]).
Proof. exact local_time_labelled_utc_refuted. Qed.
Print Assumptions C20_local_time_labelled_utc_refuted.

(* ---- still open (F-C20-3) ---- *)
Theorem C20_ipv6_brackets_kept_refuted :
  hostport (bs "[::1]:8080") = Ok (bs "[::1]", bs "8080").
Proof. exact ipv6_brackets_kept_refuted. Qed.
Print Assumptions C20_ipv6_brackets_kept_refuted.

Theorem C20_hostport_examples :
  hostport (bs "10.0.0.7:8080") = Ok (bs "10.0.0.7", bs "8080") /\
  hostport (bs "backend") = Ok (bs "backend", []) /\ hostport_unrepaired (bs "backend") = Panic.
Proof. exact hostport_examples. Qed.
Print Assumptions C20_hostport_examples.

Theorem C20_atoi_spec_nonvacuous :
  int64_ok (-42) = true /\ atoi (-42) 4 = Ok (bs "-0042") /\ is_dec 4 (-42) (bs "-0042") = true.
Proof. exact atoi_spec_nonvacuous. Qed.
Print Assumptions C20_atoi_spec_nonvacuous.

(* ---- the declarative rendering predicate has exactly one solution: any other printer
   whose output is canonical decimal for the same number and width (strconv.FormatInt,
   fmt's %0*d) prints byte for byte what atoi / i32toa print ---- *)
Theorem C20_canonical_unique : forall (w : nat) (z : Z) (a b : str),
  is_dec w z a = true -> is_dec w z b = true -> a = b.
Proof. exact is_dec_unique. Qed.
Print Assumptions C20_canonical_unique.
