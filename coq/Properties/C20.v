(** C20 — access logging and the fast formatters (logger/pattern.go, logger/logger.go,
    proxy/http_headers.go:150-181, uuid/format.go:36-62).
    This file contains only statements, [exact], and [Print Assumptions]. *)
From Coq Require Import String List NArith ZArith Permutation.
From Fabio Require Import Lib.Outcome Lib.Bytes Model.Logger Model.LoggerSpec Proofs.Logger Proofs.LoggerCal Proofs.LoggerFields Model.LoggerServe Proofs.LoggerServe Model.LoggerSink Proofs.LoggerSink.
Import ListNotations.
Local Open Scope N_scope.

(* atoi: for EVERY int64 except MinInt64 and every padding up to 127 the bytes appended
   are the decimal rendering: optional '-', digits only, they parse back to |i|, at
   least max(1,pad) of them and no leading zero beyond that width.  Never panics. *)
Theorem C20_atoi_spec : forall i pad : Z,
  int64_ok i = true -> (pad <= 127)%Z ->
  exists s, atoi i pad = Ok s /\ is_dec (Z.to_nat pad) i s = true.
Proof. exact atoi_spec. Qed.
Print Assumptions C20_atoi_spec.

(* what the code does outside that domain (not reachable from a log field) *)
Theorem C20_atoi_min_int64_degenerate : atoi min_int64 0 = Ok [45].
Proof. exact atoi_min_int64_degenerate. Qed.
Print Assumptions C20_atoi_min_int64_degenerate.

Theorem C20_atoi_pad_overflow_panics : atoi 7 129 = Panic /\ atoi (-7) 128 = Panic.
Proof. exact atoi_pad_overflow_panics. Qed.
Print Assumptions C20_atoi_pad_overflow_panics.

(* i32toa: every int32 *)
Theorem C20_i32toa_spec : forall n : Z,
  (- 2 ^ 31 <= n < 2 ^ 31)%Z -> exists s, i32toa n = Ok s /\ is_dec 0 n s = true.
Proof. exact i32toa_spec. Qed.
Print Assumptions C20_i32toa_spec.

(* uint16base16: all 65536 values: "0x" and four lower-case hex digits that parse back *)
Theorem C20_u16_hex_spec : forall n : N,
  n < 65536 -> exists s, uint16base16 n = Ok s /\ is_hex16 n s = true.
Proof. exact hex16_spec. Qed.
Print Assumptions C20_u16_hex_spec.

(* uuid.ToString: every byte array: the RFC 4122 text form of the first 16 bytes *)
Theorem C20_uuid_spec : forall u : str,
  (16 <= length u)%nat -> uuid_to_string u = Ok (uuid_text u).
Proof. exact uuid_spec. Qed.
Print Assumptions C20_uuid_spec.

(* the format lexer (over runes; an identifier character is one of the ASCII ranges
   a-z A-Z 0-9 _ - and nothing else) always consumes at least one character and never more than there
   is; a header item is long enough for its "$header." prefix to be cut off *)
Theorem C20_format_lexer_progress : forall s : str, s <> [] ->
  (1 <= snd (lex s) <= length s)%nat /\ (fst (lex s) = THeader -> (9 <= snd (lex s))%nat).
Proof. exact lex_progress. Qed.
Print Assumptions C20_format_lexer_progress.

(* logger.New terminates and never panics on ANY byte string as format (the model decodes it to
   runes as parse does: non-ASCII text, ill-formed UTF-8 included); the only failures are
   "invalid field" (1) and "empty log format" (2) *)
Theorem C20_new_logger_total : forall format : str,
  (exists p, new_logger format = Ok p /\ p <> []) \/ new_logger format = Err 1 \/ new_logger format = Err 2.
Proof. exact new_logger_total. Qed.
Print Assumptions C20_new_logger_total.

(* one Write per event: nothing when every field rendered empty, otherwise the fields
   followed by exactly one newline *)
Theorem C20_one_line_per_event : forall p e out,
  pattern_write p e = Ok out ->
  exists body, write_items p e = Ok body /\
    ((body = [] /\ out = []) \/
     (body <> [] /\ out = body ++ [10] /\ (~ In 10 body -> newlines out = 1%nat))).
Proof. exact one_line_per_event. Qed.
Print Assumptions C20_one_line_per_event.

(* ---- hostport never panics, for EVERY address, and is the net.SplitHostPort-style split
   ([hostport_spec], Model/Logger.v: no ':' -> the whole string is the host; otherwise the last
   ':' separates the port and a host of the form "[" inner "]" loses its brackets); the spec
   has exactly one solution ---- *)
Theorem C20_hostport_total : forall s : str,
  exists h p, hostport s = Ok (h, p) /\ hostport_spec s h p.
Proof. exact hostport_total. Qed.
Print Assumptions C20_hostport_total.

Theorem C20_hostport_spec_unique : forall s h1 p1 h2 p2,
  hostport_spec s h1 p1 -> hostport_spec s h2 p2 -> h1 = h2 /\ p1 = p2.
Proof. exact hostport_spec_unique. Qed.
Print Assumptions C20_hostport_spec_unique.

(* bracketed IPv6 literals and plain host:port, as net.SplitHostPort splits them *)
Theorem C20_hostport_bracketed : forall inner port, has_colon port = false ->
  hostport ([91] ++ inner ++ [93] ++ [58] ++ port) = Ok (inner, port).
Proof. exact hostport_bracketed. Qed.
Print Assumptions C20_hostport_bracketed.

Theorem C20_hostport_plain : forall host port, has_colon port = false -> hd 0 host <> 91 ->
  hostport (host ++ [58] ++ port) = Ok (host, port).
Proof. exact hostport_plain. Qed.
Print Assumptions C20_hostport_plain.

(* ---- Logger.Log never panics: any format, any addresses (with or without port), any
   zone, any headers; [event_ok] only says the numbers are ones time.Time / net/http can
   produce (instant representable by UnixNano, a Response present) ---- *)
Theorem C20_log_never_panics : forall p e, event_ok e = true -> exists out, pattern_write p e = Ok out.
Proof. exact log_never_panics. Qed.
Print Assumptions C20_log_never_panics.

Theorem C20_log_line_never_panics : forall format e, event_ok e = true ->
  (exists out, log_line format e = Ok out) \/ log_line format e = Err 1 \/ log_line format e = Err 2.
Proof. exact log_line_never_panics. Qed.
Print Assumptions C20_log_line_never_panics.

Theorem C20_log_never_panics_nonvacuous :
  event_ok (ex_event (bs "backend") 10800) = true /\
  log_line (bs "$upstream_host:$upstream_port [$time_common]") (ex_event (bs "backend") 10800)
  = Ok (bs "backend: [21/Sep/2026:14:13:20 +0000]" ++ [10]).
Proof. exact log_never_panics_nonvacuous. Qed.
Print Assumptions C20_log_never_panics_nonvacuous.

(* ---- time in UTC, for events in ANY zone: the line does not depend on the zone of
   End, and the civil fields are the canonical decimal renderings of the calendar
   fields of the instant itself, in the RFC 3339 / common-log layout ---- *)
Theorem C20_log_zone_independent : forall format e off,
  log_line format (in_zone e off) = log_line format e.
Proof. exact log_zone_independent. Qed.
Print Assumptions C20_log_zone_independent.

Theorem C20_time_rfc3339_is_utc : forall e, event_ok e = true ->
  let c := civil_of (e_unix e) in
  exists Y M D h m s,
    is_dec 4 (c_year c) Y = true /\ is_dec 2 (c_month c) M = true /\ is_dec 2 (c_day c) D = true /\
    is_dec 2 (c_hour c) h = true /\ is_dec 2 (c_min c) m = true /\ is_dec 2 (c_sec c) s = true /\
    render_field FTimeRfc e =
      Ok (Y ++ [45] ++ M ++ [45] ++ D ++ [84] ++ h ++ [58] ++ m ++ [58] ++ s ++ [90]).
Proof. exact time_rfc3339_is_utc. Qed.
Print Assumptions C20_time_rfc3339_is_utc.

Theorem C20_time_common_is_utc : forall e, event_ok e = true ->
  let c := civil_of (e_unix e) in
  exists Y Mn D h m s,
    is_dec 4 (c_year c) Y = true /\ nth_error short_month_names (Z.to_nat (c_month c)) = Some Mn /\
    (1 <= c_month c <= 12)%Z /\ is_dec 2 (c_day c) D = true /\
    is_dec 2 (c_hour c) h = true /\ is_dec 2 (c_min c) m = true /\ is_dec 2 (c_sec c) s = true /\
    render_field FTimeCommon e =
      Ok (D ++ [47] ++ Mn ++ [47] ++ Y ++ [58] ++ h ++ [58] ++ m ++ [58] ++ s ++ [32;43;48;48;48;48]).
Proof. exact time_common_is_utc. Qed.
Print Assumptions C20_time_common_is_utc.

(* ---- the two defects the code had, REPAIRED in /repo (bb1b4e7, 1da7601): the theorems
   are about the [_unrepaired] definitions kept in Model/Logger.v and also state what
   the repaired code does on the same witness ---- *)
Theorem C20_upstream_no_port_panics_refuted :
  exists format e, (exists p, new_logger format = Ok p) /\ e_upaddr e = bs "backend" /\
                   log_line_unrepaired format e = Panic /\
                   log_line format e = Ok (bs "10.0.0.7:51234 backend" ++ [10]).
Proof. exact upstream_no_port_panics_refuted. Qed.
Print Assumptions C20_upstream_no_port_panics_refuted.

Theorem C20_local_time_labelled_utc_refuted :
  exists format e1 e2,
    e_unix e1 = e_unix e2 /\ e_nsec e1 = e_nsec e2 /\ e_off e1 = 10800%Z /\ e_off e2 = 0%Z /\
    log_line_unrepaired format e1 = Ok (bs "2026-09-21T17:13:20Z [21/Sep/2026:17:13:20 +0000]" ++ [10]) /\
    log_line_unrepaired format e2 = Ok (bs "2026-09-21T14:13:20Z [21/Sep/2026:14:13:20 +0000]" ++ [10]) /\
    log_line format e1 = log_line format e2 /\
    log_line format e1 = Ok (bs "2026-09-21T14:13:20Z [21/Sep/2026:14:13:20 +0000]" ++ [10]).
Proof. exact local_time_labelled_utc_refuted. Qed.
Print Assumptions C20_local_time_labelled_utc_refuted.

(* ---- F-C20-3, REPAIRED in /repo by 0f981ad: the theorem is about [hostport_unrepaired] and
   also states what the repaired helper returns on the witness ---- *)
Theorem C20_ipv6_brackets_kept_refuted :
  hostport_unrepaired (bs "[::1]:8080") = Ok (bs "[::1]", bs "8080") /\
  hostport (bs "[::1]:8080") = Ok (bs "::1", bs "8080").
Proof. exact ipv6_brackets_kept_refuted. Qed.
Print Assumptions C20_ipv6_brackets_kept_refuted.

Theorem C20_hostport_examples :
  hostport (bs "10.0.0.7:8080") = Ok (bs "10.0.0.7", bs "8080") /\
  hostport (bs "backend") = Ok (bs "backend", []) /\ hostport_unrepaired (bs "backend") = Panic /\
  hostport (bs "[::1]:8080") = Ok (bs "::1", bs "8080") /\
  hostport (bs "[]:80") = Ok ([], bs "80") /\ hostport (bs "[:80") = Ok (bs "[", bs "80") /\
  hostport (bs "[::1]") = Ok (bs "[:", bs "1]").
Proof. exact hostport_examples. Qed.
Print Assumptions C20_hostport_examples.

Theorem C20_atoi_spec_nonvacuous :
  int64_ok (-42) = true /\ atoi (-42) 4 = Ok (bs "-0042") /\ is_dec 4 (-42) (bs "-0042") = true.
Proof. exact atoi_spec_nonvacuous. Qed.
Print Assumptions C20_atoi_spec_nonvacuous.

(* ---- the declarative rendering predicate has exactly one solution: any other printer
   whose output is canonical decimal for the same number and width (strconv.FormatInt,
   fmt's %0*d) prints byte for byte what atoi / i32toa print ---- *)
Theorem C20_canonical_unique : forall (w : nat) (z : Z) (a b : str),
  is_dec w z a = true -> is_dec w z b = true -> a = b.
Proof. exact is_dec_unique. Qed.
Print Assumptions C20_canonical_unique.

(* ================= the calendar (was: modelled, tested, not verified) =================
   [days_from_civil] (Model/LoggerSpec.v) is the proleptic Gregorian day count written
   from the leap-year rule; [civil_of_days] is the conversion the logger's time fields
   go through.  Inverse of each other on ALL integers (no range bound): one 400-year
   era is swept by vm_compute (146097 days, 146097 dates), both sides are 400-year
   periodic. *)
Theorem C20_civil_of_days_correct : forall n : Z,
  let '(y, m, d) := civil_of_days n in
  valid_date y m d = true /\ days_from_civil y m d = n.
Proof. exact civil_of_days_correct. Qed.
Print Assumptions C20_civil_of_days_correct.

Theorem C20_civil_of_days_from_civil : forall y m d : Z,
  valid_date y m d = true -> civil_of_days (days_from_civil y m d) = (y, m, d).
Proof. exact civil_of_days_from_civil. Qed.
Print Assumptions C20_civil_of_days_from_civil.

Theorem C20_calendar_examples :
  (days_from_civil 1970 1 1 = 0 /\ days_from_civil 2000 2 29 = 11016 /\
   civil_of_days 11016 = (2000, 2, 29) /\ valid_date 1900 2 29 = false /\ valid_date 2024 2 29 = true /\
   civil_of_days (-1) = (1969, 12, 31) /\ days_from_civil 2026 9 21 * 86400 + 51200 = 1790000000)%Z.
Proof. exact calendar_examples. Qed.
Print Assumptions C20_calendar_examples.

(* what makes [days_from_civil] THE calendar rather than a formula: day 0 is 1970-01-01
   (C20_calendar_examples), a year has 366 days exactly when it is divisible by 4 and not
   by 100, or by 400, and the date after a valid date (next day of the month / first of
   the next month / 1 January) is valid and has the next day number *)
Theorem C20_year_length : forall y : Z,
  (days_before_year (y + 1) = days_before_year y + (if is_leap y then 366 else 365))%Z.
Proof. exact days_before_year_succ. Qed.
Print Assumptions C20_year_length.

Theorem C20_next_day_law : forall y m d : Z, valid_date y m d = true ->
  let '(y', m', d') := next_day y m d in
  valid_date y' m' d' = true /\ (days_from_civil y' m' d' = days_from_civil y m d + 1)%Z.
Proof. exact next_day_law. Qed.
Print Assumptions C20_next_day_law.

(* the broken-down UTC time of an instant, as the calendar spec defines it, exists
   (it is the model's) and is unique *)
Theorem C20_utc_time_exists : forall e, is_utc_time (e_unix e) (e_nsec e) (tm_of e).
Proof. exact tm_of_is_utc. Qed.
Print Assumptions C20_utc_time_exists.

Theorem C20_utc_time_unique : forall unix nsec t1 t2,
  is_utc_time unix nsec t1 -> is_utc_time unix nsec t2 -> t1 = t2.
Proof. exact utc_time_unique. Qed.
Print Assumptions C20_utc_time_unique.

(* ================= fields = the documented renderings ================= *)
(* each time field is exactly its Go layout (fixed-width positional decimal fields, month
   abbreviation, literal separators, literal "Z" / " +0000") on THE UTC time of the
   event's instant, for every event in range, in any zone *)
Theorem C20_time_fields_eq_layout : forall e, event_ok e = true ->
  exists t, is_utc_time (e_unix e) (e_nsec e) t /\
    render_field FTimeRfc e = Ok (layout_rfc3339 t) /\
    render_field FTimeRfcMs e = Ok (layout_rfc3339_ms t) /\
    render_field FTimeRfcUs e = Ok (layout_rfc3339_us t) /\
    render_field FTimeRfcNs e = Ok (layout_rfc3339_ns t) /\
    render_field FTimeCommon e = Ok (layout_common t).
Proof. exact time_fields_eq_layout. Qed.
Print Assumptions C20_time_fields_eq_layout.

(* the numeric fields are THE canonical decimal ([renders_dec]: satisfies the predicate
   and is the only string that does, so it equals what any correct printer prints) of the
   number the documentation names; S.sss: whole seconds, '.', the fraction truncated *)
Theorem C20_fields_eq_stdlib : forall e st cl,
  event_ok e = true -> e_resp e = Some (st, cl) ->
  renders_dec FRespStatus e st /\ renders_dec FRespBodySize e cl /\
  ((0 <= e_unix e)%Z ->
     let ns := (e_unix e * 1000000000 + e_nsec e)%Z in
     renders_dec FTimeUnixNs e ns /\ renders_dec FTimeUnixUs e (ns / 1000) /\
     renders_dec FTimeUnixMs e (ns / 1000000)) /\
  ((0 <= e_dur e)%Z ->
     let d := e_dur e in
     exists S, is_dec 0 (d / 1000000000) S = true /\
       (forall s', is_dec 0 (d / 1000000000) s' = true -> s' = S) /\
       render_field FRespTimeMs e = Ok (S ++ [46] ++ pad_dec 3 (d mod 1000000000 / 1000000)) /\
       render_field FRespTimeUs e = Ok (S ++ [46] ++ pad_dec 6 (d mod 1000000000 / 1000)) /\
       render_field FRespTimeNs e = Ok (S ++ [46] ++ pad_dec 9 (d mod 1000000000))).
Proof. exact numeric_fields_eq_stdlib. Qed.
Print Assumptions C20_fields_eq_stdlib.

(* positional digits are the canonical rendering at their width *)
Theorem C20_pad_dec_is_dec : forall w n, (1 <= w)%nat -> (0 <= n < 10 ^ Z.of_nat w)%Z ->
  is_dec w n (pad_dec w n) = true.
Proof. exact pad_dec_is_dec. Qed.
Print Assumptions C20_pad_dec_is_dec.

(* the string fields are the identity on the event's strings (no quoting, no escaping);
   host / port are THE net.SplitHostPort-style split of the address ([hostport_spec]) *)
Theorem C20_string_fields_identity : forall e,
  render_field FUpAddr e = Ok (e_upaddr e) /\ render_field FUpService e = Ok (e_upsvc e) /\
  (exists h p, hostport_spec (e_upaddr e) h p /\
               render_field FUpHost e = Ok h /\ render_field FUpPort e = Ok p) /\
  (forall r, e_req e = Some r ->
     render_field FRemoteAddr e = Ok (rq_remote r) /\
     render_field FRequest e = Ok (rq_method r ++ [32] ++ rq_uri r ++ [32] ++ rq_proto r) /\
     (e_requrl e = None -> render_field FRequestHost e = Ok (rq_host r)) /\
     render_field FRequestMethod e = Ok (rq_method r) /\
     render_field FRequestURI e = Ok (rq_uri r) /\ render_field FRequestProto e = Ok (rq_proto r) /\
     exists h p, hostport_spec (rq_remote r) h p /\
                 render_field FRemoteHost e = Ok h /\ render_field FRemotePort e = Ok p) /\
  (e_req e = None ->
     Forall (fun f => render_field f e = Ok [])
            [FRemoteAddr; FRemoteHost; FRemotePort; FRequest; FRequestMethod;
             FRequestURI; FRequestProto]) /\
  (forall u, e_requrl e = Some u ->
     render_field FRequestArgs e = Ok (u_rawquery u) /\ render_field FRequestScheme e = Ok (u_scheme u) /\
     render_field FRequestHost e = Ok (u_host u) /\
     render_field FRequestURL e = Ok (u_string u)) /\
  (forall u, e_upurl e = Some u ->
     render_field FUpReqScheme e = Ok (u_scheme u) /\ render_field FUpReqURI e = Ok (u_requri u) /\
     render_field FUpReqURL e = Ok (u_string u)) /\
  (e_requrl e = None -> Forall (fun f => render_field f e = Ok []) [FRequestArgs; FRequestScheme; FRequestURL]) /\
  (e_requrl e = None -> e_req e = None -> render_field FRequestHost e = Ok []) /\
  (e_upurl e = None -> Forall (fun f => render_field f e = Ok []) [FUpReqScheme; FUpReqURI; FUpReqURL]).
Proof. exact string_fields_identity. Qed.
Print Assumptions C20_string_fields_identity.

(* the line: the renderings of the parsed pattern's pieces, concatenated, then one newline
   (nothing at all when they are all empty) *)
Theorem C20_log_line_is_concat_of_fields : forall format e p,
  new_logger format = Ok p -> event_ok e = true ->
  exists pieces, Forall2 (fun it s => render_item it e = Ok s) p pieces /\
    log_line format e = Ok (match concat pieces with [] => [] | b => b ++ [10] end).
Proof. exact log_line_is_concat_of_fields. Qed.
Print Assumptions C20_log_line_is_concat_of_fields.

(* ... and those pieces spell the format, for EVERY byte string (ASCII, UTF-8 text directly
   adjacent to fields, ill-formed bytes): the source texts of the pattern's items (literal text,
   "$header." ++ name, the field's documented name) concatenate to the format as Go sees it
   after s := []rune(format) and string(s[:n]) ... *)
Theorem C20_new_logger_sound : forall format p,
  new_logger format = Ok p -> concat (map item_src p) = go_string_of_runes format.
Proof. exact new_logger_sound. Qed.
Print Assumptions C20_new_logger_sound.

(* ... which is the format string itself whenever it is well-formed UTF-8, i.e. the encoding
   of a sequence of Unicode scalar values (letters, digits, CJK, combining marks, emoji):
   []rune(string(runes)) = runes *)
Theorem C20_utf8_roundtrip : forall rs, Forall scalar rs -> utf8_decode (utf8_encode rs) = rs.
Proof. exact utf8_roundtrip. Qed.
Print Assumptions C20_utf8_roundtrip.

Theorem C20_new_logger_sound_utf8 : forall rs p,
  Forall scalar rs -> new_logger (utf8_encode rs) = Ok p ->
  concat (map item_src p) = utf8_encode rs.
Proof. exact new_logger_sound_utf8. Qed.
Print Assumptions C20_new_logger_sound_utf8.

Theorem C20_utf8_examples :
  utf8_decode (utf8_encode [36; 29366; 24577; 58; 128512; 769; 1635]) = [36; 29366; 24577; 58; 128512; 769; 1635] /\
  utf8_decode [255; 237; 160; 128; 192; 175] = [65533; 65533; 65533; 65533; 65533; 65533] /\
  utf8_encode [65533] = [239; 191; 189].
Proof. exact utf8_examples. Qed.
Print Assumptions C20_utf8_examples.

(* ================= what ServeHTTP puts into the event (proxy.responseWriter) =================
   informational responses (103 Early Hints, 102 Processing), then the final status, then the
   body: the status in the event is the FINAL one, the size the sum of the body writes *)
Theorem C20_rw_code_is_final : forall infos final ws,
  (forall c, In c ws -> exists n, c = RwWrite n) ->
  rw_run (map RwHeader infos ++ RwHeader final :: ws) = (final, fold_left sum_writes ws 0%Z).
Proof. exact rw_code_is_final. Qed.
Print Assumptions C20_rw_code_is_final.

Theorem C20_rw_example :
  rw_run [RwHeader 103; RwHeader 102; RwHeader 201; RwWrite 100; RwWrite 51] = (201, 151)%Z.
Proof. exact rw_example. Qed.
Print Assumptions C20_rw_example.

(* ================= what ServeHTTP says about the request (Model/LoggerServe.v) =================
   Event.RequestURL ($request_url / $request_scheme / $request_args) is a function of the request
   AS RECEIVED: no route option (host=dst, host=<name>, strip, prepend, target) and nothing
   addHeaders adds later (X-Forwarded-Proto, Forwarded) can influence it, for all requests/options *)
Theorem C20_request_url_depends_only_on_request : forall r o1 o2,
  sv_request_url (serve_event r o1) = sv_request_url (serve_event r o2) /\
  sv_request_url (serve_event r o1) = request_url_at r (st_received r).
Proof. exact request_url_depends_only_on_request. Qed.
Print Assumptions C20_request_url_depends_only_on_request.

Theorem C20_request_url_as_received : forall r o,
  let u := sv_request_url (serve_event r o) in
  up_host u = ir_host r /\ up_path u = ir_path r /\ up_query u = ir_query r /\
  up_scheme u = scheme_of (ir_xfp r) (ir_fwd r) (ir_ws r) (ir_tls r).
Proof. exact request_url_as_received. Qed.
Print Assumptions C20_request_url_as_received.

Theorem C20_scheme_of_cases : forall xfp fwd ws tls,
  (xfp <> [] -> fwd = [] -> scheme_of xfp fwd ws tls = xfp) /\
  (xfp <> [] -> fwd <> [] -> scheme_of xfp fwd ws tls = conn_scheme ws tls) /\
  (xfp = [] -> fwd = [] -> scheme_of xfp fwd ws tls = conn_scheme ws tls).
Proof. exact scheme_of_cases. Qed.
Print Assumptions C20_scheme_of_cases.

(* the request URL built late (where the Event is built) would describe a request the client
   never sent: what seeded change C20-G does *)
Theorem C20_lazy_request_url_refuted :
  up_host (sv_request_url (serve_event_lazy (ex_inreq []) (ex_ropt (bs "dst")))) = bs "127.0.0.1:5000" /\
  up_host (sv_request_url (serve_event (ex_inreq []) (ex_ropt (bs "dst")))) = bs "example.com" /\
  up_scheme (sv_request_url (serve_event_lazy (ex_inreq (bs "https")) (ex_ropt []))) = bs "http" /\
  up_scheme (sv_request_url (serve_event (ex_inreq (bs "https")) (ex_ropt []))) = bs "https".
Proof. exact lazy_request_url_refuted. Qed.
Print Assumptions C20_lazy_request_url_refuted.

(* F-C20-4, REPAIRED in /repo by 5d3ea07: $request_host printed Event.Request.Host, i.e. the host a
   host= route option wrote into the live request; the theorem is about [render_field_unrepaired]
   and states what the repaired renderer prints on the same Event *)
Theorem C20_request_host_rewritten_refuted :
  exists r o s,
    render_field_unrepaired FRequestHost (event_of r (serve_event r o) s) = Ok (bs "127.0.0.1:5000") /\
    ir_host r = bs "example.com" /\
    render_field FRequestHost (event_of r (serve_event r o) s) = Ok (ir_host r) /\
    sv_request_host (serve_event r o) = bs "127.0.0.1:5000".
Proof. exact request_host_rewritten_refuted. Qed.
Print Assumptions C20_request_host_rewritten_refuted.

(* every RENDERED request-side field ($request, $request_args, $request_host, $request_method,
   $request_scheme, $request_uri, $request_url, $request_proto) of the Event ServeHTTP builds is
   what a logger that saw only the request as received would print: it depends on the request
   alone, for all requests and all route options; the same for whole lines *)
Theorem C20_rendered_request_fields_as_received : forall r o s f,
  In f request_fields ->
  render_field f (event_of r (serve_event r o) s) = render_field f (received_event r s).
Proof. exact rendered_request_fields_as_received. Qed.
Print Assumptions C20_rendered_request_fields_as_received.

Theorem C20_rendered_request_fields_depend_only_on_request : forall r o1 o2 s f,
  In f request_fields ->
  render_field f (event_of r (serve_event r o1) s) = render_field f (event_of r (serve_event r o2) s).
Proof. exact rendered_request_fields_depend_only_on_request. Qed.
Print Assumptions C20_rendered_request_fields_depend_only_on_request.

Theorem C20_rendered_request_line_as_received : forall r o s p,
  Forall request_item p ->
  pattern_write p (event_of r (serve_event r o) s) = pattern_write p (received_event r s).
Proof. exact rendered_request_line_as_received. Qed.
Print Assumptions C20_rendered_request_line_as_received.

Theorem C20_request_format_is_request_side :
  exists p, new_logger request_format = Ok p /\ Forall request_item p.
Proof. exact request_format_is_request_side. Qed.
Print Assumptions C20_request_format_is_request_side.

Theorem C20_rendered_line_example :
  log_line request_format (event_of (ex_inreq (bs "https")) (serve_event (ex_inreq (bs "https")) (ex_ropt (bs "dst"))) (bs "https://example.com/foo"))
  = Ok (bs "GET /foo HTTP/1.1||example.com|GET|https|/foo|https://example.com/foo|HTTP/1.1" ++ [10]).
Proof. exact rendered_line_example. Qed.
Print Assumptions C20_rendered_line_example.

(* ---- several requests complete at the same time (Model/LoggerSink.v): one logger, one
   mutex, a writer that takes a line in arbitrary pieces, every schedule ---- *)

(* at most one Log call is inside w.Write *)
Theorem C20_sink_one_writer : forall pieces sched i j tsi tsj,
  let st := fst (sink_run Exclusive (sink_init pieces) sched) in
  nth_error (sk_threads st) i = Some tsi -> is_writing tsi = true ->
  nth_error (sk_threads st) j = Some tsj -> is_writing tsj = true -> i = j.
Proof. exact sink_exclusive_one_writer. Qed.
Print Assumptions C20_sink_one_writer.

(* at every moment the log is whole lines of distinct requests, then the beginning of the
   line of one further request or nothing *)
Theorem C20_sink_any_moment : forall pieces sched,
  let st := fst (sink_run Exclusive (sink_init pieces) sched) in
  exists whole part others,
    sk_sink st = concat whole ++ part /\
    Permutation (whole ++ others) (map (@concat N) pieces) /\
    (part = [] \/ exists l r, In l others /\ l = part ++ r).
Proof. exact sink_exclusive_any_moment. Qed.
Print Assumptions C20_sink_any_moment.

(* when all calls have returned: every line is in the log, whole, exactly once *)
Theorem C20_sink_whole_lines : forall pieces sched,
  let st := fst (sink_run Exclusive (sink_init pieces) sched) in
  all_done st = true ->
  exists perm, Permutation perm (map (@concat N) pieces) /\ sk_sink st = concat perm.
Proof. exact sink_exclusive_whole_lines. Qed.
Print Assumptions C20_sink_whole_lines.

(* ... and the lines are those Model/Logger.v renders for the events *)
Theorem C20_sink_logs_each_event_once : forall format es pieces sched,
  map (log_line format) es = map (fun ps => Ok (concat ps)) pieces ->
  let st := fst (sink_run Exclusive (sink_init pieces) sched) in
  all_done st = true ->
  exists perm, Permutation (map (@Ok str) perm) (map (log_line format) es) /\ sk_sink st = concat perm.
Proof. exact sink_exclusive_logs_each_event_once. Qed.
Print Assumptions C20_sink_logs_each_event_once.

(* no deadlock, and a call that waits waits for a call that is inside Write *)
Theorem C20_sink_progress : forall pieces sched,
  let st := fst (sink_run Exclusive (sink_init pieces) sched) in
  all_done st = false -> exists t, snd (sink_step Exclusive st t) = true.
Proof. exact sink_exclusive_progress. Qed.
Print Assumptions C20_sink_progress.

Theorem C20_sink_waits_only_for_a_writer : forall pieces sched t ps,
  let st := fst (sink_run Exclusive (sink_init pieces) sched) in
  nth_error (sk_threads st) t = Some (TReady ps) ->
  snd (sink_step Exclusive st t) = false ->
  exists j pre rest, j <> t /\ nth_error (sk_threads st) j = Some (TWriting pre rest).
Proof. exact sink_exclusive_waits_only_for_a_writer. Qed.
Print Assumptions C20_sink_waits_only_for_a_writer.

(* non-vacuity for every list of calls: the sequential schedule ends with all calls returned *)
Theorem C20_sink_sequential : forall pieces,
  let st := fst (sink_run Exclusive (sink_init pieces) (seq_sched 0 pieces)) in
  all_done st = true /\ sk_sink st = concat (map (@concat N) pieces).
Proof. exact sink_exclusive_sequential. Qed.
Print Assumptions C20_sink_sequential.

(* the test the correspondence check applies to the bytes the real writer received is
   exactly that specification; however the writer cuts the lines, nothing is lost *)
Theorem C20_whole_lines_iff : forall sink lines,
  whole_lines sink lines = true <-> exists perm, Permutation perm lines /\ sink = concat perm.
Proof. exact whole_lines_iff. Qed.
Print Assumptions C20_whole_lines_iff.

Theorem C20_carve_all_lines : forall lines cuts, map (@concat N) (carve_all cuts lines) = lines.
Proof. exact carve_all_lines. Qed.
Print Assumptions C20_carve_all_lines.

(* Log under a read lock (seeded change C20-N): two calls, each line taken in two halves *)
Theorem C20_sink_shared_lock_refuted :
  exists pieces sched,
    let st := fst (sink_run Shared (sink_init pieces) sched) in
    all_done st = true /\
    ~ exists perm, Permutation perm (map (@concat N) pieces) /\ sk_sink st = concat perm.
Proof. exact sink_shared_refuted. Qed.
Print Assumptions C20_sink_shared_lock_refuted.

(* the same calls and schedule with the mutex: the second call is parked three times *)
Theorem C20_sink_example :
  let '(st, flags) := sink_run Exclusive (sink_init ex_pieces) ex_sched in
  all_done st = true /\
  flags = [true; false; true; false; true; false; true; true; true; true; true] /\
  sk_sink st = bs "GET /alpha 200" ++ [10] ++ bs "GET /beta 404" ++ [10].
Proof. exact sink_exclusive_example. Qed.
Print Assumptions C20_sink_example.
