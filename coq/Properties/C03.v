(** C03 — a request is routed to the most specific matching route
    (route/table.go Lookup/lookup/matchingHosts/matchingHostNoGlob/
    sortHostsReverseHostPort/ReverseHostPort, route/routes.go Less, route/matcher.go).
    This file contains only statements, [exact], and [Print Assumptions]. *)
From Coq Require Import String List NArith Bool.
From Fabio Require Import Lib.Bytes Model.Glob Model.Lookup Proofs.Lookup Proofs.LookupOrder.
Import ListNotations.
Local Open Scope N_scope.

(* Routed only to a matching route: whatever Lookup selects is a route of the table whose
   host pattern matches the request host (case-insensitively, default port removed) or that
   has no host, and whose path matches under the configured matcher.  All tables, requests,
   matchers, glob on/off; outside region 5 (keys ending in ':', via [wf_keys]) and region 6
   (gobwas/glob deviating from glob semantics). *)
Theorem C03_lookup_sound : forall t host tls uri m globoff c,
  wf_keys t ->
  F_C03_gobwas_overlap globoff tls m t host uri = false ->
  lookup t host tls uri m globoff = Some c ->
  In c (all_routes t) /\ is_candidate globoff tls m host uri c = true.
Proof. exact lookup_sound. Qed.
Print Assumptions C03_lookup_sound.

(* If any candidate exists the request is routed (outside regions 5, 6; region 1 was
   repaired in /repo by 3f5e3c8 and is no longer excluded). *)
Theorem C03_lookup_complete : forall t host tls uri m globoff c,
  wf_keys t -> NoDup (keys t) ->
  F_C03_gobwas_overlap globoff tls m t host uri = false ->
  In c (all_routes t) -> is_candidate globoff tls m host uri c = true ->
  lookup t host tls uri m globoff <> None.
Proof. exact lookup_complete. Qed.
Print Assumptions C03_lookup_complete.

(* Within a host the longest matching path wins (prefix matcher; no side condition
   beyond the sort NewTable performs). *)
Theorem C03_prefix_longest_wins : forall t host tls uri globoff k p id,
  table_sorted t ->
  lookup t host tls uri MPrefix globoff = Some (k, p, id) ->
  forall p' id', In (p', id') (assoc t k) -> has_prefix uri p' = true ->
                 (length p' <= length p)%nat.
Proof. exact prefix_longest_wins. Qed.
Print Assumptions C03_prefix_longest_wins.

Theorem C03_iprefix_longest_wins_on_domain : forall t host tls uri globoff k p id,
  table_sorted t -> F_C03_iprefix_case MIPrefix t = false ->
  lookup t host tls uri MIPrefix globoff = Some (k, p, id) ->
  forall p' id', In (p', id') (assoc t k) -> has_prefix (lower uri) (lower p') = true ->
                 (length p' <= length p)%nat.
Proof. exact iprefix_longest_wins_on_domain. Qed.
Print Assumptions C03_iprefix_longest_wins_on_domain.

(* the hypotheses are what NewTable establishes / what ordinary keys satisfy *)
Theorem C03_new_table_sorted : forall defs, table_sorted (new_table defs).
Proof. exact new_table_sorted. Qed.
Print Assumptions C03_new_table_sorted.

Theorem C03_rhp_stable_nocolon : forall k, has_colon k = false -> rhp_stable k.
Proof. exact rhp_stable_nocolon. Qed.
Print Assumptions C03_rhp_stable_nocolon.

(* ---- the ordering clauses, outside the finding regions ----
   Domain: [table_ok] = host keys lower-case (addRoute lower-cases them), pairwise distinct
   (a Go map), without ':' (no explicit port in the key; keys with ports are covered by the
   correspondence run only), routes sorted as NewTable sorts them; [region ... = None] =
   none of the five open finding regions (2-6) applies; [host_bytes_ok] = every byte of the normalised
   Host is above '*' in byte order (letters, digits, '-', '.', ':' all are). *)

(* THE PROPERTY on the domain: what Lookup returns satisfies the brute-force specification:
   it is a candidate, no candidate beats it, and it is None only if there is no candidate. *)
Theorem C03_lookup_meets_spec_on_domain : forall t host tls uri m globoff,
  table_ok t -> region t globoff tls m host uri = None -> host_bytes_ok host tls ->
  spec_b t globoff tls m host uri (lookup t host tls uri m globoff) = true.
Proof. exact lookup_meets_spec_on_domain. Qed.
Print Assumptions C03_lookup_meets_spec_on_domain.

Theorem C03_lookup_unbeaten_on_domain : forall t host tls uri m globoff c,
  table_ok t -> region t globoff tls m host uri = None -> host_bytes_ok host tls ->
  lookup t host tls uri m globoff = Some c ->
  forall c', In c' (candidates t globoff tls m host uri) -> beats globoff tls m c' c = false.
Proof. exact lookup_unbeaten_on_domain. Qed.
Print Assumptions C03_lookup_unbeaten_on_domain.

(* host-less routes are used only when no host-specific route matches *)
Theorem C03_hostless_last : forall t host tls uri m globoff p id,
  table_ok t -> region t globoff tls m host uri = None -> host_bytes_ok host tls ->
  lookup t host tls uri m globoff = Some ([], p, id) ->
  forall k' p' id', In (k', p', id') (candidates t globoff tls m host uri) -> k' = [].
Proof. exact hostless_last. Qed.
Print Assumptions C03_hostless_last.

(* an exact host beats a wildcard host: if an exact-host candidate exists, the selected
   route's host is exact (region 4 excluded: the host is strictly longer than every
   matching wildcard's literal tail) *)
Theorem C03_exact_beats_wildcard : forall t host tls uri m k p id,
  table_ok t -> region t false tls m host uri = None -> host_bytes_ok host tls ->
  lookup t host tls uri m false = Some (k, p, id) ->
  forall k' p' id', In (k', p', id') (candidates t false tls m host uri) ->
    k' <> [] -> has_meta k' = false -> k <> [] -> has_meta k = false.
Proof. exact exact_beats_wildcard. Qed.
Print Assumptions C03_exact_beats_wildcard.

(* a longer host suffix beats a shorter one *)
Theorem C03_longer_suffix_first : forall t host tls uri m k p id,
  table_ok t -> region t false tls m host uri = None -> host_bytes_ok host tls ->
  lookup t host tls uri m false = Some (k, p, id) ->
  forall k' p' id', In (k', p', id') (candidates t false tls m host uri) ->
    has_meta k' = true -> has_meta k = true ->
    (length (lit_tail k') <= length (lit_tail k))%nat.
Proof. exact longer_suffix_first. Qed.
Print Assumptions C03_longer_suffix_first.

(* the order of the specification is a strict partial order *)
Theorem C03_beats_irrefl : forall globoff tls m c, beats globoff tls m c c = false.
Proof. exact beats_irrefl. Qed.
Print Assumptions C03_beats_irrefl.

Theorem C03_beats_trans : forall globoff tls m a b c,
  beats globoff tls m a b = true -> beats globoff tls m b c = true -> beats globoff tls m a c = true.
Proof. exact beats_trans. Qed.
Print Assumptions C03_beats_trans.

(* every table NewTable builds from definitions without a port in the host is in the domain *)
Theorem C03_new_table_ok : forall defs,
  (forall d, In d defs -> has_colon (fst (fst d)) = false) -> table_ok (new_table defs).
Proof. exact new_table_ok. Qed.
Print Assumptions C03_new_table_ok.

(* ---- refutations: the unchanged code violates the property here (witnesses) ---- *)
Local Open Scope string_scope.

(* F-C03-1, REPAIRED in /repo by 3f5e3c8 ("fix: upper-case Host header matches no route when
   glob matching is disabled"): the statement is about the code before the repair
   ([lookup_noglob_unrepaired], host not lower-cased); the last conjunct shows that the
   current [lookup] routes the same request. *)
Theorem C03_noglob_upper_host_refuted :
  let t := new_table [(bs "foo.com", bs "/", 0)] in
  lookup_noglob_unrepaired t (bs "FOO.com") false (bs "/") MPrefix = None
  /\ spec_b t true false MPrefix (bs "FOO.com") (bs "/") None = false
  /\ F_C03_upper_host_noglob true (bs "FOO.com") = true
  /\ candidates t true false MPrefix (bs "FOO.com") (bs "/") = [(bs "foo.com", bs "/", 0)]
  /\ lookup t (bs "FOO.com") false (bs "/") MPrefix true = Some (bs "foo.com", bs "/", 0).
Proof. exact noglob_upper_host_refuted. Qed.
Print Assumptions C03_noglob_upper_host_refuted.

Theorem C03_iprefix_longest_refuted :
  let defs := [([], bs "/fo", 0); ([], bs "/Foo", 1)] in
  ex_refuted defs (bs "foo.com") false (bs "/foo/bar") MIPrefix false (Some ([], bs "/fo", 0))
  /\ F_C03_iprefix_case MIPrefix (new_table defs) = true
  /\ In ([], bs "/Foo", 1) (candidates (new_table defs) false false MIPrefix (bs "foo.com") (bs "/foo/bar")).
Proof. exact iprefix_longest_refuted. Qed.
Print Assumptions C03_iprefix_longest_refuted.

Theorem C03_metachar_order_refuted :
  let defs := [(bs "?.foo.com", bs "/", 0); (bs "1.foo.com", bs "/", 1)] in
  ex_refuted defs (bs "1.foo.com") false (bs "/") MPrefix false (Some (bs "?.foo.com", bs "/", 0))
  /\ F_C03_metachar_order false (new_table defs) = true.
Proof. exact metachar_order_refuted. Qed.
Print Assumptions C03_metachar_order_refuted.

Theorem C03_empty_star_beats_exact_refuted :
  let defs := [(bs "*foo.com", bs "/", 0); (bs "foo.com", bs "/", 1)] in
  ex_refuted defs (bs "foo.com") false (bs "/") MPrefix false (Some (bs "*foo.com", bs "/", 0))
  /\ F_C03_empty_star false false (new_table defs) (bs "foo.com") = true.
Proof. exact empty_star_beats_exact_refuted. Qed.
Print Assumptions C03_empty_star_beats_exact_refuted.

Theorem C03_colon_key_refuted :
  let defs := [(bs "foo.com:", bs "/", 0); (bs "foo.com", bs "/", 1); (bs "*", bs "/", 2)] in
  ex_refuted defs (bs "foo.com:") false (bs "/") MPrefix false (Some (bs "foo.com", bs "/", 1))
  /\ F_C03_colon_key (new_table defs) = true
  /\ is_candidate false false MPrefix (bs "foo.com:") (bs "/") (bs "foo.com", bs "/", 1) = false.
Proof. exact colon_key_refuted. Qed.
Print Assumptions C03_colon_key_refuted.

Theorem C03_gobwas_overlap_refuted :
  let defs := [(bs "b.*.com", bs "/", 0)] in
  ex_refuted defs (bs "b.com") false (bs "/") MPrefix false (Some (bs "b.*.com", bs "/", 0))
  /\ F_C03_gobwas_overlap false false MPrefix (new_table defs) (bs "b.com") (bs "/") = true
  /\ glob_match (bs "b.*.com") (bs "b.com") = false.
Proof. exact gobwas_overlap_refuted. Qed.
Print Assumptions C03_gobwas_overlap_refuted.

(* non-vacuity: a concrete five-route table meets every hypothesis, lies outside every
   region, has five candidates, and the most specific one is selected *)
Theorem C03_nonvacuous :
  let t := new_table ex_defs in
  wf_keys t /\ NoDup (keys t) /\ table_sorted t
  /\ region t false false MPrefix (bs "B.A.FOO.COM") (bs "/x/y") = None
  /\ length (candidates t false false MPrefix (bs "B.A.FOO.COM") (bs "/x/y")) = 5%nat
  /\ lookup t (bs "B.A.FOO.COM") false (bs "/x/y") MPrefix false = Some (bs "*.a.foo.com", bs "/x", 4).
Proof. exact lookup_nonvacuous. Qed.
Print Assumptions C03_nonvacuous.

Theorem C03_on_domain_nonvacuous :
  let t := new_table ex_defs in
  table_ok t /\ region t false false MPrefix (bs "B.A.FOO.COM") (bs "/x/y") = None
  /\ host_bytes_ok (bs "B.A.FOO.COM") false.
Proof. exact on_domain_nonvacuous. Qed.
Print Assumptions C03_on_domain_nonvacuous.
