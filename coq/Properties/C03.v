(** C03 — a request is routed to the most specific matching route
    (route/table.go Lookup/lookup/matchingHosts/matchingHostNoGlob/
    sortHostsReverseHostPort/ReverseHostPort, route/routes.go Less, route/matcher.go).
    This file contains only statements, [exact], and [Print Assumptions]. *)
From Coq Require Import String List NArith Bool Sorting.Permutation.
From Fabio Require Import Lib.Outcome Lib.Bytes Model.Glob Model.Lookup Model.LookupCmd Proofs.LookupGlob Proofs.Lookup
  Proofs.LookupOrder
  Proofs.LookupCmd Proofs.LookupV6.
Import ListNotations.
Local Open Scope N_scope.

(* Routed only to a matching route: whatever Lookup selects is a route of the table whose
   host pattern matches the request host (case-insensitively, default port removed) or that
   has no host, and whose path matches under the configured matcher.  All tables, requests,
   matchers, glob on/off; [wf_keys] = the keys are lower-case (addRoute lower-cases them);
   outside region 6 (the selected route is one on whose host key or glob path gobwas/glob
   deviates from glob semantics).  Region 5 (keys ending in ':') was repaired in /repo by
   cf1c479 and is no longer excluded.  [wf_keys] holds for every table NewTable builds
   (C03_new_table_wf) and every table reachable by commands (C03_cmd_table_reachable). *)
Theorem C03_lookup_sound : forall t host tls uri m globoff c,
  wf_keys t ->
  F_C03_gobwas_overlap globoff tls m t host uri = false ->
  lookup t host tls uri m globoff = Some c ->
  In c (all_routes t) /\ is_candidate globoff tls m host uri c = true.
Proof. exact lookup_sound. Qed.
Print Assumptions C03_lookup_sound.

(* If any candidate exists the request is routed: no region excluded (regions 1 and 5 were
   repaired in /repo by 3f5e3c8 / cf1c479; gobwas/glob's deviations only ADD matches,
   C03_glob_implies_gobwas, so region 6 cannot lose a route). *)
Theorem C03_lookup_complete : forall t host tls uri m globoff c,
  wf_keys t -> NoDup (keys t) ->
  In c (all_routes t) -> is_candidate globoff tls m host uri c = true ->
  lookup t host tls uri m globoff <> None.
Proof. exact lookup_complete. Qed.
Print Assumptions C03_lookup_complete.

(* Within a host the longest matching path wins (prefix matcher; no side condition
   beyond the sort NewTable performs). *)
Theorem C03_prefix_longest_wins : forall t host tls uri globoff k p id,
  table_sorted t ->
  lookup t host tls uri MPrefix globoff = Some (k, p, id) ->
  forall p' id', In (p', id') (assoc t k) -> has_prefix uri p' = true ->
                 (length p' <= length p)%nat.
Proof. exact prefix_longest_wins. Qed.
Print Assumptions C03_prefix_longest_wins.

(* since /repo c1f03c0 (Routes.Less compares the lower-cased paths first) the same holds
   for the iprefix matcher, unconditionally *)
Theorem C03_iprefix_longest_wins : forall t host tls uri globoff k p id,
  table_sorted t ->
  lookup t host tls uri MIPrefix globoff = Some (k, p, id) ->
  forall p' id', In (p', id') (assoc t k) -> has_prefix (lower uri) (lower p') = true ->
                 (length p' <= length p)%nat.
Proof. exact iprefix_longest_wins. Qed.
Print Assumptions C03_iprefix_longest_wins.

(* What the code implements for EVERY matcher, the glob matcher included: within the host that
   answers, the first matching route in Routes.Less order (lower-cased path, then path,
   descending) is selected.  For prefix / iprefix this gives "longest matching path" (above).
   For the glob matcher the length of a pattern is no measure of specificity; the property's
   "longest path" clause has no independent reading there and is NOT covered as a specificity
   claim: this theorem is the statement of the code's rule. *)
Theorem C03_first_in_route_order : forall t host tls uri m globoff k p id,
  table_sorted t ->
  lookup t host tls uri m globoff = Some (k, p, id) ->
  forall p' id', In (p', id') (assoc t k) -> path_match m uri p' = true ->
                 route_ltb (p, id) (p', id') = false.
Proof. exact first_in_route_order. Qed.
Print Assumptions C03_first_in_route_order.

(* Table.LookupHost (TCP/SNI): the key is the lower-cased host itself, the path "/" *)
Theorem C03_lookup_host_exact : forall t host k p id,
  lookup1 t host [47] MPrefix = Some (k, p, id) ->
  k = lower host /\ In (p, id) (assoc t k) /\ has_prefix [47] p = true.
Proof. exact lookup_host_exact. Qed.
Print Assumptions C03_lookup_host_exact.

(* gobwas/glob v0.2.3 (as modelled) accepts everything glob semantics accepts *)
Theorem C03_glob_implies_gobwas : forall p s, glob_match p s = true -> gobwas_match p s = true.
Proof. exact glob_implies_gobwas. Qed.
Print Assumptions C03_glob_implies_gobwas.

(* the hypotheses of sound / complete hold for every table NewTable builds, whatever the
   definitions (ports, any pattern syntax) *)
Theorem C03_new_table_wf : forall defs, wf_keys (new_table defs) /\ NoDup (keys (new_table defs)).
Proof. exact new_table_wf. Qed.
Print Assumptions C03_new_table_wf.

(* the hypotheses are what NewTable establishes / what ordinary keys satisfy *)
Theorem C03_new_table_sorted : forall defs, table_sorted (new_table defs).
Proof. exact new_table_sorted. Qed.
Print Assumptions C03_new_table_sorted.

(* Every host handed to the per-host lookup is a key of the table that matched: for ALL
   tables and requests the host list is a permutation of the matching keys (since /repo
   cf1c479 "sorting the matching hosts no longer rewrites them"; false before, see
   C03_colon_key_refuted). *)
Theorem C03_sort_hosts_perm : forall l, Permutation (sort_hosts_rhp l) l.
Proof. exact sort_hosts_rhp_perm. Qed.
Print Assumptions C03_sort_hosts_perm.

Theorem C03_matching_hosts_perm : forall t host tls,
  Permutation (matching_hosts t host tls)
    (filter (fun k => gobwas_match (normalize_host k tls) (normalize_host host tls)) (keys t)).
Proof. exact matching_hosts_perm. Qed.
Print Assumptions C03_matching_hosts_perm.

Theorem C03_matching_host_noglob_perm : forall t host tls,
  Permutation (matching_host_noglob t host tls)
    (map lower (filter (fun k => beq (normalize_host k tls) (normalize_host host tls)) (keys t))).
Proof. exact matching_host_noglob_perm. Qed.
Print Assumptions C03_matching_host_noglob_perm.

(* ---- the ordering clauses, outside the finding regions ----
   Domain: [table_ok] = host keys lower-case (addRoute lower-cases them), pairwise distinct
   (a Go map), without ':' (no explicit port in the key; keys with ports are covered by the
   correspondence run only) and without '[' '{' '\' (syntax outside the glob model), routes
   sorted as NewTable sorts them; [region ... = None] = none of the two open finding
   regions applies: 6 (the selected route is one on which gobwas/glob deviates from glob
   semantics), 3 (two matching patterns, the one with the shorter literal host suffix has
   its metacharacter '*' / '?' at or above the host byte that precedes that suffix:
   '*' vs the bytes 33..42, '?' vs digits '-' '.' ':' ...).  There is no other hypothesis on
   the request (any host bytes, empty host included).  Regions 1, 2, 4, 5, 7 were repaired in
   /repo (3f5e3c8, c1f03c0, bc98e3c, cf1c479, 1814501) and are no longer excluded. *)

(* THE PROPERTY on the domain: what Lookup returns satisfies the brute-force specification:
   it is a candidate, no candidate beats it, and it is None only if there is no candidate. *)
Theorem C03_lookup_meets_spec_on_domain : forall t host tls uri m globoff,
  table_ok t -> region t globoff tls m host uri = None ->
  spec_b t globoff tls m host uri (lookup t host tls uri m globoff) = true.
Proof. exact lookup_meets_spec_on_domain. Qed.
Print Assumptions C03_lookup_meets_spec_on_domain.

Theorem C03_lookup_unbeaten_on_domain : forall t host tls uri m globoff c,
  table_ok t -> region t globoff tls m host uri = None ->
  lookup t host tls uri m globoff = Some c ->
  forall c', In c' (candidates t globoff tls m host uri) -> beats globoff tls m c' c = false.
Proof. exact lookup_unbeaten_on_domain. Qed.
Print Assumptions C03_lookup_unbeaten_on_domain.

(* host-less routes are used only when no host-specific route matches *)
Theorem C03_hostless_last : forall t host tls uri m globoff p id,
  table_ok t -> region t globoff tls m host uri = None ->
  lookup t host tls uri m globoff = Some ([], p, id) ->
  forall k' p' id', In (k', p', id') (candidates t globoff tls m host uri) -> k' = [].
Proof. exact hostless_last. Qed.
Print Assumptions C03_hostless_last.

(* an exact host beats every pattern, whatever its metacharacters (since /repo bc98e3c: no
   side condition on the pattern's literal tail, no condition on '?', on the host being
   non-empty (1814501), on the host bytes, or on gobwas/glob (region 6)):
   if an exact-host candidate exists, the selected route's host is exact *)
Theorem C03_exact_beats_wildcard : forall t host tls uri m k p id,
  table_ok t ->
  lookup t host tls uri m false = Some (k, p, id) ->
  forall k' p' id', In (k', p', id') (candidates t false tls m host uri) ->
    k' <> [] -> has_meta k' = false -> k <> [] /\ has_meta k = false.
Proof. exact exact_beats_wildcard. Qed.
Print Assumptions C03_exact_beats_wildcard.

(* a longer host suffix beats a shorter one *)
Theorem C03_longer_suffix_first : forall t host tls uri m k p id,
  table_ok t -> region t false tls m host uri = None ->
  lookup t host tls uri m false = Some (k, p, id) ->
  forall k' p' id', In (k', p', id') (candidates t false tls m host uri) ->
    has_meta k' = true -> has_meta k = true ->
    (length (lit_tail k') <= length (lit_tail k))%nat.
Proof. exact longer_suffix_first. Qed.
Print Assumptions C03_longer_suffix_first.

(* the order of the specification is a strict partial order *)
Theorem C03_beats_irrefl : forall globoff tls m c, beats globoff tls m c c = false.
Proof. exact beats_irrefl. Qed.
Print Assumptions C03_beats_irrefl.

Theorem C03_beats_trans : forall globoff tls m a b c,
  beats globoff tls m a b = true -> beats globoff tls m b c = true -> beats globoff tls m a c = true.
Proof. exact beats_trans. Qed.
Print Assumptions C03_beats_trans.

(* every table NewTable builds from definitions without a port and without '[' '{' '\' in the host is in the domain *)
Theorem C03_new_table_ok : forall defs,
  (forall d, In d defs -> has_colon (fst (fst d)) = false /\ existsb is_unmodelled (fst (fst d)) = false) ->
  table_ok (new_table defs).
Proof. exact new_table_ok. Qed.
Print Assumptions C03_new_table_ok.

(* ---- tables built by command sequences (route add / del / weight, C05's model of the
   command loop composed with the lookup model) ----
   Table.lookup returns nil at a route without targets and so hides the shorter routes of
   the host.  No table reachable by commands, of any length, has such a route (the sweeps of
   delRoute remove them all), so on reachable tables Lookup including that branch
   ([lookup_cmd]) is [lookup]; [wf_keys], [NoDup (keys t)] and [table_sorted] hold, so
   C03_lookup_sound / _complete / _prefix_longest_wins / _iprefix_longest_wins /
   _first_in_route_order instantiate for them. *)
Theorem C03_cmd_table_reachable : forall cs t,
  cmd_table cs = Ok t -> no_targetless t /\ wf_keys t /\ NoDup (keys t) /\ table_sorted t.
Proof. exact cmd_table_reachable. Qed.
Print Assumptions C03_cmd_table_reachable.

Theorem C03_cmd_lookup_is_lookup : forall cs t host tls uri m globoff,
  cmd_table cs = Ok t -> lookup_cmd t host tls uri m globoff = lookup t host tls uri m globoff.
Proof. exact cmd_lookup_is_lookup. Qed.
Print Assumptions C03_cmd_lookup_is_lookup.

(* ---- tables built by route.NewTableCustom (custom registry backend: the command list arrives
   as data) ----  the same command loop, so every returned table is a reachable one: no route
   without targets (a route emptied by [route del] is gone when the table is looked up), and
   the REAL Table.lookup, "no targets -> nil" branch included ([lookup_cmd]), routes every
   request that has a candidate and answers with the longest matching path of the host. *)
Theorem C03_custom_table_reachable : forall o t,
  custom_table o = Ok t -> no_targetless t /\ wf_keys t /\ NoDup (keys t) /\ table_sorted t.
Proof. exact custom_table_reachable. Qed.
Print Assumptions C03_custom_table_reachable.

Theorem C03_custom_lookup_is_lookup : forall o t host tls uri m globoff,
  custom_table o = Ok t -> lookup_cmd t host tls uri m globoff = lookup t host tls uri m globoff.
Proof. exact custom_lookup_is_lookup. Qed.
Print Assumptions C03_custom_lookup_is_lookup.

Theorem C03_custom_lookup_complete : forall o t host tls uri m globoff c,
  custom_table o = Ok t ->
  In c (all_routes t) -> is_candidate globoff tls m host uri c = true ->
  lookup_cmd t host tls uri m globoff <> None.
Proof. exact custom_lookup_complete. Qed.
Print Assumptions C03_custom_lookup_complete.

Theorem C03_custom_prefix_longest_wins : forall o t host tls uri globoff k p id,
  custom_table o = Ok t ->
  lookup_cmd t host tls uri MPrefix globoff = Some (k, p, id) ->
  forall p' id', In (p', id') (assoc t k) -> has_prefix uri p' = true ->
                 (length p' <= length p)%nat.
Proof. exact custom_prefix_longest_wins. Qed.
Print Assumptions C03_custom_prefix_longest_wins.

(* ---- refutations (witnesses): where the code violates / violated the property ---- *)
Local Open Scope string_scope.

(* non-vacuity of the four theorems above and the history of seeded change C03-O: add site
   shop.example.com/, add api-v1 shop.example.com/api, del api-v1 through NewTableCustom: the
   request for /api/users has exactly one candidate, shop.example.com/, and gets it *)
Theorem C03_custom_del_falls_to_shorter :
  let h := bs "shop.example.com" in
  let cs : list cdef :=
    [(0, bs "site", bs "shop.example.com/", bs "http://u0.internal:80/", (0, 0), []);
     (0, bs "api-v1", bs "shop.example.com/api", bs "http://u1.internal:80/", (0, 0), []);
     (1, bs "api-v1", [], [], (0, 0), [])] in
  exists t, custom_table (Some cs) = Ok t
    /\ candidates t false false MPrefix h (bs "/api/users") = [(h, bs "/", 1)]
    /\ lookup_cmd t h false (bs "/api/users") MPrefix false = Some (h, bs "/", 1)
    /\ spec_b t false false MPrefix h (bs "/api/users") (Some (h, bs "/", 1)) = true
    /\ spec_b t false false MPrefix h (bs "/api/users") None = false.
Proof. exact custom_del_falls_to_shorter. Qed.
Print Assumptions C03_custom_del_falls_to_shorter.

(* F-C03-1, REPAIRED in /repo by 3f5e3c8 ("fix: upper-case Host header matches no route when
   glob matching is disabled"): the statement is about the code before the repair
   ([lookup_noglob_unrepaired], host not lower-cased); the last conjunct shows that the
   current [lookup] routes the same request. *)
Theorem C03_noglob_upper_host_refuted :
  let t := new_table [(bs "foo.com", bs "/", 0)] in
  lookup_noglob_unrepaired t (bs "FOO.com") false (bs "/") MPrefix = None
  /\ spec_b t true false MPrefix (bs "FOO.com") (bs "/") None = false
  /\ F_C03_upper_host_noglob true (bs "FOO.com") = true
  /\ candidates t true false MPrefix (bs "FOO.com") (bs "/") = [(bs "foo.com", bs "/", 0)]
  /\ lookup t (bs "FOO.com") false (bs "/") MPrefix true = Some (bs "foo.com", bs "/", 0).
Proof. exact noglob_upper_host_refuted. Qed.
Print Assumptions C03_noglob_upper_host_refuted.

(* F-C03-2, REPAIRED in /repo by c1f03c0: about the route order before the repair
   ([new_table_unrepaired], raw byte order); the current order selects the longer /Foo. *)
Theorem C03_iprefix_longest_refuted :
  let defs := [([], bs "/fo", 0); ([], bs "/Foo", 1)] in
  let told := new_table_unrepaired defs in
  let t := new_table defs in
  lookup told (bs "foo.com") false (bs "/foo/bar") MIPrefix false = Some ([], bs "/fo", 0)
  /\ spec_b told false false MIPrefix (bs "foo.com") (bs "/foo/bar") (Some ([], bs "/fo", 0)) = false
  /\ F_C03_iprefix_case MIPrefix told = true
  /\ lookup t (bs "foo.com") false (bs "/foo/bar") MIPrefix false = Some ([], bs "/Foo", 1)
  /\ spec_b t false false MIPrefix (bs "foo.com") (bs "/foo/bar") (Some ([], bs "/Foo", 1)) = true.
Proof. exact iprefix_longest_refuted. Qed.
Print Assumptions C03_iprefix_longest_refuted.

(* F-C03-3, the part REPAIRED in /repo by bc98e3c: about the host order before the repair
   ([lookup_glob_unrepaired]): ?.foo.com was tried before the exact host 1.foo.com; the
   current Lookup selects the exact host. *)
Theorem C03_metachar_order_refuted :
  let defs := [(bs "?.foo.com", bs "/", 0); (bs "1.foo.com", bs "/", 1)] in
  let t := new_table defs in
  lookup_glob_unrepaired t (bs "1.foo.com") false (bs "/") MPrefix = Some (bs "?.foo.com", bs "/", 0)
  /\ spec_b t false false MPrefix (bs "1.foo.com") (bs "/") (Some (bs "?.foo.com", bs "/", 0)) = false
  /\ F_C03_metachar_order_unrepaired false t = true
  /\ lookup t (bs "1.foo.com") false (bs "/") MPrefix false = Some (bs "1.foo.com", bs "/", 1)
  /\ spec_b t false false MPrefix (bs "1.foo.com") (bs "/") (Some (bs "1.foo.com", bs "/", 1)) = true.
Proof. exact metachar_order_refuted. Qed.
Print Assumptions C03_metachar_order_refuted.

(* F-C03-3, what is LEFT (current code): among patterns, ?.foo.com is tried before
   *1.foo.com although the latter has the longer literal host suffix *)
Theorem C03_metachar_among_patterns_refuted :
  let defs := [(bs "?.foo.com", bs "/", 0); (bs "*1.foo.com", bs "/", 1)] in
  ex_refuted defs (bs "1.foo.com") false (bs "/") MPrefix false (Some (bs "?.foo.com", bs "/", 0))
  /\ F_C03_metachar_order false false (new_table defs) (bs "1.foo.com") = true
  /\ region (new_table defs) false false MPrefix (bs "1.foo.com") (bs "/") = Some 3.
Proof. exact metachar_among_patterns_refuted. Qed.
Print Assumptions C03_metachar_among_patterns_refuted.

(* F-C03-3, the same mechanism with '*' and a host byte in 33..42 (current code): Host a!.x,
   routes *.x/ and *!.x/ -> *.x/ (the shorter literal host suffix) is selected *)
Theorem C03_low_byte_host_refuted :
  let defs := [(bs "*.x", bs "/", 0); (bs "*!.x", bs "/", 1)] in
  ex_refuted defs (bs "a!.x") false (bs "/") MPrefix false (Some (bs "*.x", bs "/", 0))
  /\ beats false false MPrefix (bs "*!.x", bs "/", 1) (bs "*.x", bs "/", 0) = true
  /\ region (new_table defs) false false MPrefix (bs "a!.x") (bs "/") = Some 3.
Proof. exact low_byte_host_refuted. Qed.
Print Assumptions C03_low_byte_host_refuted.

(* F-C03-4, REPAIRED in /repo by bc98e3c: about the host order before the repair: *foo.com
   was tried before the exact host foo.com; the current Lookup selects the exact host. *)
Theorem C03_empty_star_beats_exact_refuted :
  let defs := [(bs "*foo.com", bs "/", 0); (bs "foo.com", bs "/", 1)] in
  let t := new_table defs in
  lookup_glob_unrepaired t (bs "foo.com") false (bs "/") MPrefix = Some (bs "*foo.com", bs "/", 0)
  /\ spec_b t false false MPrefix (bs "foo.com") (bs "/") (Some (bs "*foo.com", bs "/", 0)) = false
  /\ F_C03_empty_star false false t (bs "foo.com") = true
  /\ lookup t (bs "foo.com") false (bs "/") MPrefix false = Some (bs "foo.com", bs "/", 1)
  /\ spec_b t false false MPrefix (bs "foo.com") (bs "/") (Some (bs "foo.com", bs "/", 1)) = true.
Proof. exact empty_star_beats_exact_refuted. Qed.
Print Assumptions C03_empty_star_beats_exact_refuted.

(* F-C03-7, introduced by /repo bc98e3c and REPAIRED by its follow-up 1814501: about the
   intermediate host order ([lookup_glob_bc98e3c]): for an empty normalised host the key ""
   of the host-less routes counted as an exact host and was moved in front of the matching
   pattern "*".  The current Lookup selects the route of "*". *)
Theorem C03_empty_host_hostless_first_refuted :
  let defs := [([], bs "/", 0); (bs "*", bs "/", 1)] in
  let t := new_table defs in
  lookup_glob_bc98e3c t [] false (bs "/") MPrefix = Some ([], bs "/", 0)
  /\ spec_b t false false MPrefix [] (bs "/") (Some ([], bs "/", 0)) = false
  /\ F_C03_empty_host false t [] = true
  /\ beats false false MPrefix (bs "*", bs "/", 1) ([], bs "/", 0) = true
  /\ lookup t [] false (bs "/") MPrefix false = Some (bs "*", bs "/", 1)
  /\ spec_b t false false MPrefix [] (bs "/") (Some (bs "*", bs "/", 1)) = true.
Proof. exact empty_host_hostless_first_refuted. Qed.
Print Assumptions C03_empty_host_hostless_first_refuted.

(* F-C03-5, REPAIRED in /repo by cf1c479: about the host sort before the repair
   ([lookup_glob_double_unrepaired], ReverseHostPort mapped twice over the hosts): the key
   "foo.com:" was rewritten to "foo.com", a string that is not among the matching keys, and
   the route of a key whose pattern does not match the host was selected.  The current
   Lookup hands on the keys themselves and selects the route of "foo.com:". *)
Theorem C03_colon_key_refuted :
  let defs := [(bs "foo.com:", bs "/", 0); (bs "foo.com", bs "/", 1); (bs "*", bs "/", 2)] in
  let t := new_table defs in
  lookup_glob_double_unrepaired t (bs "foo.com:") false (bs "/") MPrefix = Some (bs "foo.com", bs "/", 1)
  /\ spec_b t false false MPrefix (bs "foo.com:") (bs "/") (Some (bs "foo.com", bs "/", 1)) = false
  /\ F_C03_colon_key t = true
  /\ is_candidate false false MPrefix (bs "foo.com:") (bs "/") (bs "foo.com", bs "/", 1) = false
  /\ matching_hosts_double_unrepaired t (bs "foo.com:") false = [bs "foo.com"; bs "*"]
  /\ matching_hosts t (bs "foo.com:") false = [bs "foo.com:"; bs "*"]
  /\ lookup t (bs "foo.com:") false (bs "/") MPrefix false = Some (bs "foo.com:", bs "/", 0)
  /\ spec_b t false false MPrefix (bs "foo.com:") (bs "/") (Some (bs "foo.com:", bs "/", 0)) = true.
Proof. exact colon_key_refuted. Qed.
Print Assumptions C03_colon_key_refuted.

Theorem C03_gobwas_overlap_refuted :
  let defs := [(bs "b.*.com", bs "/", 0)] in
  ex_refuted defs (bs "b.com") false (bs "/") MPrefix false (Some (bs "b.*.com", bs "/", 0))
  /\ F_C03_gobwas_overlap false false MPrefix (new_table defs) (bs "b.com") (bs "/") = true
  /\ glob_match (bs "b.*.com") (bs "b.com") = false.
Proof. exact gobwas_overlap_refuted. Qed.
Print Assumptions C03_gobwas_overlap_refuted.

(* non-vacuity: a concrete five-route table meets every hypothesis, lies outside every
   region, has five candidates, and the most specific one is selected *)
Theorem C03_nonvacuous :
  let t := new_table ex_defs in
  wf_keys t /\ NoDup (keys t) /\ table_sorted t
  /\ region t false false MPrefix (bs "B.A.FOO.COM") (bs "/x/y") = None
  /\ length (candidates t false false MPrefix (bs "B.A.FOO.COM") (bs "/x/y")) = 5%nat
  /\ lookup t (bs "B.A.FOO.COM") false (bs "/x/y") MPrefix false = Some (bs "*.a.foo.com", bs "/x", 4).
Proof. exact lookup_nonvacuous. Qed.
Print Assumptions C03_nonvacuous.

Theorem C03_on_domain_nonvacuous :
  let t := new_table ex_defs in
  let h := bs "B.A.FOO.COM" in
  table_ok t
  /\ region t false false MPrefix h (bs "/x/y") = None
  (* glob matching disabled, iprefix, glob matcher, TLS with the default port *)
  /\ region t true false MPrefix (bs "*.A.foo.com") (bs "/x/y") = None
  /\ lookup t (bs "*.A.foo.com") false (bs "/x/y") MPrefix true = Some (bs "*.a.foo.com", bs "/x", 4)
  /\ region t false false MIPrefix h (bs "/X/y") = None
  /\ lookup t h false (bs "/X/y") MIPrefix false = Some (bs "*.a.foo.com", bs "/x", 4)
  /\ region t false true MGlob (bs "b.a.foo.com:443") (bs "/x") = None
  /\ lookup t (bs "b.a.foo.com:443") true (bs "/x") MGlob false = Some (bs "*.a.foo.com", bs "/x", 4).
Proof. exact on_domain_nonvacuous. Qed.
Print Assumptions C03_on_domain_nonvacuous.

(* "default port removed": for EVERY host text - names, IPv4, IPv6 literals in brackets, any
   bytes - exactly the default port of the connection's kind is cut off (":80" plain, ":443"
   TLS) and the rest is only lower-cased; a host without that suffix is only lower-cased
   (so ":443" on a plain connection and ":80" on a TLS one are kept) *)
Theorem C03_default_port_removed : forall h : str,
  normalize_host (h ++ s_80)%list false = lower h /\ normalize_host (h ++ s_443)%list true = lower h.
Proof. exact (fun h => conj (normalize_default_port_plain h) (normalize_default_port_tls h)). Qed.
Print Assumptions C03_default_port_removed.

Theorem C03_only_default_port_removed : forall h : str,
  (has_suffix h s_80 = false -> normalize_host h false = lower h)
  /\ (has_suffix h s_443 = false -> normalize_host h true = lower h).
Proof. exact (fun h => conj (normalize_other_plain h) (normalize_other_tls h)). Qed.
Print Assumptions C03_only_default_port_removed.

(* IPv6 literals: with literal host keys the route "[a]/" is a candidate of a request for
   "[a]:80" (plain) resp. "[a]:443" (TLS), the brackets stay; the other kind's default port is
   not removed.  (With glob matching enabled a bracketed key is a character class, outside the
   glob model.) *)
Theorem C03_ipv6_literal_default_port : forall (a : str) tls,
  spec_host_match true tls (91 :: a ++ [93])%list ((91 :: a ++ [93]) ++ (if tls then s_443 else s_80))%list = true.
Proof. exact v6_literal_default_port. Qed.
Print Assumptions C03_ipv6_literal_default_port.

Theorem C03_ipv6_literal_other_port_kept : forall a : str,
  normalize_host ((91 :: a ++ [93]) ++ s_443)%list false = lower ((91 :: a ++ [93]) ++ s_443)%list
  /\ normalize_host ((91 :: a ++ [93]) ++ s_80)%list true = lower ((91 :: a ++ [93]) ++ s_80)%list.
Proof. exact v6_literal_other_port_kept. Qed.
Print Assumptions C03_ipv6_literal_other_port_kept.

(* ReverseHostPort (the sort key of matchingHosts) on bracketed literals: "[a]:p" is split by
   net.SplitHostPort into a and p, the address is reversed and re-joined (brackets again when it
   has a colon); "[a]" alone is no host:port and is reversed as a whole *)
Theorem C03_reverse_host_port_ipv6 : forall a p : str,
  a <> [] -> p <> [] ->
  ~ In 91 a -> ~ In 93 a -> ~ In 58 p -> ~ In 91 p -> ~ In 93 p ->
  reverse_host_port (91 :: a ++ 93 :: 58 :: p)%list = join_host_port (rev a) p.
Proof. exact reverse_host_port_v6. Qed.
Print Assumptions C03_reverse_host_port_ipv6.

Theorem C03_reverse_host_port_ipv6_noport : forall a : str,
  ~ In 93 a -> reverse_host_port (91 :: a ++ [93])%list = rev (91 :: a ++ [93])%list.
Proof. exact reverse_host_port_v6_noport. Qed.
Print Assumptions C03_reverse_host_port_ipv6_noport.
