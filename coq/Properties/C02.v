(** C02 - table replacement is atomic, keeps the last good table, never crashes
    (route/table.go SetTable/GetTable/NewTable/NewTableCustom/Lookup, route/route.go weighTargets,
    route/picker.go, main.go watchBackend, registry/custom/custom.go).
    Statements, [exact] and the assumption printouts only.  The models composed here are C05's
    (parser + command layer), C04's (binary64 weights, ring, pickers), C03's (host / path matching)
    and C01's (update loop); see Model/TableSwap.v. *)
From Coq Require Import String List NArith ZArith Bool Permutation.
From Fabio Require Import Lib.Outcome Lib.Bytes Model.WtF64 Model.TableCmd Model.RouteText
     Model.Weigh Model.WeighF Model.Ring Model.Pick Model.TableSwap Proofs.TableSwap.
From Fabio Require Model.Lookup Model.Watch Model.ConsulSpec Proofs.Watch Model.TcpDynamic Proofs.TcpDynamic.
Import ListNotations.

(* ============ (1) every lookup is answered from ONE complete installed table ============ *)

(* Any table type, any lookup function of (table, request, picker state), any schedule of
   SetTable (nil included) / GetTable / Lookup actions of any number of writers and readers, any
   lookup in it: its result is [look] of the table that was in the cell when its reader called
   GetTable last - never of anything stored later, never of a mixture.  The schedules include the
   read-only users of route.GetTable() ([ARead]: admin API routes handler, Table.String / Dump,
   logRoutes, the gRPC pool's and the tcp-dynamic listener's scans) anywhere. *)
Theorem C02_lookup_single_snapshot :
  forall (T Q C R : Type) (look : T -> Q -> C -> R) t0 p1 p2 r q c rest,
  no_load T Q C r p2 = true ->
  nth_error (run_cell T Q C R look t0 (no_locals T) (p1 ++ ALoad r :: p2 ++ ALookup r q c :: rest))
            (count_lookups T Q C (p1 ++ ALoad r :: p2))
  = Some (r, q, c, Some (look (current T Q C t0 p1) q c)).
Proof. exact lookup_single_snapshot. Qed.
Print Assumptions C02_lookup_single_snapshot.

(* ... and that table is the initial one or one somebody passed to SetTable, complete *)
Theorem C02_snapshot_is_installed : forall (T Q C : Type) t0 (p : list (action T Q C)),
  installed T Q C t0 p (current T Q C t0 p).
Proof. exact current_installed. Qed.
Print Assumptions C02_snapshot_is_installed.

(* the decomposition used above exists for every lookup of every schedule *)
Theorem C02_schedule_decompose : forall (T Q C : Type) r (p : list (action T Q C)),
  no_load T Q C r p = true \/ exists p1 p2, p = p1 ++ ALoad r :: p2 /\ no_load T Q C r p2 = true.
Proof. exact schedule_decompose. Qed.
Print Assumptions C02_schedule_decompose.

(* MECHANISM LEMMAS, not results.  "The published table is immutable" is a MODELLING ASSUMPTION:
   [ARead] is defined as a no-op of the cell, so these two statements restate that definition (they
   say which reorderings of a schedule the model considers equal).  That the real readers do not write
   the table is checked by the correspondence run only: the schedules are replayed on the real
   handlers and run concurrently with lookups under the race detector (seeded C02-E). *)
Theorem C02_readers_do_not_change_table : forall (T Q C R : Type) (look : T -> Q -> C -> R) s cell l,
  run_cell T Q C R look cell l s = run_cell T Q C R look cell l (without_reads T Q C s)
  /\ exec_cell T Q C R look cell l s = exec_cell T Q C R look cell l (without_reads T Q C s).
Proof. exact readers_do_not_change_table. Qed.
Print Assumptions C02_readers_do_not_change_table.

Theorem C02_readers_do_not_change_current : forall (T Q C : Type) t0 (s : list (action T Q C)),
  current T Q C t0 s = current T Q C t0 (without_reads T Q C s).
Proof. exact readers_do_not_change_current. Qed.
Print Assumptions C02_readers_do_not_change_current.

(* mechanism lemma (one unfolding of the model's SetTable); tied to the code by the forced schedules *)
Theorem C02_set_nil_ignored : forall (T : Type) (cell : T), set_table T cell None = cell.
Proof. exact set_nil_ignored. Qed.
Print Assumptions C02_set_nil_ignored.

Theorem C02_nil_store_invisible : forall (T Q C : Type) t0 (p s : list (action T Q C)),
  current T Q C t0 (p ++ ASet None :: s) = current T Q C t0 (p ++ s).
Proof. exact nil_store_invisible. Qed.
Print Assumptions C02_nil_store_invisible.

(* PREVIOUS OR NEW, literally.  Take any SetTable(Tn) in any schedule and the stretch up to the next
   successful SetTable: a lookup whose reader called GetTable after it is answered by Tn; a lookup whose
   reader called GetTable before it is answered by the table of that earlier moment
   (C02_lookup_single_snapshot applied to the prefix), installed before Tn. *)
Theorem C02_lookup_sees_new_after_set :
  forall (T Q C R : Type) (look : T -> Q -> C -> R) t0 pa Tn pb1 pb2 r q c rest,
  no_set_some T Q C pb1 = true -> no_load T Q C r pb2 = true ->
  nth_error (run_cell T Q C R look t0 (no_locals T)
               ((pa ++ ASet (Some Tn) :: pb1) ++ ALoad r :: pb2 ++ ALookup r q c :: rest))
            (count_lookups T Q C ((pa ++ ASet (Some Tn) :: pb1) ++ ALoad r :: pb2))
  = Some (r, q, c, Some (look Tn q c)).
Proof. exact lookup_sees_new_after_set. Qed.
Print Assumptions C02_lookup_sees_new_after_set.

(* THE SYSTEM AS A WHOLE: the update loop (any builder, any history) is the writer - the SetTable calls
   of the schedule are exactly what the loop emits - and any number of readers run beside it in any
   interleaving.  Every lookup is answered by the start table or by the complete table the builder
   returned for ONE candidate text of the history. *)
Theorem C02_system_lookup_single_table :
  forall (Q C R : Type) (look : btable -> Q -> C -> R) build w h t0 p1 p2 r q c rest,
  sets_of btable Q C (p1 ++ ALoad r :: p2 ++ ALookup r q c :: rest) = loop_emits build w h ->
  no_load btable Q C r p2 = true ->
  exists Tb, (Tb = t0 \/ exists cand, In cand (candidates build w h) /\ build cand = Ok Tb)
    /\ nth_error (run_cell btable Q C R look t0 (no_locals btable) (p1 ++ ALoad r :: p2 ++ ALookup r q c :: rest))
                 (count_lookups btable Q C (p1 ++ ALoad r :: p2))
       = Some (r, q, c, Some (look Tb q c)).
Proof. exact system_lookup_single_table. Qed.
Print Assumptions C02_system_lookup_single_table.

(* the same with the custom backend as the writer (one SetTable per poll, nil on error) *)
Theorem C02_system_lookup_single_table_custom :
  forall (Q C R : Type) (look : btable -> Q -> C -> R) cbuild polls t0 p1 p2 r q c rest,
  sets_of btable Q C (p1 ++ ALoad r :: p2 ++ ALookup r q c :: rest) = map (poll_emit cbuild) polls ->
  no_load btable Q C r p2 = true ->
  exists Tb, (Tb = t0 \/ exists ds, In ds polls /\ cbuild ds = Ok Tb)
    /\ nth_error (run_cell btable Q C R look t0 (no_locals btable) (p1 ++ ALoad r :: p2 ++ ALookup r q c :: rest))
                 (count_lookups btable Q C (p1 ++ ALoad r :: p2))
       = Some (r, q, c, Some (look Tb q c)).
Proof. exact system_lookup_single_table_custom. Qed.
Print Assumptions C02_system_lookup_single_table_custom.

Theorem C02_cell_nonvacuous :
  let look := fun (t : N) (q : N) (_ : unit) => (t * 10 + q)%N in
  run_cell N N unit N look 1%N (no_locals N)
    [ALoad 0; ASet (Some 2%N); ARead 7 0%N; ALookup 0 5%N tt; ALoad 1; ASet None; ASet (Some 3%N); ALookup 1 6%N tt;
     ARead 0 3%N; ALookup 0 7%N tt; ALoad 0; ALookup 0 8%N tt]
  = [(0, 5%N, tt, Some 15%N); (1, 6%N, tt, Some 26%N); (0, 7%N, tt, Some 17%N); (0, 8%N, tt, Some 38%N)].
Proof. exact cell_nonvacuous. Qed.
Print Assumptions C02_cell_nonvacuous.

(* ============ (2) the last good table keeps serving, the next valid one is applied ============ *)

(* For every builder: the update loop is C01's loop over [build_opt build] unless the builder
   panics on a candidate ([wrun] / [Crashed] model the missing recover) ... *)
Theorem C02_watch_is_c01_loop : forall (build : str -> outcome btable) h w w',
  wrun build (Running w) h = Running w' -> w' = Watch.run btable (build_opt build) w h.
Proof. exact wrun_running. Qed.
Print Assumptions C02_watch_is_c01_loop.

(* ... which needs a candidate text on which the builder panics ... *)
Theorem C02_watch_no_crash : forall (build : str -> outcome btable) h w,
  (forall c, In c (candidates build w h) -> build c <> Panic) ->
  wrun build (Running w) h = Running (Watch.run btable (build_opt build) w h).
Proof. exact wrun_no_crash. Qed.
Print Assumptions C02_watch_no_crash.

(* ... and neither ParseAliases nor the composed NewTable ever panics (C02_new_table_total below), so
   for every history the loop - its whole modelled body, [loop_body] - never reaches [Crashed] and IS
   C01's loop.  Hypothesis: the CANDIDATE texts of this history (not all texts: that would be false for
   any realistic library) stay within C04's bound of 3*10^9 targets per route.
   Not modelled in the loop body: logRoutes (third-party diff library) - harness only. *)
Theorem C02_watch_never_crashes : forall pweight canon glob_ok order, perm_order order ->
  forall h w,
    let fb := full_build pweight canon glob_ok (ring_faithful order) in
    (forall c, In c (candidates (loop_body (parse_aliases pweight) fb) w h) ->
       forall ds, scan_parse pweight c = Ok ds -> Forall route_ok (reached canon glob_ok [] ds)) ->
    wrun (loop_body (parse_aliases pweight) fb) (Running w) h
    = Running (Watch.run btable (build_opt (loop_body (parse_aliases pweight) fb)) w h).
Proof. exact watch_never_crashes. Qed.
Print Assumptions C02_watch_never_crashes.

(* the hypothesis is satisfiable and the conclusion holds on the history that killed the process
   before 290c777 (valid, syntax error, empty, `weight Inf`, valid) *)
Theorem C02_watch_never_crashes_nonvacuous :
  (forall c, In c (candidates fb_body (Watch.w_init btable []) crash_history) ->
     forall ds, scan_parse pw_wit c = Ok ds -> Forall route_ok (reached canon_wit glob_wit [] ds))
  /\ wrun fb_body (Running (Watch.w_init btable [])) crash_history
     = Running (Watch.run btable (build_opt fb_body) (Watch.w_init btable []) crash_history).
Proof. exact watch_never_crashes_nonvacuous. Qed.
Print Assumptions C02_watch_never_crashes_nonvacuous.

Theorem C02_parse_aliases_never_panics : forall pweight text, parse_aliases pweight text <> Panic.
Proof. exact parse_aliases_np. Qed.
Print Assumptions C02_parse_aliases_never_panics.

(* the invariant the three theorems below assume holds in every reachable state of the loop *)
Theorem C02_watch_inv_reachable : forall (build : str -> outcome btable) t0 h,
  Proofs.Watch.inv btable (build_opt build) (Watch.run btable (build_opt build) (Watch.w_init btable t0) h).
Proof. exact watch_inv_reachable. Qed.
Print Assumptions C02_watch_inv_reachable.

(* C01's theorems therefore hold for the loop as it runs: an invalid candidate changes nothing visible
   and does not block the next valid one; *)
Theorem C02_watch_keeps_last_good : forall (build : str -> outcome btable) w e,
  Proofs.Watch.inv btable (build_opt build) w ->
  build_opt build (Proofs.Watch.cur_text btable w e) = None ->
  Watch.w_active (Watch.step btable (build_opt build) w e) = Watch.w_active w
  /\ Watch.w_last (Watch.step btable (build_opt build) w e) = Watch.w_last w
  /\ Watch.w_first (Watch.step btable (build_opt build) w e) = Watch.w_first w
  /\ forall e2 T, build_opt build (Proofs.Watch.cur_text btable (Watch.step btable (build_opt build) w e) e2) = Some T ->
       Watch.w_active (Watch.step btable (build_opt build) (Watch.step btable (build_opt build) w e) e2) = T.
Proof. exact watch_keeps_last_good_composed. Qed.
Print Assumptions C02_watch_keeps_last_good.

(* once the latest service and manual texts combine to a valid text, its table is active; *)
Theorem C02_watch_quiescent : forall (build : str -> outcome btable) w h e T,
  Proofs.Watch.inv btable (build_opt build) w ->
  build_opt build (Watch.next_text (ConsulSpec.last_svc (h ++ [e]) (Watch.w_svc w))
                                   (ConsulSpec.last_man (h ++ [e]) (Watch.w_man w))) = Some T ->
  Watch.w_active (Watch.run btable (build_opt build) w (h ++ [e])) = T
  /\ Watch.w_first (Watch.run btable (build_opt build) w (h ++ [e])) = true.
Proof. exact watch_quiescent_composed. Qed.
Print Assumptions C02_watch_quiescent.

(* after every history the active table is the table of the most recent accepted candidate *)
Theorem C02_watch_active_is_last_accepted : forall (build : str -> outcome btable) t0 h,
  Watch.w_active (Watch.run btable (build_opt build) (Watch.w_init btable t0) h)
  = ConsulSpec.expected_active btable (build_opt build) t0 h
  /\ Watch.w_first (Watch.run btable (build_opt build) (Watch.w_init btable t0) h)
     = ConsulSpec.expected_first_rev btable (build_opt build) (rev h).
Proof. exact watch_active_is_last_accepted_composed. Qed.
Print Assumptions C02_watch_active_is_last_accepted.

(* WHAT REMAINS of "the newly received configuration is invalid".  The loop skips a candidate - the last
   good table keeps serving - exactly when the composed NewTable returns an error, and the error is one
   of: syntax (1-4), weight literal (5), empty prefix / target (6, 7: never from a text, its tokens are
   non-empty), url.Parse of a target (8), `route weight` without a matching target (9), path glob (10),
   host glob (11, since c9fb527), a line beyond the scanner (13, since 5dd66bf).  Never a panic.
   Since /repo d16ce3d the service-derived half of a candidate holds only commands the registry
   validated one by one (C14 / C01: a registration that cannot be expressed is dropped, it no longer
   makes the whole text fail), so a rejection now comes from the manual overrides, from a `route weight`
   that matches nothing, or from a command whose validity depends on the other half (a weight command
   whose target the other half deleted).  These theorems are about every text, so they did not change. *)
Theorem C02_rejection_reasons : forall pweight canon glob_ok order text k,
  full_build pweight canon glob_ok (ring_faithful order) text = Err k -> is_rejection k = true.
Proof. exact rejection_reasons. Qed.
Print Assumptions C02_rejection_reasons.

Theorem C02_keeps_last_good_only_on_rejection : forall pweight canon glob_ok order text, perm_order order ->
  (forall ds, scan_parse pweight text = Ok ds -> Forall route_ok (reached canon glob_ok [] ds)) ->
  build_opt (full_build pweight canon glob_ok (ring_faithful order)) text = None ->
  exists k, full_build pweight canon glob_ok (ring_faithful order) text = Err k /\ is_rejection k = true.
Proof. exact keeps_last_good_only_on_rejection. Qed.
Print Assumptions C02_keeps_last_good_only_on_rejection.

(* the custom backend: error -> table kept (through SetTable's nil guard), table -> installed (two
   one-step mechanism lemmas), and over any SEQUENCE of polls the table is that of the last poll
   NewTableCustom accepted *)
Theorem C02_custom_keeps_last_good : forall cbuild cell ds k,
  cbuild ds = Err k -> custom_step cbuild cell ds = Some cell.
Proof. exact custom_keeps_last_good. Qed.
Print Assumptions C02_custom_keeps_last_good.
Theorem C02_custom_installs : forall cbuild cell ds bt,
  cbuild ds = Ok bt -> custom_step cbuild cell ds = Some bt.
Proof. exact custom_installs. Qed.
Print Assumptions C02_custom_installs.

Theorem C02_polls_keep_last_good : forall cbuild polls cell,
  (forall ds, In ds polls -> cbuild ds <> Panic) ->
  polls_run cbuild cell polls = Some (last_accepted cbuild cell polls).
Proof. exact polls_keep_last_good. Qed.
Print Assumptions C02_polls_keep_last_good.

(* ============ (3) no configuration text can crash the process ============ *)

(* On C05's domain (every line fits bufio.Scanner's 64 KiB token buffer) the composed build is
   conservative over C05's NewTable: unless it crashes it returns C05's
   table (with the rings attached) or C05's error - for every text and whatever ParseFloat,
   url.Parse, glob.Compile and the unstable sort answer. *)
Theorem C02_full_build_refines_new_table : forall pweight canon glob_ok order text,
  has_long_line text = false ->
  match full_build pweight canon glob_ok (ring_faithful order) text with
  | Ok bt => new_table pweight canon glob_ok text = Ok (forget bt)
  | Err k => new_table pweight canon glob_ok text = Err k
  | Panic => True
  end.
Proof. exact full_build_refines. Qed.
Print Assumptions C02_full_build_refines_new_table.

(* The clause was REFUTED for the code before /repo 290c777 (weighTargets turned unusable weights
   into slot counts without looking at them).  The witnesses stay, as theorems about that code
   ([fb_wit_weights_unrepaired] = the same composition over C04's route_ring_unrepaired), each next to
   the same text being harmless on the model of the code as it is. *)
Theorem C02_new_table_total_refuted_unrepaired : exists text, fb_wit_weights_unrepaired text = Panic.
Proof. exact new_table_total_refuted_unrepaired. Qed.
Print Assumptions C02_new_table_total_refuted_unrepaired.

(* F-C02-1: weight Inf crashed the build; now the table is built and answers *)
Theorem C02_weight_inf_crashes_build_unrepaired :
  fb_wit_weights_unrepaired inf_text = Panic /\ ok_lookup (fb_wit inf_text) (bs "h.com").
Proof. exact weight_inf_crashes_build_unrepaired. Qed.
Print Assumptions C02_weight_inf_crashes_build_unrepaired.

(* F-C02-3: weight 5e-324 crashed the build; now the table is built and answers *)
Theorem C02_weight_denormal_crashes_build_unrepaired :
  fb_wit_weights_unrepaired denormal_text = Panic /\ ok_lookup (fb_wit denormal_text) (bs "h.com").
Proof. exact weight_denormal_crashes_build_unrepaired. Qed.
Print Assumptions C02_weight_denormal_crashes_build_unrepaired.

(* F-C02-2: 1e308 twice built a table on which every lookup of the route crashed ... *)
Theorem C02_weight_sum_overflow_crashes_lookup_unrepaired :
  match fb_wit_weights_unrepaired overflow_text with
  | Ok bt => lookup_full hostglob_wit bt (bs "h.com") false (bs "/") Lookup.MPrefix false 0%N = Panic
             /\ lookup_full hostglob_wit bt (bs "h.com") false (bs "/") Lookup.MPrefix true 0%N = Panic
  | _ => False
  end.
Proof. exact weight_sum_overflow_crashes_lookup_unrepaired. Qed.
Print Assumptions C02_weight_sum_overflow_crashes_lookup_unrepaired.
(* ... now the lookup answers *)
Theorem C02_weight_sum_overflow_harmless : ok_lookup (fb_wit overflow_text) (bs "h.com").
Proof. exact weight_sum_overflow_harmless. Qed.
Print Assumptions C02_weight_sum_overflow_harmless.

(* F-C02-4 (fixed by /repo c9fb527): with the builder that compiled only the path of a new route,
   an invalid host glob was installed and crashed every glob-enabled lookup *)
Theorem C02_bad_host_glob_crashes_lookup_unrepaired :
  match fb_wit_unrepaired bad_host_text with
  | Ok bt => lookup_full hostglob_wit bt (bs "x.com") false (bs "/") Lookup.MPrefix false 0%N = Panic
             /\ lookup_full hostglob_wit bt (bs "x.com") false (bs "/") Lookup.MPrefix true 0%N
                = Ok (Some (bs "x.com", bs "/", 0))
  | _ => False
  end.
Proof. exact bad_host_glob_crashes_lookup_unrepaired. Qed.
Print Assumptions C02_bad_host_glob_crashes_lookup_unrepaired.

(* the code as it is: the command is rejected (route: invalid host), the whole text with it, and the
   update loop keeps the last good table and applies the next valid text *)
Theorem C02_bad_host_glob_rejected : fb_wit bad_host_text = Err e_invalid_host.
Proof. exact bad_host_glob_rejected. Qed.
Print Assumptions C02_bad_host_glob_rejected.

Theorem C02_bad_host_glob_keeps_last_good :
  map (fun p => match p with
                | Running w => Some (map fst (Watch.w_active w))
                | Crashed => None end)
      (wtrace fb_wit (Running (Watch.w_init btable []))
         [Watch.Svc (bs "route add s h.com/ http://h/"); Watch.Man bad_host_text; Watch.Man (bs "route add t x.com/ http://x/")])
  = [Some [bs "h.com"]; Some [bs "h.com"]; Some [bs "h.com"; bs "x.com"]].
Proof. exact bad_host_glob_keeps_last_good. Qed.
Print Assumptions C02_bad_host_glob_keeps_last_good.

(* every host key of a table the composed NewTable returns compiles as a glob: for every text,
   whatever the libraries answer (reachability invariant over C05's add / del / weight) *)
Theorem C02_built_host_keys_compile : forall pweight canon glob_ok order text bt,
  full_build pweight canon glob_ok (ring_faithful order) text = Ok bt ->
  Forall (fun k => glob_ok k = true) (map fst bt).
Proof. exact full_build_keys_ok. Qed.
Print Assumptions C02_built_host_keys_compile.

(* the update loop before 290c777 died on the crash text (no recover) although a valid text
   followed; the same history now installs every valid text *)
Theorem C02_watch_crash_refuted_unrepaired :
  show_trace (wtrace fb_wit_weights_unrepaired (Running (Watch.w_init btable [])) crash_history)
  = [Some [bs "h.com"]; Some [bs "h.com"]; Some [bs "h.com"]; None; None]
  /\ show_trace (wtrace fb_wit (Running (Watch.w_init btable [])) crash_history)
     = [Some [bs "h.com"]; Some [bs "h.com"]; Some [bs "h.com"]; Some [bs "g.com"]; Some [bs "h.com"]].
Proof. exact watch_crash_refuted_unrepaired. Qed.
Print Assumptions C02_watch_crash_refuted_unrepaired.

(* Beyond C05's domain: a text with a line of 65536 bytes or more (bufio.MaxScanTokenSize; 65535
   bytes + newline still fit) is NEVER turned into a table, a shorter one included: NewTable returns
   an error (since /repo 5dd66bf), so the update loop keeps the last good table
   (C02_watch_keeps_last_good). *)
Theorem C02_long_line_rejected : forall pweight canon glob_ok order text,
  has_long_line text = true -> exists k, full_build pweight canon glob_ok (ring_faithful order) text = Err k.
Proof. exact long_line_rejected. Qed.
Print Assumptions C02_long_line_rejected.

(* F-C02-9 (fixed by 5dd66bf): Parse used to ignore scanner.Err(); the same text gave the table of
   the lines BEFORE the long one, without an error.  Now Err, at exactly 65536 bytes. *)
Theorem C02_long_line_truncates_unrepaired :
  match full_build_scan_unrepaired pw_wit canon_wit glob_wit (ring_faithful stable_order) long_text with
  | Ok bt => map fst bt = [bs "a.test"]
  | _ => False
  end
  /\ fb_wit long_text = Err e_line_too_long
  /\ has_long_line (xs 65535 ++ nl ++ bs "x") = false
  /\ has_long_line (bs "x" ++ nl ++ xs 65536) = true.
Proof. exact long_line_truncates_unrepaired. Qed.
Print Assumptions C02_long_line_truncates_unrepaired.

(* NEVER CRASHES, for the code as it is.  For EVERY text - any bytes, lines of any length (the
   scanner limit is part of [full_build]), any weights of any bit pattern
   (Inf, subnormal, huge, negative) - and whatever ParseFloat, url.Parse, glob.Compile and the
   unstable sort answer: the composed NewTable returns a table or an error, never a panic and never an
   endless loop; and on every table it returns EVERY lookup returns (any host, path, TLS flag,
   matcher, glob matching on or off, any round-robin cursor).
   Composition of C05 parse_lines_np / apply_def_np (parser and command layer), C04
   C04_binary64_never_panics (weighTargets on binary64 incl. the fallbacks of 290c777, the ring fill,
   non-empty rings) and rr_pick_ok, and C02_built_host_keys_compile (addRoute's host check, c9fb527).
   Hypotheses that remain, all explicit:
     - [perm_order order]: sort.Sort returns a permutation of the slot vector;
     - route sizes: no route state the commands go through holds more than 3*10^9 targets
       ([route_ok]; C04's bound - 10^4 slots per target must stay below what make accepts);
     - [Hstrip], for glob-enabled lookups: a host pattern glob.Compile accepts is still accepted
       without its literal ":80" / ":443" suffix (addRoute compiles the key as written, matchingHosts
       the normalised key); the harness checks this on every host key it generates.
   Modelling assumptions are those of the imported models (C05: ASCII text, `route weight` divides on C05's exact weights: w/n is exactly float64's
   quotient when w and w/n are zero or normal or n = 1 - the no-panic conclusion does not depend on
   which float64 the division yields, since C04's theorem covers every bit pattern, NaN excepted:
   a NaN FixedWeight is not expressible in C05's weights; linux/amd64 int(float64)). *)
Theorem C02_new_table_total :
  forall pweight canon glob_ok order text, perm_order order ->
  (forall ds, scan_parse pweight text = Ok ds -> Forall route_ok (reached canon glob_ok [] ds)) ->
  full_build pweight canon glob_ok (ring_faithful order) text <> Panic
  /\ forall bt, full_build pweight canon glob_ok (ring_faithful order) text = Ok bt ->
     forall hostglob_ok host tls uri m globoff total,
       (forall k tl, glob_ok k = true -> hostglob_ok (Lookup.normalize_host k tl) = true) ->
       lookup_full hostglob_ok bt host tls uri m globoff total <> Panic.
Proof. exact new_table_total. Qed.
Print Assumptions C02_new_table_total.

(* Table.LookupHost (the TCP / SNI proxies' entry point) on a table the build returned *)
Theorem C02_lookup_host_total : forall pweight canon glob_ok order text bt host total, perm_order order ->
  (forall ds, scan_parse pweight text = Ok ds -> Forall route_ok (reached canon glob_ok [] ds)) ->
  full_build pweight canon glob_ok (ring_faithful order) text = Ok bt ->
  lookup_host bt host total <> Panic.
Proof. exact lookup_host_total_built. Qed.
Print Assumptions C02_lookup_host_total.

(* the same for the custom backend's builder (no text, no parser) *)
Theorem C02_custom_build_total : forall canon glob_ok order ds t, perm_order order ->
  Forall route_ok (reached canon glob_ok t (known_defs ds)) ->
  custom_from canon glob_ok (ring_faithful order) t ds <> Panic.
Proof. exact custom_build_total. Qed.
Print Assumptions C02_custom_build_total.

(* NewTableCustom as a whole, the nil definition list of a poll body `null` included (an error since
   /repo 618785e): never a panic *)
Theorem C02_custom_build_ptr_total : forall canon glob_ok order (o : option (list (option def))), perm_order order ->
  (forall ds, o = Some ds -> Forall route_ok (reached canon glob_ok [] (known_defs ds))) ->
  custom_build_ptr canon glob_ok (ring_faithful order) o <> Panic.
Proof. exact custom_build_ptr_total. Qed.
Print Assumptions C02_custom_build_ptr_total.

(* the lookup code itself is unchanged: on a table that does contain an invalid host key (none that
   NewTable returns any more) every glob-enabled lookup crashes, whatever is asked *)
Theorem C02_bad_host_glob_crashes_all_unrepaired : forall hostglob_ok bt host tls uri m total,
  F_C02_bad_host_glob hostglob_ok bt tls = true ->
  lookup_full hostglob_ok bt host tls uri m false total = Panic.
Proof. exact bad_host_glob_crashes_all. Qed.
Print Assumptions C02_bad_host_glob_crashes_all_unrepaired.

(* a pick crashes exactly on an empty ring of a route with >= 2 targets *)
Theorem C02_pick_panic_iff : forall (br : broute) total,
  pick_route br total = Panic <-> (2 <= length (r_targets (fst br)) /\ snd br = []).
Proof. exact pick_route_panic_iff. Qed.
Print Assumptions C02_pick_panic_iff.

(* the ring the correspondence check evaluates has the length of the model's ring *)
Theorem C02_ring_fast_length : forall order fixed, perm_order order ->
  olen (ring_fast order fixed) = olen (ring_faithful order fixed).
Proof. exact ring_fast_length. Qed.
Print Assumptions C02_ring_fast_length.

(* the custom backend decodes every poll on its own (since /repo 9bd16b3): an add without "src" at the
   head of a poll is rejected and the table stays, whatever was polled before *)
Theorem C02_custom_poll_missing_src_rejected : forall canon glob_ok rb cell (j : jdef) js,
  j_cmd j = Some (Some CmdAdd) -> j_src j = None ->
  custom_poll (custom_build canon glob_ok rb) cell (j :: js) = Some cell.
Proof. exact custom_poll_missing_src_rejected. Qed.
Print Assumptions C02_custom_poll_missing_src_rejected.

(* F-C02-5 (fixed by 9bd16b3): the decoder that wrote into the previous poll's definitions installed
   a definition without "src" under the previous src; the fresh decoder rejects it *)
Theorem C02_custom_carry_over_refuted :
  let poll1 := [jadd (bs "svc-a") (Some (bs "a.test/")) (bs "http://10.0.0.1:80/")] in
  let poll2 := [jadd (bs "svc-s") None (bs "http://10.0.0.2:80/")] in
  (match custom_poll_unrepaired cb_wit ([], []) poll1 with
   | Some st => match custom_poll_unrepaired cb_wit st poll2 with
                | Some (bt, _) => map (fun hr => (fst hr, map (fun br : broute => map t_svc (r_targets (fst br))) (snd hr))) bt
                                  = [(bs "a.test", [[bs "svc-s"]])]
                | None => False
                end
   | None => False
   end)
  /\ (match custom_poll cb_wit [] poll1 with
      | Some bt1 => custom_poll cb_wit bt1 poll2 = Some bt1
                    /\ cb_wit (map to_def (decode_fresh poll2)) = Err e_invalid_prefix
      | None => False
      end).
Proof. exact custom_carry_over_refuted. Qed.
Print Assumptions C02_custom_carry_over_refuted.

(* F-C02-10 (fixed by /repo 618785e).  Before: a poll body that is the JSON value null reached
   NewTableCustom(nil), which dereferenced it: the polling goroutine panicked (no recover), whatever
   table was active.  Now: an error, the table stays. *)
Theorem C02_custom_null_body_crashes_unrepaired : forall cbuild cell,
  custom_poll_body_unrepaired cbuild cell None = None.
Proof. exact custom_null_body_crashes_unrepaired. Qed.
Print Assumptions C02_custom_null_body_crashes_unrepaired.
Theorem C02_custom_null_body_rejected : forall cbuild cell, custom_poll_body cbuild cell None = Some cell.
Proof. exact custom_null_body_rejected. Qed.
Print Assumptions C02_custom_null_body_rejected.

Theorem C02_custom_errors :
  custom_build canon_wit glob_wit (ring_faithful stable_order) [None] = Err e_invalid_cmd
  /\ custom_build canon_wit glob_wit (ring_faithful stable_order)
       [Some (mk CmdAdd (bs "s") [] (bs "http://h/") WZ [] [])] = Err e_invalid_prefix
  /\ custom_step (custom_build canon_wit glob_wit (ring_faithful stable_order)) []
       [Some (mk CmdAdd (bs "s") (bs "h.com/") [] WZ [] [])] = Some [].
Proof. exact custom_errors. Qed.
Print Assumptions C02_custom_errors.

Theorem C02_total_nonvacuous :
  (forall ds, scan_parse pw_wit domain_text = Ok ds -> Forall route_ok (reached canon_wit glob_wit [] ds))
  /\ fb_wit domain_text <> Panic.
Proof. exact total_nonvacuous. Qed.
Print Assumptions C02_total_nonvacuous.

(* ---- the tcp-dynamic listener loop of main.startServers (round 8, seeded C02-P): a route text
        decides which ports the process tries to listen on; a port it cannot have (another program's,
        one of fabio's own listeners, a number that is no port) must not end the process ---- *)
Theorem C02_tcpdyn_never_crashes : forall (h : list (Model.TcpDynamic.world * Model.TcpDynamic.habs)) d,
  (forall w t, In (w, t) h -> Model.TcpDynamic.steady w) ->
  Model.TcpDynamic.run_dyn h (Model.TcpDynamic.DRun d) <> Model.TcpDynamic.DCrashed.
Proof. exact Proofs.TcpDynamic.tcpdyn_never_crashes. Qed.
Print Assumptions C02_tcpdyn_never_crashes.

Theorem C02_tcpdyn_never_crashes_nonvacuous :
  (forall w t, In (w, t) Proofs.TcpDynamic.h_wit -> Model.TcpDynamic.steady w)
  /\ map (fun s => match s with Model.TcpDynamic.DRun d => Some (Model.TcpDynamic.d_served d) | Model.TcpDynamic.DCrashed => None end)
         (Model.TcpDynamic.trace_dyn Proofs.TcpDynamic.h_wit (Model.TcpDynamic.DRun (Model.TcpDynamic.Dyn [] [])))
     = [Some [Proofs.TcpDynamic.p6000]; Some [Proofs.TcpDynamic.p6000]; Some [Proofs.TcpDynamic.p6000];
        Some [Proofs.TcpDynamic.p6001; Proofs.TcpDynamic.p6000]; Some [Proofs.TcpDynamic.p6001]].
Proof. exact Proofs.TcpDynamic.tcpdyn_never_crashes_nonvacuous. Qed.
Print Assumptions C02_tcpdyn_never_crashes_nonvacuous.

(* F-C02-11 (open): the proviso is needed.  A port that passes the probe and is taken when the
   listener goroutine binds ends the process; on the real code this happens on every valid tcp
   route when the listener is configured without refresh= (l.Refresh = 0: the next probe overtakes
   the goroutine of the previous refresh, two goroutines bind the same port) *)
Theorem C02_tcpdyn_unsteady_world_crashes :
  exists w t d, (exists p, Model.TcpDynamic.probe_free w p = true /\ Model.TcpDynamic.listen_free w p = false)
                /\ Model.TcpDynamic.refresh w t d = Model.TcpDynamic.DCrashed.
Proof. exact Proofs.TcpDynamic.tcpdyn_unsteady_world_crashes. Qed.
Print Assumptions C02_tcpdyn_unsteady_world_crashes.

Theorem C02_tcpdyn_listeners_follow_table : forall w t d d', Model.TcpDynamic.refresh w t d = Model.TcpDynamic.DRun d' ->
  Model.TcpDynamic.d_last d' = Model.TcpDynamic.ports_of t
  /\ forall p, In p (Model.TcpDynamic.d_served d') <->
               (In p (Model.TcpDynamic.d_served d)
                /\ ~ (In p (Model.TcpDynamic.d_last d) /\ ~ In p (Model.TcpDynamic.ports_of t)))
               \/ (In p (Model.TcpDynamic.ports_of t) /\ Model.TcpDynamic.probe_free w p = true).
Proof. exact Proofs.TcpDynamic.tcpdyn_listeners_follow_table. Qed.
Print Assumptions C02_tcpdyn_listeners_follow_table.

Theorem C02_tcpdyn_refresh_idempotent : forall w t d d',
  Model.TcpDynamic.refresh w t d = Model.TcpDynamic.DRun d' -> Model.TcpDynamic.refresh w t d' = Model.TcpDynamic.DRun d'.
Proof. exact Proofs.TcpDynamic.tcpdyn_refresh_idempotent. Qed.
Print Assumptions C02_tcpdyn_refresh_idempotent.
