(** C04 — traffic is split by the configured weights (route/route.go weighTargets,
    setWeight; route/picker.go).  This file contains only statements, [exact] and the
    assumption printouts.  Weights: the exact-rational instance of the one
    parametric algorithm of Model/Weigh.v (its binary64 instance is tied to the Go
    code bit for bit, and to this instance within 1e-9, by the correspondence run).
    Ring and pickers: naturals, no size bound. *)
(** READING GUIDE.  Property clauses: C04_weights_*, C04_fixed_honoured*, C04_scaled_*, C04_dynamic_equal_share,
    C04_set_weight_*, C04_slots_*, C04_zero_weight_no_slot, C04_positive_weight_has_slot, C04_fill_counts*,
    C04_rr_*, C04_positive_never_starved, C04_zero_never_picked_*, C04_rnd_support, C04_route_split*,
    C04_rr_share_end_to_end, C04_binary64_* (the instance Go runs), the two *_refuted theorems, and
    C04_listener_* (connections on a real listener: one connection = one pick, whole cycles of connections,
    the refutation of the wiring before 971ce92 and its generalisation to any stride).
    MECHANISM LEMMAS (they justify shortcuts of Check/C04.v or relate two formulations of the model;
    not coverage of a property clause): C04_probe_is_scan, C04_probe_full_diverges, C04_scan_is_model,
    C04_ring_status_is_model, C04_route_status_is_model, C04_weighQ_is_unrepaired,
    C04_route_ring_Q_is_unrepaired, C04_fallback_never_on_Q. *)
From Coq Require Import List ZArith NArith QArith Qminmax Permutation Reals.
From Flocq Require Import Core.Raux Core.Zaux IEEE754.Binary IEEE754.Bits.
From Fabio Require Import Lib.Outcome Model.Weigh Model.Ring Model.Pick
  Proofs.Weigh Proofs.Ring Proofs.Pick Proofs.Split Model.WeighF Proofs.WeighF
  Model.ListenerPick Proofs.ListenerPick.
Import ListNotations.
Local Open Scope nat_scope.

(* ---- effective weights: any non-empty target list, any mix of fixed and dynamic ---- *)
Theorem C04_weights_nonneg : forall l w, In w (weighQ l) -> (0 <= w)%Q.
Proof. exact weights_nonneg. Qed.
Print Assumptions C04_weights_nonneg.

Theorem C04_weights_sum_one : forall l, l <> [] -> (sumQ (weighQ l) == 1)%Q.
Proof. exact weights_sum_one. Qed.
Print Assumptions C04_weights_sum_one.

(* Since commit 290c777 weighTargets falls back to the even distribution when a computed weight fails
   [w >= 0 && w <= 1+1e-9] or no slot is used.  On exact rationals that never happens (for a non-empty
   route of at most 3*10^9 targets: usedSlots is a wrapping 64-bit sum), so the code as it is equals the
   code before the commit; the three theorems above hold with or without the fallback. *)
Theorem C04_fallback_never_on_Q : forall l : list Q, l <> [] -> (Z.of_nat (length l) <= 3000000000)%Z ->
  fallback arithQ l = false.
Proof. exact fallback_never_on_Q. Qed.
Print Assumptions C04_fallback_never_on_Q.

Theorem C04_weighQ_is_unrepaired : forall l : list Q, (Z.of_nat (length l) <= 3000000000)%Z ->
  weighQ l = weighQ_unrepaired l.
Proof. exact weighQ_eq_unrepaired. Qed.
Print Assumptions C04_weighQ_is_unrepaired.

Theorem C04_route_ring_Q_is_unrepaired : forall order (l : list Q), (Z.of_nat (length l) <= 3000000000)%Z ->
  route_ring arithQ order l = route_ring_unrepaired arithQ order l.
Proof. exact route_ring_Q_eq. Qed.
Print Assumptions C04_route_ring_Q_is_unrepaired.

(* fixed weights are honoured as given while they fit and somebody can take the rest *)
Theorem C04_fixed_honoured : forall (l : list Q) i f w, (Z.of_nat (length l) <= 3000000000)%Z ->
  nth_error l i = Some f -> (0 < f)%Q -> (sum_pos l <= 1)%Q -> n_fix l < length l ->
  nth_error (weighQ l) i = Some w -> (w == f)%Q.
Proof. exact fixed_honoured. Qed.
Print Assumptions C04_fixed_honoured.

(* ... and "as given" starts where the target is added: addTarget records a weight that is not negative as
   it stands, a negative one as "no fixed weight" (the check's clause spec_given is this statement on the
   implementation's observables) *)
Theorem C04_add_records_given_weight : forall ws : list Q,
  Forall (fun w => (0 <= w)%Q) ws -> map (clamp_fixed arithQ) ws = ws.
Proof. exact add_records_given. Qed.
Print Assumptions C04_add_records_given_weight.

Theorem C04_add_negative_is_dynamic : forall w : Q, (w < 0)%Q -> clamp_fixed arithQ w = 0%Q.
Proof. exact add_negative_is_dynamic. Qed.
Print Assumptions C04_add_negative_is_dynamic.

(* scaled down proportionally if they exceed 100% (dynamic targets then get nothing) *)
Theorem C04_scaled_down : forall (l : list Q) i f w, (Z.of_nat (length l) <= 3000000000)%Z ->
  nth_error l i = Some f -> (0 < f)%Q -> (1 < sum_pos l)%Q ->
  nth_error (weighQ l) i = Some w -> (w == f / sum_pos l)%Q.
Proof. exact scaled_down. Qed.
Print Assumptions C04_scaled_down.

Theorem C04_scaled_down_dynamic : forall (l : list Q) i f w, (Z.of_nat (length l) <= 3000000000)%Z ->
  nth_error l i = Some f -> ~ (0 < f)%Q -> (1 < sum_pos l)%Q ->
  nth_error (weighQ l) i = Some w -> (w == 0)%Q.
Proof. exact scaled_down_dynamic. Qed.
Print Assumptions C04_scaled_down_dynamic.

(* scaled up if every target is fixed and they sum to less *)
Theorem C04_scaled_up : forall (l : list Q) i f w, (Z.of_nat (length l) <= 3000000000)%Z ->
  nth_error l i = Some f -> n_fix l = length l -> (sum_pos l < 1)%Q ->
  nth_error (weighQ l) i = Some w -> (w == f / sum_pos l)%Q.
Proof. exact scaled_up. Qed.
Print Assumptions C04_scaled_up.

(* the remaining targets share the remainder equally *)
Theorem C04_dynamic_equal_share : forall (l : list Q) i f w, (Z.of_nat (length l) <= 3000000000)%Z ->
  nth_error l i = Some f -> ~ (0 < f)%Q ->
  nth_error (weighQ l) i = Some w -> (w == (1 - Qmin 1 (sum_pos l)) / qn (n_dyn l))%Q.
Proof. exact dynamic_equal_share. Qed.
Print Assumptions C04_dynamic_equal_share.

(* `route weight`: the matching targets receive the given share in total, the others keep theirs *)
Theorem C04_set_weight_total : forall m weight l, length m = length l -> 0 < count_true m ->
  let l' := fst (set_weight arithQ m weight l) in
  snd (set_weight arithQ m weight l) = count_true m
  /\ (sumQ (map (fun p : bool * Q => if fst p then snd p else 0%Q) (combine m l')) == weight)%Q
  /\ (forall i f, nth_error m i = Some false -> nth_error l i = Some f -> nth_error l' i = Some f).
Proof. exact set_weight_total. Qed.
Print Assumptions C04_set_weight_total.

(* ---- slots: resolution 1/10000; zero weight -> no slot; positive weight -> at least one ---- *)
Theorem C04_slots_resolution : forall w, (0 <= w)%Q -> (w <= 1)%Q ->
  (slot_countQ w = 1%Z /\ (0 < w)%Q /\ (inject_Z 10000 * w < 1)%Q)
  \/ ((inject_Z (slot_countQ w) <= inject_Z 10000 * w)%Q
      /\ (inject_Z 10000 * w < inject_Z (slot_countQ w) + 1)%Q).
Proof. exact slot_count_resolution. Qed.
Print Assumptions C04_slots_resolution.

Theorem C04_zero_weight_no_slot : forall w, (w == 0)%Q -> slot_countQ w = 0%Z.
Proof. exact slot_count_zero. Qed.
Print Assumptions C04_zero_weight_no_slot.

Theorem C04_positive_weight_has_slot : forall w, (0 < w)%Q -> (w <= 1)%Q -> (1 <= slot_countQ w <= 10000)%Z.
Proof. exact slot_count_pos. Qed.
Print Assumptions C04_positive_weight_has_slot.

Theorem C04_weights_le_one : forall l w, In w (weighQ l) -> (w <= 1)%Q.
Proof. exact weights_le_one. Qed.
Print Assumptions C04_weights_le_one.

(* ---- the ring: for every slot-count vector and every tie order of the unstable sort ---- *)
(* fill_terminates + fill_counts: no panic, the probe loop always finds a slot, the ring has
   sum(counts) slots, none empty, target i in exactly counts[i] of them *)
Theorem C04_fill_counts : forall counts sorted,
  Forall (fun n => 0 <= n)%Z counts -> (zsum counts <= 2^45)%Z ->
  Permutation sorted (indexed counts) ->
  exists r, ring_of_counts sorted counts = Ok r
    /\ Z.of_nat (length r) = zsum counts
    /\ occupancy None r = 0
    /\ (forall i, Z.of_nat (occupancy (Some i) r) = nth i counts 0%Z).
Proof. exact ring_of_counts_spec. Qed.
Print Assumptions C04_fill_counts.

(* the probe loop's fuel is never the reason for an answer: it reports divergence exactly on a full ring *)
Theorem C04_probe_is_scan : forall r next, probe (S (length r)) r (length r) next = probe_scan r next.
Proof. exact probe_scan_eq. Qed.
Print Assumptions C04_probe_is_scan.

Theorem C04_probe_full_diverges : forall r next, next < length r -> occupancy None r = 0 ->
  forall fuel, probe fuel r (length r) next = Err diverges.
Proof. exact probe_full_diverges. Qed.
Print Assumptions C04_probe_full_diverges.

(* the single-scan formulation the correspondence check evaluates is the model *)
Theorem C04_scan_is_model : forall sorted counts, ring_of_counts_scan sorted counts = ring_of_counts sorted counts.
Proof. exact ring_of_counts_scan_eq. Qed.
Print Assumptions C04_scan_is_model.

(* ---- pickers ---- *)
(* any len(ring) consecutive round-robin picks hit every target exactly as often as it has slots
   (cursor a uint64; the cycle must not contain the wrap at 2^64) *)
Theorem C04_rr_cycle_exact : forall r total, r <> [] -> (total < two64)%N ->
  (total + N.of_nat (length r) <= two64)%N ->
  exists picks, rr_run (length r) r total = Ok (picks, ((total + N.of_nat (length r)) mod two64)%N)
    /\ length picks = length r
    /\ forall t, occupancy t picks = occupancy t r.
Proof. exact rr_cycle_exact. Qed.
Print Assumptions C04_rr_cycle_exact.

Theorem C04_positive_never_starved : forall r total i, (total < two64)%N ->
  (total + N.of_nat (length r) <= two64)%N -> 0 < occupancy (Some i) r ->
  exists picks c, rr_run (length r) r total = Ok (picks, c) /\ In (Some i) picks.
Proof. exact rr_never_starved. Qed.
Print Assumptions C04_positive_never_starved.

Theorem C04_zero_never_picked_rr : forall r i, occupancy (Some i) r = 0 ->
  forall total c, rr_pick r total <> Ok (Some i, c).
Proof. exact rr_zero_never_picked. Qed.
Print Assumptions C04_zero_never_picked_rr.

Theorem C04_zero_never_picked_rnd : forall r i, occupancy (Some i) r = 0 ->
  forall k, rnd_pick r k <> Ok (Some i).
Proof. exact rnd_zero_never_picked. Qed.
Print Assumptions C04_zero_never_picked_rnd.

Theorem C04_rnd_support : forall r t,
  length (filter (fun k => picks_slot t (rnd_pick r k)) (seq 0 (length r))) = occupancy t r.
Proof. exact rnd_support. Qed.
Print Assumptions C04_rnd_support.

Theorem C04_picks_total : forall r total, r <> [] -> occupancy None r = 0 ->
  exists i c, rr_pick r total = Ok (Some i, c).
Proof. exact rr_pick_total. Qed.
Print Assumptions C04_picks_total.

(* non-vacuity *)
Theorem C04_nonvacuous :
  ((sum_pos ex_some <= 1)%Q /\ n_fix ex_some < length ex_some
   /\ (1 < sum_pos ex_over)%Q /\ (sum_pos ex_under < 1)%Q /\ n_fix ex_under = length ex_under).
Proof. exact weigh_example_hyps. Qed.
Print Assumptions C04_nonvacuous.

(* ---- end to end (exact-rational instance): weighTargets on any non-empty target list, whatever
   the unstable sort does: a ring without nil slots in which a zero weight has no slot and a
   positive weight at least one; on the fill path target i has exactly slot_count(w_i) slots ---- *)
Theorem C04_route_split : forall order (l : list Q),
  l <> [] -> (Z.of_nat (length l) <= 3000000000)%Z -> (forall s, Permutation (order s) s) ->
  exists r, route_ring arithQ order l = Ok (weighQ l, r)
    /\ r <> [] /\ occupancy None r = 0
    /\ forall i w, nth_error (weighQ l) i = Some w ->
         ((w == 0)%Q -> occupancy (Some i) r = 0)
         /\ ((0 < w)%Q -> 1 <= occupancy (Some i) r)
         /\ (n_fix l <> 0 -> Z.of_nat (occupancy (Some i) r) = slot_countQ w).
Proof. exact route_ring_spec. Qed.
Print Assumptions C04_route_split.

(* ---- the resolution of 10 000 slots, for the whole ring ---- *)
(* S - len < number of slots <= S + len, S = maxSlots = 10000, for every non-empty target list *)
Theorem C04_slots_resolution_sum : forall l : list Q, l <> [] ->
  (10000 - Z.of_nat (length l) < zsum (map slot_countQ (weighQ l)) <= 10000 + Z.of_nat (length l))%Z.
Proof. exact slots_resolution_sum. Qed.
Print Assumptions C04_slots_resolution_sum.

(* hence the share of slots of target i is its weight up to (len + 1) / (S - len),
   for every route with fewer than S targets (0.41% for 40 targets) *)
Theorem C04_slots_share_bound : forall (l : list Q) i w, l <> [] -> (Z.of_nat (length l) < 10000)%Z ->
  nth_error (weighQ l) i = Some w ->
  let U := inject_Z (zsum (map slot_countQ (weighQ l))) in
  let B := ((qn (length l) + 1) / (inject_Z 10000 - qn (length l)))%Q in
  (0 < U)%Q /\ (- B <= inject_Z (slot_countQ w) / U - w)%Q /\ (inject_Z (slot_countQ w) / U - w <= B)%Q.
Proof. exact slots_share_bound. Qed.
Print Assumptions C04_slots_share_bound.

(* ---- the crash-status shortcut evaluated by Check/C04.v is the model ---- *)
(* for every vector of 64-bit slot counts (negative, wrapped sums included) and every arrangement *)
Theorem C04_ring_status_is_model : forall counts sorted, Permutation sorted (indexed counts) ->
  status_of (ring_of_counts sorted counts) = ring_status counts.
Proof. exact ring_status_correct. Qed.
Print Assumptions C04_ring_status_is_model.

(* for every arithmetic instance (the binary64 one included) and every behaviour of the sort *)
Theorem C04_route_status_is_model : forall (A : arith) order (fixed : list (num A)),
  (forall s, Permutation (order s) s) ->
  status_of (route_ring A order fixed) = route_status A fixed.
Proof. exact route_status_correct. Qed.
Print Assumptions C04_route_status_is_model.

(* ---- the tie order of the unstable sort (pdqsort) is immaterial for every conclusion above:
   C04_fill_counts and C04_route_split quantify over ALL permutations / all permutation-preserving
   [order] functions; explicitly, two executions of the sort give rings of the same length in which
   every target (and nil) has the same number of slots.  Shares, never-starved, never-picked, the hit
   counts of a full round-robin cycle (C04_rr_cycle_exact) and the support of the random picker
   (C04_rnd_support) are functions of these numbers only.  The order read from the real sort by the
   harness is needed for the layout correspondence alone. ---- *)
Theorem C04_fill_counts_any_tie_order : forall counts sorted1 sorted2,
  Forall (fun n => 0 <= n)%Z counts -> (zsum counts <= 2^45)%Z ->
  Permutation sorted1 (indexed counts) -> Permutation sorted2 (indexed counts) ->
  exists r1 r2, ring_of_counts sorted1 counts = Ok r1 /\ ring_of_counts sorted2 counts = Ok r2
    /\ length r1 = length r2 /\ forall t, occupancy t r1 = occupancy t r2.
Proof. exact fill_counts_order_independent. Qed.
Print Assumptions C04_fill_counts_any_tie_order.

Theorem C04_route_split_any_tie_order : forall order1 order2 (l : list Q),
  l <> [] -> (Z.of_nat (length l) <= 3000000000)%Z ->
  (forall s, Permutation (order1 s) s) -> (forall s, Permutation (order2 s) s) ->
  exists r1 r2, route_ring arithQ order1 l = Ok (weighQ l, r1)
    /\ route_ring arithQ order2 l = Ok (weighQ l, r2)
    /\ length r1 = length r2 /\ forall t, occupancy t r1 = occupancy t r2.
Proof. exact route_split_order_independent. Qed.
Print Assumptions C04_route_split_any_tie_order.

(* ---- composed statements on the exact-rational instance ---- *)
(* all targets fixed, weights summing to exactly 100%: honoured as given *)
Theorem C04_fixed_honoured_sum_one : forall (l : list Q) i f w, (Z.of_nat (length l) <= 3000000000)%Z ->
  nth_error l i = Some f -> (0 < f)%Q -> (sum_pos l == 1)%Q ->
  nth_error (weighQ l) i = Some w -> (w == f)%Q.
Proof. exact fixed_honoured_sum_one. Qed.
Print Assumptions C04_fixed_honoured_sum_one.

(* `route weight` followed by weighTargets: every matching target's effective weight is weight / n *)
Theorem C04_set_weight_then_weigh : forall (m : list bool) (wt : Q) (l : list Q) i w,
  length m = length l -> (Z.of_nat (length l) <= 3000000000)%Z -> (0 < wt)%Q ->
  let l' := fst (set_weight arithQ m wt l) in
  (sum_pos l' <= 1)%Q -> n_fix l' < length l' ->
  nth_error m i = Some true -> nth_error (weighQ l') i = Some w ->
  (w == wt / qn (count_true m))%Q.
Proof. exact set_weight_then_weigh. Qed.
Print Assumptions C04_set_weight_then_weigh.

(* no fixed weight: the ring is the target list, one slot each *)
Theorem C04_route_ring_all_dynamic : forall order (l : list Q), n_fix l = 0 ->
  route_ring arithQ order l = Ok (weighQ l, map Some (seq 0 (length l))).
Proof. exact route_ring_all_dynamic. Qed.
Print Assumptions C04_route_ring_all_dynamic.

(* weights -> ring -> one full round-robin cycle, for every route with fewer than 10000 targets, with
   or without fixed weights, any tie order, any cursor (no uint64 wrap inside the cycle): the fraction
   of requests of target i is its weight up to (len+1)/(10000-len) *)
Theorem C04_rr_share_end_to_end : forall order (l : list Q) total,
  l <> [] -> (Z.of_nat (length l) < 10000)%Z -> (forall s, Permutation (order s) s) -> (total < two64)%N ->
  exists r, route_ring arithQ order l = Ok (weighQ l, r) /\ r <> [] /\
    ((total + N.of_nat (length r) <= two64)%N ->
     exists picks c, rr_run (length r) r total = Ok (picks, c) /\ length picks = length r /\
       forall i w, nth_error (weighQ l) i = Some w ->
         let share := (inject_Z (Z.of_nat (occupancy (Some i) picks)) / inject_Z (Z.of_nat (length r)))%Q in
         let B := ((qn (length l) + 1) / (inject_Z 10000 - qn (length l)))%Q in
         (- B <= share - w)%Q /\ (share - w <= B)%Q).
Proof. exact rr_share_end_to_end. Qed.
Print Assumptions C04_rr_share_end_to_end.

(* ---- binary64 (the instance Go executes).  The theorems of this group go through Flocq's B2R and
   therefore use the four axioms of Coq's Reals library; nothing else in this file does. ---- *)
(* THE HEADLINE (code since 290c777): for EVERY non-empty list of binary64 fixed weights -- NaN, +-Inf,
   subnormals, huge values, any bit pattern -- of at most 3*10^9 targets, whatever the unstable sort
   does: weighTargets returns (no panic, no endless probe loop), every slot count lies in [0, 10000],
   the ring is non-empty without nil slot, and every later rr / rnd pick returns a target. *)
Theorem C04_binary64_never_panics : forall (l : list f64) order,
  0 < length l -> (Z.of_nat (length l) <= 3000000000)%Z -> (forall s, Permutation (order s) s) ->
  exists r, route_ring arithF order l = Ok (weigh arithF l, r)
    /\ Forall (fun n => 0 <= n <= 10000)%Z (map (slot_count arithF) (weigh arithF l))
    /\ r <> [] /\ occupancy None r = 0
    /\ (forall total, exists i c, rr_pick r total = Ok (Some i, c))
    /\ (forall k, k < length r -> exists i, rnd_pick r k = Ok (Some i)).
Proof. exact binary64_never_panics. Qed.
Print Assumptions C04_binary64_never_panics.

(* the weights it leaves behind are finite and within [0, float64(1+1e-9)], for every input *)
Theorem C04_binary64_final_weights : forall l : list f64, (Z.of_nat (length l) <= 2 ^ 53)%Z ->
  forall w, In w (weigh arithF l) ->
    is_finite 53 1024 w = true /\ (0 <= B2R 53 1024 w <= B2R 53 1024 f64_wmax)%R.
Proof. exact binary64_final_weights. Qed.
Print Assumptions C04_binary64_final_weights.

(* corollary kept from before the repair (same statement, now about the code as it is): four clauses.
   The sane input domain [sane_fixed]: a FixedWeight is finite and either not positive (a dynamic
   target) or within [2^-1000, 1].  The lower bound is necessary: 5e-324 lies in [0, 1] and crashes
   (finding F-C04-1).
   (a) on the domain every computed weight is finite and within [0, 1 + 2^-52];
   (b) every slot count lies in [0, S];
   (c) weighTargets neither panics nor loops, whatever the unstable sort does;
   (d) conditional form for any input: finite weights in [0, 1 + 2^-52] => no crash. ---- *)
Theorem C04_binary64_no_panic_on_domain :
  (forall l : list f64, Forall sane_fixed l -> (Z.of_nat (length l) <= 2 ^ 53)%Z ->
     forall w, In w (weigh arithF l) ->
       is_finite 53 1024 w = true /\ (0 <= B2R 53 1024 w <= 1 + Raux.bpow Zaux.radix2 (-52))%R)
  /\ (forall fixed : list f64, Forall sane_fixed fixed -> (Z.of_nat (length fixed) <= 3000000000)%Z ->
       Forall (fun n => 0 <= n <= 10000)%Z (map (slot_count arithF) (weigh arithF fixed)))
  /\ (forall (fixed : list f64) order,
       Forall sane_fixed fixed -> (Z.of_nat (length fixed) <= 3000000000)%Z ->
       (forall s, Permutation (order s) s) ->
       status_of (route_ring arithF order fixed) = Ok tt)
  /\ (forall (fixed : list f64) order,
       (Z.of_nat (length fixed) <= 3000000000)%Z -> (forall s, Permutation (order s) s) ->
       (forall w, In w (weigh arithF fixed) ->
          is_finite 53 1024 w = true /\ (0 <= B2R 53 1024 w <= 1 + Raux.bpow Zaux.radix2 (-52))%R) ->
       status_of (route_ring arithF order fixed) = Ok tt).
Proof. exact binary64_on_domain_all. Qed.
Print Assumptions C04_binary64_no_panic_on_domain.

(* never starved / never picked on binary64: a positive usable weight has a slot, a zero weight none *)
Theorem C04_binary64_positive_weight_has_slot : forall w : f64, is_finite 53 1024 w = true ->
  (0 < B2R 53 1024 w <= 1 + / 65536)%R -> (1 <= slot_count arithF w <= 10000)%Z.
Proof. exact slot_countF_pos. Qed.
Print Assumptions C04_binary64_positive_weight_has_slot.

Theorem C04_binary64_zero_weight_no_slot : forall w : f64, is_finite 53 1024 w = true ->
  (B2R 53 1024 w = 0)%R -> slot_count arithF w = 0%Z.
Proof. exact slot_countF_zero. Qed.
Print Assumptions C04_binary64_zero_weight_no_slot.

(* ---- OPEN FINDING F-C04-3: where the even fallback of 290c777 replaces a proportional distribution ----
   refuted: fixed weights 5e-324 and 1e-323 (bits 1, 2), all targets fixed: 0.5 / 0.5 instead of 1/3, 2/3;
   1e308 and 1.5e308: 0.5 / 0.5 instead of 0.4 / 0.6 (the exact-rational instance of the same algorithm
   gives the proportional values) ... *)
Theorem C04_binary64_fallback_refuted :
  uses_fill arithF (map f64_of_bits [1; 2]%Z) = false
  /\ weighF [1; 2]%Z = [4602678819172646912; 4602678819172646912]%Z
  /\ map Qreduction.Qred (weighQ (map (fun b => f64_to_Q (f64_of_bits b)) [1; 2]%Z)) = [1 # 3; 2 # 3]%Q
  /\ weighF [9214871658872686752; 9217376869322697968]%Z = [4602678819172646912; 4602678819172646912]%Z
  /\ map Qreduction.Qred (weighQ (map (fun b => f64_to_Q (f64_of_bits b)) [9214871658872686752; 9217376869322697968]%Z))
     = [2 # 5; 3 # 5]%Q.
Proof. exact binary64_fallback_refuted. Qed.
Print Assumptions C04_binary64_fallback_refuted.

(* ... and on the complement (finite weights that are dynamic or in [2^-1000, 1], some target fixed) the
   fallback is never taken: the weights are the computed ones and the ring is built by the fill *)
Theorem C04_binary64_no_fallback_on_domain : forall l : list f64,
  Forall sane_fixed l -> (Z.of_nat (length l) <= 3000000000)%Z -> n_fixed arithF l <> 0 ->
  uses_fill arithF l = true /\ weigh arithF l = weigh_unrepaired arithF l.
Proof. exact binary64_no_fallback_on_domain. Qed.
Print Assumptions C04_binary64_no_fallback_on_domain.

(* ---- the defects commit 290c777 repaired, as refutations about the [_unrepaired] model ---- *)
(* F-C04-1: `weight Inf` / `weight 5e-324`: slot count -2^63, make() of a negative length *)
Theorem C04_unrepaired_weight_inf_crashes :
  route_status_unrepaired arithF [f64_of_bits 9218868437227405312] = Panic
  /\ route_status_unrepaired arithF [f64_of_bits 1] = Panic.
Proof. exact unrepaired_weight_inf_crashes. Qed.
Print Assumptions C04_unrepaired_weight_inf_crashes.

(* F-C04-2: two weights of 1e308: the table builds with an EMPTY ring, every pick divides by zero *)
Theorem C04_unrepaired_weight_overflow_empty_ring :
  exists ws, route_ring_unrepaired arithF stable_order
               [f64_of_bits 9214871658872686752; f64_of_bits 9214871658872686752] = Ok (ws, [])
  /\ forall total, rr_pick [] total = Panic.
Proof. exact unrepaired_weight_overflow_empty_ring. Qed.
Print Assumptions C04_unrepaired_weight_overflow_empty_ring.

(* the same witnesses with the code as it is *)
Theorem C04_repaired_witnesses_ok :
  route_status arithF [f64_of_bits 9218868437227405312] = Ok tt
  /\ route_status arithF [f64_of_bits 1] = Ok tt
  /\ route_status arithF [f64_of_bits 9214871658872686752; f64_of_bits 9214871658872686752] = Ok tt.
Proof. exact repaired_witnesses_ok. Qed.
Print Assumptions C04_repaired_witnesses_ok.

(* non-vacuity of the domain: 0.3 is a sane fixed weight, 0 a sane dynamic one *)
Theorem C04_binary64_domain_nonvacuous :
  sane_fixed (f64_of_bits 4599075939470750515) /\ sane_fixed (f64_of_bits 0).
Proof. exact sane_fixed_nonvacuous. Qed.
Print Assumptions C04_binary64_domain_nonvacuous.

(* ---- connections on a listener (Model/ListenerPick.v: main.go's wiring of an `https+tcp+sni` listener
   under proxy.strategy = rr: the tcpproxy matcher looks the server name up, then the SNI proxy or the http
   proxy looks it up again to route the connection).  The property speaks of requests; a listener hands
   them to the pickers connection by connection. ---- *)
(* k connections = k picks, each connection exactly one, on its own route only: for EVERY table and EVERY
   schedule of connections over the routes (and over names without route), the connections of route j are
   served what conns_of j consecutive lookups on route j alone return, and its cursor ends where they leave it *)
Theorem C04_listener_one_pick_per_connection : forall sched tb us tb',
  listener_run MPFirst sched tb = Ok (us, tb') ->
  length tb' = length tb /\ length us = length sched /\
  forall j rt, nth_error tb j = Some rt ->
    exists total', nth_error tb' j = Some (lr_set_total rt total')
      /\ lookups_run (conns_of j sched) (lr_n rt) (lr_ring rt) (lr_total rt) = Ok (served j sched us, total').
Proof. exact listener_route_isolated. Qed.
Print Assumptions C04_listener_one_pick_per_connection.

(* no connection crashes a table whose rings are not empty (C04_binary64_never_panics: they never are) *)
Theorem C04_listener_never_crashes : forall sched tb, Forall route_ok tb ->
  exists us tb', listener_run MPFirst sched tb = Ok (us, tb').
Proof. exact listener_run_total. Qed.
Print Assumptions C04_listener_never_crashes.

(* "each full cycle sends every target the share given by its weight": q whole cycles of connections of
   one route, interleaved in any way with connections of other routes, hand target t exactly q times its
   number of slots (no uint64 wrap of the cursor inside them) *)
Theorem C04_listener_cycles_exact : forall sched tb us tb' j rt q,
  listener_run MPFirst sched tb = Ok (us, tb') -> nth_error tb j = Some rt ->
  2 <= lr_n rt -> lr_ring rt <> [] -> (lr_total rt < two64)%N ->
  (lr_total rt + N.of_nat (q * length (lr_ring rt)) <= two64)%N ->
  conns_of j sched = q * length (lr_ring rt) ->
  length (served j sched us) = q * length (lr_ring rt)
  /\ forall t, occupancy t (served j sched us) = q * occupancy t (lr_ring rt).
Proof. exact listener_cycles_exact. Qed.
Print Assumptions C04_listener_cycles_exact.

(* "a target with positive weight is never starved" *)
Theorem C04_listener_never_starved : forall sched tb us tb' j rt i,
  listener_run MPFirst sched tb = Ok (us, tb') -> nth_error tb j = Some rt ->
  2 <= lr_n rt -> (lr_total rt < two64)%N ->
  (lr_total rt + N.of_nat (length (lr_ring rt)) <= two64)%N ->
  conns_of j sched = length (lr_ring rt) ->
  0 < occupancy (Some i) (lr_ring rt) -> In (Some i) (served j sched us).
Proof. exact listener_never_starved. Qed.
Print Assumptions C04_listener_never_starved.

(* "a target with zero weight is never picked" *)
Theorem C04_listener_zero_never_picked : forall sched tb us tb' j rt i,
  listener_run MPFirst sched tb = Ok (us, tb') -> nth_error tb j = Some rt ->
  2 <= lr_n rt -> occupancy (Some i) (lr_ring rt) = 0 -> ~ In (Some i) (served j sched us).
Proof. exact listener_zero_never_picked. Qed.
Print Assumptions C04_listener_zero_never_picked.

(* non-vacuity: two routes (2 and 3 targets), seven connections interleaved with a name without route *)
Theorem C04_listener_nonvacuous :
  listener_run MPFirst [0; 1; 0; 2; 1; 0; 1; 0]
    [{| lr_n := 2; lr_ring := [Some 0; Some 1]; lr_total := 0 |};
     {| lr_n := 3; lr_ring := [Some 0; Some 1; Some 2]; lr_total := 0 |}]
  = Ok ([Some 0; Some 0; Some 1; None; Some 1; Some 0; Some 2; Some 1],
        [{| lr_n := 2; lr_ring := [Some 0; Some 1]; lr_total := 4 |};
         {| lr_n := 3; lr_ring := [Some 0; Some 1; Some 2]; lr_total := 3 |}]).
Proof. exact listener_nonvacuous. Qed.
Print Assumptions C04_listener_nonvacuous.

(* FIXED FINDING F-C04-4 (repaired by 971ce92): with the matcher as it was (the configured picker: two
   picks per connection) a route of two targets with equal weights sends EVERY connection to the second
   target, however many arrive: the first has a slot (weight 1/2) and is starved *)
Theorem C04_listener_unrepaired_starves : forall k,
  exists tb', listener_run MPConfigured (repeat 0 k) [two_targets 0] = Ok (repeat (Some 1) k, tb')
    /\ occupancy (Some 0) (lr_ring (two_targets 0)) = 1
    /\ occupancy (Some 0) (served 0 (repeat 0 k) (repeat (Some 1) k)) = 0.
Proof. exact listener_unrepaired_starves. Qed.
Print Assumptions C04_listener_unrepaired_starves.

(* the two wirings as instances of "c picks per connection, the last one routes it" (c = 1 since 971ce92,
   c = 2 before) ... *)
Theorem C04_listener_picks_per_connection : forall rt, 2 <= lr_n rt ->
  route_conn MPFirst rt = bind (conn_picks 1 (lr_ring rt) (lr_total rt)) (fun p => Ok (fst p, lr_set_total rt (snd p)))
  /\ route_conn MPConfigured rt = bind (conn_picks 2 (lr_ring rt) (lr_total rt)) (fun p => Ok (fst p, lr_set_total rt (snd p))).
Proof. exact route_conn_picks. Qed.
Print Assumptions C04_listener_picks_per_connection.

(* ... connection number i is then routed by slot (s + c*i + c-1) mod U of the ring: stride c ... *)
Theorem C04_listener_stride : forall r c, r <> [] -> 1 <= c -> forall k total,
  (total < two64)%N -> (total + N.of_nat (c * k) <= two64)%N ->
  conns_run c k r total
  = Ok (map (fun i => nth (conn_slot c (N.to_nat total) (length r) i) r None) (seq 0 k),
        ((total + N.of_nat (c * k)) mod two64)%N).
Proof. exact conns_run_eq. Qed.
Print Assumptions C04_listener_stride.

(* ... one pick per connection is plain round robin (the cycle theorems above apply) ... *)
Theorem C04_listener_one_pick_is_rr : forall r k total, conns_run 1 k r total = rr_run k r total.
Proof. exact conns_run_one. Qed.
Print Assumptions C04_listener_one_pick_is_rr.

(* ... a stride coprime to the ring length still visits every slot once per cycle of connections (the share
   is exact although the order differs: three equal targets survive two picks per connection) ... *)
Theorem C04_listener_coprime_stride_exact : forall r c total, r <> [] -> 1 <= c -> Nat.gcd c (length r) = 1 ->
  (total < two64)%N -> (total + N.of_nat (c * length r) <= two64)%N ->
  exists us total', conns_run c (length r) r total = Ok (us, total')
    /\ forall t, occupancy t us = occupancy t r.
Proof. exact conns_run_coprime_exact. Qed.
Print Assumptions C04_listener_coprime_stride_exact.

(* ... and a stride that shares a factor with the number of equally weighted targets starves one of them for
   ever: the defect is not particular to two targets *)
Theorem C04_listener_stride_starves : forall c U total, 0 < U -> 1 <= c -> 1 < Nat.gcd c U -> (total < two64)%N ->
  exists p, p < U /\ occupancy (Some p) (map Some (seq 0 U)) = 1 /\
    forall k, (total + N.of_nat (c * k) <= two64)%N ->
      exists us total', conns_run c k (map Some (seq 0 U)) total = Ok (us, total') /\ ~ In (Some p) us.
Proof. exact listener_stride_starves. Qed.
Print Assumptions C04_listener_stride_starves.
