(** C18 — shutdown drains in-flight work and completes within the configured wait
    (proxy/serve.go:59-79, proxy/tcp/server.go:122-128, proxy/grpc_handler.go:38-41,
    proxy/inetaf_tcpproxy.go:85-103, main.go:123-133).
    [shutdown wait srvs] is the model of proxy.Shutdown(wait) as it is; [shutdown_fixed] the same
    with a gRPC Shutdown that honours the deadline.  All theorems quantify over every list of
    servers (HTTP, TCP/SNI/dynamic, gRPC, https+tcp+sni composite), every multiset of open work
    with remaining durations in N + {oo}, and every wait.
    Statements, [exact], [Print Assumptions] only. *)
From Coq Require Import List NArith Bool.
From Fabio Require Import Model.Shutdown Proofs.Shutdown.
Import ListNotations.
Local Open Scope N_scope.

(* 1. After shutdown begins no listener accepts: for every server and every time t >= 0. *)
Theorem C18_listeners_closed_first : forall wait srvs r t,
  In r (g_servers (shutdown wait srvs)) -> server_accepts r t = false.
Proof. exact listeners_closed_first. Qed.
Print Assumptions C18_listeners_closed_first.

(* ... and each leaf server's own listener is recorded closed at time 0, i.e. before any waiting *)
Theorem C18_every_listener_closed_at_zero : forall wait srvs s l,
  In s srvs -> In l (leaves s) ->
  exists sr lr, In sr (g_servers (shutdown wait srvs)) /\ In lr (s_leaves sr) /\
                r_closed lr = Some (Fin 0) /\ lr = run_leaf grpc_prog wait l.
Proof. exact every_listener_closed_at_zero. Qed.
Print Assumptions C18_every_listener_closed_at_zero.

(* 2. Every open item that needs no more than the wait ends by itself ([Done n], not cut) and
      does so before proxy.Shutdown returns (so before main.go lets the process exit). *)
Theorem C18_inflight_within_wait_complete : forall wait srvs s l n,
  In s srvs -> In l (leaves s) -> In (Fin n) (litems l) -> n <= wait ->
  fate_of grpc_prog wait l (Fin n) = Done n /\
  survives (shutdown wait srvs) (Done n) = true.
Proof. exact inflight_within_wait_complete. Qed.
Print Assumptions C18_inflight_within_wait_complete.

(* nothing is ever cut before the deadline; only TCP tunnels that outlive it are cut, at the deadline *)
Theorem C18_cut_only_at_deadline : forall wait l d c,
  In d (litems l) -> fate_of grpc_prog wait l d = Cut c ->
  c = Fin wait /\ lkind l = KTcp /\ dltb (Fin wait) d = true.
Proof. exact cut_only_at_deadline. Qed.
Print Assumptions C18_cut_only_at_deadline.

(* 3. Boundedness.  Without gRPC listeners Shutdown returns within the wait whatever is open,
      never-ending tunnels and requests included. *)
Theorem C18_bounded_http_tcp : forall wait srvs,
  (forall s l, In s srvs -> In l (leaves s) -> lkind l <> KGrpc) ->
  dle (g_ret (shutdown wait srvs)) (Fin wait).
Proof. exact bounded_http_tcp. Qed.
Print Assumptions C18_bounded_http_tcp.

(* The clause is FALSE for the code as it is: gRPCServer.Shutdown ignores its context. *)
Theorem C18_grpc_unbounded_refuted :
  exists wait srvs, g_ret (shutdown wait srvs) = Inf /\ ~ dle (g_ret (shutdown wait srvs)) (Fin wait).
Proof. exact grpc_unbounded_refuted. Qed.
Print Assumptions C18_grpc_unbounded_refuted.

Theorem C18_grpc_never_ending_hangs : forall wait srvs s l,
  In s srvs -> In l (leaves s) -> lkind l = KGrpc -> In Inf (litems l) ->
  g_ret (shutdown wait srvs) = Inf.
Proof. exact grpc_never_ending_hangs. Qed.
Print Assumptions C18_grpc_never_ending_hangs.

(* Finding region F-C18-1 = [over_wait]: some gRPC stream outlives the wait.  Outside it the
   bound holds; inside it it fails: an exact characterisation. *)
Theorem C18_bounded_on_domain : forall wait srvs,
  over_wait wait srvs = false -> dle (g_ret (shutdown wait srvs)) (Fin wait).
Proof. exact bounded_on_domain. Qed.
Print Assumptions C18_bounded_on_domain.

Theorem C18_bounded_iff : forall wait srvs,
  dle (g_ret (shutdown wait srvs)) (Fin wait) <-> over_wait wait srvs = false.
Proof. exact bounded_iff. Qed.
Print Assumptions C18_bounded_iff.

Theorem C18_bounded_on_domain_nonvacuous :
  over_wait 300 example_mix = false /\ g_ret (shutdown 300 example_mix) = Fin 300.
Proof. exact bounded_on_domain_nonvacuous. Qed.
Print Assumptions C18_bounded_on_domain_nonvacuous.

(* With the minimal repair (GracefulStop raced against ctx.Done(), then Stop) the bound holds for
   EVERY mix, and clauses 1 and 2 are kept. *)
Theorem C18_bounded_all_if_grpc_honours_deadline : forall wait srvs,
  dle (g_ret (shutdown_fixed wait srvs)) (Fin wait).
Proof. exact bounded_all_if_grpc_honours_deadline. Qed.
Print Assumptions C18_bounded_all_if_grpc_honours_deadline.

Theorem C18_fixed_still_drains : forall wait srvs s l n,
  In s srvs -> In l (leaves s) -> In (Fin n) (litems l) -> n <= wait ->
  fate_of grpc_prog_deadline wait l (Fin n) = Done n /\
  survives (shutdown_fixed wait srvs) (Done n) = true.
Proof. exact fixed_still_drains. Qed.
Print Assumptions C18_fixed_still_drains.

Theorem C18_fixed_listeners_closed_first : forall wait srvs r t,
  In r (g_servers (shutdown_fixed wait srvs)) -> server_accepts r t = false.
Proof. exact fixed_listeners_closed_first. Qed.
Print Assumptions C18_fixed_listeners_closed_first.

(* Further facts about the code as it is. *)
(* any TCP-kind listener makes Shutdown take the whole wait, even when nothing is open *)
Theorem C18_tcp_takes_full_wait : forall wait srvs s l,
  In s srvs -> In l (leaves s) -> lkind l = KTcp -> dle (Fin wait) (g_ret (shutdown wait srvs)).
Proof. exact tcp_takes_full_wait. Qed.
Print Assumptions C18_tcp_takes_full_wait.

(* handlers that are stuck where closing the client connection does not wake them (a dial to a
   silent upstream, a slow custom handler) never delay Shutdown: its return time does not depend
   on [lstuck] at all (and every bound above holds for every [lstuck]); their clients see the
   connection closed at the deadline at the latest.  A Shutdown that waited for the handler
   goroutines would overrun the wait. *)
Theorem C18_stuck_handlers_do_not_delay : forall wait l stuck',
  r_ret (run_leaf grpc_prog wait l) =
  r_ret (run_leaf grpc_prog wait {| lkind := lkind l; litems := litems l; lstuck := stuck' |}).
Proof. exact stuck_handlers_do_not_delay. Qed.
Print Assumptions C18_stuck_handlers_do_not_delay.

Theorem C18_stuck_client_closed_by_deadline : forall wait l f,
  lkind l = KTcp -> In f (r_stuck (run_leaf grpc_prog wait l)) ->
  exists c, f = Cut c /\ dle c (Fin wait).
Proof. exact stuck_client_closed_by_deadline. Qed.
Print Assumptions C18_stuck_client_closed_by_deadline.

Theorem C18_waiting_for_handlers_refuted :
  exists wait l, lkind l = KTcp /\ r_ret (run_leaf grpc_prog wait l) = Fin wait /\
                 ~ dle (tcp_waiting_ret wait l) (Fin wait).
Proof. exact waiting_for_handlers_refuted. Qed.
Print Assumptions C18_waiting_for_handlers_refuted.

(* the servers are shut down concurrently: the waits do not add up *)
Theorem C18_parallel_not_sequential :
  g_ret (shutdown 300 [Single (mkleaf KTcp []); Single (mkleaf KTcp [Inf])]) = Fin 300 /\
  shutdown_sequential_ret 300 [Single (mkleaf KTcp []); Single (mkleaf KTcp [Inf])] = Fin 600.
Proof. exact parallel_not_sequential. Qed.
Print Assumptions C18_parallel_not_sequential.

Theorem C18_inflight_nonvacuous :
  map (fun s => map r_fates (s_leaves s)) (g_servers (shutdown 300 example_mix)) =
  [[[Done 90; Done 600; Never]]; [[Done 150; Cut (Fin 300)]]; [[Done 90; Done 150]];
   [[Done 150; Cut (Fin 300)]; [Done 90; Done 600]]].
Proof. exact inflight_nonvacuous. Qed.
Print Assumptions C18_inflight_nonvacuous.
