(** C18 — shutdown drains in-flight work and completes within the configured wait
    (proxy/serve.go:59-79, proxy/tcp/server.go:122-128, proxy/grpc_handler.go:38-52,
    proxy/inetaf_tcpproxy.go:85-103, main.go:123-133).
    [shutdown wait srvs] is the model of proxy.Shutdown(wait) as it is; [shutdown_unrepaired] the
    same with the gRPC Shutdown as it was before fix 72215e8 (GracefulStop only, context ignored).
    All theorems quantify over every list of servers (HTTP, TCP/SNI/dynamic, gRPC, https+tcp+sni
    composite), every multiset of open work with remaining durations in N + {oo}, every set of
    stuck TCP handlers, and every wait.
    Statements, [exact], [Print Assumptions] only. *)
From Coq Require Import List NArith Bool.
From Fabio Require Import Model.Shutdown Proofs.Shutdown Model.ExitSignals Proofs.ExitSignals
  Model.ExitDeregister Proofs.ExitDeregister.
Import ListNotations.
Local Open Scope N_scope.

(* 1. After shutdown begins no listener accepts: for every server and every time t >= 0. *)
Theorem C18_listeners_closed_first : forall wait srvs r t,
  In r (g_servers (shutdown wait srvs)) -> server_accepts r t = false.
Proof. exact listeners_closed_first. Qed.
Print Assumptions C18_listeners_closed_first.

(* ... and each leaf server's own listener is recorded closed at time 0, i.e. before any waiting *)
Theorem C18_every_listener_closed_at_zero : forall wait srvs s l,
  In s srvs -> In l (leaves s) ->
  exists sr lr, In sr (g_servers (shutdown wait srvs)) /\ In lr (s_leaves sr) /\
                r_closed lr = Some (Fin 0) /\ lr = run_leaf grpc_prog wait l.
Proof. exact every_listener_closed_at_zero. Qed.
Print Assumptions C18_every_listener_closed_at_zero.

(* ... for ALL servers that were started, not only those the registry still holds: serve() keys the
   registry by the configured listen address, so with pairwise distinct configured addresses
   every started server is reached by Shutdown (and its duration is the one of [shutdown]).
   A registry keyed by the port alone would lose one of two listeners on the same port of two
   local addresses, which then accepts for ever. *)
Theorem C18_listeners_closed_first_all_started : forall wait started r t,
  NoDup (map fst started) ->
  In r (run_started grpc_prog key_configured wait started) -> started_accepts r t = false.
Proof. exact listeners_closed_first_all_started. Qed.
Print Assumptions C18_listeners_closed_first_all_started.

Theorem C18_all_started_are_reached : forall gp wait started,
  NoDup (map fst started) ->
  run_started gp key_configured wait started = map (fun p => Some (run_server gp wait (snd p))) started.
Proof. exact all_started_are_reached. Qed.
Print Assumptions C18_all_started_are_reached.

Theorem C18_started_ret_is_shutdown_ret : forall wait started,
  NoDup (map fst started) ->
  started_ret (run_started grpc_prog key_configured wait started) = g_ret (shutdown wait (map snd started)).
Proof. exact started_ret_is_shutdown_ret. Qed.
Print Assumptions C18_started_ret_is_shutdown_ret.

Theorem C18_port_only_key_refuted :
  exists started, NoDup (map fst started) /\
    exists r, In r (run_started grpc_prog key_port_only 300 started) /\ forall t, started_accepts r t = true.
Proof. exact port_only_key_refuted. Qed.
Print Assumptions C18_port_only_key_refuted.

(* Histories: listeners opened and closed while fabio runs (tcp-dynamic: proxy.CloseProxy).  For
   EVERY history of starts and CloseProxy calls (before or during Shutdown) the duration of
   Shutdown is bounded by the wait, and with pairwise distinct start addresses no started
   listener accepts after Shutdown began (closed earlier, or closed first by Shutdown). *)
Theorem C18_history_bounded : forall kf wait h,
  dle (history_ret (run_history grpc_prog kf wait h)) (Fin wait).
Proof. exact history_bounded. Qed.
Print Assumptions C18_history_bounded.

(* [well_formed]: every start finds its address free in the registry (never started, or closed by
   CloseProxy since: the tcp-dynamic restart "start a; CloseProxy a; start a" is covered) and
   nothing is started once Shutdown runs. *)
Theorem C18_history_no_accept : forall wait h f t,
  well_formed h ->
  In f (run_history grpc_prog key_configured wait h) -> sfate_accepts f t = false.
Proof. exact history_no_accept. Qed.
Print Assumptions C18_history_no_accept.

Theorem C18_distinct_starts_well_formed : forall started,
  NoDup (map fst started) -> well_formed (map (fun p => HStart (fst p) (snd p)) started).
Proof. exact distinct_starts_well_formed. Qed.
Print Assumptions C18_distinct_starts_well_formed.

Theorem C18_restart_history_well_formed :
  well_formed [HStart (1, 9000) (Single (mkleaf KTcp [Fin 90; Inf])); HClose (1, 9000);
               HStart (1, 9000) (Single (mkleaf KTcp [Fin 90])); HStart (1, 80) (Single (mkleaf KHttp []))] /\
  run_history grpc_prog key_configured 300
    [HStart (1, 9000) (Single (mkleaf KTcp [Fin 90; Inf])); HClose (1, 9000);
     HStart (1, 9000) (Single (mkleaf KTcp [Fin 90])); HStart (1, 80) (Single (mkleaf KHttp []))]
  = [SClosed; SReached (run_server grpc_prog 300 (Single (mkleaf KTcp [Fin 90])));
     SReached (run_server grpc_prog 300 (Single (mkleaf KHttp [])))].
Proof. exact restart_history_well_formed. Qed.
Print Assumptions C18_restart_history_well_formed.

(* Clause 1 is FALSE outside the well-formed histories (finding F-C18-3, open): a listener that is
   started after Shutdown took its snapshot of the registry (main.go's tcp-dynamic watcher loop is
   never stopped; serve() registers into the fresh map) is never shut down and accepts until the
   process exits.  Complement: C18_history_no_accept (a well-formed history has no late start). *)
Theorem C18_late_start_refuted :
  exists h, has_late_start h = true /\
    exists f, In f (run_history grpc_prog key_configured 300 h) /\ forall t, sfate_accepts f t = true.
Proof. exact late_start_refuted. Qed.
Print Assumptions C18_late_start_refuted.

Theorem C18_late_start_accepts : forall gp kf wait h a s,
  In (HStartDuring a s) h -> In SLate (run_history gp kf wait h).
Proof. exact late_start_accepts. Qed.
Print Assumptions C18_late_start_accepts.

Theorem C18_well_formed_no_late_start : forall reg h,
  well_formed_from reg h -> has_late_start h = false.
Proof. exact well_formed_no_late_start. Qed.
Print Assumptions C18_well_formed_no_late_start.

Theorem C18_history_without_close : forall wait started,
  NoDup (map fst started) ->
  run_history grpc_prog key_configured wait (map (fun p => HStart (fst p) (snd p)) started)
  = map (fun p => SReached (run_server grpc_prog wait (snd p))) started.
Proof. exact history_without_close. Qed.
Print Assumptions C18_history_without_close.

Theorem C18_lock_held_during_close_refuted :
  exists delay wait s, 0 < delay /\
    lock_held_accepts delay (run_server grpc_prog wait s) 0 = true /\
    ~ dle (lock_held_ret delay (run_server grpc_prog wait s)) (Fin wait).
Proof. exact lock_held_during_close_refuted. Qed.
Print Assumptions C18_lock_held_during_close_refuted.

(* 2. Every open item that needs no more than the wait ends by itself ([Done n], not cut) and
      does so before proxy.Shutdown returns (so before main.go lets the process exit). *)
Theorem C18_inflight_within_wait_complete : forall wait srvs s l n,
  In s srvs -> In l (leaves s) -> In (Fin n) (litems l) -> n <= wait ->
  fate_of grpc_prog wait l (Fin n) = Done n /\
  survives (shutdown wait srvs) (Done n) = true.
Proof. exact inflight_within_wait_complete. Qed.
Print Assumptions C18_inflight_within_wait_complete.

(* Clause 2 is FALSE for hijacked HTTP connections (finding F-C18-2, open): http.Server.Shutdown does
   not track a connection once the handler hijacked it (websocket sessions through HTTPProxy), so an
   HTTP-only shutdown returns without waiting and the process exit cuts a session that would have
   ended within the wait.  Complement: C18_inflight_within_wait_complete covers all tracked work
   ([litems]); a hijacked session survives when something else keeps Shutdown busy, e.g. any TCP
   listener (which always takes the full wait). *)
Theorem C18_hijacked_refuted :
  exists wait l n, lkind l = KHttp /\ In (Fin n) (lhijacked l) /\ n <= wait /\
    r_hijacked (run_leaf grpc_prog wait l) = [Done n] /\
    survives (shutdown wait [Single l]) (Done n) = false.
Proof. exact hijacked_refuted. Qed.
Print Assumptions C18_hijacked_refuted.

Theorem C18_hijacked_survives_with_tcp : forall wait srvs s l n,
  In s srvs -> In l (leaves s) -> lkind l = KTcp -> n <= wait ->
  survives (shutdown wait srvs) (Done n) = true.
Proof. exact hijacked_survives_with_tcp. Qed.
Print Assumptions C18_hijacked_survives_with_tcp.

(* nothing is ever cut before the deadline; only TCP tunnels and gRPC streams that outlive it are
   cut, exactly at the deadline; HTTP requests are never cut *)
Theorem C18_cut_only_at_deadline : forall wait l d c,
  In d (litems l) -> fate_of grpc_prog wait l d = Cut c ->
  c = Fin wait /\ (lkind l = KTcp \/ lkind l = KGrpc) /\ dltb (Fin wait) d = true.
Proof. exact cut_only_at_deadline. Qed.
Print Assumptions C18_cut_only_at_deadline.

(* 3. Boundedness: proxy.Shutdown returns within the wait for EVERY mix of servers, whatever is
      open: never-ending gRPC streams, TCP tunnels and HTTP requests included. *)
Theorem C18_bounded : forall wait srvs, dle (g_ret (shutdown wait srvs)) (Fin wait).
Proof. exact bounded. Qed.
Print Assumptions C18_bounded.

(* corollary of C18_bounded (kept under its old name; before fix 72215e8 it was the strongest bound) *)
Theorem C18_bounded_http_tcp : forall wait srvs,
  (forall s l, In s srvs -> In l (leaves s) -> lkind l <> KGrpc) ->
  dle (g_ret (shutdown wait srvs)) (Fin wait).
Proof. exact bounded_http_tcp. Qed.
Print Assumptions C18_bounded_http_tcp.

Theorem C18_bounded_nonvacuous : g_ret (shutdown 300 example_mix) = Fin 300.
Proof. exact bounded_nonvacuous. Qed.
Print Assumptions C18_bounded_nonvacuous.

(* The defect that was repaired in /repo (F-C18-1, fix: 72215e8): gRPCServer.Shutdown called
   GracefulStop and ignored its context, so the clause was FALSE: Shutdown lasted as long as the
   longest gRPC stream.  Kept as theorems about the unrepaired variant of the model. *)
Theorem C18_grpc_unbounded_refuted :
  exists wait srvs, g_ret (shutdown_unrepaired wait srvs) = Inf /\
                    ~ dle (g_ret (shutdown_unrepaired wait srvs)) (Fin wait).
Proof. exact grpc_unbounded_refuted. Qed.
Print Assumptions C18_grpc_unbounded_refuted.

Theorem C18_grpc_never_ending_hangs : forall wait srvs s l,
  In s srvs -> In l (leaves s) -> lkind l = KGrpc -> In Inf (litems l) ->
  g_ret (shutdown_unrepaired wait srvs) = Inf.
Proof. exact grpc_never_ending_hangs. Qed.
Print Assumptions C18_grpc_never_ending_hangs.

(* exactly when it failed: iff some gRPC stream outlived the wait *)
Theorem C18_unrepaired_bounded_iff : forall wait srvs,
  dle (g_ret (shutdown_unrepaired wait srvs)) (Fin wait) <-> over_wait wait srvs = false.
Proof. exact unrepaired_bounded_iff. Qed.
Print Assumptions C18_unrepaired_bounded_iff.

(* the witness on the code as it is: back at the wait, the never-ending stream is cut there *)
Theorem C18_grpc_never_ending_now_cut :
  g_ret (shutdown 300 [Single (mkleaf KGrpc [Fin 90; Inf])]) = Fin 300 /\
  map (fun s => map r_fates (s_leaves s)) (g_servers (shutdown 300 [Single (mkleaf KGrpc [Fin 90; Inf])]))
  = [[[Done 90; Cut (Fin 300)]]].
Proof. exact grpc_never_ending_now_cut. Qed.
Print Assumptions C18_grpc_never_ending_now_cut.

(* Further facts about the code as it is. *)
(* any TCP-kind listener makes Shutdown take the whole wait, even when nothing is open *)
Theorem C18_tcp_takes_full_wait : forall wait srvs s l,
  In s srvs -> In l (leaves s) -> lkind l = KTcp -> dle (Fin wait) (g_ret (shutdown wait srvs)).
Proof. exact tcp_takes_full_wait. Qed.
Print Assumptions C18_tcp_takes_full_wait.

(* handlers that are stuck where closing the client connection does not wake them (a dial to a
   silent upstream, a slow custom handler) never delay Shutdown: its return time does not depend
   on [lstuck] at all (and every bound above holds for every [lstuck]); their clients see the
   connection closed at the deadline at the latest.  A Shutdown that waited for the handler
   goroutines would overrun the wait. *)
Theorem C18_stuck_handlers_do_not_delay : forall wait l stuck' hij',
  r_ret (run_leaf grpc_prog wait l) =
  r_ret (run_leaf grpc_prog wait {| lkind := lkind l; litems := litems l; lstuck := stuck'; lhijacked := hij' |}).
Proof. exact stuck_handlers_do_not_delay. Qed.
Print Assumptions C18_stuck_handlers_do_not_delay.

Theorem C18_stuck_client_closed_by_deadline : forall wait l f,
  lkind l = KTcp -> In f (r_stuck (run_leaf grpc_prog wait l)) ->
  exists c, f = Cut c /\ dle c (Fin wait).
Proof. exact stuck_client_closed_by_deadline. Qed.
Print Assumptions C18_stuck_client_closed_by_deadline.

Theorem C18_waiting_for_handlers_refuted :
  exists wait l, lkind l = KTcp /\ r_ret (run_leaf grpc_prog wait l) = Fin wait /\
                 ~ dle (tcp_waiting_ret wait l) (Fin wait).
Proof. exact waiting_for_handlers_refuted. Qed.
Print Assumptions C18_waiting_for_handlers_refuted.

(* the servers are shut down concurrently: the waits do not add up *)
Theorem C18_parallel_not_sequential :
  g_ret (shutdown 300 [Single (mkleaf KTcp []); Single (mkleaf KTcp [Inf])]) = Fin 300 /\
  shutdown_sequential_ret 300 [Single (mkleaf KTcp []); Single (mkleaf KTcp [Inf])] = Fin 600.
Proof. exact parallel_not_sequential. Qed.
Print Assumptions C18_parallel_not_sequential.

Theorem C18_inflight_nonvacuous :
  map (fun s => map r_fates (s_leaves s)) (g_servers (shutdown 300 example_mix)) =
  [[[Done 90; Done 600; Never]]; [[Done 150; Cut (Fin 300)]];
   [[Done 90; Done 150; Cut (Fin 300); Cut (Fin 300)]];
   [[Done 150; Cut (Fin 300)]; [Done 90; Done 600]]].
Proof. exact inflight_nonvacuous. Qed.
Print Assumptions C18_inflight_nonvacuous.

(* ---- The process: exit.Listen (exit/listen.go:22-52) and the exit handler of main() (main.go:123-133)
   over ARBITRARY lists of signals (SIGHUP / SIGINT / SIGTERM with arrival times), composed with
   [shutdown] for what the drain does.  [listen_phase true] / [proc_end true] / [req_outcome true] are
   the code as it is (a channel stays registered with signal.Notify while the handler runs);
   [first_term] is the declarative "shutdown begins": the arrival time of the first SIGINT/SIGTERM
   of the list.  [work t0] = any registered servers with any open work at t0. ---- *)

(* the drain starts at the first terminating signal and only then (also for the variant below) *)
Theorem C18_drain_starts_at_first_term : forall k w work sigs,
  drain_start (listen_phase k w work sigs) = first_term sigs.
Proof. exact drain_starts_at_first_term. Qed.
Print Assumptions C18_drain_starts_at_first_term.

Theorem C18_signal_handler_closed_form : forall w work sigs,
  listen_phase true w work sigs =
  match first_term sigs with None => PListening | Some t0 => PDraining t0 end.
Proof. exact kept_phase_closed_form. Qed.
Print Assumptions C18_signal_handler_closed_form.

(* SIGHUPs before it are ignored, and whatever arrives after it (any kind, any number, at any
   time) changes neither when the process ends nor what happens to any request *)
Theorem C18_later_signals_change_nothing : forall w work pre e post,
  all_hup pre -> is_term (snd e) = true ->
  listen_phase true w work (pre ++ e :: post) = PDraining (fst e) /\
  listen_phase true w work (pre ++ e :: post) = listen_phase true w work [e].
Proof. exact later_signals_change_nothing. Qed.
Print Assumptions C18_later_signals_change_nothing.

Theorem C18_later_signals_same_end : forall w work pre e post,
  all_hup pre -> is_term (snd e) = true ->
  proc_end true w work (pre ++ e :: post) = proc_end true w work [e].
Proof. exact later_signals_same_end. Qed.
Print Assumptions C18_later_signals_same_end.

Theorem C18_later_signals_same_outcomes : forall w reqs pre e post q,
  all_hup pre -> is_term (snd e) = true ->
  req_outcome true w reqs (pre ++ e :: post) q = req_outcome true w reqs [e] q.
Proof. exact later_signals_same_outcomes. Qed.
Print Assumptions C18_later_signals_same_outcomes.

(* SIGHUPs alone never end the process, close nothing and touch no request *)
Theorem C18_hups_never_end : forall k w work sigs,
  all_hup sigs ->
  listen_phase k w work sigs = PListening /\ proc_end k w work sigs = ERunning /\
  forall p, proc_accepts w work (listen_phase k w work sigs) p = true.
Proof. exact hups_never_end. Qed.
Print Assumptions C18_hups_never_end.

Theorem C18_hups_leave_requests_alone : forall k w reqs sigs q,
  all_hup sigs -> req_outcome k w reqs sigs q = QFate (untouched (q_end q)).
Proof. exact hups_leave_requests_alone. Qed.
Print Assumptions C18_hups_leave_requests_alone.

Theorem C18_end_needs_terminating_signal : forall k w work sigs,
  proc_end k w work sigs <> ERunning -> exists t0, first_term sigs = Some t0.
Proof. exact end_needs_terminating_signal. Qed.
Print Assumptions C18_end_needs_terminating_signal.

(* The three clauses for the process, for EVERY list of signals that has a terminating one.
   3: main() returns (clean end) no later than the wait after the first terminating signal. *)
Theorem C18_process_ends_within_wait : forall w work sigs t0,
  first_term sigs = Some t0 ->
  exists T, proc_end true w work sigs = EClean (Fin T) /\ t0 <= T /\ T <= t0 + w.
Proof. exact process_ends_within_wait. Qed.
Print Assumptions C18_process_ends_within_wait.

(* 2: whatever is open on a registered server then and needs at most the wait ends by itself *)
Theorem C18_process_inflight_complete : forall w work sigs t0 s l n,
  first_term sigs = Some t0 ->
  In s (work t0) -> In l (leaves s) -> In (Fin n) (litems l) -> n <= w ->
  proc_item w l t0 (proc_end true w work sigs) (Fin n) = Done (t0 + n).
Proof. exact process_inflight_complete. Qed.
Print Assumptions C18_process_inflight_complete.

(* ... in absolute time for the requests of the proxy listener main() starts *)
Theorem C18_process_requests_complete : forall w reqs sigs t0 q n,
  first_term sigs = Some t0 ->
  In q reqs -> q_start q < t0 -> q_end q = Fin n -> n <= t0 + w ->
  req_outcome true w reqs sigs q = QFate (Done n).
Proof. exact process_requests_complete. Qed.
Print Assumptions C18_process_requests_complete.

(* 1: from the first terminating signal on nothing is accepted; before it everything is *)
Theorem C18_process_no_accept : forall w work sigs t0 p,
  first_term sigs = Some t0 -> t0 <= p ->
  proc_accepts w work (listen_phase true w work sigs) p = false.
Proof. exact process_no_accept. Qed.
Print Assumptions C18_process_no_accept.

Theorem C18_process_refuses_new_requests : forall w reqs sigs t0 q,
  first_term sigs = Some t0 -> t0 <= q_start q -> req_outcome true w reqs sigs q = QRefused.
Proof. exact process_refuses_new_requests. Qed.
Print Assumptions C18_process_refuses_new_requests.

Theorem C18_process_accepts_before : forall w work k sigs t0 p,
  first_term sigs = Some t0 -> p < t0 -> proc_accepts w work (listen_phase k w work sigs) p = true.
Proof. exact process_accepts_before. Qed.
Print Assumptions C18_process_accepts_before.

(* NOT the code: a handler that calls signal.Stop before the exit handler runs.  A SIGHUP (or a
   second SIGTERM/SIGINT) during the drain then ends the process by the signal's default action
   and a request that would have been answered within the wait is cut there: clause 2 is false. *)
Theorem C18_stop_notify_before_drain_refuted :
  exists w reqs sigs q n t0 k,
    first_term sigs = Some t0 /\ In q reqs /\ q_start q < t0 /\ q_end q = Fin n /\ n <= t0 + w /\
    proc_end false w (main_work reqs) sigs = EKilled k /\ k < n /\
    req_outcome false w reqs sigs q = QFate (Cut (Fin k)).
Proof. exact stop_notify_before_drain_refuted. Qed.
Print Assumptions C18_stop_notify_before_drain_refuted.

(* non-vacuity: HUP@100 TERM@200 HUP@450 INT@600, wait 1000, requests ending at 800 and never *)
Theorem C18_signals_nonvacuous :
  first_term ex_sigs = Some 200 /\
  proc_end true 1000 (main_work ex_reqs) ex_sigs = EClean (Fin 1200) /\
  map (req_outcome true 1000 ex_reqs ex_sigs) ex_reqs = [QFate (Done 800); QFate (Cut (Fin 1200))] /\
  req_outcome true 1000 ex_reqs ex_sigs {| q_start := 300; q_end := Fin 400 |} = QRefused /\
  proc_accepts 1000 (main_work ex_reqs) (listen_phase true 1000 (main_work ex_reqs) ex_sigs) 150 = true /\
  proc_accepts 1000 (main_work ex_reqs) (listen_phase true 1000 (main_work ex_reqs) ex_sigs) 200 = false.
Proof. exact signals_nonvacuous. Qed.
Print Assumptions C18_signals_nonvacuous.

Theorem C18_hups_nonvacuous :
  all_hup [(100, SHup); (300, SHup); (301, SHup)] /\
  proc_end true 1000 (main_work ex_reqs) [(100, SHup); (300, SHup); (301, SHup)] = ERunning.
Proof. exact hups_nonvacuous. Qed.
Print Assumptions C18_hups_nonvacuous.

(* ---- The whole exit handler: deregister ; grace period ; proxy.Shutdown (Model/ExitDeregister.v:
   registry/consul/register.go:71-94, registry/consul/backend.go:98-109, main.go:123-133).
   [retry] = false is the code. ---- *)

(* DeregisterAll returns whatever the agent answers (accepted / refused / failed, in any pattern
   over time), whenever it is called, within the time of five calls to the agent *)
Theorem C18_deregister_always_answered : forall a H,
  (forall c t, dleb (a_hold a c t) (Fin H) = true) ->
  forall registering r,
  exists d, deregister_all false registering a r = Some (Fin d) /\ r <= d /\ d <= r + 5 * H.
Proof. exact dereg_answered. Qed.
Print Assumptions C18_deregister_always_answered.

(* every turn of the registration loop reaches the select, where the request is received *)
Theorem C18_registration_turn_reaches_select : forall a H,
  (forall c t, dleb (a_hold a c t) (Fin H) = true) ->
  forall r t id,
  exists ts id', turn false a r t id = in_select a r ts id' /\ t <= ts /\ ts <= t + 3 * H.
Proof. exact turn_reaches_select. Qed.
Print Assumptions C18_registration_turn_reaches_select.

(* a loop that retries a failed registration without passing through the select: with an agent
   that answers at once and refuses the registration the request is never received (the code: at once) *)
Theorem C18_deregister_retry_without_select_refuted :
  (forall c t, a_hold refusing_agent c t = Fin 0) /\
  (forall r, deregister_all false true refusing_agent r = Some (Fin r)) /\
  (forall r fuel, reg_loop true refusing_agent r fuel 0 false = None).
Proof. exact retry_without_select_refuted. Qed.
Print Assumptions C18_deregister_retry_without_select_refuted.

(* the handler calls proxy.Shutdown no later than five agent calls plus the grace period after the
   first terminating signal, for every signal list *)
Theorem C18_handler_starts_drain : forall a H,
  (forall c t, dleb (a_hold a c t) (Fin H) = true) ->
  forall registering boot grace sigs t0,
  first_term sigs = Some t0 ->
  exists ts, proc_phase false registering a boot grace sigs = Some (PDraining ts)
             /\ t0 + grace <= ts /\ ts <= t0 + 5 * H + grace.
Proof. exact handler_starts_drain. Qed.
Print Assumptions C18_handler_starts_drain.

(* clause 3 for the whole handler: main() returns no later than the wait after that, whatever is open *)
Theorem C18_handler_process_ends : forall a H registering boot grace w work sigs t0,
  (forall c t, dleb (a_hold a c t) (Fin H) = true) ->
  first_term sigs = Some t0 ->
  exists ph T, proc_phase false registering a boot grace sigs = Some ph
               /\ phase_end w work ph = EClean (Fin T) /\ t0 + grace <= T /\ T <= t0 + 5 * H + grace + w.
Proof. exact handler_process_ends. Qed.
Print Assumptions C18_handler_process_ends.

(* clause 1 *)
Theorem C18_handler_no_accept : forall a H registering boot grace w work sigs t0 p,
  (forall c t, dleb (a_hold a c t) (Fin H) = true) ->
  first_term sigs = Some t0 -> t0 + 5 * H + grace <= p ->
  exists ph, proc_phase false registering a boot grace sigs = Some ph /\ proc_accepts w work ph p = false.
Proof. exact handler_no_accept. Qed.
Print Assumptions C18_handler_no_accept.

(* clause 2 *)
Theorem C18_handler_inflight_complete : forall a H registering boot grace w work sigs t0,
  (forall c t, dleb (a_hold a c t) (Fin H) = true) ->
  first_term sigs = Some t0 ->
  exists ts, proc_phase false registering a boot grace sigs = Some (PDraining ts) /\
    forall s l n, In s (work ts) -> In l (leaves s) -> In (Fin n) (litems l) -> n <= w ->
      proc_item w l ts (phase_end w work (PDraining ts)) (Fin n) = Done (ts + n).
Proof. exact handler_inflight_complete. Qed.
Print Assumptions C18_handler_inflight_complete.

Theorem C18_handler_needs_terminating_signal : forall retry registering a boot grace sigs,
  first_term sigs = None -> proc_phase retry registering a boot grace sigs = Some PListening.
Proof. exact handler_needs_terminating_signal. Qed.
Print Assumptions C18_handler_needs_terminating_signal.

(* conservative: nothing to deregister, no grace period = the signal model above *)
Theorem C18_handler_without_registration_is_signal_model : forall a w work sigs,
  proc_phase false false a 0 0 sigs = Some (listen_phase true w work sigs).
Proof. exact handler_without_registration_is_signal_model. Qed.
Print Assumptions C18_handler_without_registration_is_signal_model.

(* F-C18-4: no limit of the handler's own on the agent's answer to the deregister call *)
Theorem C18_deregister_held_refuted :
  (let a := script_agent false None 5000 in
   proc_phase false true a 300 0 [(100, STerm)] = Some (PDraining 5100) /\
   proc_accepts 1000 work_never (PDraining 5100) 5000 = true /\
   phase_end 1000 work_never (PDraining 5100) = EClean (Fin 6100)) /\
  (let a := {| a_ok := fun _ _ => true; a_hold := fun c _ => match c with ADeregister => Inf | _ => Fin 0 end |} in
   proc_phase false true a 300 0 [(100, STerm)] = Some PListening /\
   phase_end 1000 work_never PListening = ERunning).
Proof. exact deregister_held_refuted. Qed.
Print Assumptions C18_deregister_held_refuted.

Theorem C18_handler_nonvacuous :
  let a := script_agent true (Some 2000) 30 in
  (forall c t, dleb (a_hold a c t) (Fin 30) = true) /\
  first_term [(50, SHup); (12400, SInt); (12500, STerm)] = Some 12400 /\
  proc_phase false true a 700 20 [(50, SHup); (12400, SInt); (12500, STerm)] = Some (PDraining 12450).
Proof. exact handler_nonvacuous. Qed.
Print Assumptions C18_handler_nonvacuous.
