(** Proofs about Model/GrpcListeners.v: several gRPC listeners in one process, each with a proxy
    of its own that dials with the listener's own tls.Config (C16). *)
From Coq Require Import String List NArith Bool Lia Permutation PeanoNat Arith.
From Fabio Require Import Lib.Outcome Lib.Bytes Model.GrpcPool Model.GrpcTransport Model.GrpcListeners
  Proofs.GrpcPool Proofs.GrpcTransport.
Import ListNotations.
Local Open Scope N_scope.

(* ---- lists ---- *)
Lemma nth_error_map' {A B} (f : A -> B) l : forall n, nth_error (map f l) n = option_map f (nth_error l n).
Proof. induction l as [|a l IH]; intros [|n]; cbn [map nth_error option_map]; try reflexivity. apply IH. Qed.
Lemma at_listener_same f : forall ps i, nth_error (at_listener i f ps) i = option_map f (nth_error ps i).
Proof.
  induction ps as [|l ps IH]; intros [|i]; cbn [at_listener nth_error option_map]; try reflexivity. apply IH.
Qed.
Lemma at_listener_other f : forall ps i j, i <> j -> nth_error (at_listener i f ps) j = nth_error ps j.
Proof.
  induction ps as [|l ps IH]; intros [|i] [|j] Nq; cbn [at_listener nth_error]; try reflexivity; try congruence.
  apply IH. congruence.
Qed.
Lemma at_listener_length f : forall ps i, length (at_listener i f ps) = length ps.
Proof. induction ps as [|l ps IH]; intros [|i]; cbn [at_listener length]; try reflexivity. now rewrite IH. Qed.
Lemma at_listener_tls f : (forall l, ls_tls (f l) = ls_tls l) ->
  forall ps i, map ls_tls (at_listener i f ps) = map ls_tls ps.
Proof.
  intros Hf. induction ps as [|l ps IH]; intros [|i]; cbn [at_listener map]; try reflexivity.
  - now rewrite Hf.
  - now rewrite IH.
Qed.

(* ---- every listener's proxy runs its own history: what it sees of the process's history, with
   its own TLS flag; calls and ticks of the other listeners are invisible to it ---- *)
Lemma ls_run_nil ng down l : ls_run ng down l [] = l.
Proof. destruct l; reflexivity. Qed.
Lemma ls_run_one ng down l o : ls_run ng down l [o] = ls_step ng down l o.
Proof. reflexivity. Qed.
Lemma ls_run_app ng down l a b : ls_run ng down l (a ++ b) = ls_run ng down (ls_run ng down l a) b.
Proof. unfold ls_run. cbn [ls_tls ls_px]. unfold xrun. now rewrite fold_left_app. Qed.

Lemma lstep_nth ng down ps o j :
  nth_error (lstep ng down ps o) j = option_map (fun l => ls_run ng down l (l_sees j o)) (nth_error ps j).
Proof.
  destruct o as [i m p k|t|i|i u|u]; cbn [lstep l_sees].
  - destruct (Nat.eqb i j) eqn:E.
    + apply Nat.eqb_eq in E. subst j. rewrite at_listener_same. destruct (nth_error ps i); reflexivity.
    + apply Nat.eqb_neq in E. rewrite (at_listener_other _ ps i j E).
      destruct (nth_error ps j) as [l|]; cbn [option_map]; [now rewrite ls_run_nil | reflexivity].
  - rewrite nth_error_map'. destruct (nth_error ps j); reflexivity.
  - destruct (Nat.eqb i j) eqn:E.
    + apply Nat.eqb_eq in E. subst j. rewrite at_listener_same. destruct (nth_error ps i); reflexivity.
    + apply Nat.eqb_neq in E. rewrite (at_listener_other _ ps i j E).
      destruct (nth_error ps j) as [l|]; cbn [option_map]; [now rewrite ls_run_nil | reflexivity].
  - destruct (Nat.eqb i j) eqn:E.
    + apply Nat.eqb_eq in E. subst j. rewrite at_listener_same. destruct (nth_error ps i); reflexivity.
    + apply Nat.eqb_neq in E. rewrite (at_listener_other _ ps i j E).
      destruct (nth_error ps j) as [l|]; cbn [option_map]; [now rewrite ls_run_nil | reflexivity].
  - rewrite nth_error_map'. destruct (nth_error ps j); reflexivity.
Qed.

Theorem listener_runs_own_history ng down j : forall ops ps,
  nth_error (lrun ng down ps ops) j = option_map (fun l => ls_run ng down l (lproj j ops)) (nth_error ps j).
Proof.
  induction ops as [|o ops IH]; intros ps; cbn [lrun fold_left lproj flat_map].
  - destruct (nth_error ps j) as [l|]; cbn [option_map]; [now rewrite ls_run_nil | reflexivity].
  - change (fold_left (lstep ng down) ops (lstep ng down ps o)) with (lrun ng down (lstep ng down ps o) ops).
    rewrite IH, lstep_nth. destruct (nth_error ps j) as [l|]; cbn [option_map]; [|reflexivity].
    fold (lproj j ops). now rewrite ls_run_app.
Qed.

Lemma lstep_tls ng down ps o : map ls_tls (lstep ng down ps o) = map ls_tls ps.
Proof.
  destruct o; cbn [lstep]; try (apply at_listener_tls; reflexivity);
    rewrite map_map; apply map_ext; reflexivity.
Qed.
(* the listeners of a process and their TLS configuration never change *)
Theorem listeners_fixed ng down : forall ops ps, map ls_tls (lrun ng down ps ops) = map ls_tls ps.
Proof.
  induction ops as [|o ops IH]; intros ps; cbn [lrun fold_left]; [reflexivity|].
  change (fold_left (lstep ng down) ops (lstep ng down ps o)) with (lrun ng down (lstep ng down ps o) ops).
  now rewrite IH, lstep_tls.
Qed.
Lemma l_init_nth tls t j : nth_error (l_init tls t) j = option_map (fun b => mklsn b (x_init t)) (nth_error tls j).
Proof. unfold l_init. apply nth_error_map'. Qed.
Lemma l_init_tls tls t : map ls_tls (l_init tls t) = tls.
Proof. unfold l_init. rewrite map_map. cbn [ls_tls]. apply map_id. Qed.

(* the state of listener j after any history of a process started with listeners [tls] *)
Theorem reachable_listener ng down tls t ops j l :
  nth_error (lrun ng down (l_init tls t) ops) j = Some l ->
  exists b, nth_error tls j = Some b /\ ls_tls l = b /\
            ls_px l = xrun ng (unreachable b down) (x_init t) (lproj j ops).
Proof.
  rewrite listener_runs_own_history, l_init_nth. destruct (nth_error tls j) as [b|]; cbn [option_map]; [|discriminate].
  intros E. inversion E; subst. exists b. repeat split.
Qed.
Theorem reachable_listener_inv ng down tls t ops j l :
  nth_error (lrun ng down (l_init tls t) ops) j = Some l -> xinv (ls_px l).
Proof.
  intros H. destruct (reachable_listener _ _ _ _ _ _ _ H) as [b [_ [_ E]]]. rewrite E. apply x_reachable_inv.
Qed.

(* ---- the one table: every proxy of the process reads the table set last ---- *)
Fixpoint last_table (t : table) (ops : list lop) : table :=
  match ops with
  | [] => t
  | LSetTable t' :: r => last_table t' r
  | _ :: r => last_table t r
  end.
Lemma xrun_tbl ng un : forall ops xs,
  s_tbl (x_st (xrun ng un xs ops)) =
  fold_left (fun t o => match o with XOp (SetTable t') => t' | _ => t end) ops (s_tbl (x_st xs)).
Proof.
  induction ops as [|o ops IH]; intros xs; cbn [xrun fold_left]; [reflexivity|].
  change (fold_left (xstep ng un) ops (xstep ng un xs o)) with (xrun ng un (xstep ng un xs o) ops).
  rewrite IH. f_equal. rewrite xstep_st. destruct o as [[m p k|t'| |v]|u]; cbn [step s_tbl]; try reflexivity.
  destruct (lookup (s_tbl (x_st xs)) ng (dsthost m) p) as [ts|]; [|reflexivity].
  destruct (nth_error ts k); reflexivity.
Qed.
Lemma lproj_tbl j : forall ops t,
  fold_left (fun t o => match o with XOp (SetTable t') => t' | _ => t end) (lproj j ops) t = last_table t ops.
Proof.
  induction ops as [|o ops IH]; intros t; cbn [lproj flat_map last_table fold_left]; [reflexivity|].
  fold (lproj j ops). rewrite fold_left_app, IH.
  destruct o as [i m p k|t'|i|i u|u]; cbn [l_sees]; try (destruct (Nat.eqb i j)); reflexivity.
Qed.
Theorem listeners_share_the_table ng down tls t ops j l :
  nth_error (lrun ng down (l_init tls t) ops) j = Some l -> s_tbl (x_st (ls_px l)) = last_table t ops.
Proof.
  intros H. destruct (reachable_listener _ _ _ _ _ _ _ H) as [b [_ [_ E]]]. rewrite E, xrun_tbl. apply lproj_tbl.
Qed.

(* ---- a call through listener i: served with the listener's OWN tls.Config, whatever the other
   listeners of the process are; nobody else's proxy is touched ---- *)
Theorem call_leaves_other_listeners_alone ng down ps i m p k j :
  i <> j -> nth_error (lstep ng down ps (LCall i m p k)) j = nth_error ps j.
Proof. intros Nq. cbn [lstep]. now apply at_listener_other. Qed.

Theorem call_served_with_own_tls ng down tls t ops i l m p k u c :
  nth_error (lrun ng down (l_init tls t) ops) i = Some l ->
  call_conn ng (x_st (ls_px l)) m p k = Some (u, c) ->
  unreachable (ls_tls l) down u = false ->
  exists l', nth_error (lstep ng down (lrun ng down (l_init tls t) ops) (LCall i m p k)) i = Some l' /\
             ls_tls l' = ls_tls l /\
             In (c, u) (x_up (ls_px l')) /\ holds (s_pool (x_st (ls_px l'))) u c.
Proof.
  intros H CC R. pose proof (reachable_listener_inv _ _ _ _ _ _ _ H) as I.
  exists (ls_step ng down l (XOp (Call m p k))). split; [|split; [reflexivity|]].
  - cbn [lstep]. rewrite at_listener_same, H. reflexivity.
  - cbn [ls_step ls_px]. exact (call_has_transport ng _ (ls_px l) m p k u c I CC R).
Qed.

(* the instance the property cares about most: a grpcs:// backend that is up, called through a
   listener with a cert source -- first, last or in the middle of proxy.addr *)
Theorem tls_backend_served_through_tls_listener ng down tls t ops i l m p k u c :
  nth_error (lrun ng down (l_init tls t) ops) i = Some l ->
  nth_error tls i = Some true -> mem u down = false ->
  call_conn ng (x_st (ls_px l)) m p k = Some (u, c) ->
  exists l', nth_error (lstep ng down (lrun ng down (l_init tls t) ops) (LCall i m p k)) i = Some l' /\
             In (c, u) (x_up (ls_px l')) /\ holds (s_pool (x_st (ls_px l'))) u c.
Proof.
  intros H T D CC. destruct (reachable_listener _ _ _ _ _ _ _ H) as [b [Hb [Eb _]]].
  rewrite T in Hb. injection Hb as Hb. rewrite <- Hb in Eb.
  assert (R : unreachable (ls_tls l) down u = false).
  { unfold unreachable, plaintext_to_tls. rewrite D, Eb. cbn [negb]. now rewrite andb_false_r. }
  destruct (call_served_with_own_tls ng down tls t ops i l m p k u c H CC R) as [l' [A [_ [B C]]]].
  exists l'. split; [exact A | split; [exact B | exact C]].
Qed.

(* a call without a route, through any listener, changes no proxy of the process *)
Lemma x_kept_all s up : (forall c u, In (c, u) up -> live (s_pool s) c = true) -> x_kept s up = up.
Proof.
  unfold x_kept. induction up as [|[c u] up IH]; intros H; cbn [filter fst]; [reflexivity|].
  rewrite (H c u (or_introl eq_refl)). f_equal. apply IH. intros c' u' Hin. apply (H c' u'). now right.
Qed.
Lemma x_dead_none s up : (forall c u, In (c, u) up -> live (s_pool s) c = true) -> x_dead s up = [].
Proof.
  unfold x_dead. induction up as [|[c u] up IH]; intros H; cbn [filter fst]; [reflexivity|].
  rewrite (H c u (or_introl eq_refl)). cbn [negb]. apply IH. intros c' u' Hin. apply (H c' u'). now right.
Qed.
Theorem no_route_changes_no_listener ng down tls t ops i l m p k :
  nth_error (lrun ng down (l_init tls t) ops) i = Some l ->
  lookup (s_tbl (x_st (ls_px l))) ng (dsthost m) p = None ->
  lstep ng down (lrun ng down (l_init tls t) ops) (LCall i m p k) = lrun ng down (l_init tls t) ops.
Proof.
  intros H L. pose proof (reachable_listener_inv _ _ _ _ _ _ _ H) as I.
  assert (E : ls_step ng down l (XOp (Call m p k)) = l).
  { destruct (no_route_no_dial ng (x_st (ls_px l)) m p k L) as [S C].
    destruct l as [b xs]. cbn [ls_px] in *. unfold ls_step. cbn [ls_tls ls_px]. f_equal.
    cbn [xstep op_conn]. rewrite C. unfold x_base. rewrite S.
    rewrite (x_kept_all _ _ (xi_live _ I)), (x_dead_none _ _ (xi_live _ I)), app_nil_r. now destruct xs. }
  cbn [lstep]. revert H. generalize (lrun ng down (l_init tls t) ops) as ps. intros ps. revert i.
  induction ps as [|a ps IH]; intros [|i] H; cbn [at_listener nth_error] in *; try reflexivity.
  - inversion H; subst a. now rewrite E.
  - f_equal. now apply IH.
Qed.

(* ---- what the backends see of the process ---- *)
Lemma l_sum_at f g : forall ps i l, nth_error ps i = Some l ->
  l_sum f (at_listener i g ps) + f (ls_px l) = l_sum f ps + f (ls_px (g l)).
Proof.
  induction ps as [|a ps IH]; intros [|i] l H; cbn [nth_error at_listener] in *; try discriminate.
  - inversion H; subst a. unfold l_sum. cbn [fold_right]. lia.
  - specialize (IH i l H). unfold l_sum in *. cbn [fold_right]. lia.
Qed.
Lemma l_sum_le f n : forall ps, (forall l, In l ps -> f (ls_px l) <= n) -> l_sum f ps <= N.of_nat (length ps) * n.
Proof.
  induction ps as [|a ps IH]; intros H; [cbn; lia|].
  unfold l_sum in *. cbn [fold_right length].
  assert (f (ls_px a) <= n) by (apply H; now left).
  assert (fold_right (fun l acc => f (ls_px l) + acc) 0 ps <= N.of_nat (length ps) * n) by (apply IH; intros l Hl; apply H; now right).
  lia.
Qed.
Lemma l_sum_ext f g : forall ps, (forall l, In l ps -> f (ls_px l) = g (ls_px l)) -> l_sum f ps = l_sum g ps.
Proof.
  induction ps as [|a ps IH]; intros H; [reflexivity|]. unfold l_sum in *. cbn [fold_right].
  rewrite (H a (or_introl eq_refl)). f_equal. apply IH. intros l Hl. apply H. now right.
Qed.
Lemma l_sum_add f g : forall ps, l_sum (fun xs => f xs + g xs) ps = l_sum f ps + l_sum g ps.
Proof. induction ps as [|a ps IH]; [reflexivity|]. unfold l_sum in *. cbn [fold_right]. rewrite IH. lia. Qed.

Lemma reachable_all_inv ng down tls t ops l : In l (lrun ng down (l_init tls t) ops) -> xinv (ls_px l).
Proof. intros H. apply In_nth_error in H. destruct H as [j H]. now apply (reachable_listener_inv _ _ _ _ _ _ _ H). Qed.

(* connections begun = ended + up at every backend; and a backend never has more connections
   from the process than the process has gRPC listeners (one per listener: reuse per backend) *)
Theorem connections_bounded_by_listeners ng down tls t ops u :
  let ps := lrun ng down (l_init tls t) ops in
  l_begun_at ps u = l_ended_at ps u + l_up_at ps u /\ l_up_at ps u <= N.of_nat (length tls).
Proof.
  intros ps. split.
  - unfold l_begun_at, l_ended_at, l_up_at. rewrite <- l_sum_add. apply l_sum_ext.
    intros l Hl. apply balance_at. exact (reachable_all_inv _ _ _ _ _ _ Hl).
  - assert (Len : length ps = length tls).
    { unfold ps. rewrite <- (map_length ls_tls), listeners_fixed, l_init_tls. reflexivity. }
    rewrite <- Len. unfold l_up_at.
    pose proof (l_sum_le (fun xs => x_up_at xs u) 1 ps) as B. rewrite N.mul_1_r in B. apply B.
    intros l Hl. apply up_at_most_one. exact (reachable_all_inv _ _ _ _ _ _ Hl).
Qed.

(* a call through listener i that reaches backend u opens exactly one connection there iff
   THAT LISTENER has none to u at the moment -- connections other listeners hold to u are not
   used -- and ends none; no other backend sees anything *)
Theorem call_counts_per_listener ng down tls t ops i l m p k u c :
  let ps := lrun ng down (l_init tls t) ops in
  nth_error ps i = Some l ->
  call_conn ng (x_st (ls_px l)) m p k = Some (u, c) ->
  unreachable (ls_tls l) down u = false ->
  let ps' := lstep ng down ps (LCall i m p k) in
  l_begun_at ps' u = l_begun_at ps u + (if x_up_at (ls_px l) u =? 0 then 1 else 0) /\
  (forall v, l_ended_at ps' v = l_ended_at ps v) /\
  (forall v, v <> u -> l_begun_at ps' v = l_begun_at ps v).
Proof.
  intros ps H CC R ps'. pose proof (reachable_listener_inv _ _ _ _ _ _ _ H) as I.
  destruct (call_counts ng _ (ls_px l) m p k u c I CC R) as [B [E O]].
  set (g := fun l0 => ls_step ng down l0 (XOp (Call m p k))).
  assert (G : ls_px (g l) = xstep ng (unreachable (ls_tls l) down) (ls_px l) (XOp (Call m p k))) by reflexivity.
  unfold ps'. cbn [lstep]. fold g. split; [|split].
  - pose proof (l_sum_at (fun xs => x_begun_at xs u) g ps i l H) as S. rewrite G, B in S.
    unfold l_begun_at. pose proof (balance_at _ u I) as Bal.
    destruct (x_ended_at (ls_px l) u <? x_begun_at (ls_px l) u) eqn:Lt.
    + apply N.ltb_lt in Lt. destruct (x_up_at (ls_px l) u =? 0) eqn:Z; [apply N.eqb_eq in Z; lia | lia].
    + apply N.ltb_ge in Lt. destruct (x_up_at (ls_px l) u =? 0) eqn:Z; [lia | apply N.eqb_neq in Z; lia].
  - intros v. pose proof (l_sum_at (fun xs => x_ended_at xs v) g ps i l H) as S. rewrite G, E in S.
    unfold l_ended_at. lia.
  - intros v Nq. pose proof (l_sum_at (fun xs => x_begun_at xs v) g ps i l H) as S. rewrite G, (O v Nq) in S.
    unfold l_begun_at. lia.
Qed.

(* when every cleanup loop of the process has woken up once: a backend outside the table has
   seen every connection it had from the process end, a backend inside has seen nothing *)

Definition ticked (ng : bool) (down : list url) (l : lsn) : lsn := ls_step ng down l (XOp CleanupTick).
Lemma tick_all_from ng down : forall ps pre,
  lrun ng down (pre ++ ps) (map LTick (seq (length pre) (length ps))) = pre ++ map (ticked ng down) ps.
Proof.
  induction ps as [|a ps IH]; intros pre; cbn [length seq map lrun fold_left]; [reflexivity|].
  change (fold_left (lstep ng down) (map LTick (seq (S (length pre)) (length ps))) (lstep ng down (pre ++ a :: ps) (LTick (length pre))))
    with (lrun ng down (lstep ng down (pre ++ a :: ps) (LTick (length pre))) (map LTick (seq (S (length pre)) (length ps)))).
  assert (E : lstep ng down (pre ++ a :: ps) (LTick (length pre)) = (pre ++ [ticked ng down a]) ++ ps).
  { cbn [lstep]. rewrite <- app_assoc. cbn [app]. clear IH. induction pre as [|b pre IHp]; cbn [app length at_listener]; [reflexivity|].
    now rewrite IHp. }
  rewrite E. specialize (IH (pre ++ [ticked ng down a])). rewrite app_length in IH. cbn [length] in IH.
  rewrite Nat.add_1_r in IH. rewrite IH, <- app_assoc. reflexivity.
Qed.
Theorem tick_all_is_every_listener_ticking ng down ps :
  lrun ng down ps (l_tick_all (length ps)) = map (ticked ng down) ps.
Proof. exact (tick_all_from ng down ps []). Qed.

Theorem tick_all_counts ng down tls t ops u :
  let ps := lrun ng down (l_init tls t) ops in
  let ps' := lrun ng down ps (l_tick_all (length ps)) in
  l_begun_at ps' u = l_begun_at ps u /\
  l_ended_at ps' u = (if mem u (table_urls (last_table t ops)) then l_ended_at ps u else l_begun_at ps u).
Proof.
  intros ps ps'. unfold ps'. rewrite tick_all_is_every_listener_ticking.
  assert (P : forall l, In l ps ->
            x_begun_at (ls_px (ticked ng down l)) u = x_begun_at (ls_px l) u /\
            x_ended_at (ls_px (ticked ng down l)) u =
              (if mem u (table_urls (last_table t ops)) then x_ended_at (ls_px l) u else x_begun_at (ls_px l) u)).
  { intros l Hl. pose proof (reachable_all_inv _ _ _ _ _ _ Hl) as I.
    apply In_nth_error in Hl. destruct Hl as [j Hj].
    rewrite <- (listeners_share_the_table _ _ _ _ _ _ _ Hj).
    exact (tick_counts ng (unreachable (ls_tls l) down) (ls_px l) u I). }
  revert P. generalize ps as qs. intros qs P.
  unfold l_begun_at, l_ended_at. induction qs as [|a qs IH]; cbn [map].
  - unfold l_sum. cbn [fold_right]. destruct (mem u (table_urls (last_table t ops))); split; reflexivity.
  - destruct (P a (or_introl eq_refl)) as [Pb Pe].
    destruct IH as [IHb IHe]; [intros l Hl; apply P; now right|].
    unfold l_sum in *. cbn [fold_right]. rewrite Pb, Pe, IHb, IHe.
    destruct (mem u (table_urls (last_table t ops))); split; reflexivity.
Qed.

(* ---- non-vacuity, and what the theorems exclude ----
   proxy.addr = "A1;proto=grpc,A2;proto=grpcs;cs=..." and a route to a grpcs:// backend *)
Definition ex_ls_tls : list bool := [false; true].
Definition ex_ls_u : url := bs "grpcs://10.0.0.3:9443".
Definition ex_ls_tbl : table := [([], [(bs "/", [ex_ls_u])])].
Definition ex_ls_call (i : nat) : lop := LCall i [] (bs "/pkg.Svc/Get") 0.

Example listeners_nonvacuous :
  let ps0 := l_init ex_ls_tls ex_ls_tbl in
  let ps1 := lrun false [] ps0 [ex_ls_call 1] in
  let ps2 := lrun false [] ps0 [ex_ls_call 1; ex_ls_call 0; ex_ls_call 1] in
  (* the hypotheses of [tls_backend_served_through_tls_listener] for the second listener *)
  nth_error ex_ls_tls 1 = Some true /\
  option_map (fun l => call_conn false (x_st (ls_px l)) [] (bs "/pkg.Svc/Get") 0) (nth_error ps0 1) = Some (Some (ex_ls_u, 0)) /\
  (* served: one connection at the backend, from the second listener; the first listener's call
     (F-C16-2: it dials in the clear) reaches nobody and the second call through the TLS listener
     reuses its connection *)
  option_map (fun l => x_up (ls_px l)) (nth_error ps1 1) = Some [(0, ex_ls_u)] /\
  (l_begun_at ps1 ex_ls_u, l_ended_at ps1 ex_ls_u) = (1, 0) /\
  map (fun l => x_up (ls_px l)) ps2 = [[]; [(0, ex_ls_u)]] /\
  (l_begun_at ps2 ex_ls_u, l_ended_at ps2 ex_ls_u) = (1, 0) /\
  map (fun l => p_pool (s_pool (x_st (ls_px l)))) ps2 = [[(ex_ls_u, 0)]; [(ex_ls_u, 0)]].
Proof. vm_compute. repeat split. Qed.

(* two TLS listeners: each has a connection of its own to the backend, each reuses its own *)
Example listeners_own_pools_nonvacuous :
  let ps := lrun false [] (l_init [true; true] ex_ls_tbl) [ex_ls_call 0; ex_ls_call 1; ex_ls_call 0; ex_ls_call 1] in
  (l_begun_at ps ex_ls_u, l_ended_at ps ex_ls_u, l_up_at ps ex_ls_u) = (2, 0, 2) /\
  (let ps' := lrun false [] ps (LSetTable [] :: l_tick_all 2) in
   (l_begun_at ps' ex_ls_u, l_ended_at ps' ex_ls_u, l_up_at ps' ex_ls_u) = (2, 2, 0)).
Proof. vm_compute. repeat split. Qed.

(* the variant with ONE proxy built for the first listener and shared by all does not have the
   property: behind "grpc first, grpcs second" the call through the grpcs listener is dialled in
   the clear and reaches nobody, where the code as it is serves it *)
Theorem shared_proxy_variant_refuted :
  nth_error ex_ls_tls 1 = Some true /\ mem ex_ls_u [] = false /\
  lookup ex_ls_tbl false (dsthost []) (bs "/pkg.Svc/Get") = Some [ex_ls_u] /\
  x_up (lrun_shared false [] ex_ls_tls ex_ls_tbl [ex_ls_call 1]) = [] /\
  x_begun_at (lrun_shared false [] ex_ls_tls ex_ls_tbl [ex_ls_call 1]) ex_ls_u = 0 /\
  l_begun_at (lrun false [] (l_init ex_ls_tls ex_ls_tbl) [ex_ls_call 1]) ex_ls_u = 1.
Proof. vm_compute. repeat split. Qed.
