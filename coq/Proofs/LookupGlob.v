(** Facts about the glob model (Model/Glob.v) used by the C03 proofs: decomposition of a
    match along the pattern, literal patterns, the literal tail, and: gobwas/glob's two
    deviations only ADD matches. *)
From Coq Require Import String List NArith Bool Lia PeanoNat.
From Fabio Require Import Lib.Bytes Model.Glob.
Import ListNotations.
Local Open Scope N_scope.

Lemma existsb_false {A} (f : A -> bool) l x :
  existsb f l = false -> In x l -> f x = false.
Proof.
  intros H Hin. destruct (f x) eqn:E; [|reflexivity].
  assert (existsb f l = true) by (apply existsb_exists; eauto). congruence.
Qed.

(* ------------------------------------------------------------------ *)
(** * Glob semantics *)
Lemma gmatch_star_unfold p s :
  gmatch (TStar :: p) s
  = gmatch p s || match s with [] => false | _ :: s' => gmatch (TStar :: p) s' end.
Proof. destruct s; reflexivity. Qed.

Lemma gmatch_app p1 : forall p2 s,
  gmatch (p1 ++ p2) s = true ->
  exists s1 s2, s = s1 ++ s2 /\ gmatch p1 s1 = true /\ gmatch p2 s2 = true.
Proof.
  induction p1 as [|t p1 IH]; intros p2 s H.
  - exists [], s. repeat split. exact H.
  - rewrite <- app_comm_cons in H. destruct t as [c| |].
    + destruct s as [|x s]; cbn [gmatch] in H; [discriminate|].
      apply andb_true_iff in H as [Hx H]. destruct (IH _ _ H) as (s1 & s2 & -> & H1 & H2).
      exists (x :: s1), s2. repeat split; [|exact H2]. cbn [gmatch]. now rewrite Hx, H1.
    + destruct s as [|x s]; cbn [gmatch] in H; [discriminate|].
      destruct (IH _ _ H) as (s1 & s2 & -> & H1 & H2).
      exists (x :: s1), s2. repeat split; [|exact H2]. cbn [gmatch]. exact H1.
    + induction s as [|x s IHs]; rewrite gmatch_star_unfold in H;
        apply orb_true_iff in H as [H | H]; try discriminate.
      * destruct (IH _ _ H) as (s1 & s2 & E & H1 & H2).
        exists s1, s2. repeat split; [exact E | | exact H2].
        rewrite gmatch_star_unfold, H1. reflexivity.
      * destruct (IH _ _ H) as (s1 & s2 & E & H1 & H2).
        exists s1, s2. repeat split; [exact E | | exact H2].
        rewrite gmatch_star_unfold, H1. reflexivity.
      * destruct (IHs H) as (s1 & s2 & -> & H1 & H2).
        exists (x :: s1), s2. repeat split; [|exact H2].
        rewrite gmatch_star_unfold, H1. apply orb_true_r.
Qed.

Lemma tok_of_lit c : is_meta c = false -> tok_of c = TLit c.
Proof.
  unfold is_meta, tok_of. intros H. apply orb_false_iff in H as [-> ->]. reflexivity.
Qed.

(* a pattern without metacharacters matches exactly itself *)
Lemma gmatch_lits k : forall s,
  has_meta k = false -> gmatch (parse_glob k) s = true -> k = s.
Proof.
  unfold has_meta, parse_glob. induction k as [|c k IH]; intros s Hm H.
  - destruct s; [reflexivity | discriminate].
  - cbn [existsb] in Hm. apply orb_false_iff in Hm as [Hc Hm].
    cbn [map] in H. rewrite (tok_of_lit c Hc) in H.
    destruct s as [|x s]; cbn [gmatch] in H; [discriminate|].
    apply andb_true_iff in H as [Hx H]. apply N.eqb_eq in Hx. subst x.
    f_equal. now apply IH.
Qed.

Lemma existsb_rev {A} (f : A -> bool) l : existsb f (rev l) = existsb f l.
Proof.
  destruct (existsb f l) eqn:E.
  - apply existsb_exists in E as [x [Hx Hc]]. apply existsb_exists. exists x.
    split; [now apply in_rev in Hx | exact Hc].
  - destruct (existsb f (rev l)) eqn:E'; [|reflexivity].
    apply existsb_exists in E' as [x [Hx Hc]]. apply in_rev in Hx.
    rewrite (existsb_false _ _ _ E Hx) in Hc. discriminate.
Qed.

(* r = its literal head ++ (nothing | a metacharacter and the rest) *)
Lemma take_lits_split r :
  exists rest, r = take_lits r ++ rest /\ has_meta (take_lits r) = false /\
               (rest = [] \/ exists m rest', rest = m :: rest' /\ is_meta m = true).
Proof.
  unfold has_meta. induction r as [|c r IH]; cbn [take_lits].
  - exists []. repeat split. now left.
  - destruct (is_meta c) eqn:E.
    + exists (c :: r). repeat split. right. now exists c, r.
    + destruct IH as (rest & E1 & E2 & E3). exists rest. repeat split.
      * cbn [app]. now rewrite <- E1.
      * cbn [existsb]. now rewrite E, E2.
      * exact E3.
Qed.

Lemma has_meta_lit_tail k : has_meta (lit_tail k) = false.
Proof.
  unfold lit_tail, has_meta. rewrite existsb_rev.
  destruct (take_lits_split (rev k)) as (rest & _ & H & _). exact H.
Qed.

(* whatever a pattern matches ends with the pattern's literal tail *)
Lemma tail_suffix k s : glob_match k s = true -> exists x, s = x ++ lit_tail k.
Proof.
  intros H. destruct (take_lits_split (rev k)) as (rest & E & _ & _).
  assert (Ek : k = rev rest ++ lit_tail k).
  { unfold lit_tail. rewrite <- rev_app_distr, <- E. symmetry. apply rev_involutive. }
  unfold glob_match in H. rewrite Ek in H. unfold parse_glob in H. rewrite map_app in H.
  apply gmatch_app in H as (s1 & s2 & -> & _ & H2).
  exists s1. f_equal. symmetry. apply gmatch_lits; [apply has_meta_lit_tail | exact H2].
Qed.

Lemma glob_exact k s : has_meta k = false -> glob_match k s = true -> k = s.
Proof. intros Hm H. now apply gmatch_lits. Qed.


(* ------------------------------------------------------------------ *)
(** * gobwas/glob accepts everything the glob semantics accepts *)
Lemma skipn_length_app {A} (a b : list A) : skipn (length a) (a ++ b) = b.
Proof. induction a as [|x a IH]; [reflexivity | exact IH]. Qed.

Lemma drop_stars_split r : exists st, r = st ++ drop_stars r.
Proof.
  induction r as [|c r [st IH]]; [now exists []|]. cbn [drop_stars].
  destruct (c =? ch_star); [exists (c :: st); cbn [app]; now rewrite <- IH | now exists []].
Qed.

Lemma prefix_suffix_shape_spec p pre suf :
  prefix_suffix_shape p = Some (pre, suf) ->
  exists st, p = pre ++ st ++ suf /\ has_meta pre = false /\ has_meta suf = false.
Proof.
  unfold prefix_suffix_shape. cbv zeta. destruct (take_lits_split p) as (rest & E & Hm & _).
  destruct (take_lits p) as [|x pre0] eqn:Ep; [discriminate|].
  replace (skipn (length (x :: pre0)) p) with rest
    by (rewrite E at 1; symmetry; apply skipn_length_app).
  destruct rest as [|c rest']; [discriminate|].
  destruct (c =? ch_star); [|discriminate].
  destruct (drop_stars_split rest') as [st Est].
  destruct (drop_stars rest') as [|y suf'] eqn:Ed; [discriminate|].
  destruct (has_meta (y :: suf')) eqn:Hs; [discriminate|].
  intros [= <- <-]. exists (c :: st). split; [|split; [exact Hm | exact Hs]].
  rewrite E at 1. f_equal. cbn [app]. f_equal. exact Est.
Qed.

Theorem glob_implies_gobwas p s : glob_match p s = true -> gobwas_match p s = true.
Proof.
  intros H. unfold gobwas_match. destruct (beq p [ch_qm]) eqn:Eq.
  - apply beq_eq in Eq. subst p. destruct s as [|c [|d s]]; try reflexivity; discriminate.
  - destruct (prefix_suffix_shape p) as [[pre suf]|] eqn:Es; [|exact H].
    apply prefix_suffix_shape_spec in Es as (st & -> & Hp & Hsf).
    unfold glob_match, parse_glob in H. rewrite !map_app in H.
    apply gmatch_app in H as (s1 & s2 & -> & H1 & H2).
    apply gmatch_app in H2 as (s3 & s4 & -> & _ & H4).
    apply (gmatch_lits pre s1 Hp) in H1. apply (gmatch_lits suf s4 Hsf) in H4. subst.
    apply andb_true_iff. split.
    + apply has_prefix_spec. now exists (s3 ++ s4).
    + apply has_suffix_spec. exists (s1 ++ s3). now rewrite app_assoc.
Qed.
