(** Proofs for Model/OperatorText.v: the operator's commands, written as text, are read by the
    parser (C05's model) as exactly the definitions they stand for -- every byte between the
    quotes of a tags / opts clause is data, a blank followed by '#' included --, the combined
    text (service routes, newline, operator's text) is accepted by NewTable, and the table is the
    operator's commands applied on top of the service routes. *)
From Coq Require Import String List NArith ZArith Bool Lia.
From Fabio Require Import Lib.Outcome Lib.Bytes Model.WtF64 Model.TableCmd Model.RouteText Model.RouteCmd
     Proofs.TableCmd Proofs.RouteCmd
     Model.Consul Model.Watch Model.ConsulSpec Proofs.Consul Proofs.Watch Model.RegistryTable Proofs.ManualOnTop
     Proofs.RegistryTable Model.OperatorText.
Import ListNotations.
Local Open Scope N_scope.

(* ================= scanner lemmas for 'route del' / 'route weight' ================= *)
Lemma opt_group_some g s (v r : str) : opt_group g s = (Some v, r) -> g s = Some (v, r).
Proof. unfold opt_group. destruct (g s) as [[v' r']|]; intros H; inversion H; reflexivity. Qed.

(* a word that does not start with the keyword, followed by a blank or the end, is not the keyword *)
Lemma has_prefix_app_stop k : forallb ns k = true -> forall s r,
  stops r = true -> has_prefix s k = false -> has_prefix (s ++ r) k = false.
Proof.
  induction k as [|c k IH]; intros Hk s r Hr H.
  - destruct s; discriminate.
  - cbn [forallb] in Hk. apply andb_true_iff in Hk as [Hc Hk].
    destruct s as [|x s]; cbn [app].
    + destruct r as [|y r]; [reflexivity|]. cbn [has_prefix]. cbn [stops] in Hr.
      destruct (y =? c) eqn:E; [|reflexivity]. apply N.eqb_eq in E. subst y.
      unfold ns in Hc. rewrite Hr in Hc. discriminate.
    + cbn [has_prefix] in *. destruct (x =? c); [|reflexivity]. cbn [andb] in *. now apply IH.
Qed.

Lemma lit_tags_none s r : not_tags_kw s = true -> stops r = true -> lit k_tags (s ++ r) = None.
Proof.
  intros H Hr. unfold lit. unfold not_tags_kw in H. apply negb_true_iff in H.
  now rewrite (has_prefix_app_stop k_tags eq_refl s r Hr H).
Qed.

Lemma stops_word_clause w r : stops (word_clause w ++ r) = stops r \/ stops (word_clause w ++ r) = true.
Proof. destruct w; [now left | now right]. Qed.

Lemma kw_quoted_tags q : no_quote q = true -> kw_quoted k_tags (Tq (Some q) ++ Oq None) = Some (q, []).
Proof.
  intros H. apply opt_group_some. apply (grp_tags (Some q) None). intros x Hx. now inversion Hx; subst.
Qed.

Lemma kw_tok_weight w q : word_ok w = true ->
  kw_tok k_weight (Wq (Some w) ++ Tq q ++ Oq None) = Some (w, Tq q ++ Oq None).
Proof.
  intros H. apply opt_group_some. apply (grp_weight (Some w) q None). intros x Hx. now inversion Hx; subst.
Qed.

(* the optional "\s+(\S+)" of reDel *)
Definition more_tok (r : str) : option (str * str) := obind (ws1 r) tok.

Lemma match_del_unfold s :
  match_del s =
  obind (ws1 s) (fun r => obind (tok r) (fun x => match x with (svc, r) =>
    match more_tok r with
    | None => if at_end r then Some (svc, None, None) else None
    | Some (src, r) =>
        match more_tok r with
        | None => if at_end r then Some (svc, Some src, None) else None
        | Some (dst, r) => if at_end r then Some (svc, Some src, Some dst) else None
        end
    end end)).
Proof. reflexivity. Qed.

Lemma more_tok_word w r : word_ok w = true -> stops r = true -> more_tok (32 :: w ++ r) = Some (w, r).
Proof.
  intros Hw Hr. unfold more_tok. rewrite ws1_sp by (now apply word_starts). cbn [obind]. now apply tok_word.
Qed.

Section Lines.
  Variable pw : str -> outcome wt.

  (* ---- route del svc [src [dst]] ---- *)
  Definition del_rest (src dst : str) : str := word_clause src ++ word_clause dst.

  Lemma stops_del_rest src dst : stops (del_rest src dst) = true.
  Proof. unfold del_rest. destruct src, dst; reflexivity. Qed.

  Definition dst_after_src (src dst : str) : bool := match src, dst with [], _ :: _ => false | _, _ => true end.

  Lemma del_not_svc_tags svc src dst :
    word_ok svc = true -> word_opt src = true -> not_tags_kw src = true -> dst_after_src src dst = true ->
    match_del_svc_tags (32 :: svc ++ del_rest src dst) = None.
  Proof.
    intros Hs Hsrc Hk Hd. unfold match_del_svc_tags.
    rewrite ws1_sp by (now apply word_starts). cbn [obind].
    rewrite tok_word by (auto using stops_del_rest). cbn [obind].
    unfold del_rest. destruct src as [|c src].
    - destruct dst; [reflexivity | discriminate].
    - remember (c :: src) as w eqn:Ew. unfold kw_quoted.
      replace (word_clause w) with (32 :: w) by (subst w; reflexivity).
      cbn [app].
      rewrite ws1_sp by (apply word_starts; subst w; exact Hsrc). cbn [obind].
      rewrite lit_tags_none; [reflexivity | exact Hk | destruct dst; reflexivity].
  Qed.

  Lemma del_not_tags svc src dst :
    word_ok svc = true -> not_tags_kw svc = true -> match_del_tags (32 :: svc ++ del_rest src dst) = None.
  Proof.
    intros Hs Hk. unfold match_del_tags, kw_quoted.
    rewrite ws1_sp by (now apply word_starts). cbn [obind].
    rewrite lit_tags_none; [reflexivity | exact Hk | apply stops_del_rest].
  Qed.

  Lemma match_del_line svc src dst :
    word_ok svc = true -> word_opt src = true -> word_opt dst = true -> dst_after_src src dst = true ->
    match_del (32 :: svc ++ del_rest src dst)
    = Some (svc, match src with [] => None | _ => Some src end, match dst with [] => None | _ => Some dst end).
  Proof.
    intros Hs Hsrc Hdst Hd. rewrite match_del_unfold.
    rewrite ws1_sp by (now apply word_starts). cbn [obind].
    rewrite tok_word by (auto using stops_del_rest). cbn [obind].
    unfold del_rest. destruct src as [|c src].
    - destruct dst; [reflexivity | discriminate].
    - remember (c :: src) as w eqn:Ew.
      replace (word_clause w) with (32 :: w) by (subst w; reflexivity).
      cbn [app].
      rewrite more_tok_word; [| subst w; exact Hsrc | destruct dst; reflexivity].
      destruct dst as [|e dst]; [subst w; reflexivity|].
      remember (e :: dst) as w2 eqn:Ew2.
      replace (word_clause w2) with (32 :: w2 ++ []) by (subst w2; cbn [word_clause]; unfold sp; now rewrite app_nil_r).
      rewrite more_tok_word; [subst w w2; reflexivity | subst w2; exact Hdst | reflexivity].
  Qed.

  Definition del_line (svc src dst : str) : str := s_route_del ++ 32 :: svc ++ del_rest src dst.

  Lemma ends_ns_del_line svc src dst : word_ok svc = true -> word_opt src = true -> word_opt dst = true ->
    ends_ns (del_line svc src dst) = true.
  Proof.
    intros Hs Hsrc Hdst. unfold del_line, del_rest. apply ends_ns_app.
    change (32 :: svc ++ word_clause src ++ word_clause dst) with ([32] ++ svc ++ word_clause src ++ word_clause dst).
    apply ends_ns_app. destruct dst as [|e dst].
    - cbn [word_clause]. rewrite app_nil_r. destruct src as [|c src].
      + cbn [word_clause]. rewrite app_nil_r. now apply ends_ns_word.
      + apply ends_ns_app. cbn [word_clause]. apply ends_ns_app. now apply ends_ns_word.
    - rewrite app_assoc. apply ends_ns_app. cbn [word_clause]. apply ends_ns_app. now apply ends_ns_word.
  Qed.

  Lemma parse_del_line svc src dst :
    word_ok svc = true -> not_tags_kw svc = true -> word_opt src = true -> not_tags_kw src = true ->
    word_opt dst = true -> dst_after_src src dst = true ->
    parse_line pw (del_line svc src dst) = Ok (Some (mk CmdDel svc src dst WZ [] [])).
  Proof.
    intros Hs Hks Hsrc Hksrc Hdst Hd. unfold parse_line.
    rewrite trim_space_id; [| reflexivity | now apply ends_ns_del_line].
    unfold del_line. 
    change (is_comment (s_route_del ++ 32 :: svc ++ del_rest src dst)) with false.
    change (at_end (s_route_del ++ 32 :: svc ++ del_rest src dst)) with false. cbn [orb].
    change (route_kw k_add (s_route_del ++ 32 :: svc ++ del_rest src dst)) with (@None str).
    change (route_kw k_del (s_route_del ++ 32 :: svc ++ del_rest src dst)) with (Some (32 :: svc ++ del_rest src dst)).
    unfold parse_route_del.
    rewrite del_not_svc_tags, del_not_tags, match_del_line by assumption.
    cbn [bind]. destruct src, dst; reflexivity.
  Qed.

  (* ---- route del [svc] tags "q" ---- *)
  Definition del_tags_line (svc q : str) : str := s_route_del ++ word_clause svc ++ Tq (Some q) ++ Oq None.

  Lemma ends_ns_del_tags_line svc q : ends_ns (del_tags_line svc q) = true.
  Proof.
    unfold del_tags_line, Tq, Oq. rewrite app_nil_r.
    change (34 :: q ++ [34]) with ((34 :: q) ++ [34]). rewrite !app_assoc. apply ends_ns_quote.
  Qed.

  Lemma parse_del_tags_line svc q :
    word_opt svc = true -> no_quote q = true ->
    parse_line pw (del_tags_line svc q) = Ok (Some (mk CmdDel svc [] [] WZ (parse_tags q) [])).
  Proof.
    intros Hs Hq. unfold parse_line.
    rewrite trim_space_id; [| reflexivity | apply ends_ns_del_tags_line].
    unfold del_tags_line.
    change (is_comment (s_route_del ++ word_clause svc ++ Tq (Some q) ++ Oq None)) with false.
    change (at_end (s_route_del ++ word_clause svc ++ Tq (Some q) ++ Oq None)) with false. cbn [orb].
    destruct svc as [|c svc].
    - cbn [word_clause app].
      change (route_kw k_add (s_route_del ++ Tq (Some q) ++ Oq None)) with (@None str).
      change (route_kw k_del (s_route_del ++ Tq (Some q) ++ Oq None)) with (Some (Tq (Some q) ++ Oq None)).
      unfold parse_route_del.
      assert (E1 : match_del_svc_tags (Tq (Some q) ++ Oq None) = None) by reflexivity.
      rewrite E1. unfold match_del_tags. rewrite kw_quoted_tags by exact Hq. reflexivity.
    - remember (c :: svc) as w eqn:Ew.
      replace (word_clause w) with (32 :: w) by (subst w; reflexivity).
      change (route_kw k_add (s_route_del ++ (32 :: w) ++ Tq (Some q) ++ Oq None)) with (@None str).
      change (route_kw k_del (s_route_del ++ (32 :: w) ++ Tq (Some q) ++ Oq None)) with (Some (32 :: w ++ Tq (Some q) ++ Oq None)).
      unfold parse_route_del, match_del_svc_tags.
      rewrite ws1_sp by (apply word_starts; subst w; exact Hs). cbn [obind].
      rewrite tok_word; [| subst w; exact Hs | reflexivity]. cbn [obind].
      rewrite kw_quoted_tags by exact Hq. reflexivity.
  Qed.

  (* ---- route weight svc src weight w [tags "q"] ---- *)
  Definition weight_line (svc src w : str) (q : option str) : str :=
    s_route_weight ++ 32 :: svc ++ 32 :: src ++ Wq (Some w) ++ Tq q ++ Oq None.

  Lemma ends_ns_weight_line svc src w q : word_ok w = true -> ends_ns (weight_line svc src w q) = true.
  Proof.
    intros Hw. unfold weight_line. apply ends_ns_app.
    change (32 :: svc ++ 32 :: src ++ Wq (Some w) ++ Tq q ++ Oq None) with (([32] ++ svc) ++ [32] ++ src ++ Wq (Some w) ++ Tq q ++ Oq None).
    apply ends_ns_app. apply ends_ns_app. apply ends_ns_app. cbn [Oq]. rewrite app_nil_r.
    destruct q as [x|].
    - apply ends_ns_app. unfold Tq. change (34 :: x ++ [34]) with ((34 :: x) ++ [34]). rewrite app_assoc. apply ends_ns_quote.
    - cbn [Tq]. rewrite app_nil_r. unfold Wq. apply ends_ns_app. now apply ends_ns_word.
  Qed.

  Lemma parse_weight_line svc src w q :
    word_ok svc = true -> word_ok src = true -> word_ok w = true -> owf no_quote q ->
    parse_line pw (weight_line svc src w q) =
      match parse_weight pw (Some w) with
      | Ok f => Ok (Some (mk CmdWeight svc src [] f (parse_tags (ostr q)) []))
      | _ => Err e_weight_value
      end.
  Proof.
    intros Hs Hsrc Hw Hq. unfold parse_line.
    rewrite trim_space_id; [| reflexivity | now apply ends_ns_weight_line].
    unfold weight_line.
    set (R := 32 :: svc ++ 32 :: src ++ Wq (Some w) ++ Tq q ++ Oq None).
    change (is_comment (s_route_weight ++ R)) with false.
    change (at_end (s_route_weight ++ R)) with false. cbn [orb].
    change (route_kw k_add (s_route_weight ++ R)) with (@None str).
    change (route_kw k_del (s_route_weight ++ R)) with (@None str).
    change (route_kw k_weight (s_route_weight ++ R)) with (Some R).
    unfold parse_route_weight, match_weight_svc, R.
    rewrite ws1_sp by (now apply word_starts). cbn [obind].
    rewrite tok_word by auto. cbn [obind].
    rewrite ws1_sp by (now apply word_starts). cbn [obind].
    rewrite tok_word; [| exact Hsrc | reflexivity]. cbn [obind].
    rewrite kw_tok_weight by exact Hw. cbn [obind].
    rewrite grp_tags by exact Hq. cbn [Oq at_end].
    destruct (parse_weight pw (Some w)); reflexivity.
  Qed.

  (* ---- comment and blank lines ---- *)
  Lemma parse_note_line text : parse_line pw (35 :: text) = Ok None.
  Proof.
    unfold parse_line.
    assert (E : exists r, RouteText.trim_space (35 :: text) = 35 :: r).
    { unfold RouteText.trim_space. cbn [drop_while]. change (go_space 35) with false. cbn iota.
      cbn [rev]. destruct (drop_while_snoc go_space (rev text) 35 eq_refl) as [l' ->].
      rewrite rev_app_distr. cbn [rev app]. eauto. }
    destruct E as [r ->]. reflexivity.
  Qed.
  Lemma parse_blank_line : parse_line pw [] = Ok None.
  Proof. reflexivity. Qed.
End Lines.

(* ================= the text of one command, read by the parser ================= *)
Lemma render_del svc src dst : render_op (OpDel svc src dst) = del_line svc src dst.
Proof. reflexivity. Qed.

Lemma render_del_tags svc ts : ts <> [] -> render_op (OpDelTags svc ts) = del_tags_line svc (join ts [44]).
Proof.
  intros H. unfold render_op, del_tags_line, tags_clause, Tq, Oq. rewrite app_nil_r.
  destruct ts; [congruence | reflexivity].
Qed.

Lemma render_weight svc src w ts : render_op (OpWeight svc src w ts) = weight_line svc src w (topt ts).
Proof.
  unfold render_op, weight_line, tags_clause, Wq, Oq. rewrite app_nil_r.
  unfold sp. cbn [app]. do 4 f_equal. rewrite <- app_assoc. f_equal. f_equal.
  destruct ts; [reflexivity|]. reflexivity.
Qed.

Lemma lacks_word_opt c w : go_space c = true -> word_opt w = true -> lacks c w = true.
Proof.
  intros Hc Hw. destruct w as [|x w]; [reflexivity|]. cbn [word_opt] in Hw.
  apply andb_true_iff in Hw as [_ Hw]. now apply space_free_lacks.
Qed.

Lemma lacks_word_clause c w : go_space c = true -> c <> 32 -> word_opt w = true -> lacks c (word_clause w) = true.
Proof.
  intros Hc Hn Hw. destruct w as [|x w]; [reflexivity|]. unfold word_clause, sp.
  rewrite lacks_app, (lacks_word_opt c (x :: w) Hc Hw), andb_true_r.
  unfold lacks. cbn [existsb]. rewrite orb_false_r. apply negb_true_iff. now apply N.eqb_neq.
Qed.

Lemma lacks_tags_join c ts : c = 10 \/ c = 13 -> tags_ok ts = true -> lacks c (join ts [44]) = true.
Proof.
  intros Hc Ht. destruct ts as [|t ts]; [reflexivity|].
  destruct (tags_ok_inv (t :: ts) Ht) as (_ & H2); [discriminate|].
  apply lacks_join; [|destruct Hc as [-> | ->]; reflexivity].
  eapply forallb_impl; [|exact H2]. intros x Hx. apply tag_cond_inv in Hx as (_ & _ & Hn & Hr & _).
  destruct Hc as [-> | ->]; assumption.
Qed.

Lemma lacks_tags_clause c ts : c = 10 \/ c = 13 -> tags_ok ts = true -> lacks c (tags_clause ts) = true.
Proof.
  intros Hc Ht. pose proof (lacks_tags_join c ts Hc Ht) as Hj. unfold tags_clause.
  destruct ts as [|t ts]; [reflexivity|].
  rewrite !lacks_app, Hj. destruct Hc as [-> | ->]; reflexivity.
Qed.

Section OneOp.
  Variable pw : str -> outcome wt.
  Variable canon : str -> option str.
  Variable gl : str -> bool.

  Notation opx := (op_expressible pw canon gl).

  (* an expressible command, written as a line: the parser reads the definition it stands for *)
  Theorem op_line_parses o : opx o = true ->
    exists od, op_def pw o = Ok od /\ parse_line pw (drop_cr (render_op o)) = Ok od
               /\ lacks 10 (render_op o) = true.
  Proof.
    destruct o as [i | svc src dst | svc ts | svc src w ts | text | ]; cbn [op_expressible]; intros H.
    - destruct (render_parse_line pw canon gl i H) as (d & Hd & Hp & He).
      exists (Some d). cbn [op_def render_op]. rewrite Hd, (drop_cr_id _ He), Hp.
      split; [reflexivity|]. split; [reflexivity|]. now apply (render_lacks_nl pw canon gl).
    - apply andb_true_iff in H as [H Hcan]. apply andb_true_iff in H as [H Hd]. apply andb_true_iff in H as [H Hdst].
      apply andb_true_iff in H as [H Hksrc]. apply andb_true_iff in H as [H Hsrc]. apply andb_true_iff in H as [Hs Hks].
      exists (Some (mk CmdDel svc src dst WZ [] [])). split; [reflexivity|].
      rewrite render_del. rewrite drop_cr_id by (now apply ends_ns_del_line).
      split; [now apply parse_del_line|].
      unfold del_line, del_rest. change (32 :: svc ++ ?x) with ([32] ++ svc ++ x).
      rewrite !lacks_app.
      rewrite (lacks_word_opt 10 svc eq_refl) by (destruct svc; [discriminate | exact Hs]).
      rewrite !lacks_word_clause by (auto; discriminate). reflexivity.
    - apply andb_true_iff in H as [H Ht]. apply andb_true_iff in H as [Hs Hne].
      assert (Hn : ts <> []) by (destruct ts; [discriminate | discriminate]).
      exists (Some (mk CmdDel svc [] [] WZ ts [])). split; [reflexivity|].
      rewrite (render_del_tags svc ts Hn). rewrite drop_cr_id by apply ends_ns_del_tags_line.
      split.
      + rewrite parse_del_tags_line; [| exact Hs |].
        * pose proof (parse_tags_topt ts Ht) as E. destruct ts; [congruence|]. cbn [topt ostr] in E. now rewrite E.
        * pose proof (owf_topt ts Ht) as Hq. destruct ts; [congruence|]. now apply Hq.
      + rewrite <- (render_del_tags svc ts Hn). cbn [render_op]. rewrite !lacks_app.
        rewrite (lacks_word_clause 10 svc eq_refl) by (auto; discriminate).
        rewrite (lacks_tags_clause 10 ts) by auto. reflexivity.
    - apply andb_true_iff in H as [H Ht]. apply andb_true_iff in H as [H Hok]. apply andb_true_iff in H as [H Hw].
      apply andb_true_iff in H as [Hs Hsrc].
      rewrite render_weight. rewrite drop_cr_id by (now apply ends_ns_weight_line).
      rewrite parse_weight_line; [| assumption | assumption | assumption | now apply owf_topt].
      rewrite (parse_tags_topt ts Ht). cbn [op_def].
      assert (Hpw : is_ok (parse_weight pw (Some w)) = true).
      { destruct w; [discriminate | exact Hok]. }
      destruct (parse_weight pw (Some w)) as [f| |]; try discriminate.
      eexists. split; [reflexivity|]. split; [reflexivity|].
      rewrite <- render_weight. cbn [render_op]. unfold sp. rewrite !lacks_app.
      rewrite (lacks_word_opt 10 svc eq_refl) by (destruct svc; [discriminate | exact Hs]).
      rewrite (lacks_word_opt 10 src eq_refl) by (destruct src; [discriminate | exact Hsrc]).
      rewrite (lacks_word_opt 10 w eq_refl) by (destruct w; [discriminate | exact Hw]).
      rewrite (lacks_tags_clause 10 ts) by auto. reflexivity.
    - apply andb_true_iff in H as [Hn Hc]. exists None. split; [reflexivity|]. cbn [render_op].
      assert (Hl13 : lacks 13 (35 :: text) = true) by (rewrite lacks_cons; exact Hc).
      rewrite (drop_cr_lacks _ Hl13). split; [apply parse_note_line|]. rewrite lacks_cons. exact Hn.
    - exists None. repeat split; reflexivity.
  Qed.
End OneOp.

(* ================= the operator's text ================= *)
Section Text.
  Variable pw : str -> outcome wt.
  Variable canon : str -> option str.
  Variable gl : str -> bool.

  Notation opx := (op_expressible pw canon gl).

  Lemma op_lines_parse ops : forallb opx ops = true ->
    exists dm, op_defs pw ops = Ok dm /\ parse_lines pw (map render_op ops) = Ok dm
               /\ forallb (lacks 10) (map render_op ops) = true.
  Proof.
    induction ops as [|o ops IH]; intros H; cbn [forallb] in H.
    - exists []. repeat split; reflexivity.
    - apply andb_true_iff in H as [Ho Hops]. destruct (IH Hops) as (dm & Hd & Hp & Hl).
      destruct (op_line_parses pw canon gl o Ho) as (od & Hod & Hpo & Hlo).
      exists (match od with Some d => d :: dm | None => dm end).
      cbn [op_defs map parse_lines forallb]. rewrite Hod, Hd, Hpo, Hp, Hlo, Hl. cbn [bind]. repeat split; reflexivity.
  Qed.

  (* C01, the operator's side, character level: the text of expressible commands -- whatever the
     bytes between the quotes of their tags / opts clauses, '#' after a blank included -- is read
     as exactly the definitions the commands stand for *)
  Theorem operator_text_parses ops : forallb opx ops = true ->
    exists dm, op_defs pw ops = Ok dm /\ parse pw (operator_text ops) = Ok dm.
  Proof.
    intros H. destruct (op_lines_parse ops H) as (dm & Hd & Hp & Hl). exists dm. split; [exact Hd|].
    unfold parse, operator_text. destruct ops as [|o ops]; [inversion Hd; reflexivity|].
    rewrite split_join; [exact Hp | discriminate | exact Hl].
  Qed.
End Text.

(* ================= applied on top: the content of the table ================= *)
Definition same_set (a b : list ocore) : Prop := forall c, In c a <-> In c b.

Lemma same_set_unfold a b : same_set a b <-> forall c, In c a <-> In c b.
Proof. reflexivity. Qed.
Lemma same_set_refl a : same_set a a.
Proof. intros c. reflexivity. Qed.
Lemma same_set_trans a b c : same_set a b -> same_set b c -> same_set a c.
Proof. intros H1 H2 x. rewrite (H1 x). apply H2. Qed.

Lemma apply_op_same_set canon a b o : same_set a b -> same_set (apply_op canon a o) (apply_op canon b o).
Proof.
  intros H c. destruct o; cbn [apply_op]; try apply H.
  - rewrite !in_app_iff, (H c). reflexivity.
  - rewrite !filter_In, (H c). reflexivity.
  - rewrite !filter_In, (H c). reflexivity.
Qed.

Lemma apply_ops_same_set canon ops : forall a b, same_set a b -> same_set (apply_ops canon a ops) (apply_ops canon b ops).
Proof.
  induction ops as [|o ops IH]; intros a b H; [exact H|]. cbn [apply_ops fold_left].
  apply IH. now apply apply_op_same_set.
Qed.

Lemma map_core_filter (f : ocore -> bool) l :
  map core_of (filter (fun x => f (core_of x)) l) = filter f (map core_of l).
Proof.
  induction l as [|x l IH]; [reflexivity|]. cbn [filter map]. destruct (f (core_of x)); cbn [map]; now rewrite IH.
Qed.

Lemma str_list_eqb_eq a b : str_list_eqb a b = true -> a = b.
Proof. unfold str_list_eqb. apply list_eqb_eq. apply beq_eq. Qed.

Section OnTop.
  Variable pw : str -> outcome wt.
  Variable canon : str -> option str.
  Variable gl : str -> bool.

  Notation opx := (op_expressible pw canon gl).

  (* one command of the operator, as a step of NewTable's command loop *)
  Lemma apply_op_step t o : TableCmd.inv t -> opx o = true -> is_weight_op o = false ->
    exists od, op_def pw o = Ok od /\
      match od with
      | None => same_set (table_cores t) (apply_op canon (table_cores t) o)
      | Some d => exists t', apply_def canon gl t d = Ok t' /\ TableCmd.inv t'
                             /\ same_set (table_cores t') (apply_op canon (table_cores t) o)
      end.
  Proof.
    intros Hinv Ho Hw. destruct o as [i | svc src dst | svc ts | svc src w ts | text | ]; try discriminate.
    - (* add *)
      cbn [op_expressible] in Ho. destruct (expr_good_line pw canon gl i Ho) as [(_ & _ & d' & Hp' & Hadd) (d & Hd & Hp)].
      rewrite Hp in Hp'. inversion Hp'; subst d'. clear Hp'.
      exists (Some d). cbn [op_def]. rewrite Hd. split; [reflexivity|].
      destruct (add_route_ok canon gl t d Hadd) as [t' Ht'].
      assert (Ha : apply_def canon gl t d = Ok t') by (unfold apply_def; destruct Hadd as (-> & _); exact Ht').
      exists t'. split; [exact Ha|]. split; [eapply apply_def_inv; eauto|].
      destruct (intent_def_fields pw i d Hd) as (_ & F1 & F2 & F3 & F4 & _).
      destruct (add_accumulates canon gl t d t' Ht') as (url & Hu & Hcase). cbn zeta in Hcase.
      cbn [apply_op]. unfold intent_core. rewrite <- F3, Hu, <- F2, <- F1, <- F4.
      set (nc := (lower (fst (hostpath (d_src d))), snd (hostpath (d_src d)), d_svc d, url, d_tags d)).
      destruct Hcase as [(X & Y & E1 & E2)|[-> (tg & Htg & Hs)]]; intros c; unfold table_cores.
      + rewrite E1, E2, !map_app, !in_app_iff. cbn [map In].
        change (core_of (lower (fst (hostpath (d_src d))), snd (hostpath (d_src d)),
                         new_target (d_svc d) url (d_w d) (d_tags d) (d_opts d))) with nc. tauto.
      + rewrite in_app_iff. cbn [In]. split; [now left|]. intros [Hc|[<-|[]]]; [exact Hc|].
        unfold same_target in Hs. repeat (apply andb_true_iff in Hs as [Hs ?]).
        apply beq_eq in Hs. apply beq_eq in H1. apply str_list_eqb_eq in H.
        apply in_map_iff. exists (lower (fst (hostpath (d_src d))), snd (hostpath (d_src d)), tg).
        split; [|exact Htg]. unfold core_of, nc. cbn [fst snd]. now rewrite Hs, H1, H.
    - (* del svc [src [dst]] *)
      cbn [op_expressible] in Ho.
      apply andb_true_iff in Ho as [Ho Hcan]. apply andb_true_iff in Ho as [Ho Hd]. 
      set (d := mk CmdDel svc src dst WZ [] []). exists (Some d). split; [reflexivity|].
      assert (exists t', del_route canon t d = Ok t') as [t' Ht'].
      { unfold del_route, d. cbn [d_tags d_src d_dst mk]. destruct src as [|a src]; [destruct dst; [eauto | discriminate]|].
        destruct dst as [|b dst].
        - destruct (hostpath (a :: src)) as [h0 p0]. destruct (get_route (lower h0) p0 t); eauto.
        - cbn [is_some] in Hcan. destruct (canon (b :: dst)) as [u|]; [|discriminate].
          destruct (hostpath (a :: src)) as [h0 p0]. destruct (get_route (lower h0) p0 t); eauto. }
      exists t'. split; [exact Ht'|]. split; [eapply (apply_def_inv canon gl t d); [exact Hinv | exact Ht']|].
      unfold table_cores. rewrite (del_precise canon t d t' Hinv Ht'). cbn [apply_op].
      rewrite <- (map_core_filter (fun c => negb (op_selects canon (OpDel svc src dst) c))).
      intros c. erewrite filter_ext; [reflexivity|].
      intros x. f_equal. unfold del_selects_ci, del_selects_gen, d, op_selects, here, core_of. cbn [d_tags d_src d_dst d_svc mk oc_host oc_path oc_svc oc_url fst snd].
      destruct src as [|a src]; [destruct dst; [reflexivity | discriminate]|]. destruct dst as [|b dst]; [reflexivity|].
      destruct (canon (b :: dst)); reflexivity.
    - (* del [svc] tags *)
      cbn [op_expressible] in Ho. apply andb_true_iff in Ho as [Ho Ht]. apply andb_true_iff in Ho as [Hs Hne].
      set (d := mk CmdDel svc [] [] WZ ts []). exists (Some d). split; [reflexivity|].
      assert (exists t', del_route canon t d = Ok t') as [t' Ht'].
      { unfold del_route, d. cbn [d_tags mk]. destruct ts; [discriminate | eauto]. }
      exists t'. split; [exact Ht'|]. split; [eapply (apply_def_inv canon gl t d); [exact Hinv | exact Ht']|].
      unfold table_cores. rewrite (del_precise canon t d t' Hinv Ht'). cbn [apply_op].
      rewrite <- (map_core_filter (fun c => negb (op_selects canon (OpDelTags svc ts) c))).
      intros c. erewrite filter_ext; [reflexivity|].
      intros x. f_equal. unfold del_selects_ci, del_selects_gen, d, op_selects, has_all_tags, core_of. cbn [d_tags d_src d_dst d_svc mk oc_svc oc_tags fst snd].
      destruct ts; [discriminate|]. destruct svc; reflexivity.
    - exists None. split; [reflexivity | apply same_set_refl].
    - exists None. split; [reflexivity | apply same_set_refl].
  Qed.

  (* the operator's commands, in order, from any table: accepted, and the content is [apply_ops] *)
  Lemma run_from_ops ops : forall t, TableCmd.inv t ->
    forallb opx ops = true -> forallb (fun o => negb (is_weight_op o)) ops = true ->
    exists dm t', op_defs pw ops = Ok dm /\ run_from canon gl t dm = Ok t' /\ TableCmd.inv t'
                  /\ same_set (table_cores t') (apply_ops canon (table_cores t) ops).
  Proof.
    induction ops as [|o ops IH]; intros t Hinv Hx Hw.
    - exists [], t. split; [reflexivity|]. split; [reflexivity|]. split; [exact Hinv | apply same_set_refl].
    - cbn [forallb] in Hx, Hw. apply andb_true_iff in Hx as [Ho Hx]. apply andb_true_iff in Hw as [Hwo Hw].
      apply negb_true_iff in Hwo.
      destruct (apply_op_step t o Hinv Ho Hwo) as (od & Hod & Hstep). cbn [op_defs apply_ops fold_left]. rewrite Hod.
      destruct od as [d|].
      + destruct Hstep as (t1 & Ha & Hinv1 & Hs1).
        destruct (IH t1 Hinv1 Hx Hw) as (dm & t' & Hdm & Hrun & Hinv' & Hs').
        exists (d :: dm), t'. rewrite Hdm. split; [reflexivity|]. cbn [run_from]. rewrite Ha. cbn [bind].
        split; [exact Hrun|]. split; [exact Hinv'|].
        eapply same_set_trans; [exact Hs'|]. now apply apply_ops_same_set.
      + destruct (IH t Hinv Hx Hw) as (dm & t' & Hdm & Hrun & Hinv' & Hs').
        exists dm, t'. rewrite Hdm. split; [reflexivity|]. split; [exact Hrun|]. split; [exact Hinv'|].
        eapply same_set_trans; [exact Hs'|]. now apply apply_ops_same_set.
  Qed.
End OnTop.

(* ================= all layers: registry state + operator's commands -> table ================= *)
Lemma table_cores_sort t : same_set (table_cores (sort_table t)) (table_cores t).
Proof.
  intros c. unfold table_cores. rewrite !in_map_iff. split; intros (x & E & Hx); exists x; (split; [exact E|]);
    now apply in_flat_sort.
Qed.

Section Composed.
  Variable pw : str -> outcome wt.
  Variable canon : str -> option str.
  Variable gl : str -> bool.
  Variable env : env_t.
  Variable prefix : str.

  Notation opx := (op_expressible pw canon gl).
  Notation bld := (table_builder pw canon gl).

  Lemma op_adds_addable ops : forallb opx ops = true -> forallb is_add_or_note ops = true ->
    forall dm, op_defs pw ops = Ok dm -> Forall (addable canon gl) dm.
  Proof.
    induction ops as [|o ops IH]; intros Hx Ha dm Hd; cbn [op_defs] in Hd.
    - inversion Hd. constructor.
    - cbn [forallb] in Hx, Ha. apply andb_true_iff in Hx as [Ho Hx]. apply andb_true_iff in Ha as [Hao Ha].
      destruct (op_def pw o) as [od| |] eqn:Eo; try discriminate.
      destruct (op_defs pw ops) as [ds| |] eqn:Es; try discriminate. inversion Hd; subst dm.
      specialize (IH Hx Ha ds eq_refl).
      destruct o as [i | | | | | ]; try discriminate; cbn [op_def] in Eo.
      + cbn [op_expressible] in Ho. destruct (expr_good_line pw canon gl i Ho) as [(_ & _ & d' & Hp' & Hadd) (d & Hdd & Hp)].
        rewrite Hp in Hp'. inversion Hp'; subst d'. rewrite Hdd in Eo. inversion Eo; subst od. now constructor.
      + inversion Eo; subst od. exact IH.
      + inversion Eo; subst od. exact IH.
  Qed.

  (* C01 with the operator's 'route add' commands (and comments) on top, from the commands as the
     operator means them -- no hypothesis about the parser: the text is accepted and the table
     holds exactly the routed intents' targets and the operator's *)
  Theorem svc_table_with_operator_adds status strict checks rcat :
    consistent checks rcat -> forall ops,
    forallb opx ops = true -> forallb is_add_or_note ops = true ->
    exists text t dm,
      registry_config pw canon gl env prefix status strict checks rcat = Ok text
      /\ op_defs pw ops = Ok dm
      /\ new_table pw canon gl (next_text text (operator_text ops)) = Ok t
      /\ table_holds pw canon gl env prefix status strict checks rcat dm t.
  Proof.
    intros Hcons ops Hx Ha. destruct (operator_text_parses pw canon gl ops Hx) as (dm & Hd & Hp).
    destruct (svc_table_with_manual pw canon gl env prefix status strict checks rcat Hcons (operator_text ops) dm Hp
                (op_adds_addable ops Hx Ha dm Hd)) as (text & t & Htext & Ht & Hh).
    exists text, t, dm. auto.
  Qed.

  (* ... and with ANY mix of expressible add / del / del-by-tags commands and comments: the
     combined text is accepted (the table is never left as it was), and the content of the table
     is the operator's commands applied, in order, to the content of the service table -- for
     which C01_svc_table_iff holds *)
  Theorem operator_ops_applied status strict checks rcat :
    consistent checks rcat -> forall ops,
    forallb opx ops = true -> forallb (fun o => negb (is_weight_op o)) ops = true ->
    exists text t0 T dm,
      registry_config pw canon gl env prefix status strict checks rcat = Ok text
      /\ new_table pw canon gl text = Ok t0
      /\ table_holds pw canon gl env prefix status strict checks rcat [] t0
      /\ op_defs pw ops = Ok dm /\ parse pw (operator_text ops) = Ok dm
      /\ new_table pw canon gl (next_text text (operator_text ops)) = Ok T
      /\ same_set (table_cores T) (apply_ops canon (table_cores t0) ops).
  Proof.
    intros Hcons ops Hx Hw.
    destruct (registry_intents pw canon gl env prefix status strict checks rcat Hcons) as (is1 & Htext & Hgood & _).
    destruct (operator_text_parses pw canon gl ops Hx) as (dm & Hd & Hp).
    destruct (manual_on_top pw canon gl (map render_intent is1) (operator_text ops) dm Hgood Hp) as (t0 & Hrun & Ht0 & Hcomb & _).
    assert (Hinv : TableCmd.inv t0) by (eapply Proofs.TableCmd.run_inv; exact Hrun).
    destruct (run_from_ops pw canon gl ops t0 Hinv Hx Hw) as (dm' & t' & Hd' & Hrun' & _ & Hs).
    rewrite Hd in Hd'. inversion Hd'; subst dm'.
    destruct (svc_table_iff pw canon gl env prefix status strict checks rcat Hcons) as (text' & t'' & Htext' & Ht'' & Hh).
    rewrite Htext in Htext'. inversion Htext'; subst text'. rewrite Ht0 in Ht''. inversion Ht''; subst t''.
    exists (config_text (map render_intent is1)), (sort_table t0), (sort_table t'), dm.
    split; [exact Htext|]. split; [exact Ht0|]. split; [exact Hh|]. split; [exact Hd|]. split; [exact Hp|].
    split; [rewrite Hcomb, Hrun'; reflexivity|].
    eapply same_set_trans; [apply table_cores_sort|]. eapply same_set_trans; [exact Hs|].
    apply apply_ops_same_set. intros c. symmetry. apply table_cores_sort.
  Qed.

  (* the ACTIVE table of the watch loop, after ANY history of deliveries whose last service text
     is the config of the registry state and whose last manual text is the operator's text *)
  Theorem active_table_operator status strict checks rcat :
    consistent checks rcat -> forall (w : wstate table) h e ops,
    Watch.inv table bld w ->
    registry_config pw canon gl env prefix status strict checks rcat = Ok (last_svc (h ++ [e]) (w_svc w)) ->
    last_man (h ++ [e]) (w_man w) = operator_text ops ->
    forallb opx ops = true -> forallb (fun o => negb (is_weight_op o)) ops = true ->
    exists t0, new_table pw canon gl (last_svc (h ++ [e]) (w_svc w)) = Ok t0
      /\ table_holds pw canon gl env prefix status strict checks rcat [] t0
      /\ same_set (table_cores (w_active (Watch.run table bld w (h ++ [e])))) (apply_ops canon (table_cores t0) ops).
  Proof.
    intros Hcons w h e ops Hw Hsvc Hman Hx Hnw.
    destruct (operator_ops_applied status strict checks rcat Hcons ops Hx Hnw) as (text & t0 & T & dm & Htext & Ht0 & Hh & _ & _ & HT & Hs).
    rewrite Htext in Hsvc. inversion Hsvc as [Etext].
    assert (bld (next_text (last_svc (h ++ [e]) (w_svc w)) (last_man (h ++ [e]) (w_man w))) = Some T) as Hb
      by (rewrite <- Etext, Hman; unfold table_builder; now rewrite HT).
    destruct (watch_quiescent table bld w h e T Hw Hb) as [Ha _]. rewrite Ha.
    exists t0. rewrite <- Etext. auto.
  Qed.
End Composed.

(* ================= non-vacuity ================= *)
(* the operator's text of the demo: a header comment, an add whose tags and options carry a blank
   followed by '#', a del by tags, a del by service and source *)
Definition ex_ops : list opcmd :=
  [ OpNote (bs " --- fabio/config");
    OpAdd {| i_svc := bs "shop"; i_route := bs "/shop"; i_dst := bs "http://10.0.0.9:80/"; i_weight := [];
             i_tags := [bs "build #42"; bs "canary"]; i_opts := [bs "x=a"; bs "#b"] |};
    OpBlank;
    OpDelTags (bs "good") [bs "no #such"];
    OpDel (bs "good") (bs "/two") [] ].

Example operator_text_nonvacuous :
  forallb (op_expressible pweight_dec idcanon anyglob) ex_ops = true
  /\ forallb (fun o => negb (is_weight_op o)) ex_ops = true
  /\ operator_text ex_ops
     = bs "# --- fabio/config" ++ 10 :: bs "route add shop /shop http://10.0.0.9:80/ tags ""build #42,canary"" opts ""x=a #b"""
       ++ 10 :: 10 :: bs "route del good tags ""no #such""" ++ 10 :: bs "route del good /two"
  /\ parse pweight_dec (operator_text ex_ops) = op_defs pweight_dec ex_ops
  /\ (exists d1 d2 d3, op_defs pweight_dec ex_ops = Ok [d1; d2; d3]
        /\ d_tags d1 = [bs "build #42"; bs "canary"] /\ d_opts d1 = [(bs "#b", []); (bs "x", bs "a")]
        /\ d_tags d2 = [bs "no #such"] /\ d_cmd d3 = CmdDel)
  /\ exists T, (do text <- registry_config pweight_dec idcanon anyglob env_dc pfx [bs "passing"] false ex_checks ex_rcat;
                new_table pweight_dec idcanon anyglob (next_text text (operator_text ex_ops)))%outcome = Ok T
       /\ table_cores T
          = [(bs "foo.com", bs "/good", bs "good", bs "http://10.0.0.1:80/", [bs "blue"]);
             ([], bs "/shop", bs "shop", bs "http://10.0.0.9:80/", [bs "build #42"; bs "canary"])].
Proof.
  split; [vm_compute; reflexivity|]. split; [vm_compute; reflexivity|]. split; [vm_compute; reflexivity|].
  split; [vm_compute; reflexivity|]. split.
  - do 3 eexists. split; [vm_compute; reflexivity|]. repeat split; vm_compute; reflexivity.
  - eexists. split; vm_compute; reflexivity.
Qed.

(* the service side of the same point: a plain service tag and an option of the routing tag that
   contain a blank followed by '#' are data between the quotes of the generated command -- the
   registration is expressible, so (C01_expressible_is_routed) the healthy instance is routed *)
Definition ex_hash_tags : list str := [bs "urlprefix-/shop note=x #1"; bs "build #42"].
Definition ex_hash_reg : reg :=
  {| g_name := bs "shop"; g_id := bs "s9"; g_addr := bs "10.0.0.2"; g_node_addr := bs "192.168.0.9"; g_port := 8080%Z;
     g_tags := ex_hash_tags |}.
Definition ex_hash_rcat : list rentry := [mkREntry (bs "n2") ex_hash_reg].
Definition ex_hash_checks : list hcheck :=
  [mkCheck (bs "n2") (bs "service:s9") (bs "s9") (bs "shop") (bs "passing") ex_hash_tags].

Example hash_tag_registry_nonvacuous :
  consistent ex_hash_checks ex_hash_rcat
  /\ expressible pweight_dec idcanon anyglob env_dc pfx ex_hash_reg = true
  /\ inst_healthy [bs "passing"] false ex_hash_checks (mkREntry (bs "n2") ex_hash_reg)
  /\ registry_config pweight_dec idcanon anyglob env_dc pfx [bs "passing"] false ex_hash_checks ex_hash_rcat
     = Ok (bs "route add shop /shop http://10.0.0.2:8080/ tags ""build #42"" opts ""note=x #1""")
  /\ exists t, (do text <- registry_config pweight_dec idcanon anyglob env_dc pfx [bs "passing"] false ex_hash_checks ex_hash_rcat;
                new_table pweight_dec idcanon anyglob text)%outcome = Ok t
       /\ map (fun x => (core_of x, t_opts (snd x))) (flat t)
          = [(([], bs "/shop", bs "shop", bs "http://10.0.0.2:8080/", [bs "build #42"]), [(bs "#1", []); (bs "note", bs "x")])].
Proof.
  split; [|split; [|split; [|split]]].
  - intros c r Hc Hr Hn Hs. destruct Hc as [<-|[]]. destruct Hr as [<-|[]]. reflexivity.
  - vm_compute; reflexivity.
  - split; [eexists; split; [left; reflexivity|]; repeat split; vm_compute; reflexivity|].
    apply healthy_b_spec. vm_compute. reflexivity.
  - vm_compute; reflexivity.
  - eexists. split; vm_compute; reflexivity.
Qed.
