(** Proofs about Model/Consul.v: passingServices returns exactly the service checks of the
    healthy instances; the tag filter does not change the health of a tagged instance;
    the instance key Node.ServiceID is not injective; every generated config line stems
    from a catalog entry whose key is the key of a passing instance. *)
From Coq Require Import String List NArith Bool Lia.
From Fabio Require Import Lib.Outcome Lib.Bytes Model.Consul Model.Watch Model.ConsulSpec.
Import ListNotations.
Local Open Scope N_scope.

(* ---------- small facts ---------- *)
Lemma has_status_spec c status : has_status c status = true <-> accepted status c.
Proof.
  unfold has_status, accepted. rewrite existsb_exists. split.
  - intros [s [Hin Hb]]. apply beq_eq in Hb. now rewrite Hb.
  - intros Hin. exists (c_status c). split; [exact Hin | apply beq_refl].
Qed.

Lemma own_b_spec n sid c : own_b n sid c = true <-> own n sid c.
Proof. unfold own_b, own. now rewrite andb_true_iff, !beq_eq. Qed.

Lemma beq_sym a b : beq a b = beq b a.
Proof.
  destruct (beq a b) eqn:E.
  - apply beq_eq in E. subst. now rewrite beq_refl.
  - destruct (beq b a) eqn:E'; [|reflexivity]. apply beq_eq in E'. subst. now rewrite beq_refl in E.
Qed.

(* counting: all elements satisfying f also satisfy g  <->  the two counts agree *)
Lemma filter_and_le {A} (f g : A -> bool) l :
  (length (filter (fun x => f x && g x) l) <= length (filter f l))%nat.
Proof.
  induction l as [|x l IH]; cbn [filter length]; [lia|].
  destruct (f x), (g x); cbn [andb length]; lia.
Qed.
Lemma filter_and_all {A} (f g : A -> bool) l :
  length (filter (fun x => f x && g x) l) = length (filter f l) <->
  (forall x, In x l -> f x = true -> g x = true).
Proof.
  induction l as [|x l IH]; cbn [filter length].
  - split; [intros _ y [] | reflexivity].
  - pose proof (filter_and_le f g l) as Hle.
    destruct (f x) eqn:Ef, (g x) eqn:Eg; cbn [andb length].
    + split.
      * intros H y [<-|Hy] Hf; [exact Eg|]. apply IH; [lia | exact Hy | exact Hf].
      * intros H. f_equal. apply IH. intros y Hy. apply H. now right.
    + split; [intros H; lia|]. intros H. specialize (H x (or_introl eq_refl) Ef). congruence.
    + rewrite IH. split; intros H y.
      * intros [<-|Hy] Hf; [congruence | now apply H].
      * intros Hy. apply H. now right.
    + rewrite IH. split; intros H y.
      * intros [<-|Hy] Hf; [congruence | now apply H].
      * intros Hy. apply H. now right.
Qed.
Lemma filter_nonempty {A} (f : A -> bool) l :
  (0 < length (filter f l))%nat <-> exists x, In x l /\ f x = true.
Proof.
  split.
  - destruct (filter f l) as [|x r] eqn:E; cbn [length]; [lia|]. intros _.
    assert (In x (filter f l)) as H by (rewrite E; now left).
    apply filter_In in H. now exists x.
  - intros [x [Hin Hf]]. assert (In x (filter f l)) as H by (apply filter_In; now split).
    destruct (filter f l); [destruct H | cbn [length]; lia].
Qed.

(* ---------- the inner loop ---------- *)
Definition blocker (svc c : hcheck) : bool :=
  beq (c_node svc) (c_node c) &&
  ((beq (c_id c) s_serfHealth && beq (c_status c) s_critical)
   || beq (c_id c) s_node_maintenance
   || (beq (c_id c) (s_service_maintenance_colon ++ c_sid svc) && beq (c_status c) s_critical)).
Definition ownb (svc c : hcheck) : bool := beq (c_node svc) (c_node c) && beq (c_sid svc) (c_sid c).

Lemma inner_loop_spec svc status cs : forall t p,
  inner_loop svc status cs t p =
  if existsb (blocker svc) cs then None
  else Some (t + N.of_nat (length (filter (ownb svc) cs)),
             p + N.of_nat (length (filter (fun c => ownb svc c && has_status c status) cs))).
Proof.
  induction cs as [|c cs IH]; intros t p; cbn [inner_loop existsb filter length].
  - cbn [N.of_nat]. now rewrite !N.add_0_r.
  - destruct (beq (c_node svc) (c_node c)) eqn:En.
    + assert (blocker svc c =
              ((beq (c_id c) s_serfHealth && beq (c_status c) s_critical)
               || beq (c_id c) s_node_maintenance
               || (beq (c_id c) (s_service_maintenance_colon ++ c_sid svc) && beq (c_status c) s_critical))) as Hb
        by (unfold blocker; now rewrite En).
      assert (ownb svc c = beq (c_sid svc) (c_sid c)) as Ho by (unfold ownb; now rewrite En).
      rewrite Hb, Ho.
      destruct (beq (c_id c) s_serfHealth && beq (c_status c) s_critical) eqn:E1; cbn [orb]; [reflexivity|].
      destruct (beq (c_id c) s_node_maintenance) eqn:E2; cbn [orb]; [reflexivity|].
      destruct (beq (c_id c) (s_service_maintenance_colon ++ c_sid svc) && beq (c_status c) s_critical) eqn:E3;
        cbn [orb]; [reflexivity|].
      rewrite IH. destruct (existsb (blocker svc) cs); [reflexivity|].
      destruct (beq (c_sid svc) (c_sid c)); cbn [andb length].
      * destruct (has_status c status); cbn [length]; rewrite ?Nat2N.inj_succ; f_equal; f_equal; lia.
      * reflexivity.
    + assert (blocker svc c = false) as Hb by (unfold blocker; now rewrite En).
      assert (ownb svc c = false) as Ho by (unfold ownb; now rewrite En).
      rewrite Hb, Ho. cbn [orb andb]. apply IH.
Qed.

Lemma keeps_spec all status strict svc :
  keeps all status strict svc =
  is_service_check svc && negb (existsb (blocker svc) all)
  && negb (Nat.eqb (length (filter (fun c => ownb svc c && has_status c status) all)) 0)
  && (negb strict || Nat.eqb (length (filter (ownb svc) all))
                             (length (filter (fun c => ownb svc c && has_status c status) all))).
Proof.
  unfold keeps. destruct (is_service_check svc); cbn [negb andb]; [|reflexivity].
  rewrite inner_loop_spec. destruct (existsb (blocker svc) all); cbn [negb andb]; [reflexivity|].
  rewrite !N.add_0_l.
  set (a := length (filter (ownb svc) all)).
  set (b := length (filter (fun c => ownb svc c && has_status c status) all)).
  destruct (N.of_nat b =? 0) eqn:E0.
  - apply N.eqb_eq in E0. assert (b = 0%nat) as -> by lia. reflexivity.
  - apply N.eqb_neq in E0. assert (Nat.eqb b 0 = false) as -> by (apply PeanoNat.Nat.eqb_neq; lia).
    cbn [negb andb]. destruct strict; cbn [negb andb orb]; [|reflexivity].
    destruct (N.of_nat a =? N.of_nat b) eqn:E1.
    + apply N.eqb_eq in E1. assert (a = b) as -> by lia. now rewrite PeanoNat.Nat.eqb_refl.
    + apply N.eqb_neq in E1. assert (Nat.eqb a b = false) as -> by (apply PeanoNat.Nat.eqb_neq; lia).
      reflexivity.
Qed.

Lemma ownb_spec svc c : ownb svc c = true <-> own (c_node svc) (c_sid svc) c.
Proof. unfold ownb, own. rewrite andb_true_iff, !beq_eq. intuition congruence. Qed.

Lemma no_blocker_spec all svc :
  existsb (blocker svc) all = false <->
  (forall c, In c all -> c_node c = c_node svc -> c_id c = s_serfHealth -> c_status c <> s_critical) /\
  (forall c, In c all -> c_node c = c_node svc -> c_id c <> s_node_maintenance) /\
  (forall c, In c all -> c_node c = c_node svc ->
             c_id c = s_service_maintenance_colon ++ c_sid svc -> c_status c <> s_critical).
Proof.
  split.
  - intros H.
    assert (forall c, In c all -> blocker svc c = false) as Hb.
    { intros c Hc. destruct (blocker svc c) eqn:E; [|reflexivity].
      assert (existsb (blocker svc) all = true) by (apply existsb_exists; now exists c). congruence. }
    repeat split; intros c Hc Hn; specialize (Hb c Hc); unfold blocker in Hb;
      rewrite <- Hn, beq_refl in Hb; cbn [andb] in Hb;
      apply orb_false_iff in Hb as [Hb H3]; apply orb_false_iff in Hb as [H1 H2].
    + intros Hid Hst. rewrite Hid, Hst, !beq_refl in H1. discriminate.
    + intros Hid. rewrite Hid, beq_refl in H2. discriminate.
    + intros Hid Hst. rewrite Hid, Hst, !beq_refl in H3. discriminate.
  - intros [H1 [H2 H3]]. destruct (existsb (blocker svc) all) eqn:E; [|reflexivity].
    apply existsb_exists in E as [c [Hc Hb]]. unfold blocker in Hb.
    apply andb_true_iff in Hb as [Hn Hb]. apply beq_eq in Hn. symmetry in Hn.
    apply orb_true_iff in Hb as [Hb|Hb]; [apply orb_true_iff in Hb as [Hb|Hb]|].
    + apply andb_true_iff in Hb as [Ha Hs]. apply beq_eq in Ha, Hs. now elim (H1 c Hc Hn Ha).
    + apply beq_eq in Hb. now elim (H2 c Hc Hn).
    + apply andb_true_iff in Hb as [Ha Hs]. apply beq_eq in Ha, Hs. now elim (H3 c Hc Hn Ha).
Qed.

(* the body of the outer loop decides exactly the declarative predicate *)
Lemma keeps_iff_healthy all status strict svc :
  keeps all status strict svc = true <->
  is_service_check svc = true /\ healthy all status strict (c_node svc) (c_sid svc).
Proof.
  rewrite keeps_spec, !andb_true_iff, negb_true_iff, negb_true_iff, no_blocker_spec.
  rewrite PeanoNat.Nat.eqb_neq.
  assert ((length (filter (fun c => ownb svc c && has_status c status) all) <> 0)%nat <->
          exists c, In c all /\ own (c_node svc) (c_sid svc) c /\ accepted status c) as Hsome.
  { rewrite <- PeanoNat.Nat.neq_0_lt_0 || idtac.
    split.
    - intros H. assert (0 < length (filter (fun c => ownb svc c && has_status c status) all))%nat as H' by lia.
      apply filter_nonempty in H' as [c [Hc Hb]]. apply andb_true_iff in Hb as [Ho Hs].
      exists c. repeat split; [exact Hc | apply ownb_spec in Ho; apply Ho | apply ownb_spec in Ho; apply Ho
                              | now apply has_status_spec].
    - intros [c [Hc [Ho Hs]]].
      assert (0 < length (filter (fun c => ownb svc c && has_status c status) all))%nat as H'.
      { apply filter_nonempty. exists c. split; [exact Hc|]. apply andb_true_iff. split;
          [now apply ownb_spec | now apply has_status_spec]. }
      lia. }
  assert ((negb strict || Nat.eqb (length (filter (ownb svc) all))
                                  (length (filter (fun c => ownb svc c && has_status c status) all))) = true <->
          (strict = true -> forall c, In c all -> own (c_node svc) (c_sid svc) c -> accepted status c)) as Hall.
  { rewrite orb_true_iff, negb_true_iff, PeanoNat.Nat.eqb_eq. split.
    - intros [Hs|Heq] Hst c Hc Ho; [congruence|]. symmetry in Heq.
      apply has_status_spec. apply (proj1 (filter_and_all _ _ _) Heq c Hc). now apply ownb_spec.
    - intros H. destruct strict; [right | now left]. symmetry. apply filter_and_all.
      intros c Hc Ho. apply has_status_spec. apply (H eq_refl c Hc). now apply ownb_spec. }
  split.
  - intros [[[Hsvc [H1 [H2 H3]]] Hs] Ha]. split; [exact Hsvc|].
    constructor; [now apply Hsome | now apply Hall | exact H1 | exact H2 | exact H3].
  - intros [Hsvc [Hs Ha H1 H2 H3]]. repeat split; try assumption; [now apply Hsome | now apply Hall].
Qed.

Lemma outer_loop_filter all status strict cs :
  outer_loop all status strict cs = filter (keeps all status strict) cs.
Proof.
  induction cs as [|c cs IH]; cbn [outer_loop filter]; [reflexivity|].
  destruct (keeps all status strict c); now rewrite IH.
Qed.

(* passingServices returns exactly the service checks of the healthy instances: every
   multiset of checks, every accepted-status list, both modes *)
Theorem passing_iff_healthy checks status strict svc :
  In svc (passing_services checks status strict) <->
  In svc checks /\ is_service_check svc = true /\
  healthy checks status strict (c_node svc) (c_sid svc).
Proof.
  unfold passing_services. rewrite outer_loop_filter, filter_In, keeps_iff_healthy. reflexivity.
Qed.

(* per instance: it is represented in the result iff it has a service check and is healthy *)
Theorem instance_passing_iff checks status strict n sid :
  (exists svc, In svc (passing_services checks status strict) /\ own n sid svc) <->
  registered checks n sid /\ healthy checks status strict n sid.
Proof.
  split.
  - intros [svc [Hin [Hn Hs]]]. apply passing_iff_healthy in Hin as [Hc [Hsvc Hh]].
    subst n sid. split; [|exact Hh]. exists svc. repeat split; assumption.
  - intros [[svc [Hc [[Hn Hs] Hsvc]]] Hh]. exists svc. split; [|now split].
    apply passing_iff_healthy. subst n sid. split; [exact Hc | split; [exact Hsvc | exact Hh]].
Qed.

(* the result keeps the order of the input and invents nothing *)
Theorem passing_sublist checks status strict :
  passing_services checks status strict = filter (keeps checks status strict) checks.
Proof. apply outer_loop_filter. Qed.

(* the boolean twin used by the correspondence check decides the predicate *)
Lemma forallb_neg_spec {A} (f : A -> bool) l :
  forallb (fun c => negb (f c)) l = true <-> forall c, In c l -> f c = false.
Proof.
  rewrite forallb_forall. split; intros H c Hc; specialize (H c Hc);
    [now apply negb_true_iff in H | now apply negb_true_iff].
Qed.
Theorem healthy_b_spec checks status strict n sid :
  healthy_b checks status strict n sid = true <-> healthy checks status strict n sid.
Proof.
  unfold healthy_b. rewrite !andb_true_iff, existsb_exists, !forallb_neg_spec. split.
  - intros [[[[[c [Hc Hb]] Hall] H1] H2] H3]. apply andb_true_iff in Hb as [Ho Hs].
    constructor.
    + exists c. repeat split; [exact Hc | apply own_b_spec in Ho; apply Ho | apply own_b_spec in Ho; apply Ho
                              | now apply has_status_spec].
    + intros -> c' Hc' Ho'. cbn [negb orb] in Hall. rewrite forallb_forall in Hall.
      specialize (Hall c' Hc'). apply own_b_spec in Ho'. rewrite Ho' in Hall. cbn [negb orb] in Hall.
      now apply has_status_spec.
    + intros c' Hc' Hn Hid Hst. specialize (H1 c' Hc'). now rewrite Hn, Hid, Hst, !beq_refl in H1.
    + intros c' Hc' Hn Hid. specialize (H2 c' Hc'). now rewrite Hn, Hid, !beq_refl in H2.
    + intros c' Hc' Hn Hid Hst. specialize (H3 c' Hc'). now rewrite Hn, Hid, Hst, !beq_refl in H3.
  - intros [[c [Hc [Ho Hs]]] Hall H1 H2 H3]. repeat split.
    + exists c. split; [exact Hc|]. apply andb_true_iff. split; [now apply own_b_spec | now apply has_status_spec].
    + destruct strict; cbn [negb orb]; [|reflexivity]. apply forallb_forall. intros c' Hc'.
      destruct (own_b n sid c') eqn:Eo; cbn [negb orb]; [|reflexivity].
      apply has_status_spec. apply Hall; [reflexivity | exact Hc' | now apply own_b_spec].
    + intros c' Hc'. destruct (beq (c_node c') n && beq (c_id c') s_serfHealth && beq (c_status c') s_critical) eqn:E;
        [|reflexivity]. apply andb_true_iff in E as [E Es]. apply andb_true_iff in E as [En Ei].
      apply beq_eq in En, Ei, Es. now elim (H1 c' Hc' En Ei).
    + intros c' Hc'. destruct (beq (c_node c') n && beq (c_id c') s_node_maintenance) eqn:E; [|reflexivity].
      apply andb_true_iff in E as [En Ei]. apply beq_eq in En, Ei. now elim (H2 c' Hc' En).
    + intros c' Hc'.
      destruct (beq (c_node c') n && beq (c_id c') (s_service_maintenance_colon ++ sid) && beq (c_status c') s_critical) eqn:E;
        [|reflexivity]. apply andb_true_iff in E as [E Es]. apply andb_true_iff in E as [En Ei].
      apply beq_eq in En, Ei, Es. now elim (H3 c' Hc' En Ei).
Qed.

Example passing_nonvacuous :
  let a := mkCheck (bs "n1") (bs "service:s1") (bs "s1") (bs "svc-a") (bs "passing") [bs "urlprefix-/foo"] in
  let b := mkCheck (bs "n1") (bs "chk2") (bs "s1") (bs "svc-a") (bs "critical") [bs "urlprefix-/foo"] in
  let serf := mkCheck (bs "n1") (bs "serfHealth") [] [] (bs "passing") [] in
  passing_services [a; b; serf] [bs "passing"] false = [a; b]
  /\ passing_services [a; b; serf] [bs "passing"] true = []
  /\ passing_services [a; serf] [bs "passing"] true = [a].
Proof. vm_compute. repeat split. Qed.

(* ---------- the tag filter ---------- *)
Lemma maint_colon_prefix sid : has_prefix (s_service_maintenance_colon ++ sid) s_service_maintenance = true.
Proof. apply has_prefix_spec. exists (58 :: sid). reflexivity. Qed.

Lemma tagged_kept prefix c : tagged prefix c = true -> tag_kept prefix c = true.
Proof. unfold tagged, tag_kept. intros ->. now rewrite !orb_true_r. Qed.

(* filtering by tag prefix never changes the health of an instance whose own checks carry a
   tag that, trimmed, starts with the prefix (in Consul every check of a service carries
   the tags of the service, so this is: an instance that advertises a route) *)
Theorem tagfilter_keeps_node_checks prefix checks status strict n sid :
  (forall c, In c checks -> own n sid c -> tagged prefix c = true) ->
  (healthy (checks_with_tag_prefix prefix checks) status strict n sid <->
   healthy checks status strict n sid).
Proof.
  intros Hown0.
  assert (forall c, In c checks -> own n sid c -> tag_kept prefix c = true) as Hown
    by (intros c Hc Ho; apply tagged_kept; now apply Hown0).
  unfold checks_with_tag_prefix.
  assert (forall c, In c checks -> c_id c = s_serfHealth -> In c (filter (tag_kept prefix) checks)) as Kserf.
  { intros c Hc Hid. apply filter_In. split; [exact Hc|]. unfold tag_kept. now rewrite Hid, beq_refl. }
  assert (forall c, In c checks -> c_id c = s_node_maintenance -> In c (filter (tag_kept prefix) checks)) as Knode.
  { intros c Hc Hid. apply filter_In. split; [exact Hc|]. unfold tag_kept. rewrite Hid, beq_refl.
    now rewrite orb_true_r. }
  assert (forall c, In c checks -> c_id c = s_service_maintenance_colon ++ sid ->
                    In c (filter (tag_kept prefix) checks)) as Ksvc.
  { intros c Hc Hid. apply filter_In. split; [exact Hc|]. unfold tag_kept. rewrite Hid, maint_colon_prefix.
    now rewrite orb_true_r. }
  split; intros [Hs Ha H1 H2 H3]; constructor.
  - destruct Hs as [c [Hc Hr]]. apply filter_In in Hc as [Hc _]. now exists c.
  - intros Hst c Hc Ho. apply (Ha Hst); [|exact Ho]. apply filter_In. split; [exact Hc | now apply Hown].
  - intros c Hc Hn Hid. apply H1; [now apply Kserf | exact Hn | exact Hid].
  - intros c Hc Hn Hid. apply (H2 c); [now apply Knode | exact Hn | exact Hid].
  - intros c Hc Hn Hid. apply H3; [now apply Ksvc | exact Hn | exact Hid].
  - destruct Hs as [c [Hc [Ho Hacc]]]. exists c. split; [|now split].
    apply filter_In. split; [exact Hc | now apply Hown].
  - intros Hst c Hc Ho. apply filter_In in Hc as [Hc _]. now apply (Ha Hst).
  - intros c Hc. apply filter_In in Hc as [Hc _]. now apply H1.
  - intros c Hc. apply filter_In in Hc as [Hc _]. now apply H2.
  - intros c Hc. apply filter_In in Hc as [Hc _]. now apply H3.
Qed.

(* and an instance none of whose service checks carries the prefix is never passing *)
Theorem tagfilter_drops_untagged prefix checks status strict svc :
  In svc (watch_passing prefix status strict checks) -> tag_kept prefix svc = true.
Proof.
  unfold watch_passing. intros H. apply passing_iff_healthy in H as [H _].
  unfold checks_with_tag_prefix in H. now apply filter_In in H.
Qed.

(* one round of the watcher: which checks are passed on to makeConfig *)
Theorem watch_passing_iff prefix checks status strict svc :
  (forall c, In c checks -> own (c_node svc) (c_sid svc) c -> tagged prefix c = true) ->
  (In svc (watch_passing prefix status strict checks) <->
   In svc checks /\ is_service_check svc = true /\ healthy checks status strict (c_node svc) (c_sid svc)).
Proof.
  intros Hown. unfold watch_passing. rewrite passing_iff_healthy.
  rewrite (tagfilter_keeps_node_checks prefix checks status strict _ _ Hown).
  unfold checks_with_tag_prefix. rewrite filter_In. split.
  - intros [[Hc _] R]. now split.
  - intros [Hc [Hsvc Hh]].
    split; [split; [exact Hc | apply tagged_kept; apply Hown; [exact Hc | now split]] | split; [exact Hsvc | exact Hh]].
Qed.

(* finding F-C01-2, repaired in /repo by the fix: commit fdfd589: the tag filter used to
   compare the tag untrimmed while routecmd.build trims first, so that a healthy instance
   advertising " urlprefix-/sp" yielded no config line although routecmd.build has a command
   for it.  The refutation is about the filter as it was ([svc_config_unrepaired]); with the
   repaired filter the same state yields the command. *)
Theorem untrimmed_tag_refuted :
  exists prefix status checks e,
    route_tags prefix (e_tags e) <> [] /\ e_cmds e <> [] /\
    healthy checks status false (e_node e) (e_sid e) /\ registered checks (e_node e) (e_sid e) /\
    svc_config_unrepaired prefix status false checks [e] = Ok [] /\
    svc_config prefix status false checks [e] = Ok (join (e_cmds e) [10]).
Proof.
  set (tags := [bs " urlprefix-/sp"]).
  exists (bs "urlprefix-"), [bs "passing"],
    [mkCheck (bs "n1") (bs "service:s1") (bs "s1") (bs "svc-a") (bs "passing") tags],
    (mkEntry (bs "n1") (bs "s1") (bs "svc-a") tags [bs "route add svc-a /sp http://10.0.0.3:8003/"]).
  split; [vm_compute; discriminate|]. split; [vm_compute; discriminate|].
  split; [apply healthy_b_spec; vm_compute; reflexivity|].
  split; [|split; vm_compute; reflexivity].
  eexists. split; [left; reflexivity|]. split; [split; reflexivity | vm_compute; reflexivity].
Qed.

(* ---------- the instance key ---------- *)
Lemma key_eqb_eq a b : key_eqb a b = true <-> a = b.
Proof.
  destruct a as [a1 a2], b as [b1 b2]. unfold key_eqb. cbn [fst snd].
  rewrite andb_true_iff, !beq_eq. split; [intros [-> ->]; reflexivity | intros H; inversion H; now split].
Qed.
Lemma key_eqb_refl a : key_eqb a a = true.
Proof. now apply key_eqb_eq. Qed.

(* the key struct{node, serviceID} determines the instance, unconditionally *)
Theorem inst_key_injective n1 s1 n2 s2 : inst_key n1 s1 = inst_key n2 s2 -> n1 = n2 /\ s1 = s2.
Proof. unfold inst_key. intros H. inversion H. now split. Qed.

(* finding F-C01-1, repaired in /repo by the fix: commit f815d97: the key used to be the string
   Node + "." + ServiceID; node "a", id "b.c" and node "a.b", id "c" share the key "a.b.c" *)
Theorem inst_key_collision_refuted :
  exists n1 s1 n2 s2, (n1, s1) <> (n2, s2) /\ inst_key_unrepaired n1 s1 = inst_key_unrepaired n2 s2.
Proof.
  exists (bs "a"), (bs "b.c"), (bs "a.b"), (bs "c"). split; [vm_compute; discriminate | vm_compute; reflexivity].
Qed.

(* ... with the effect that an unhealthy instance was routed because a key namesake is healthy
   ([svc_config_key_unrepaired]); the repaired pipeline pushes only the healthy one's command *)
Theorem svc_config_collision_refuted :
  exists prefix status checks catalog e line,
    In e catalog /\ In line (e_cmds e) /\
    ~ healthy checks status false (e_node e) (e_sid e) /\
    (exists text, svc_config_key_unrepaired prefix status false checks catalog = Ok text
                  /\ In line (split_byte text 10)) /\
    (exists text, svc_config prefix status false checks catalog = Ok text
                  /\ ~ In line (split_byte text 10) /\ text <> []).
Proof.
  set (t1 := [bs "urlprefix-/one"]). set (t2 := [bs "urlprefix-/two"]).
  set (e1 := mkEntry (bs "a") (bs "b.c") (bs "svc-a") t1 [bs "route add svc-a /one http://10.0.0.1:8001/"]).
  set (e2 := mkEntry (bs "a.b") (bs "c") (bs "svc-a") t2 [bs "route add svc-a /two http://10.0.0.2:8002/"]).
  exists (bs "urlprefix-"), [bs "passing"],
    [mkCheck (bs "a") (bs "service:b.c") (bs "b.c") (bs "svc-a") (bs "critical") t1;
     mkCheck (bs "a.b") (bs "service:c") (bs "c") (bs "svc-a") (bs "passing") t2],
    [e1; e2], e1, (bs "route add svc-a /one http://10.0.0.1:8001/").
  split; [now left|]. split; [now left|]. split; [|split].
  - intros H. apply healthy_b_spec in H. vm_compute in H. discriminate.
  - eexists. split; [vm_compute; reflexivity|]. vm_compute. tauto.
  - eexists. split; [vm_compute; reflexivity|]. split; [|discriminate].
    vm_compute. intros [H|[]]. discriminate.
Qed.

(* ---------- config lines: provenance ---------- *)
Lemma smap_add_in m name k n ks k' :
  In (n, ks) (smap_add m name k) -> In k' ks ->
  (exists ks0, In (n, ks0) m /\ In k' ks0) \/ (n = name /\ k' = k).
Proof.
  induction m as [|[n0 ks0] m IH]; cbn [smap_add].
  - intros [H|[]] Hk. inversion H; subst. destruct Hk as [<-|[]]. now right.
  - destruct (beq n0 name) eqn:E.
    + apply beq_eq in E. subst n0. intros [H|H] Hk.
      * inversion H; subst. destruct (existsb (key_eqb k) ks0) eqn:Ex.
        -- left. exists ks0. split; [now left | exact Hk].
        -- apply in_app_or in Hk as [Hk|[<-|[]]]; [left; exists ks0; split; [now left | exact Hk] | now right].
      * left. exists ks. split; [now right | exact Hk].
    + intros [H|H] Hk.
      * inversion H; subst. left. exists ks. split; [now left | exact Hk].
      * destruct (IH H Hk) as [[ks1 [Hin Hk1]]|R]; [left; exists ks1; split; [now right | exact Hk1] | now right].
Qed.

Lemma group_sound passing : forall m0 n ks k,
  In (n, ks) (fold_left (fun m c => smap_add m (c_sname c) (inst_key (c_node c) (c_sid c))) passing m0) ->
  In k ks ->
  (exists ks0, In (n, ks0) m0 /\ In k ks0) \/
  (exists svc, In svc passing /\ c_sname svc = n /\ inst_key (c_node svc) (c_sid svc) = k).
Proof.
  induction passing as [|c passing IH]; intros m0 n ks k; cbn [fold_left].
  - intros H Hk. left. now exists ks.
  - intros H Hk. destruct (IH _ _ _ _ H Hk) as [[ks0 [Hin Hk0]]|[svc [Hs R]]].
    + destruct (smap_add_in _ _ _ _ _ _ Hin Hk0) as [L|[-> ->]]; [now left|].
      right. exists c. split; [now left | now split].
    + right. exists svc. split; [now right | exact R].
Qed.

Lemma service_entries_sound prefix keys svcs : forall ls x,
  service_entries prefix keys svcs = Ok ls -> In x ls ->
  exists e, In e svcs /\ In x (e_cmds e) /\ In (inst_key (e_node e) (e_sid e)) keys
            /\ (length (e_cmds e) <= length (route_tags prefix (e_tags e)))%nat.
Proof.
  induction svcs as [|e svcs IH]; intros ls x; cbn [service_entries].
  - intros H Hx. inversion H; subst. destruct Hx.
  - destruct (service_entries prefix keys svcs) as [rest| |] eqn:Er; cbn [bind]; try discriminate.
    destruct (existsb (key_eqb (inst_key (e_node e) (e_sid e))) keys) eqn:Ek.
    + unfold entry_cmds. destruct (Nat.leb (length (e_cmds e)) (length (route_tags prefix (e_tags e)))) eqn:El;
        cbn [bind]; [|discriminate].
      intros H Hx. inversion H; subst. apply in_app_or in Hx as [Hx|Hx].
      * exists e. split; [now left|]. split; [exact Hx|]. split.
        -- apply existsb_exists in Ek as [k [Hk Hb]]. apply key_eqb_eq in Hb. now subst.
        -- now apply PeanoNat.Nat.leb_le.
      * destruct (IH rest x eq_refl Hx) as [e' [Hin R]]. exists e'. split; [now right | exact R].
    + intros H Hx. inversion H; subst. destruct (IH ls x eq_refl Hx) as [e' [Hin R]].
      exists e'. split; [now right | exact R].
Qed.

Lemma all_configs_sound prefix catalog m : forall ls x,
  all_configs prefix catalog m = Ok ls -> In x ls ->
  exists name keys e, In (name, keys) m /\ name <> [] /\ In e catalog /\ e_sname e = name /\
                      In x (e_cmds e) /\ In (inst_key (e_node e) (e_sid e)) keys
                      /\ (length (e_cmds e) <= length (route_tags prefix (e_tags e)))%nat.
Proof.
  induction m as [|[name keys] m IH]; intros ls x; cbn [all_configs].
  - intros H Hx. inversion H; subst. destruct Hx.
  - destruct (service_config prefix catalog name keys) as [c| |] eqn:Ec; cbn [bind]; try discriminate.
    destruct (all_configs prefix catalog m) as [rest| |] eqn:Er; cbn [bind]; try discriminate.
    intros H Hx. inversion H; subst. apply in_app_or in Hx as [Hx|Hx].
    + unfold service_config in Ec.
      destruct (beq name []) eqn:En; cbn [orb] in Ec; [inversion Ec; subst; destruct Hx|].
      destruct keys as [|k0 keys]; [inversion Ec; subst; destruct Hx|].
      destruct (service_entries_sound _ _ _ _ _ Ec Hx) as [e [Hin [Hcmd [Hk Hl]]]].
      unfold catalog_service in Hin. apply filter_In in Hin as [Hin Hn]. apply beq_eq in Hn.
      exists name, (k0 :: keys), e. split; [now left|]. split; [now apply beq_neq|].
      repeat split; assumption.
    + destruct (IH rest x eq_refl Hx) as [n [ks [e [Hin R]]]]. exists n, ks, e. split; [now right | exact R].
Qed.

(* every line of the generated config is a command of a catalog entry that has the service
   name and the key of some check makeConfig was given *)
Theorem config_lines_sound prefix catalog passing ls x :
  config_lines prefix catalog passing = Ok ls -> In x ls ->
  exists e svc, In e catalog /\ In x (e_cmds e) /\ In svc passing /\
                e_sname e = c_sname svc /\ e_sname e <> [] /\
                inst_key (e_node e) (e_sid e) = inst_key (c_node svc) (c_sid svc) /\
                (length (e_cmds e) <= length (route_tags prefix (e_tags e)))%nat.
Proof.
  unfold config_lines, group. intros H Hx.
  destruct (all_configs_sound _ _ _ _ _ H Hx) as [name [keys [e [Hm [Hne [He [Hn [Hc [Hk Hl]]]]]]]]].
  destruct (group_sound _ _ _ _ _ Hm Hk) as [[ks0 [[] _]]|[svc [Hs [Hsn Hkey]]]].
  exists e, svc. repeat split; try assumption; congruence.
Qed.

(* sorting neither adds nor drops lines *)
Lemma insert_desc_in x l y : In y (insert_desc x l) <-> y = x \/ In y l.
Proof.
  induction l as [|z l IH]; cbn [insert_desc].
  - cbn [In]. intuition.
  - destruct (str_ltb x z); cbn [In]; [rewrite IH|]; intuition.
Qed.
Lemma sort_desc_in l y : In y (sort_desc l) <-> In y l.
Proof.
  induction l as [|x l IH]; cbn [sort_desc fold_right]; [reflexivity|].
  fold (sort_desc l). rewrite insert_desc_in, IH. cbn [In]. intuition.
Qed.
Lemma insert_desc_length x l : length (insert_desc x l) = S (length l).
Proof.
  induction l as [|z l IH]; cbn [insert_desc length]; [reflexivity|].
  destruct (str_ltb x z); cbn [length]; [now rewrite IH | reflexivity].
Qed.
Lemma sort_desc_length l : length (sort_desc l) = length l.
Proof.
  induction l as [|x l IH]; cbn [sort_desc fold_right length]; [reflexivity|].
  fold (sort_desc l). now rewrite insert_desc_length, IH.
Qed.

(* The service-derived config of a registry state (checks, catalog): every line is a
   command of a catalog entry whose own instance (node, service id) is registered and healthy
   in that state and carries the tag prefix.  (Since f815d97 the key is the pair, so this no
   longer needs node names without dots.) *)
Theorem svc_lines_from_healthy prefix status strict checks catalog ls x :
  config_lines prefix catalog (watch_passing prefix status strict checks) = Ok ls ->
  In x (sort_desc ls) ->
  exists e, In e catalog /\ In x (e_cmds e) /\
            registered (checks_with_tag_prefix prefix checks) (e_node e) (e_sid e) /\
            healthy (checks_with_tag_prefix prefix checks) status strict (e_node e) (e_sid e).
Proof.
  intros H Hx. apply (proj1 (sort_desc_in _ _)) in Hx.
  destruct (config_lines_sound _ _ _ _ _ H Hx) as [e [svc [He [Hc [Hs [Hn [Hne [Hk Hl]]]]]]]].
  unfold watch_passing in Hs. apply passing_iff_healthy in Hs as [Hin [Hsvc Hh]].
  destruct (inst_key_injective _ _ _ _ Hk) as [En Es].
  exists e. split; [exact He|]. split; [exact Hc|]. rewrite En, Es. split; [|exact Hh].
  exists svc. split; [exact Hin|]. split; [split; reflexivity | exact Hsvc].
Qed.

(* an instance that is unhealthy in the observed state has none of its commands in the
   config pushed for that state - unless another entry produces the very same command text *)
Theorem unhealthy_not_in_config prefix status strict checks catalog ls x :
  config_lines prefix catalog (watch_passing prefix status strict checks) = Ok ls ->
  In x (sort_desc ls) ->
  exists e, In e catalog /\ In x (e_cmds e) /\
            registered (checks_with_tag_prefix prefix checks) (e_node e) (e_sid e) /\
            healthy (checks_with_tag_prefix prefix checks) status strict (e_node e) (e_sid e).
Proof. exact (svc_lines_from_healthy prefix status strict checks catalog ls x). Qed.

(* ---------- config lines: completeness ---------- *)
Lemma smap_add_has m name k : exists ks, In (name, ks) (smap_add m name k) /\ In k ks.
Proof.
  induction m as [|[n0 ks0] m IH]; cbn [smap_add].
  - exists [k]. split; now left.
  - destruct (beq n0 name) eqn:E.
    + apply beq_eq in E. subst n0. destruct (existsb (key_eqb k) ks0) eqn:Ex.
      * exists ks0. split; [now left|]. apply existsb_exists in Ex as [k' [Hk Hb]]. apply key_eqb_eq in Hb. now subst.
      * exists (ks0 ++ [k]). split; [now left|]. apply in_or_app. right. now left.
    + destruct IH as [ks [Hin Hk]]. exists ks. split; [now right | exact Hk].
Qed.
Lemma smap_add_mono m name k n ks k' :
  In (n, ks) m -> In k' ks -> exists ks', In (n, ks') (smap_add m name k) /\ In k' ks'.
Proof.
  induction m as [|[n0 ks0] m IH]; cbn [smap_add]; [intros []|].
  intros [H|H] Hk.
  - inversion H; subst. destruct (beq n name) eqn:E.
    + destruct (existsb (key_eqb k) ks).
      * exists ks. split; [now left | exact Hk].
      * exists (ks ++ [k]). split; [now left|]. apply in_or_app. now left.
    + exists ks. split; [now left | exact Hk].
  - destruct (beq n0 name) eqn:E.
    + exists ks. split; [now right | exact Hk].
    + destruct (IH H Hk) as [ks' [Hin Hk']]. exists ks'. split; [now right | exact Hk'].
Qed.
Lemma group_mono passing : forall m0 n ks k,
  In (n, ks) m0 -> In k ks ->
  exists ks', In (n, ks') (fold_left (fun m c => smap_add m (c_sname c) (inst_key (c_node c) (c_sid c))) passing m0)
              /\ In k ks'.
Proof.
  induction passing as [|c passing IH]; intros m0 n ks k Hin Hk; cbn [fold_left]; [now exists ks|].
  destruct (smap_add_mono m0 (c_sname c) (inst_key (c_node c) (c_sid c)) n ks k Hin Hk) as [ks' [Hin' Hk']].
  exact (IH _ _ _ _ Hin' Hk').
Qed.
Lemma group_complete passing : forall m0 svc, In svc passing ->
  exists ks, In (c_sname svc, ks)
                (fold_left (fun m c => smap_add m (c_sname c) (inst_key (c_node c) (c_sid c))) passing m0)
             /\ In (inst_key (c_node svc) (c_sid svc)) ks.
Proof.
  induction passing as [|c passing IH]; intros m0 svc; [intros []|]. cbn [fold_left]. intros [<-|Hin].
  - destruct (smap_add_has m0 (c_sname c) (inst_key (c_node c) (c_sid c))) as [ks [Hin Hk]].
    exact (group_mono passing _ _ _ _ Hin Hk).
  - now apply IH.
Qed.

Lemma service_entries_complete prefix keys svcs : forall ls e x,
  service_entries prefix keys svcs = Ok ls -> In e svcs ->
  In (inst_key (e_node e) (e_sid e)) keys -> In x (e_cmds e) -> In x ls.
Proof.
  induction svcs as [|e0 svcs IH]; intros ls e x; cbn [service_entries]; [intros _ []|].
  destruct (service_entries prefix keys svcs) as [rest| |] eqn:Er; cbn [bind]; try discriminate.
  intros H [<-|Hin] Hk Hx.
  - assert (existsb (key_eqb (inst_key (e_node e0) (e_sid e0))) keys = true) as Ek.
    { apply existsb_exists. exists (inst_key (e_node e0) (e_sid e0)). split; [exact Hk | apply key_eqb_refl]. }
    rewrite Ek in H. unfold entry_cmds in H.
    destruct (Nat.leb (length (e_cmds e0)) (length (route_tags prefix (e_tags e0)))); cbn [bind] in H; [|discriminate].
    inversion H; subst. apply in_or_app. now left.
  - specialize (IH rest e x eq_refl Hin Hk Hx).
    destruct (existsb (key_eqb (inst_key (e_node e0) (e_sid e0))) keys).
    + destruct (entry_cmds prefix e0) as [cs| |]; cbn [bind] in H; try discriminate.
      inversion H; subst. apply in_or_app. now right.
    + inversion H; subst. exact IH.
Qed.

Lemma all_configs_complete prefix catalog m : forall ls name keys e x,
  all_configs prefix catalog m = Ok ls -> In (name, keys) m -> name <> [] ->
  In e catalog -> e_sname e = name -> In (inst_key (e_node e) (e_sid e)) keys -> In x (e_cmds e) -> In x ls.
Proof.
  induction m as [|[n0 ks0] m IH]; intros ls name keys e x; cbn [all_configs]; [intros _ []|].
  destruct (service_config prefix catalog n0 ks0) as [c| |] eqn:Ec; cbn [bind]; try discriminate.
  destruct (all_configs prefix catalog m) as [rest| |] eqn:Er; cbn [bind]; try discriminate.
  intros H [Hin|Hin] Hne He Hn Hk Hx; inversion H; subst; apply in_or_app.
  - inversion Hin; subst. left. unfold service_config in Ec.
    destruct (beq (e_sname e) []) eqn:En; [apply beq_eq in En; contradiction|]. cbn [orb] in Ec.
    destruct keys as [|k0 keys]; [destruct Hk|].
    apply (service_entries_complete _ _ _ _ e x Ec); [|exact Hk | exact Hx].
    unfold catalog_service. apply filter_In. split; [exact He | apply beq_refl].
  - right. eapply IH; eauto.
Qed.

(* every command of a catalog entry that has the service name and the key of a check handed
   to makeConfig is a line of the generated config *)
Theorem config_lines_complete prefix catalog passing ls e svc x :
  config_lines prefix catalog passing = Ok ls ->
  In e catalog -> In svc passing -> e_sname e = c_sname svc -> e_sname e <> [] ->
  inst_key (e_node e) (e_sid e) = inst_key (c_node svc) (c_sid svc) ->
  In x (e_cmds e) -> In x ls.
Proof.
  unfold config_lines, group. intros H He Hs Hn Hne Hk Hx.
  destruct (group_complete passing [] svc Hs) as [ks [Hin Hkin]].
  apply (all_configs_complete _ _ _ _ (c_sname svc) ks e x H Hin); try assumption; congruence.
Qed.

(* The table side of "if and only if", over the generated commands: in a registry state
   whose instance is registered under the entry's service name, carries the prefix and is
   healthy, every command routecmd.build has for the entry is a line of the pushed config;
   conversely every line comes from such an entry. *)
Theorem svc_lines_iff prefix status strict checks catalog ls x :
  config_lines prefix catalog (watch_passing prefix status strict checks) = Ok ls ->
  (In x (sort_desc ls) <->
   exists e svc, In e catalog /\ In x (e_cmds e) /\ e_sname e <> [] /\
                 In svc (watch_passing prefix status strict checks) /\
                 c_sname svc = e_sname e /\ c_node svc = e_node e /\ c_sid svc = e_sid e).
Proof.
  intros H. rewrite sort_desc_in. split.
  - intros Hx. destruct (config_lines_sound _ _ _ _ _ H Hx) as [e [svc [He [Hc [Hs [Hn [Hne [Hk Hl]]]]]]]].
    destruct (inst_key_injective _ _ _ _ Hk) as [En Es].
    exists e, svc. repeat split; try assumption; congruence.
  - intros [e [svc [He [Hc [Hne [Hs [Hn [En Es]]]]]]]].
    apply (config_lines_complete _ _ _ _ e svc x H); try assumption; congruence.
Qed.

(* ... and instance-level, for tag-consistent states: a catalog entry whose instance has a
   service check under the entry's name, all of whose own checks carry a tag that, trimmed,
   starts with the prefix, and which is healthy, has all its commands in the config *)
Theorem healthy_tagged_is_routed prefix status strict checks catalog ls e svc x :
  config_lines prefix catalog (watch_passing prefix status strict checks) = Ok ls ->
  In e catalog -> e_sname e <> [] ->
  In svc checks -> is_service_check svc = true -> c_sname svc = e_sname e ->
  c_node svc = e_node e -> c_sid svc = e_sid e ->
  (forall c, In c checks -> own (e_node e) (e_sid e) c -> tagged prefix c = true) ->
  healthy checks status strict (e_node e) (e_sid e) ->
  In x (e_cmds e) -> In x (sort_desc ls).
Proof.
  intros H He Hne Hs Hsvc Hn Hnode Hsid Htag Hh Hx.
  apply (svc_lines_iff _ _ _ _ _ _ x H). exists e, svc.
  split; [exact He|]. split; [exact Hx|]. split; [exact Hne|]. split.
  - apply watch_passing_iff; rewrite Hnode, Hsid; [exact Htag|]. split; [exact Hs|]. split; [exact Hsvc | exact Hh].
  - split; [exact Hn | split; [exact Hnode | exact Hsid]].
Qed.

(* ---------- failed catalog lookups (c8f84e8) ---------- *)
Lemma all_configs_o_nil prefix catalog m : all_configs_o [] prefix catalog m = all_configs prefix catalog m.
Proof.
  induction m as [|[name keys] m IH]; cbn [all_configs_o all_configs]; [reflexivity|]. rewrite IH.
  unfold service_config_o, service_config, catalog_lookup. cbn [existsb bind]. reflexivity.
Qed.
(* when every lookup succeeds the round is the one of the error-free model *)
Theorem svc_config_o_nil prefix status strict checks catalog :
  svc_config_o [] prefix status strict checks catalog = svc_config prefix status strict checks catalog.
Proof. unfold svc_config_o, make_config_o, svc_config, make_config, config_lines. now rewrite all_configs_o_nil. Qed.

Lemma all_configs_o_failing failing prefix catalog m name keys :
  In (name, keys) m -> name <> [] -> keys <> [] -> In name failing ->
  is_ok (all_configs_o failing prefix catalog m) = false.
Proof.
  induction m as [|[n0 ks0] m IH]; [intros []|]. intros [H|H] Hn Hk Hf; cbn [all_configs_o].
  - inversion H; subst. unfold service_config_o.
    destruct (beq name []) eqn:En; [apply beq_eq in En; contradiction|]. cbn [orb].
    destruct keys as [|k0 keys]; [contradiction|].
    unfold catalog_lookup.
    assert (existsb (beq name) failing = true) as -> by (apply existsb_exists; exists name; split; [exact Hf | apply beq_refl]).
    reflexivity.
  - destruct (service_config_o failing prefix catalog n0 ks0); cbn [bind is_ok]; try reflexivity.
    specialize (IH H Hn Hk Hf). destruct (all_configs_o failing prefix catalog m); cbn [bind is_ok] in *; congruence.
Qed.

(* a round in which the catalog lookup of a service with a passing instance fails yields no
   config at all (so nothing is pushed and the routes of that service stay in the table) *)
Theorem failed_lookup_no_config failing prefix status strict checks catalog svc :
  In svc (watch_passing prefix status strict checks) -> c_sname svc <> [] -> In (c_sname svc) failing ->
  is_ok (svc_config_o failing prefix status strict checks catalog) = false.
Proof.
  intros Hs Hn Hf. unfold svc_config_o, make_config_o.
  destruct (group_complete _ [] svc Hs) as [ks [Hin Hk]].
  assert (ks <> []) as Hne by (intros E; rewrite E in Hk; destruct Hk).
  pose proof (all_configs_o_failing failing prefix catalog _ _ _ Hin Hn Hne Hf) as H.
  unfold group. destruct (all_configs_o failing prefix catalog _); cbn [bind is_ok] in *; congruence.
Qed.

(* before c8f84e8 the failed lookup was treated as "no instances": the pushed config lacked the
   command of a healthy, registered, tagged instance; the repaired round pushes nothing *)
Theorem failed_lookup_unroutes_refuted :
  exists failing prefix status checks catalog e line,
    In e catalog /\ In line (e_cmds e) /\ In (e_sname e) failing /\
    healthy checks status false (e_node e) (e_sid e) /\ registered checks (e_node e) (e_sid e) /\
    (exists text, svc_config prefix status false checks catalog = Ok text /\ In line (split_byte text 10)) /\
    (exists text, svc_config_lookup_unrepaired failing prefix status false checks catalog = Ok text
                  /\ ~ In line (split_byte text 10)) /\
    svc_config_o failing prefix status false checks catalog = Err err_catalog.
Proof.
  set (t1 := [bs "urlprefix-/one"]). set (t2 := [bs "urlprefix-/two"]).
  set (e1 := mkEntry (bs "n1") (bs "s1") (bs "svc-a") t1 [bs "route add svc-a /one http://10.0.0.1:8001/"]).
  set (e2 := mkEntry (bs "n2") (bs "s2") (bs "svc-b") t2 [bs "route add svc-b /two http://10.0.0.2:8002/"]).
  exists [bs "svc-b"], (bs "urlprefix-"), [bs "passing"],
    [mkCheck (bs "n1") (bs "service:s1") (bs "s1") (bs "svc-a") (bs "passing") t1;
     mkCheck (bs "n2") (bs "service:s2") (bs "s2") (bs "svc-b") (bs "passing") t2],
    [e1; e2], e2, (bs "route add svc-b /two http://10.0.0.2:8002/").
  split; [right; now left|]. split; [now left|]. split; [now left|].
  split; [apply healthy_b_spec; vm_compute; reflexivity|].
  split; [eexists; split; [right; left; reflexivity|]; split; [split; reflexivity | vm_compute; reflexivity]|].
  split; [eexists; split; [vm_compute; reflexivity|]; vm_compute; tauto|].
  split; [|vm_compute; reflexivity].
  eexists. split; [vm_compute; reflexivity|]. vm_compute. intros [H|[]]; discriminate.
Qed.

(* ---------- the config is the concatenation of the selected entries' commands ---------- *)
(* the catalog entries serviceConfig selects for the grouping map [m], in the order their
   commands are appended *)
Definition selected_c (catalog : list centry) (m : smap) : list centry :=
  flat_map (fun nk : str * list ikey =>
              let (name, keys) := nk in
              if beq name [] || match keys with [] => true | _ => false end then []
              else filter (fun e => existsb (key_eqb (inst_key (e_node e) (e_sid e))) keys)
                          (catalog_service catalog name)) m.

Lemma service_entries_struct_c prefix keys svcs : forall ls,
  service_entries prefix keys svcs = Ok ls ->
  ls = flat_map e_cmds (filter (fun e => existsb (key_eqb (inst_key (e_node e) (e_sid e))) keys) svcs).
Proof.
  induction svcs as [|e svcs IH]; intros ls; cbn [service_entries filter flat_map].
  - intros H. now inversion H.
  - destruct (service_entries prefix keys svcs) as [rest| |]; cbn [bind]; try discriminate.
    destruct (existsb (key_eqb (inst_key (e_node e) (e_sid e))) keys).
    + unfold entry_cmds. destruct (Nat.leb _ _); cbn [bind]; [|discriminate].
      intros H. inversion H. cbn [flat_map]. now rewrite (IH rest eq_refl).
    + intros H. inversion H; subst. now apply IH.
Qed.
Lemma all_configs_struct_c prefix catalog m : forall ls,
  all_configs prefix catalog m = Ok ls -> ls = flat_map e_cmds (selected_c catalog m).
Proof.
  induction m as [|[name keys] m IH]; intros ls; cbn [all_configs selected_c flat_map].
  - intros H. now inversion H.
  - fold (selected_c catalog m).
    destruct (service_config prefix catalog name keys) as [c| |] eqn:Ec; cbn [bind]; try discriminate.
    destruct (all_configs prefix catalog m) as [rest| |]; cbn [bind]; try discriminate.
    intros H. inversion H. rewrite flat_map_app, <- (IH rest eq_refl). f_equal.
    unfold service_config in Ec.
    destruct (beq name [] || match keys with [] => true | _ :: _ => false end); [now inversion Ec|].
    now apply service_entries_struct_c in Ec.
Qed.

(* the lines of the pushed config are exactly, in order, the commands of the selected entries *)
Theorem config_lines_selected prefix catalog passing ls :
  config_lines prefix catalog passing = Ok ls -> ls = flat_map e_cmds (selected_c catalog (group passing)).
Proof. apply all_configs_struct_c. Qed.

Lemma selected_c_in catalog passing e :
  In e (selected_c catalog (group passing)) ->
  In e catalog /\ exists svc, In svc passing /\ c_sname svc = e_sname e
                              /\ c_node svc = e_node e /\ c_sid svc = e_sid e.
Proof.
  unfold selected_c. intros H. apply in_flat_map in H as [[name keys] [Hm He]].
  destruct (beq name [] || match keys with [] => true | _ :: _ => false end); [destruct He|].
  apply filter_In in He as [He Hk]. unfold catalog_service in He. apply filter_In in He as [He Hn]. apply beq_eq in Hn.
  apply existsb_exists in Hk as [k [Hk Hb]]. apply key_eqb_eq in Hb. subst k. split; [exact He|].
  unfold group in Hm. destruct (group_sound _ _ _ _ _ Hm Hk) as [[ks0 [[] _]]|[svc [Hs [Hsn Hkey]]]].
  destruct (inst_key_injective _ _ _ _ Hkey) as [En Es]. exists svc. repeat split; congruence.
Qed.

(* ... and an entry whose instance is not healthy in the observed state (or not registered, or
   not tagged) is not among them: none of ITS commands is in the config (the same text can
   still be there as the command of another, healthy entry) *)
Theorem unhealthy_entry_not_selected prefix status strict checks catalog e :
  ~ (registered (checks_with_tag_prefix prefix checks) (e_node e) (e_sid e)
     /\ healthy (checks_with_tag_prefix prefix checks) status strict (e_node e) (e_sid e)) ->
  ~ In e (selected_c catalog (group (watch_passing prefix status strict checks))).
Proof.
  intros Hn Hin. apply Hn. apply selected_c_in in Hin as [_ [svc [Hs [_ [En Es]]]]].
  unfold watch_passing in Hs. apply passing_iff_healthy in Hs as [Hc [Hsvc Hh]].
  rewrite <- En, <- Es. split; [|exact Hh]. exists svc. split; [exact Hc|]. split; [split; reflexivity | exact Hsvc].
Qed.
