(** Proofs about Model/StartUp.v. *)
From Coq Require Import List NArith ZArith Bool Lia.
From Fabio Require Import Lib.Outcome Model.StartUp.
Import ListNotations.

(* an accepted metrics.interval never panics the providers: for EVERY interval and target kind
   Load returns an error or the providers start *)
Theorem accepted_runnable_metrics_interval interval ticker :
  load_then_start_metrics interval ticker = Err 1%N \/ load_then_start_metrics interval ticker = Ok tt.
Proof.
  unfold load_then_start_metrics, load_accepts_metrics_interval, start_metrics, new_ticker.
  destruct (0 <? interval)%Z eqn:E; [|left; reflexivity]. right.
  apply Z.ltb_lt in E. destruct ticker; [|reflexivity].
  destruct (interval <=? 0)%Z eqn:E2; [apply Z.leb_le in E2; lia | reflexivity].
Qed.

Theorem load_accepts_metrics_interval_iff interval :
  load_accepts_metrics_interval interval = true <-> (0 < interval)%Z.
Proof. apply Z.ltb_lt. Qed.

(* before fix 8131dd0: every interval <= 0 was accepted and a ticker-driven provider panics *)
Theorem unrepaired_metrics_interval_panics interval :
  (interval <= 0)%Z ->
  load_accepts_metrics_interval_unrepaired interval = true /\
  load_then_start_metrics_unrepaired interval true = Panic.
Proof.
  intros H. split; [reflexivity|].
  unfold load_then_start_metrics_unrepaired, load_accepts_metrics_interval_unrepaired, start_metrics, new_ticker.
  apply Z.leb_le in H. rewrite H. reflexivity.
Qed.

Example metrics_interval_nonvacuous :
  load_then_start_metrics 30000000000 true = Ok tt /\ load_then_start_metrics 1 true = Ok tt /\
  load_then_start_metrics 0 true = Err 1%N /\ load_then_start_metrics (-1) false = Err 1%N /\
  load_then_start_metrics_unrepaired 0 true = Panic.
Proof. repeat split. Qed.
