(** Proofs about Model/GlobCacheSize.v: a cache created with a positive size never
    panics; with size 0 every first lookup panics; with a negative size creating the
    cache panics.  config.Load accepts all of them. *)
From Coq Require Import String List NArith ZArith Bool Lia Arith.
Local Open Scope string_scope.
From Fabio Require Import Lib.Outcome Lib.Bytes Model.GlobCacheSize.
Import ListNotations.

Definition inv (c : gcache) : Prop :=
  (0 < length (g_l c))%nat /\ (g_n c <= length (g_l c))%nat /\ (g_h c < length (g_l c))%nat.

Lemma set_nth_length l : forall i v, length (set_nth l i v) = length l.
Proof. induction l as [|x l IH]; intros [|i] v; cbn [set_nth length]; auto. Qed.

Lemma glob_get_inv c p ok :
  inv c -> glob_get c p ok <> Panic /\
           forall c' hit, glob_get c p ok = Ok (c', hit) -> inv c'.
Proof.
  intros (Hl & Hn & Hh). unfold glob_get.
  destruct (mem p (g_m c)).
  { split; [discriminate|]. intros c' hit E. inversion E; subst. repeat split; assumption. }
  destruct ok; [|split; [discriminate | intros; discriminate]].
  destruct (Nat.ltb (g_n c) (length (g_l c))) eqn:Elt.
  - apply Nat.ltb_lt in Elt. split; [discriminate|]. intros c' hit E. inversion E; subst.
    unfold inv. cbn [g_l g_n g_h]. rewrite set_nth_length. repeat split; lia.
  - apply Nat.ltb_ge in Elt.
    destruct (nth_error (g_l c) (g_h c)) as [old|] eqn:En.
    + destruct (g_n c) as [|n'] eqn:Egn; [lia|].
      split; [discriminate|]. intros c' hit E. inversion E; subst.
      unfold inv. cbn [g_l g_n g_h]. rewrite set_nth_length. repeat split; try lia.
    + apply nth_error_None in En. lia.
Qed.

Lemma glob_run_no_panic calls : forall c, inv c -> ~ In Panic (glob_run c calls).
Proof.
  induction calls as [|[p ok] r IH]; intros c Hc; cbn [glob_run]; [intros []|].
  destruct (glob_get_inv c p ok Hc) as [Hnp Hpres].
  destruct (glob_get c p ok) as [[c' hit]|k|] eqn:E.
  - intros [H|H]; [discriminate|]. exact (IH c' (Hpres _ _ eq_refl) H).
  - intros [H|H]; [discriminate|]. exact (IH c Hc H).
  - congruence.
Qed.

(* size > 0: creating the cache and any sequence of lookups never panics *)
Theorem globcache_ok_on_domain size calls :
  (0 < size)%Z ->
  exists l, glob_session size calls = Ok l /\ ~ In Panic l.
Proof.
  intros Hs. unfold glob_session, new_glob_cache.
  destruct (size <? 0)%Z eqn:E; [apply Z.ltb_lt in E; lia|]. cbn [bind].
  eexists. split; [reflexivity|]. apply glob_run_no_panic.
  unfold inv. cbn [g_l g_n g_h]. rewrite repeat_length. lia.
Qed.

Theorem runnable_on_domain size p : (0 < size)%Z -> runnable size p = true.
Proof.
  intros Hs. unfold runnable, first_use.
  destruct (globcache_ok_on_domain size [(p, true)] Hs) as (l & E & Hnp). rewrite E.
  unfold glob_session, new_glob_cache in E.
  destruct (size <? 0)%Z; [discriminate|]. cbn [bind] in E. inversion E as [El]. clear E.
  cbn [glob_run] in *.
  destruct (glob_get _ p true) as [[c' hit]|k|] eqn:Eg.
  - reflexivity.
  - unfold glob_get in Eg. cbn [g_m mem existsb] in Eg.
    destruct (Nat.ltb _ _) in Eg; [discriminate|].
    destruct (nth_error _ _) in Eg; [|discriminate]. destruct (g_n _) in Eg; discriminate.
  - exfalso. apply Hnp. rewrite <- El. left. reflexivity.
Qed.

(* size = 0 is accepted and the first lookup of any compilable pattern panics *)
Theorem size_zero_first_use_panics p :
  load_accepts_glob_cache_size 0 = true /\ first_use 0 p = Ok [Panic].
Proof. split; reflexivity. Qed.

(* size < 0 is accepted and creating the cache panics *)
Theorem size_negative_panics size p :
  (size < 0)%Z -> load_accepts_glob_cache_size size = true /\ first_use size p = Panic.
Proof.
  intros Hs. split; [reflexivity|]. unfold first_use, glob_session, new_glob_cache.
  apply Z.ltb_lt in Hs. rewrite Hs. reflexivity.
Qed.

Theorem not_runnable_outside_domain size p : (size <= 0)%Z -> runnable size p = false.
Proof.
  intros Hs. unfold runnable. destruct (Z.eq_dec size 0) as [->|Hn].
  - reflexivity.
  - destruct (size_negative_panics size p ltac:(lia)) as [_ E]. rewrite E. reflexivity.
Qed.

Example globcache_nonvacuous :
  glob_session 2 [(bs "a", true); (bs "b", true); (bs "a", true); (bs "c", true); (bs "[", false); (bs "a", true)]
  = Ok [Ok false; Ok false; Ok true; Ok false; Err 1%N; Ok false].
Proof. vm_compute. reflexivity. Qed.
