(** Proofs about Model/GlobCacheSize.v: a cache created with a positive size never
    panics; config.Load accepts exactly the positive sizes (fix e17deb4), hence an
    accepted configuration never panics the cache.  Before the fix every size was
    accepted: 0 panics at the first lookup, a negative size when the cache is created. *)
From Coq Require Import String List NArith ZArith Bool Lia Arith.
Local Open Scope string_scope.
From Fabio Require Import Lib.Outcome Lib.Bytes Model.GlobCacheSize.
Import ListNotations.

Definition inv (c : gcache) : Prop :=
  (0 < length (g_l c))%nat /\ (g_n c <= length (g_l c))%nat /\ (g_h c < length (g_l c))%nat.

Lemma set_nth_length l : forall i v, length (set_nth l i v) = length l.
Proof. induction l as [|x l IH]; intros [|i] v; cbn [set_nth length]; auto. Qed.

Lemma glob_get_inv c p ok :
  inv c -> glob_get c p ok <> Panic /\
           forall c' hit, glob_get c p ok = Ok (c', hit) -> inv c'.
Proof.
  intros (Hl & Hn & Hh). unfold glob_get.
  destruct (mem p (g_m c)).
  { split; [discriminate|]. intros c' hit E. inversion E; subst. repeat split; assumption. }
  destruct ok; [|split; [discriminate | intros; discriminate]].
  destruct (Nat.ltb (g_n c) (length (g_l c))) eqn:Elt.
  - apply Nat.ltb_lt in Elt. split; [discriminate|]. intros c' hit E. inversion E; subst.
    unfold inv. cbn [g_l g_n g_h]. rewrite set_nth_length. repeat split; lia.
  - apply Nat.ltb_ge in Elt.
    destruct (nth_error (g_l c) (g_h c)) as [old|] eqn:En.
    + destruct (g_n c) as [|n'] eqn:Egn; [lia|].
      split; [discriminate|]. intros c' hit E. inversion E; subst.
      unfold inv. cbn [g_l g_n g_h]. rewrite set_nth_length. repeat split; try lia.
    + apply nth_error_None in En. lia.
Qed.

Lemma glob_run_no_panic calls : forall c, inv c -> ~ In Panic (glob_run c calls).
Proof.
  induction calls as [|[p ok] r IH]; intros c Hc; cbn [glob_run]; [intros []|].
  destruct (glob_get_inv c p ok Hc) as [Hnp Hpres].
  destruct (glob_get c p ok) as [[c' hit]|k|] eqn:E.
  - intros [H|H]; [discriminate|]. exact (IH c' (Hpres _ _ eq_refl) H).
  - intros [H|H]; [discriminate|]. exact (IH c Hc H).
  - congruence.
Qed.

(* size > 0: creating the cache and any sequence of lookups never panics *)
Theorem globcache_ok_on_domain size calls :
  (0 < size)%Z ->
  exists l, glob_session size calls = Ok l /\ ~ In Panic l.
Proof.
  intros Hs. unfold glob_session, new_glob_cache.
  destruct (size <? 0)%Z eqn:E; [apply Z.ltb_lt in E; lia|]. cbn [bind].
  eexists. split; [reflexivity|]. apply glob_run_no_panic.
  unfold inv. cbn [g_l g_n g_h]. rewrite repeat_length. lia.
Qed.

Theorem runnable_on_domain size p : (0 < size)%Z -> runnable size p = true.
Proof.
  intros Hs. unfold runnable, first_use.
  destruct (globcache_ok_on_domain size [(p, true)] Hs) as (l & E & Hnp). rewrite E.
  unfold glob_session, new_glob_cache in E.
  destruct (size <? 0)%Z; [discriminate|]. cbn [bind] in E. inversion E as [El]. clear E.
  cbn [glob_run] in *.
  destruct (glob_get _ p true) as [[c' hit]|k|] eqn:Eg.
  - reflexivity.
  - unfold glob_get in Eg. cbn [g_m mem existsb] in Eg.
    destruct (Nat.ltb _ _) in Eg; [discriminate|].
    destruct (nth_error _ _) in Eg; [|discriminate]. destruct (g_n _) in Eg; discriminate.
  - exfalso. apply Hnp. rewrite <- El. left. reflexivity.
Qed.

(* config.Load accepts exactly the sizes > 0 (load.go:364, fix e17deb4) ... *)
Lemma load_accepts_iff size : load_accepts_glob_cache_size size = true <-> (0 < size)%Z.
Proof. unfold load_accepts_glob_cache_size. apply Z.ltb_lt. Qed.

(* ... so an accepted configuration never panics the glob cache: for EVERY configured
   size and every sequence of lookups, either Load returns an error or creating the
   cache and all lookups succeed without panic *)
Theorem accepted_never_panics size calls :
  load_then_use size calls = Err 1%N \/
  exists l, load_then_use size calls = Ok l /\ ~ In Panic l.
Proof.
  unfold load_then_use. destruct (load_accepts_glob_cache_size size) eqn:E.
  - right. apply globcache_ok_on_domain. apply load_accepts_iff. exact E.
  - left. reflexivity.
Qed.

(* the same with glob.matching.disabled in the picture: the flag changes nothing *)
Theorem accepted_never_panics_any_flag size disabled calls :
  load_then_use_settings size disabled calls = Err 1%N \/
  exists l, load_then_use_settings size disabled calls = Ok l /\ ~ In Panic l.
Proof. exact (accepted_never_panics size calls). Qed.

Corollary accepted_runnable size p :
  load_accepts_glob_cache_size size = true -> runnable size p = true.
Proof. intros H. apply runnable_on_domain. apply load_accepts_iff. exact H. Qed.

(* ---- before fix e17deb4 (repaired in /repo): no check at load time ---- *)
(* size = 0 was accepted and the first lookup of any compilable pattern panics *)
Theorem unrepaired_size_zero_first_use_panics p :
  load_accepts_glob_cache_size_unrepaired 0 = true /\ load_then_use_unrepaired 0 [(p, true)] = Ok [Panic].
Proof. split; reflexivity. Qed.

(* size < 0 was accepted and creating the cache panics *)
Theorem unrepaired_size_negative_panics size p :
  (size < 0)%Z ->
  load_accepts_glob_cache_size_unrepaired size = true /\ load_then_use_unrepaired size [(p, true)] = Panic.
Proof.
  intros Hs. split; [reflexivity|].
  unfold load_then_use_unrepaired, load_accepts_glob_cache_size_unrepaired, glob_session, new_glob_cache.
  apply Z.ltb_lt in Hs. rewrite Hs. reflexivity.
Qed.

(* the cache itself is unchanged: it still must not be created with a size <= 0 *)
Theorem not_runnable_outside_domain size p : (size <= 0)%Z -> runnable size p = false.
Proof.
  intros Hs. unfold runnable. destruct (Z.eq_dec size 0) as [->|Hn].
  - reflexivity.
  - unfold first_use, glob_session, new_glob_cache.
    assert (E : (size <? 0)%Z = true) by (apply Z.ltb_lt; lia). rewrite E. reflexivity.
Qed.

Example load_then_use_nonvacuous :
  load_then_use 0 [(bs "a", true)] = Err 1%N /\ load_then_use (-3) [(bs "a", true)] = Err 1%N /\
  load_then_use 1 [(bs "a", true); (bs "b", true); (bs "a", true)] = Ok [Ok false; Ok false; Ok false].
Proof. vm_compute. repeat split. Qed.

Example globcache_nonvacuous :
  glob_session 2 [(bs "a", true); (bs "b", true); (bs "a", true); (bs "c", true); (bs "[", false); (bs "a", true)]
  = Ok [Ok false; Ok false; Ok true; Ok false; Err 1%N; Ok false].
Proof. vm_compute. reflexivity. Qed.
