(** Proofs about Model/Gzip.v: the gzip response writer simulates the bare recorder
    (the inner handler writing to the ResponseWriter directly) for every sequence of
    calls; all C17 clauses are projections of that simulation. *)
From Coq Require Import String List NArith Bool Lia PeanoNat.
From Fabio Require Import Lib.Bytes Model.Gzip.
Import ListNotations.
Local Open Scope N_scope.

(* ---------- header maps ---------- *)
Definition olist {A} (o : option (list A)) : list A := match o with Some l => l | None => [] end.

Lemma hvals_hdel h k k' : hvals (hdel h k) k' = if beq k k' then None else hvals h k'.
Proof.
  induction h as [|[k0 vs] h IH]; cbn [hdel hvals].
  - destruct (beq k k'); reflexivity.
  - destruct (beq k0 k) eqn:E0.
    + apply beq_eq in E0; subst k0. rewrite IH. destruct (beq k k'); reflexivity.
    + cbn [hvals]. destruct (beq k0 k') eqn:E1.
      * destruct (beq k k') eqn:E; [|reflexivity].
        apply beq_eq in E1, E; subst. rewrite beq_refl in E0; discriminate.
      * exact IH.
Qed.

Lemma hvals_app1 h k vs k' :
  hvals (h ++ [(k, vs)]) k' =
  match hvals h k' with Some x => Some x | None => if beq k k' then Some vs else None end.
Proof.
  induction h as [|[k0 v0] h IH]; cbn [app hvals]; [reflexivity|].
  destruct (beq k0 k'); auto.
Qed.

Lemma hvals_hput h k vs k' : hvals (hput h k vs) k' = if beq k k' then Some vs else hvals h k'.
Proof.
  unfold hput. rewrite hvals_app1, hvals_hdel.
  destruct (beq k k'); [reflexivity|]. destruct (hvals h k'); reflexivity.
Qed.

Lemma hvals_hset h k v k' : hvals (hset h k v) k' = if beq k k' then Some [v] else hvals h k'.
Proof. apply hvals_hput. Qed.

Lemma hvals_hadd h k v k' :
  hvals (hadd h k v) k' = if beq k k' then Some (olist (hvals h k) ++ [v]) else hvals h k'.
Proof.
  unfold hadd. rewrite hvals_hput. destruct (beq k k'); [|reflexivity].
  destruct (hvals h k); reflexivity.
Qed.

Lemma hget_congr h1 h2 k : hvals h1 k = hvals h2 k -> hget h1 k = hget h2 k.
Proof. unfold hget. intros ->. reflexivity. Qed.

Lemma beq_false_ne a b : a <> b -> beq a b = false.
Proof. intro H. apply beq_neq. exact H. Qed.

(* the header names are pairwise distinct *)
Ltac names_ne := let H := fresh "H" in intro H; vm_compute in H; discriminate H.
Lemma CT_ne_VARY : H_CT <> H_VARY. Proof. names_ne. Qed.
Lemma CE_ne_VARY : H_CE <> H_VARY. Proof. names_ne. Qed.
Lemma CL_ne_VARY : H_CL <> H_VARY. Proof. names_ne. Qed.
Lemma TE_ne_VARY : H_TE <> H_VARY. Proof. names_ne. Qed.
Lemma CE_ne_CT : H_CE <> H_CT. Proof. names_ne. Qed.
Lemma CL_ne_CT : H_CL <> H_CT. Proof. names_ne. Qed.
Lemma CL_ne_CE : H_CL <> H_CE. Proof. names_ne. Qed.
Lemma TE_ne_CT : H_TE <> H_CT. Proof. names_ne. Qed.

(* ---------- the relation between the headers the client gets and the upstream's ---------- *)
(* Vary: equal, or the same list with one Accept-Encoding inserted *)
Definition vary_rel (a b : option (list str)) : Prop :=
  a = b \/ exists pre post, a = Some (pre ++ H_AE :: post) /\ olist b = pre ++ post.

(* equal on every key outside [ex] and Vary; Vary as above *)
Definition hdr_rel (ex : list str) (hg hb : hdr) : Prop :=
  (forall k, ~ In k ex -> k <> H_VARY -> hvals hg k = hvals hb k)
  /\ vary_rel (hvals hg H_VARY) (hvals hb H_VARY).

Lemma hdr_rel_weaken ex ex' hg hb :
  (forall k, In k ex -> In k ex') -> hdr_rel ex hg hb -> hdr_rel ex' hg hb.
Proof. intros Hs [H1 H2]. split; [|exact H2]. intros k Hk Hv. apply H1; auto. Qed.

Lemma hdr_rel_op o hg hb : hdr_rel [] hg hb -> hdr_rel [] (hdr_op o hg) (hdr_op o hb).
Proof.
  intros [H1 H2]. destruct o as [k v|k v|k| |c|b]; cbn [hdr_op]; try (split; assumption).
  - (* Set *) split.
    + intros k' _ Hv. rewrite !hvals_hset. destruct (beq k k'); auto.
    + rewrite !hvals_hset. destruct (beq k H_VARY); [left; reflexivity|exact H2].
  - (* Add *) split.
    + intros k' _ Hv. rewrite !hvals_hadd. destruct (beq k k') eqn:E; auto.
      apply beq_eq in E; subst k'. rewrite (H1 k); auto.
    + rewrite !hvals_hadd. destruct (beq k H_VARY) eqn:E; [|exact H2].
      apply beq_eq in E; subst k. destruct H2 as [H2|(pre & post & Ha & Hb)].
      * left. rewrite H2. reflexivity.
      * right. exists pre, (post ++ [v]). rewrite Ha, Hb. cbn [olist].
        rewrite <- !app_assoc. split; reflexivity.
  - (* Del *) split.
    + intros k' _ Hv. rewrite !hvals_hdel. destruct (beq k k'); auto.
    + rewrite !hvals_hdel. destruct (beq k H_VARY); [left; reflexivity|exact H2].
  - (* Clear *) split; [reflexivity|left; reflexivity].
Qed.

(* informational responses: same codes, headers related *)
Definition info_rel (a b : list (N * hdr)) : Prop :=
  Forall2 (fun x y => fst x = fst y /\ hdr_rel [] (snd x) (snd y)) a b.

Lemma info_rel_snoc a b c hg hb : info_rel a b -> hdr_rel [] hg hb -> info_rel (a ++ [(c, hg)]) (b ++ [(c, hb)]).
Proof. intros H1 H2. apply Forall2_app; [exact H1|]. constructor; [split; [reflexivity|exact H2]|constructor]. Qed.

Lemma hdr_rel_init h0 : hdr_rel [] (hadd h0 H_VARY H_AE) h0.
Proof.
  split.
  - intros k _ Hv. rewrite hvals_hadd. rewrite beq_false_ne; auto.
  - rewrite hvals_hadd, beq_refl. right. exists (olist (hvals h0 H_VARY)), [].
    split; [reflexivity|]. rewrite app_nil_r. reflexivity.
Qed.

Section Sim.
Variable sniff : str -> str.
Variable ctm : str -> bool.
(* [x = true]: the relation that holds for EVERY call sequence (a sniffed Content-Type is tolerated);
   [x = false]: the exact one, valid outside the sniffing region *)
Variable x : bool.

Notation grw_write := (grw_write sniff ctm).
Notation grw_write_header := (grw_write_header ctm).
Notation grw_decide_write_header := (grw_decide_write_header ctm).
Notation grw_step := (grw_step sniff ctm).
Notation grw_run := (grw_run sniff ctm).
Notation is_compressable := (is_compressable ctm).
Notation finish_hdr := (finish_hdr sniff).

Ltac rsimp := cbn [g_sel g_fed g_panic g_rec r_wrote r_hdr r_code r_snap r_body r_info].

(* Content-Type: the upstream's, or -- when it has none -- a sniffed one *)
Definition ct_rel (sg sb : hdr) : Prop :=
  hvals sg H_CT = hvals sb H_CT \/ (x = true /\ hvals sb H_CT = None /\ exists b, hvals sg H_CT = Some [sniff b]).

Definition snap_plain (sg sb : hdr) : Prop := hdr_rel [H_CT] sg sb /\ ct_rel sg sb.

Definition snap_gzip (sg sb : hdr) : Prop :=
  hdr_rel [H_CT; H_CE; H_CL] sg sb /\ ct_rel sg sb
  /\ hvals sg H_CE = Some [GZIP] /\ hvals sg H_CL = None
  /\ hget sb H_CE = [] /\ ctm (hget sg H_CT) = true.

(* the simulation: [g] after some calls, [rb] = the bare writer after the same calls *)
Definition sim (g : grw) (rb : rcd) : Prop :=
  g_panic g = false /\ r_code (g_rec g) = r_code rb /\ info_rel (r_info (g_rec g)) (r_info rb) /\
  match g_sel g with
  | None => g_fed g = [] /\ r_wrote (g_rec g) = false /\ r_wrote rb = false
            /\ r_body (g_rec g) = [] /\ r_body rb = []
            /\ hdr_rel [] (r_hdr (g_rec g)) (r_hdr rb)
  | Some false => r_wrote (g_rec g) = true /\ r_wrote rb = true
                  /\ r_body (g_rec g) = r_body rb
                  /\ snap_plain (r_snap (g_rec g)) (r_snap rb)
  | Some true => r_wrote (g_rec g) = true /\ r_wrote rb = true
                 /\ r_body (g_rec g) = [] /\ g_fed g = r_body rb
                 /\ snap_gzip (r_snap (g_rec g)) (r_snap rb)
  end.

(* the decision, on related header maps *)
Lemma decide_gzip hg hb :
  hdr_rel [H_CT] hg hb -> ct_rel hg hb -> is_compressable hg = true ->
  snap_gzip (hset (hdel hg H_CL) H_CE GZIP) hb.
Proof.
  intros [H1 H2] Hct Hc. unfold is_compressable in Hc.
  destruct (beq (hget hg H_CE) []) eqn:Ece; [|discriminate]. apply beq_eq in Ece.
  assert (Hv : forall k, k <> H_CE -> k <> H_CL ->
           hvals (hset (hdel hg H_CL) H_CE GZIP) k = hvals hg k).
  { intros k Hk1 Hk2. rewrite hvals_hset, hvals_hdel.
    rewrite (beq_false_ne H_CE k), (beq_false_ne H_CL k); auto. }
  repeat split.
  - intros k Hk Hvy. cbn [In] in Hk. rewrite Hv by (intro E; apply Hk; subst k; auto). apply H1; [cbn [In]; tauto|exact Hvy].
  - rewrite Hv; [exact H2|apply not_eq_sym, CE_ne_VARY|apply not_eq_sym, CL_ne_VARY].
  - unfold ct_rel. rewrite Hv; [exact Hct|apply not_eq_sym, CE_ne_CT|apply not_eq_sym, CL_ne_CT].
  - rewrite hvals_hset, beq_refl. reflexivity.
  - rewrite hvals_hset, hvals_hdel, beq_refl. rewrite (beq_false_ne H_CE H_CL); auto.
    apply not_eq_sym, CL_ne_CE.
  - rewrite <- Ece. symmetry. apply hget_congr. apply H1; [|apply CE_ne_VARY].
    cbn [In]. intros [E|[]]. symmetry in E. exact (CE_ne_CT E).
  - erewrite hget_congr; [exact Hc|]. apply Hv; [apply not_eq_sym, CE_ne_CT|apply not_eq_sym, CL_ne_CT].
Qed.

Lemma rel_to_plain hg hb : hdr_rel [] hg hb -> hdr_rel [H_CT] hg hb /\ ct_rel hg hb.
Proof.
  intros H. split.
  - eapply hdr_rel_weaken; [|exact H]. intros k [].
  - left. apply (proj1 H); [intros []|apply CT_ne_VARY].
Qed.

(* a final WriteHeader on an undecided writer whose live headers are related *)
Lemma sim_decide c fed rg rb :
  is_1xx c = false ->
  r_wrote rg = false -> r_wrote rb = false -> r_body rg = [] -> r_body rb = [] ->
  info_rel (r_info rg) (r_info rb) ->
  hdr_rel [H_CT] (r_hdr rg) (r_hdr rb) -> ct_rel (r_hdr rg) (r_hdr rb) -> fed = [] ->
  sim (grw_decide_write_header c (mkG None fed false rg)) (rec_write_header c rb).
Proof.
  intros Hx Hwg Hwb Hbg Hbb Hi Hrel Hct Hfed. unfold Gzip.grw_decide_write_header, rec_write_header.
  rsimp. rewrite Hwb, Hx.
  destruct (is_compressable (r_hdr rg)) eqn:Ec; rsimp.
  - unfold rec_upd. rsimp. rewrite Hwg. unfold sim. rsimp.
    pose proof (decide_gzip _ _ Hrel Hct Ec) as D.
    repeat (split; [first [reflexivity|assumption|congruence]|]). exact D.
  - rewrite Hwg. unfold sim. rsimp.
    repeat (split; [first [reflexivity|assumption|congruence]|]). first [assumption|split; assumption].
Qed.

Lemma rec_write_wrote b r : r_wrote r = true ->
  rec_write b r = mkR (r_hdr r) true (r_code r) (r_snap r) (r_body r ++ b) (r_info r).
Proof. intros H. unfold Gzip.rec_write. cbv zeta. rewrite H. rewrite H. reflexivity. Qed.

Lemma rec_write_unwrote b r : r_wrote r = false ->
  rec_write b r =
  let r1 := rec_write_header 200 r in
  mkR (r_hdr r1) (r_wrote r1) (r_code r1) (r_snap r1) (r_body r1 ++ b) (r_info r1).
Proof.
  intros H. unfold Gzip.rec_write, rec_write_header. cbv zeta. rewrite H.
  change (is_1xx 200) with false. cbv iota. reflexivity.
Qed.

(* the one step that sets a header the upstream did not: Write on an undecided writer without Content-Type *)
Definition bad_step (o : op) (g : grw) : bool :=
  match o, g_sel g with
  | Write _, None => match hvals (r_hdr (g_rec g)) H_CT with None => true | Some _ => false end
  | _, _ => false
  end.

Lemma sim_step o g rb : sim g rb -> (x = false -> bad_step o g = false) -> sim (grw_step o g) (rec_step o rb).
Proof.
  intros (Hp & Hc & Hi & H) Hbad.
  destruct g as [sel fed pan rg]. rsimp. cbn [g_sel g_fed g_panic g_rec] in *. subst pan.
  destruct o as [k v|k v|k| |c|b].
  1-4: (unfold Gzip.grw_step, Gzip.rec_step, sim, rec_upd; rsimp;
        split; [reflexivity|split; [exact Hc|split; [exact Hi|]]];
        destruct sel as [[|]|]; try exact H;
        destruct H as (H1 & H2 & H3 & H4 & H5 & H6); repeat split; auto;
        apply (hdr_rel_op _ _ _ H6)).
  - (* WriteHeader *)
    unfold Gzip.grw_step, Gzip.rec_step, Gzip.grw_write_header.
    destruct (is_1xx c) eqn:Ex.
    + (* informational: passed through, nothing decided *)
      unfold rec_write_header, sim. rsimp. rewrite Ex.
      destruct sel as [[|]|].
      * destruct H as (H1 & H2 & H3). rewrite H1, H2. rsimp. repeat split; auto; apply H3.
      * destruct H as (H1 & H2 & H3). rewrite H1, H2. rsimp. repeat split; auto; apply H3.
      * destruct H as (H1 & H2 & H3 & H4 & H5 & H6). rewrite H2, H3. rsimp.
        repeat split; auto; try apply H6. apply info_rel_snoc; assumption.
    + destruct sel as [[|]|].
      * destruct H as (H1 & H2 & H3 & H4 & H5).
        unfold Gzip.grw_decide_write_header, rec_write_header, sim. rsimp. rewrite H1, H2. rsimp.
        repeat split; auto; apply H5.
      * destruct H as (H1 & H2 & H3 & H4).
        unfold Gzip.grw_decide_write_header, rec_write_header, sim. rsimp. rewrite H1, H2. rsimp.
        repeat split; auto; apply H4.
      * destruct H as (H1 & H2 & H3 & H4 & H5 & H6).
        destruct (rel_to_plain _ _ H6) as [Ha Hb]. apply sim_decide; auto.
  - (* Write *)
    unfold Gzip.grw_step, Gzip.rec_step. destruct sel as [[|]|].
    + destruct H as (H1 & H2 & H3 & H4 & H5).
      unfold Gzip.grw_write, grw_write_with. rsimp. rewrite (rec_write_wrote _ _ H2).
      unfold sim. rsimp. repeat split; auto; try apply H5. rewrite H4. reflexivity.
    + destruct H as (H1 & H2 & H3 & H4).
      unfold Gzip.grw_write, grw_write_with. rsimp.
      rewrite (rec_write_wrote _ _ H2), (rec_write_wrote _ _ H1).
      unfold sim. rsimp. repeat split; auto; try apply H4. rewrite H3. reflexivity.
    + destruct H as (H1 & H2 & H3 & H4 & H5 & H6).
      (* the live headers just before the implicit WriteHeader(200), on both sides *)
      set (rg' := match hvals (r_hdr rg) H_CT with
                  | None => rec_upd (fun h => hset h H_CT (sniff b)) rg
                  | Some _ => rg end).
      assert (Hpre : r_wrote rg' = false /\ r_wrote rb = false /\ r_body rg' = [] /\ r_body rb = []
                     /\ r_code rg' = r_code rb /\ info_rel (r_info rg') (r_info rb)
                     /\ hdr_rel [H_CT] (r_hdr rg') (r_hdr rb) /\ ct_rel (r_hdr rg') (r_hdr rb)).
      { assert (Hct : hvals (r_hdr rg) H_CT = hvals (r_hdr rb) H_CT)
          by (apply (proj1 H6); [intros []|apply CT_ne_VARY]).
        subst rg'.
        destruct (hvals (r_hdr rg) H_CT) eqn:Eg.
        - destruct (rel_to_plain _ _ H6) as [Ra Rb].
          repeat (split; [assumption|]); assumption.
        - assert (Hx : x = true).
          { destruct (Bool.bool_dec x true) as [E|E]; [exact E|exfalso].
            apply Bool.not_true_is_false in E. specialize (Hbad E).
            unfold bad_step in Hbad. cbn [g_sel g_rec] in Hbad. rewrite Eg in Hbad. discriminate. }
          unfold rec_upd. rsimp.
          repeat (split; [assumption|]). split; [split|].
          * intros k Hk Hv. rewrite hvals_hset. rewrite beq_false_ne.
            -- apply (proj1 H6); [intros []|exact Hv].
            -- intro E. apply Hk. left. exact E.
          * rewrite hvals_hset, (beq_false_ne H_CT H_VARY CT_ne_VARY). apply (proj2 H6).
          * right. split; [exact Hx|]. split; [congruence|]. exists b. rewrite hvals_hset, beq_refl. reflexivity. }
      destruct Hpre as (Pa & Pb & Pc & Pd & Pe & Pi & Pf & Pg).
      pose proof (sim_decide 200 fed rg' rb eq_refl Pa Pb Pc Pd Pi Pf Pg H1) as HS.
      unfold Gzip.grw_write, grw_write_with. rsimp.
      rewrite (rec_write_unwrote b rb H3). cbv zeta. fold rg'.
      change (Gzip.grw_write_header ctm 200) with (grw_decide_write_header 200).
      destruct HS as (S1 & S2 & Si & S3).
      destruct (g_sel (grw_decide_write_header 200 (mkG None fed false rg'))) as [[|]|] eqn:Es.
      * destruct S3 as (T1 & T2 & T3 & T4 & T5).
        unfold sim. rsimp. repeat split; auto; try apply T5. rewrite T4. reflexivity.
      * destruct S3 as (T1 & T2 & T3 & T4).
        rewrite (rec_write_wrote _ _ T1).
        unfold sim. rsimp. repeat split; auto; try apply T4. rewrite T3. reflexivity.
      * exfalso. unfold Gzip.grw_decide_write_header in Es. rsimp. cbn [g_sel g_fed g_panic g_rec] in Es.
        destruct (is_compressable (r_hdr rg')); cbn [g_sel] in Es; discriminate.
Qed.

(* outside the sniffing region: no [bad_step] will happen *)
Definition scan_ok (g : grw) (rb : rcd) (ops : list op) : Prop :=
  x = false -> g_sel g = None -> implicit_no_ct (r_hdr rb) ops = false.

Lemma sim_run ops : forall g rb, sim g rb -> scan_ok g rb ops -> sim (grw_run ops g) (rec_run ops rb).
Proof.
  induction ops as [|o ops IH]; intros g rb H Hs; [exact H|].
  unfold Gzip.grw_run, Gzip.rec_run. cbn [fold_left]. apply IH.
  - apply sim_step; [exact H|]. intros Hx. unfold bad_step.
    destruct o as [k v|k v|k| |c|b]; try reflexivity.
    destruct (g_sel g) eqn:Eg; [reflexivity|].
    specialize (Hs Hx Eg). cbn [implicit_no_ct] in Hs.
    destruct H as (_ & _ & _ & H). rewrite Eg in H. destruct H as (_ & _ & _ & _ & _ & H6).
    rewrite (proj1 H6 H_CT); [exact Hs|intros []|apply CT_ne_VARY].
  - intros Hx Hn.
    destruct (g_sel g) as [sb|] eqn:Eg.
    { (* a decided writer stays decided *)
      exfalso. destruct g as [sel fed pan rg]. cbn [g_sel] in Eg. subst sel.
      destruct o as [k v|k v|k| |c|b]; unfold Gzip.grw_step in Hn; cbn [g_sel] in Hn; try discriminate.
      - unfold Gzip.grw_write_header, Gzip.grw_decide_write_header in Hn.
        destruct (is_1xx c); cbn [g_sel] in Hn; discriminate.
      - unfold Gzip.grw_write, grw_write_with in Hn. cbn [g_sel] in Hn.
        destruct sb; cbn [g_sel] in Hn; discriminate. }
    specialize (Hs Hx Eg).
    destruct H as (_ & _ & _ & H). rewrite Eg in H. destruct H as (_ & _ & Hwb & _).
    destruct o as [k v|k v|k| |c|b]; cbn [implicit_no_ct] in Hs;
      try (unfold Gzip.rec_step, rec_upd; cbn [r_hdr]; exact Hs).
    + unfold Gzip.rec_step, rec_write_header. rewrite Hwb.
      destruct (is_1xx c) eqn:Ec; cbn [r_hdr]; [exact Hs|].
      exfalso. destruct g as [sel fed pan rg]. cbn [g_sel] in Eg. subst sel.
      unfold Gzip.grw_step, Gzip.grw_write_header in Hn. rewrite Ec in Hn.
      unfold Gzip.grw_decide_write_header in Hn. cbn [g_sel g_fed g_panic g_rec] in Hn.
      destruct (is_compressable (r_hdr rg)); cbn [g_sel] in Hn; discriminate.
    + exfalso. destruct g as [sel fed pan rg]. cbn [g_sel] in Eg. subst sel.
      unfold Gzip.grw_step, Gzip.grw_write, grw_write_with in Hn. cbn [g_sel g_fed g_panic g_rec] in Hn.
      change (Gzip.grw_write_header ctm 200) with (grw_decide_write_header 200) in Hn.
      unfold Gzip.grw_decide_write_header in Hn. cbn [g_sel g_fed g_panic g_rec] in Hn.
      destruct (is_compressable _); cbn [g_sel] in Hn; discriminate.
Qed.

Lemma sim_init h0 : sim (mkG None [] false (rec_new (hadd h0 H_VARY H_AE))) (rec_new h0).
Proof.
  unfold sim, rec_new. rsimp.
  repeat split; try reflexivity; try apply hdr_rel_init. constructor.
Qed.

(* ---------- the non-accepting path: writer against writer ---------- *)
Definition rsim (ra rb : rcd) : Prop :=
  r_wrote ra = r_wrote rb /\ r_code ra = r_code rb /\ r_body ra = r_body rb /\
  info_rel (r_info ra) (r_info rb) /\
  if r_wrote ra then hdr_rel [] (r_snap ra) (r_snap rb) else hdr_rel [] (r_hdr ra) (r_hdr rb).

Lemma rsim_step o ra rb : rsim ra rb -> rsim (rec_step o ra) (rec_step o rb).
Proof.
  intros (Hw & Hc & Hb & Hi & Hh).
  destruct ra as [ha wa ca sa ba ia], rb as [hb wb cb sb bb ib].
  rsimp. cbn [r_wrote r_hdr r_code r_snap r_body r_info] in *. subst wb cb bb.
  destruct o as [k v|k v|k| |c|b].
  1-4: (unfold Gzip.rec_step, rec_upd, rsim; rsimp;
        repeat split; auto; destruct wa; [exact Hh|apply (hdr_rel_op _ _ _ Hh)]).
  - unfold Gzip.rec_step, rec_write_header, rsim. rsimp.
    destruct wa; rsimp; [repeat split; auto; apply Hh|].
    destruct (is_1xx c); rsimp; repeat split; auto; try apply Hh. apply info_rel_snoc; assumption.
  - unfold Gzip.rec_step, Gzip.rec_write, rsim. rsimp.
    destruct wa; rsimp; repeat split; auto; apply Hh.
Qed.

Lemma rsim_run ops : forall ra rb, rsim ra rb -> rsim (rec_run ops ra) (rec_run ops rb).
Proof.
  induction ops as [|o ops IH]; intros ra rb H; [exact H|].
  unfold Gzip.rec_run. cbn [fold_left]. apply IH. apply rsim_step. exact H.
Qed.

(* ---------- the body of the bare run is the concatenation of the writes ---------- *)
Lemma rec_step_body o r :
  r_body (rec_step o r) = r_body r ++ match o with Write b => b | _ => [] end.
Proof.
  destruct o; unfold Gzip.rec_step, rec_upd, rec_write_header, Gzip.rec_write;
    cbn [r_body]; try (rewrite app_nil_r; reflexivity).
  - destruct (r_wrote r); [|destruct (is_1xx c)]; cbn [r_body]; rewrite app_nil_r; reflexivity.
  - destruct (r_wrote r); cbn [r_body]; reflexivity.
Qed.

Lemma rec_run_body ops : forall r, r_body (rec_run ops r) = r_body r ++ written ops.
Proof.
  induction ops as [|o ops IH]; intros r; unfold Gzip.rec_run, written; cbn [fold_left flat_map].
  - rewrite app_nil_r. reflexivity.
  - fold (rec_run ops (rec_step o r)). rewrite IH, rec_step_body, <- app_assoc. reflexivity.
Qed.

(* ---------- the server's sniffing when the response is finished ---------- *)
Lemma finish_other h b k : k <> H_CT -> hvals (finish_hdr h b) k = hvals h k.
Proof.
  intros Hk. unfold Gzip.finish_hdr. destruct (hvals h H_CT); [reflexivity|].
  destruct (beq (hget h H_TE) [] && beq (hget h H_CE) [] && negb (beq b [])); [|reflexivity].
  rewrite hvals_hset, beq_false_ne; auto.
Qed.

Lemma finish_some h b v : hvals h H_CT = Some v -> finish_hdr h b = h.
Proof. intros H. unfold Gzip.finish_hdr. rewrite H. reflexivity. Qed.

Lemma finish_nil h : finish_hdr h [] = h.
Proof.
  unfold Gzip.finish_hdr. destruct (hvals h H_CT); [reflexivity|].
  change (negb (beq [] [])) with false. rewrite andb_false_r. reflexivity.
Qed.

Lemma hdr_rel_finish ex hg hb bg bb : In H_CT ex ->
  hdr_rel ex hg hb -> hdr_rel ex (finish_hdr hg bg) (finish_hdr hb bb).
Proof.
  intros Hin [H1 H2]. split.
  - intros k Hk Hv. rewrite !finish_other by (intro E; apply Hk; subst k; exact Hin). auto.
  - rewrite !finish_other by (apply not_eq_sym, CT_ne_VARY). exact H2.
Qed.

(* same Content-Type, Transfer-Encoding, Content-Encoding and body: the server sniffs on both sides or on neither *)
Lemma finish_ct_eq hg hb b :
  hvals hg H_CT = hvals hb H_CT -> hget hg H_TE = hget hb H_TE -> hget hg H_CE = hget hb H_CE ->
  hvals (finish_hdr hg b) H_CT = hvals (finish_hdr hb b) H_CT.
Proof.
  intros E Et Ec. unfold Gzip.finish_hdr. rewrite E, Et, Ec.
  destruct (hvals hb H_CT) eqn:Eb; [congruence|].
  destruct (beq (hget hb H_TE) [] && beq (hget hb H_CE) [] && negb (beq b [])); [|congruence].
  rewrite !hvals_hset, beq_refl. reflexivity.
Qed.

Lemma hdr_rel_finish_exact hg hb b : hdr_rel [] hg hb -> hdr_rel [] (finish_hdr hg b) (finish_hdr hb b).
Proof.
  intros [H1 H2]. split.
  - intros k _ Hv. destruct (beq H_CT k) eqn:E.
    + apply beq_eq in E; subst k. apply finish_ct_eq.
      * apply H1; [intros []|exact Hv].
      * apply hget_congr, H1; [intros []|apply TE_ne_VARY].
      * apply hget_congr, H1; [intros []|apply CE_ne_VARY].
    + apply beq_neq in E. rewrite !finish_other by (apply not_eq_sym; exact E). apply H1; [intros []|exact Hv].
  - rewrite !finish_other by (apply not_eq_sym, CT_ne_VARY). exact H2.
Qed.

(* ---------- the final relation between the handler's response and the upstream's ---------- *)
(* Content-Type of the finished responses: the upstream's; or (every call sequence, [x = true]) one
   sniffed by the handler; or (compressed only) none where net/http alone would have sniffed one *)
Definition ct_res (gzp : bool) (hr hu : hdr) : Prop :=
  hvals hr H_CT = hvals hu H_CT
  \/ (x = true /\ exists b, hvals hr H_CT = Some [sniff b])
  \/ (gzp = true /\ hvals hr H_CT = None).

Definition res_rel (res up : result) : Prop :=
  o_code res = o_code up /\ o_panic res = false /\ info_rel (o_info res) (o_info up) /\
  match o_fed res with
  | None => o_plain res = o_plain up
            /\ hdr_rel [H_CT] (o_hdr res) (o_hdr up) /\ ct_res false (o_hdr res) (o_hdr up)
  | Some f => o_plain res = [] /\ f = o_plain up
              /\ hdr_rel [H_CT; H_CE; H_CL] (o_hdr res) (o_hdr up) /\ ct_res true (o_hdr res) (o_hdr up)
              /\ hvals (o_hdr res) H_CE = Some [GZIP] /\ hvals (o_hdr res) H_CL = None
              /\ hget (o_hdr up) H_CE = [] /\ ctm (hget (o_hdr res) H_CT) = true
  end.

Lemma finish_plain sg sb b : snap_plain sg sb ->
  hdr_rel [H_CT] (finish_hdr sg b) (finish_hdr sb b) /\ ct_res false (finish_hdr sg b) (finish_hdr sb b).
Proof.
  intros [Hr Hc]. split; [apply hdr_rel_finish; [left; reflexivity|exact Hr]|].
  destruct Hc as [E|(Hx & Hn & bb & Es)].
  - left. apply finish_ct_eq; [exact E| |]; apply hget_congr, (proj1 Hr).
    + cbn [In]. intros [F|[]]. symmetry in F. exact (TE_ne_CT F).
    + apply TE_ne_VARY.
    + cbn [In]. intros [F|[]]. symmetry in F. exact (CE_ne_CT F).
    + apply CE_ne_VARY.
  - right. left. split; [exact Hx|]. exists bb. rewrite (finish_some _ _ _ Es). exact Es.
Qed.

Lemma finish_gzip sg sb b : snap_gzip sg sb ->
  hdr_rel [H_CT; H_CE; H_CL] sg (finish_hdr sb b) /\ ct_res true sg (finish_hdr sb b)
  /\ hget (finish_hdr sb b) H_CE = [].
Proof.
  intros (Hr & Hc & _ & _ & Hce & _). split; [|split].
  - rewrite <- (finish_nil sg). apply hdr_rel_finish; [left; reflexivity|exact Hr].
  - destruct Hc as [E|(Hx & Hn & bb & Es)].
    + destruct (hvals sb H_CT) eqn:Eb.
      * left. rewrite (finish_some _ _ _ Eb). congruence.
      * right. right. split; [reflexivity|exact E].
    + right. left. split; [exact Hx|]. exists bb. exact Es.
  - rewrite <- Hce. apply hget_congr, finish_other, CE_ne_CT.
Qed.

Theorem handler_rel h0 accept ae ops :
  (x = false -> sniff_region h0 accept ae ops = false) ->
  res_rel (handler sniff ctm h0 accept ae ops) (bare sniff h0 ops).
Proof.
  intros Hreg. unfold handler, handler_core, bare. unfold sniff_region in Hreg.
  destruct (accepts_gzip accept ae).
  - assert (Hs : scan_ok (mkG None [] false (rec_new (hadd h0 H_VARY H_AE))) (rec_new h0) ops).
    { intros Hx _. cbn [rec_new r_hdr]. apply (Hreg Hx). }
    pose proof (sim_run ops _ _ (sim_init h0) Hs) as (Hp & Hc & Hi & H).
    unfold grw_result, rec_result, res_rel. cbn [o_code o_hdr o_plain o_fed o_panic o_info].
    destruct (g_sel (grw_run ops _)) as [[|]|].
    + destruct H as (H1 & H2 & H3 & H4 & H5). rewrite H1, H2, H3, finish_nil.
      destruct (finish_gzip _ _ (r_body (rec_run ops (rec_new h0))) H5) as (F1 & F2 & F3).
      destruct H5 as (_ & _ & G1 & G2 & _ & G3).
      repeat (split; [first [reflexivity|assumption]|]). assumption.
    + destruct H as (H1 & H2 & H3 & H4). rewrite H1, H2, H3.
      destruct (finish_plain _ _ (r_body (rec_run ops (rec_new h0))) H4) as (F1 & F2).
      repeat (split; [first [reflexivity|assumption]|]). assumption.
    + destruct H as (H1 & H2 & H3 & H4 & H5 & H6). rewrite H2, H3, H4, H5, !finish_nil.
      destruct (rel_to_plain _ _ H6) as [Ha Hd].
      repeat (split; [first [reflexivity|assumption]|]). left. apply (proj1 H6); [intros []|apply CT_ne_VARY].
  - assert (R0 : rsim (rec_new (hadd h0 H_VARY H_AE)) (rec_new h0)).
    { unfold rsim, rec_new. rsimp. repeat split; try reflexivity; try apply hdr_rel_init. constructor. }
    pose proof (rsim_run ops _ _ R0) as (Hw & Hc & Hb & Hi & Hh).
    unfold rec_result, res_rel. cbn [o_code o_hdr o_plain o_fed o_panic o_info].
    rewrite <- Hw, Hb.
    assert (Hf : hdr_rel [] (finish_hdr (if r_wrote (rec_run ops (rec_new (hadd h0 H_VARY H_AE)))
                                         then r_snap (rec_run ops (rec_new (hadd h0 H_VARY H_AE)))
                                         else r_hdr (rec_run ops (rec_new (hadd h0 H_VARY H_AE))))
                                        (r_body (rec_run ops (rec_new h0))))
                            (finish_hdr (if r_wrote (rec_run ops (rec_new (hadd h0 H_VARY H_AE)))
                                         then r_snap (rec_run ops (rec_new h0))
                                         else r_hdr (rec_run ops (rec_new h0)))
                                        (r_body (rec_run ops (rec_new h0))))).
    { apply hdr_rel_finish_exact.
      destruct (r_wrote (rec_run ops (rec_new (hadd h0 H_VARY H_AE)))); exact Hh. }
    repeat (split; [first [reflexivity|assumption]|]). split.
    + eapply hdr_rel_weaken; [|exact Hf]. intros k [].
    + left. apply (proj1 Hf); [intros []|apply CT_ne_VARY].
Qed.

(* the decision is taken once: after it, selection, status and header snapshot are frozen *)
Lemma decided_step o g s :
  g_sel g = Some s -> r_wrote (g_rec g) = true ->
  g_sel (grw_step o g) = Some s /\ r_wrote (g_rec (grw_step o g)) = true
  /\ r_code (g_rec (grw_step o g)) = r_code (g_rec g)
  /\ r_snap (g_rec (grw_step o g)) = r_snap (g_rec g).
Proof.
  intros Hs Hw. destruct g as [sel fed pan rg]. cbn [g_sel g_rec] in *. subst sel.
  destruct o as [k v|k v|k| |c|b]; unfold Gzip.grw_step, rec_upd; rsimp; auto.
  - unfold Gzip.grw_write_header, Gzip.grw_decide_write_header, rec_write_header. rsimp.
    destruct (is_1xx c); rsimp; rewrite Hw; auto.
  - unfold Gzip.grw_write, grw_write_with. rsimp.
    destruct s; rsimp; auto.
    rewrite (rec_write_wrote _ _ Hw). rsimp. auto.
Qed.

Theorem decision_once ops : forall g s,
  g_sel g = Some s -> r_wrote (g_rec g) = true ->
  g_sel (grw_run ops g) = Some s
  /\ r_code (g_rec (grw_run ops g)) = r_code (g_rec g)
  /\ r_snap (g_rec (grw_run ops g)) = r_snap (g_rec g).
Proof.
  induction ops as [|o ops IH]; intros g s Hs Hw; [auto|].
  unfold Gzip.grw_run. cbn [fold_left]. fold (grw_run ops (grw_step o g)).
  destruct (decided_step o g s Hs Hw) as (A & B & C & D).
  destruct (IH _ _ A B) as (E & F & G). rewrite E, F, G, C, D. auto.
Qed.

(* an informational WriteHeader decides nothing and does not finalise the response *)
Lemma informational_does_not_decide c g : is_1xx c = true ->
  g_sel (grw_step (WriteHeader c) g) = g_sel g /\ g_fed (grw_step (WriteHeader c) g) = g_fed g
  /\ r_wrote (g_rec (grw_step (WriteHeader c) g)) = r_wrote (g_rec g)
  /\ r_hdr (g_rec (grw_step (WriteHeader c) g)) = r_hdr (g_rec g).
Proof.
  intros Hx. unfold Gzip.grw_step, Gzip.grw_write_header, rec_write_header. rewrite Hx. rsimp.
  destruct (r_wrote (g_rec g)) eqn:Ew; rsimp; auto.
Qed.

(* the decision: no upstream Content-Encoding, and the expression on the COMPLETE first value of
   Content-Type -- parameters, spacing and case as the upstream wrote them, not a part of it *)
Lemma decision_uses_full_content_type c g : is_1xx c = false -> g_sel g = None ->
  g_sel (grw_step (WriteHeader c) g)
  = Some (beq (hget (r_hdr (g_rec g)) H_CE) [] && ctm (hget (r_hdr (g_rec g)) H_CT)).
Proof.
  intros Hx Hs. unfold Gzip.grw_step, Gzip.grw_write_header. rewrite Hx.
  unfold Gzip.grw_decide_write_header. rewrite Hs. unfold Gzip.is_compressable.
  destruct (beq (hget (r_hdr (g_rec g)) H_CE) []); [destruct (ctm (hget (r_hdr (g_rec g)) H_CT))|]; reflexivity.
Qed.

(* the first NON-informational WriteHeader, or the first Write, decides (and finalises the header) *)
Lemma first_call_decides o g :
  (match o with WriteHeader c => is_1xx c = false | Write _ => True | _ => False end) ->
  g_sel (grw_step o g) <> None /\ (g_sel g = None -> r_wrote (g_rec g) = false -> r_wrote (g_rec (grw_step o g)) = true).
Proof.
  destruct g as [sel fed pan rg]. destruct o as [k v|k v|k| |c|b]; intros Ho; try (exfalso; exact Ho); unfold Gzip.grw_step.
  - unfold Gzip.grw_write_header. rewrite Ho. unfold Gzip.grw_decide_write_header. rsimp.
    destruct sel as [s|]; rsimp.
    + split; [discriminate|intros; discriminate].
    + destruct (is_compressable (r_hdr rg)); rsimp; (split; [discriminate|]);
        intros _ Hw; unfold rec_write_header, rec_upd; rsimp; rewrite Hw, Ho; reflexivity.
  - unfold Gzip.grw_write, grw_write_with. rsimp.
    destruct sel as [[|]|]; rsimp; try (split; [discriminate|intros; discriminate]).
    change (Gzip.grw_write_header ctm 200) with (grw_decide_write_header 200).
    unfold Gzip.grw_decide_write_header. rsimp.
    destruct (is_compressable _); rsimp; (split; [discriminate|]); intros _ Hw.
    + unfold rec_write_header, rec_upd. destruct (hvals (r_hdr rg) H_CT); rsimp; rewrite Hw; reflexivity.
    + unfold Gzip.rec_write, rec_write_header, rec_upd.
      destruct (hvals (r_hdr rg) H_CT); rsimp; rewrite Hw; rsimp; reflexivity.
Qed.

End Sim.

(* ================= acceptsGzip (commit 7cff601) against the RFC reading ================= *)
Lemma q_zero_zero_dot v : q_zero v = true -> zero_dot v = true /\ v <> [].
Proof.
  destruct v as [|a [|b ds]]; cbn [q_zero]; try discriminate.
  - intros H. apply N.eqb_eq in H; subst a. split; [reflexivity|discriminate].
  - intros H. apply andb_true_iff in H as [H Hd]. apply andb_true_iff in H as [Ha Hb].
    apply N.eqb_eq in Ha, Hb; subst a b. split; [|discriminate].
    unfold zero_dot. cbn [forallb]. change ((48 =? 48) || (48 =? 46)) with true.
    change ((46 =? 48) || (46 =? 46)) with true. cbn [andb].
    rewrite forallb_forall in *. intros x Hx. rewrite (Hd x Hx). reflexivity.
Qed.

Lemma zero_dot_lower v : zero_dot v = true -> lower v = v.
Proof.
  induction v as [|c v IH]; [reflexivity|]. unfold zero_dot. cbn [forallb map lower].
  intros H. apply andb_true_iff in H as [Hc Hv]. fold (lower v). rewrite (IH Hv).
  apply orb_true_iff in Hc as [Hc|Hc]; apply N.eqb_eq in Hc; subst c; reflexivity.
Qed.

Lemma split_nonempty s c : split_byte s c <> [].
Proof.
  destruct s as [|x s]; cbn [split_byte]; [discriminate|].
  destruct (x =? c); [discriminate|]. destruct (split_byte s c); discriminate.
Qed.

Lemma split_single s c : (length (split_byte s c) < 2)%nat -> split_byte s c = [s].
Proof.
  induction s as [|x s IH]; cbn [split_byte]; [reflexivity|].
  destruct (x =? c).
  - cbn [length]. pose proof (split_nonempty s c). destruct (split_byte s c); [congruence|cbn [length]; lia].
  - destruct (split_byte s c) as [|w ws] eqn:E; [exfalso; exact (split_nonempty s c E)|].
    cbn [length]. intros H. destruct ws; [|cbn [length] in H; lia].
    assert (W : [w] = [s]) by (apply IH; cbn [length]; lia).
    injection W as ->. reflexivity.
Qed.

Lemma existsb_false {A} (f : A -> bool) l a : existsb f l = false -> In a l -> f a = false.
Proof.
  intros H Hin. destruct (f a) eqn:E; [|reflexivity].
  rewrite <- H. symmetry. apply existsb_exists. exists a. auto.
Qed.

(* an element the code accepts and that is outside region 1 is a gzip / x-gzip entry whose weight is
   not zero in the RFC reading *)
Lemma elem_ok_coding e : gzip_elem_ok e = true -> q0_ext_elem e = false ->
  is_gzip_name (fst (coding e)) = true /\ snd (coding e) = true.
Proof.
  unfold gzip_elem_ok, q0_ext_elem, coding. destruct (cut_byte e 59) as [name params]. cbn [fst snd].
  intros H Hq. apply andb_true_iff in H as [Hn Hw]. split; [exact Hn|].
  rewrite Hn in Hq. cbn [andb] in Hq.
  destruct (weight_zero params) eqn:Ew; [exfalso|reflexivity].
  rewrite andb_true_r in Hq. apply Nat.leb_gt in Hq.
  unfold weight_zero in Ew. rewrite (split_single _ _ Hq) in Ew. cbn [existsb] in Ew. rewrite orb_false_r in Ew.
  unfold param_q_zero in Ew. unfold zero_weight in Hw.
  destruct (lower (trim_space params)) as [|c [|d v]]; try discriminate.
  apply andb_true_iff in Ew as [Ew Ez]. rewrite Ew in Hw.
  destruct (q_zero_zero_dot v Ez) as [Hz Hne]. rewrite Hz in Hw.
  destruct v; [congruence|]. discriminate.
Qed.

(* acceptsGzip implies the RFC reading outside region 1 *)
Lemma accepts_rfc accept ae : accepts_gzip accept ae = true -> q0_ext_region ae = false -> rfc_accepts_gzip ae = true.
Proof.
  unfold accepts_gzip, q0_ext_region. destruct (contains (hd [] accept) EVENT_STREAM); [discriminate|].
  intros Ha Hq. apply existsb_exists in Ha as (e & Hin & Hok).
  destruct (elem_ok_coding e Hok (existsb_false _ _ _ Hq Hin)) as [Hn Hw].
  assert (Hin' : In (coding e) (map coding (flat_map (fun v => split_byte v 44) ae))).
  { apply in_map. destruct ae as [|v ae']; cbn [hd] in Hin.
    - cbn in Hin. destruct Hin as [<-|[]]. vm_compute in Hok. discriminate.
    - cbn [flat_map]. apply in_or_app. left. exact Hin. }
  unfold rfc_accepts_gzip.
  assert (E1 : existsb (fun c => is_gzip_name (fst c)) (map coding (flat_map (fun v => split_byte v 44) ae)) = true).
  { apply existsb_exists. exists (coding e). auto. }
  rewrite E1. apply existsb_exists. exists (coding e). split; [exact Hin'|]. rewrite Hn, Hw. reflexivity.
Qed.

Lemma not_hidden_all_empty h : hget h H_CE = [] -> ce_hidden (ce_values h) = false -> not_encoded h = true.
Proof.
  unfold hget, not_encoded, ce_values, ce_hidden. destruct (hvals h H_CE) as [[|v rest]|]; intros E H; try reflexivity.
  subst v. cbn [forallb]. change (beq [] []) with true in *. cbn [andb] in *.
  induction rest as [|y rest IH]; [reflexivity|]. cbn [existsb forallb] in *.
  apply orb_false_iff in H as [Hy Hr]. apply negb_false_iff in Hy. rewrite Hy. exact (IH Hr).
Qed.

(* ================= the clauses of C17, in their final form ================= *)
Section Clauses.
Variable sniff : str -> str.
Variable ctm : str -> bool.
Variables (h0 : hdr) (accept ae : list str) (ops : list op).
Let res := handler sniff ctm h0 accept ae ops.
Let up := bare sniff h0 ops.

(* the relation that holds for every call sequence *)
Lemma handler_rel_all : res_rel sniff ctm true res up.
Proof. apply handler_rel. intros E. discriminate E. Qed.

Lemma bare_plain : o_plain up = written ops.
Proof.
  unfold up, bare, rec_result. cbn [o_plain]. rewrite rec_run_body. reflexivity.
Qed.

(* [valid_codes] is the modelled domain (net/http panics on other codes; 101 is final for the server) *)
Lemma status_preserved : valid_codes ops = true -> o_code res = o_code up.
Proof. intros _. apply handler_rel_all. Qed.

Lemma never_panics : valid_codes ops = true -> o_panic res = false.
Proof. intros _. apply handler_rel_all. Qed.

Lemma informational_preserved : info_rel (o_info res) (o_info up).
Proof. apply handler_rel_all. Qed.

Lemma compressed_only_if f : o_fed res = Some f ->
  accepts_gzip accept ae = true /\ ctm (hget (o_hdr res) H_CT) = true /\ hget (o_hdr up) H_CE = [].
Proof.
  intros Hf. pose proof handler_rel_all as (_ & _ & _ & H).
  rewrite Hf in H. split; [|split; apply H].
  unfold res, handler, handler_core in Hf. destruct (accepts_gzip accept ae); [reflexivity|].
  unfold rec_result in Hf. cbn [o_fed] in Hf. discriminate.
Qed.

(* "not already encoded" in full -- every upstream Content-Encoding value is empty -- outside region 3 *)
Lemma compressed_only_if_not_encoded_on_domain f : o_fed res = Some f ->
  ce_hidden (ce_values (o_hdr up)) = false -> not_encoded (o_hdr up) = true.
Proof.
  intros Hf Hh. destruct (compressed_only_if f Hf) as (_ & _ & Hce). exact (not_hidden_all_empty _ Hce Hh).
Qed.

Lemma gzip_labelled_no_length f : o_fed res = Some f ->
  hvals (o_hdr res) H_CE = Some [GZIP] /\ hvals (o_hdr res) H_CL = None.
Proof.
  intros Hf. pose proof handler_rel_all as (_ & _ & _ & H).
  rewrite Hf in H. split; apply H.
Qed.

Lemma gunzip_body_eq_writes (gz : str -> str) (gunzip : str -> option str) f :
  (forall b, gunzip (gz b) = Some b) ->
  o_fed res = Some f -> gunzip (body_of gz res) = Some (written ops) /\ o_plain up = written ops.
Proof.
  intros Hgz Hf. pose proof handler_rel_all as (_ & _ & _ & H).
  rewrite Hf in H. destruct H as (Hp & Hfu & _).
  unfold body_of. rewrite Hp, Hf. cbn [app]. rewrite Hgz, Hfu, bare_plain. auto.
Qed.

(* every call sequence: body exact; headers the upstream's apart from Vary and a Content-Type the handler sniffed *)
Lemma identity_otherwise (gz : str -> str) : o_fed res = None ->
  body_of gz res = written ops
  /\ hdr_rel [H_CT] (o_hdr res) (o_hdr up) /\ ct_res sniff true false (o_hdr res) (o_hdr up).
Proof.
  intros Hf. pose proof handler_rel_all as (_ & _ & _ & H).
  rewrite Hf in H. destruct H as (Hp & Hr & Hc).
  unfold body_of. rewrite Hf, app_nil_r, Hp, bare_plain. auto.
Qed.

(* outside region 2: EVERY header is the upstream's (as net/http delivers it), Vary apart *)
Lemma identity_headers_exact (gz : str -> str) : o_fed res = None ->
  sniff_region h0 accept ae ops = false ->
  body_of gz res = written ops /\ hdr_rel [] (o_hdr res) (o_hdr up).
Proof.
  intros Hf Hreg.
  pose proof (handler_rel sniff ctm false h0 accept ae ops (fun _ => Hreg)) as (_ & _ & _ & H).
  fold res up in H. rewrite Hf in H. destruct H as (Hp & Hr & Hc).
  split; [unfold body_of; rewrite Hf, app_nil_r, Hp, bare_plain; reflexivity|].
  assert (E : hvals (o_hdr res) H_CT = hvals (o_hdr up) H_CT).
  { destruct Hc as [E|[(F & _)|(F & _)]]; [exact E|discriminate F|discriminate F]. }
  split; [|apply Hr]. intros k _ Hv. destruct (beq H_CT k) eqn:Ek.
  - apply beq_eq in Ek; subst k. exact E.
  - apply beq_neq in Ek. apply (proj1 Hr); [|exact Hv]. cbn [In]. intros [F|[]]. exact (Ek F).
Qed.

Lemma compressed_headers f : o_fed res = Some f ->
  hdr_rel [H_CT; H_CE; H_CL] (o_hdr res) (o_hdr up) /\ ct_res sniff true true (o_hdr res) (o_hdr up).
Proof.
  intros Hf. pose proof handler_rel_all as (_ & _ & _ & H).
  rewrite Hf in H. split; apply H.
Qed.

(* against the RFC's reading of Accept-Encoding, outside region 1 *)
Lemma compressed_only_if_rfc_on_domain f : o_fed res = Some f ->
  q0_ext_region ae = false -> rfc_accepts_gzip ae = true.
Proof.
  intros Hf Hq. destruct (compressed_only_if f Hf) as (Ha & _). exact (accepts_rfc accept ae Ha Hq).
Qed.

(* mechanism lemma (definitional in the model, tied to the code by the abort classes of the harness):
   a panicking inner handler gets the response of a normal return so far, and the panic is not swallowed *)
Lemma abort_not_swallowed abort :
  s_propagated (serve sniff ctm h0 accept ae ops abort) = abort
  /\ s_res (serve sniff ctm h0 accept ae ops abort) = res.
Proof. split; reflexivity. Qed.
End Clauses.

(* F-C17-3: an accepted request, upstream "Content-Encoding: br" without Content-Type, not compressed:
   the response carries a Content-Type the upstream never sent and net/http alone would not add;
   and without any encoding: a type sniffed from the first chunk instead of the body's start *)
Lemma sniffed_type_refuted : forall ctm,
  let sniff := fun b : str => if beq b (bs "<") then bs "text/plain" else bs "text/html" in
  let ops1 := [SetHeader H_CE (bs "br"); Write (bs "BROTLI")] in
  let ops2 := [Write (bs "<"); Write (bs "html>")] in
  sniff_region [] [] [bs "gzip"] ops1 = true
  /\ o_fed (handler sniff (fun _ => false) [] [] [bs "gzip"] ops1) = None
  /\ hvals (o_hdr (handler sniff ctm [] [] [bs "gzip"] ops1)) H_CT = Some [bs "text/html"]
  /\ hvals (o_hdr (bare sniff [] ops1)) H_CT = None
  /\ o_fed (handler sniff (fun _ => false) [] [] [bs "gzip"] ops2) = None
  /\ hvals (o_hdr (handler sniff (fun _ => false) [] [] [bs "gzip"] ops2)) H_CT = Some [bs "text/plain"]
  /\ hvals (o_hdr (bare sniff [] ops2)) H_CT = Some [bs "text/html"].
Proof. intros ctm. vm_compute. repeat split; reflexivity. Qed.

(* F-C17-4: upstream Content-Encoding: ["", "br"] -- compressed again and the br label is lost *)
Lemma ce_first_empty_refuted : forall sniff,
  let ops := [AddHeader H_CE []; AddHeader H_CE (bs "br"); SetHeader H_CT (bs "text/html"); Write (bs "BROTLI")] in
  let res := handler sniff (fun _ => true) [] [] [bs "gzip"] ops in
  ce_hidden (ce_values (o_hdr (bare sniff [] ops))) = true
  /\ not_encoded (o_hdr (bare sniff [] ops)) = false
  /\ o_fed res = Some (bs "BROTLI") /\ hvals (o_hdr res) H_CE = Some [GZIP].
Proof. intros sniff. vm_compute. repeat split; reflexivity. Qed.

(* F-C17-5: a zero weight followed / preceded by an extension parameter is not recognised *)
Lemma accept_q0_ext_refuted : forall sniff,
  let ops := [SetHeader H_CT (bs "text/html"); Write (bs "hello")] in
  rfc_accepts_gzip [bs "gzip;q=0;x=1"] = false /\ q0_ext_region [bs "gzip;q=0;x=1"] = true
  /\ o_fed (handler sniff (fun _ => true) [] [] [bs "gzip;q=0;x=1"] ops) = Some (bs "hello")
  /\ rfc_accepts_gzip [bs "deflate, gzip;x=1;Q=0.0"] = false /\ q0_ext_region [bs "deflate, gzip;x=1;Q=0.0"] = true
  /\ o_fed (handler sniff (fun _ => true) [] [] [bs "deflate, gzip;x=1;Q=0.0"] ops) = Some (bs "hello").
Proof. intros sniff. vm_compute. repeat split; reflexivity. Qed.

(* before commit 7cff601: "gzip;q=0" -- the client refuses gzip, the handler compressed anyway *)
Lemma accept_q0_refuted : forall sniff, exists ae ops f,
  rfc_accepts_gzip ae = false
  /\ o_fed (handler_q0_unrepaired sniff (fun _ => true) [] [] ae ops) = Some f.
Proof.
  intros sniff.
  exists [bs "gzip;q=0"], [SetHeader H_CT (bs "text/html"); Write (bs "hello")], (bs "hello").
  split; vm_compute; reflexivity.
Qed.

(* the code as it is refuses every zero-weight spelling, either case, and matches names exactly ... *)
Example q0_repaired :
  forallb (fun v => negb (accepts_gzip [] [bs v]))
    ["gzip;q=0"; "gzip; q=0.0"; "gzip ; q=0"; "identity;q=1, gzip;q=0"; "deflate, gzip;q=0.000"; "gzip;q=0."; "x-gzip;q=0";
     "gzip;Q=0"; "gzip; Q=0.0"; "deflate, gzip;Q=0"; "Gzip;q=0"; "notgzip2"; "deflate"; ""]%string = true
  /\ forallb (fun v => accepts_gzip [] [bs v])
    ["gzip"; "GZIP"; "X-GZIP"; " gzip "; "deflate, gzip;q=0.5"; "gzip;q=0, x-gzip"]%string = true.
Proof. vm_compute. split; reflexivity. Qed.

(* ... between commits 7cff601 and bfb8a14 two kinds of refusal were still missed: a zero weight
   spelled with an upper-case Q, and a coding that merely contains the letters *)
Lemma accept_q0_residual_refuted : forall sniff,
  let ops := [SetHeader H_CT (bs "text/html"); Write (bs "hello")] in
  rfc_accepts_gzip [bs "gzip;Q=0"] = false
  /\ o_fed (handler_q0_7cff601 sniff (fun _ => true) [] [] [bs "gzip;Q=0"] ops) = Some (bs "hello")
  /\ rfc_accepts_gzip [bs "notgzip2"] = false
  /\ o_fed (handler_q0_7cff601 sniff (fun _ => true) [] [] [bs "notgzip2"] ops) = Some (bs "hello")
  /\ o_fed (handler sniff (fun _ => true) [] [] [bs "gzip;Q=0"] ops) = None
  /\ o_fed (handler sniff (fun _ => true) [] [] [bs "notgzip2"] ops) = None.
Proof. intros sniff. vm_compute. repeat split; reflexivity. Qed.

(* before commit a52f2fd: the upstream's 103 Early Hints (forwarded by httputil.ReverseProxy, which
   then clears the header map) took the decision from headers that are not the final response's;
   with an expression that matches the empty content type the final response went out compressed
   without Content-Encoding: gzip and with the upstream's Content-Length *)
Definition early_hints_ops : list op :=
  [SetHeader (bs "Link") (bs "</style.css>; rel=preload"); WriteHeader 103; ClearHeaders;
   SetHeader H_CT (bs "text/html"); SetHeader H_CL (bs "5"); WriteHeader 200; Write (bs "hello")].

Lemma informational_decides_unrepaired_refuted : forall sniff,
  let res := handler_unrepaired sniff (fun _ => true) [] [] [bs "gzip"] early_hints_ops in
  o_fed res = Some (bs "hello") /\ o_code res = 200
  /\ hvals (o_hdr res) H_CE = None /\ hvals (o_hdr res) H_CL = Some [bs "5"].
Proof. intros sniff. vm_compute. repeat split; reflexivity. Qed.

(* the repaired code on the same calls: labelled, no length, and the 103 went out first *)
Example early_hints_repaired : forall sniff,
  let res := handler sniff (fun _ => true) [] [] [bs "gzip"] early_hints_ops in
  o_fed res = Some (bs "hello") /\ o_code res = 200
  /\ hvals (o_hdr res) H_CE = Some [GZIP] /\ hvals (o_hdr res) H_CL = None
  /\ map fst (o_info res) = [103].
Proof. intros sniff. vm_compute. repeat split; reflexivity. Qed.

Lemma hget_first h k v vs : hvals h k = Some (v :: vs) -> hget h k = v.
Proof. unfold hget. intros ->. reflexivity. Qed.

(* an expression that excludes parameters (here: exactly "text/plain") does not match a type that
   carries one; cutting the value at ";" before matching would compress the first response too *)
Example parameters_are_matched : forall sniff,
  let run ct := o_fed (handler sniff (beq (bs "text/plain")) [] [] [bs "gzip"] [SetHeader H_CT (bs ct); Write (bs "hello")]) in
  run "text/plain; charset=utf-8"%string = None /\ run "text/plain ; q"%string = None /\ run "TEXT/PLAIN"%string = None
  /\ run "text/plain"%string = Some (bs "hello").
Proof. intros sniff. vm_compute. repeat split; reflexivity. Qed.

(* non-vacuity: a response that is compressed, one that is not, and requests on the RFC domain *)
Example compressed_nonvacuous :
  o_fed (handler (fun _ => bs "text/plain") (fun t => has_prefix t (bs "text/")) [] [] [bs "gzip, deflate"]
           [SetHeader H_CT (bs "text/html"); SetHeader H_CL (bs "10"); WriteHeader 404; Write (bs "hello"); Write (bs "world")])
  = Some (bs "helloworld").
Proof. vm_compute. reflexivity. Qed.

Example identity_nonvacuous :
  o_fed (handler (fun _ => bs "text/plain") (fun t => has_prefix t (bs "text/")) [] [] [bs "gzip"]
           [SetHeader H_CT (bs "text/html"); SetHeader H_CE (bs "br"); Write (bs "hello")]) = None.
Proof. vm_compute. reflexivity. Qed.

(* ================= the shared writer pool ================= *)
Section PoolProofs.
Variable sniff : str -> str.
Variable ctm : str -> bool.
Variable reset : str -> str.
Hypothesis reset_clears : forall w, reset w = [].

Lemma thread_step_outcome n pool t :
  outcome_of sniff ctm (snd (thread_step sniff ctm reset n pool t)) = outcome_of sniff ctm t.
Proof.
  unfold thread_step, outcome_of. destruct t as [todo g done]. cbn [h_todo h_g h_done].
  destruct done as [r|]; [reflexivity|].
  destruct todo as [|o rest]; cbn [snd h_todo h_g h_done]; [reflexivity|].
  assert (E : forall g' : grw, mkG (g_sel g') (g_fed g') (g_panic g') (g_rec g') = g') by (intros []; reflexivity).
  destruct (g_sel g) as [s|]; [reflexivity|].
  destruct (g_sel (grw_step sniff ctm o g)) as [[|]|] eqn:Es; try reflexivity.
  destruct (take n pool) as [w pool']. cbn [snd h_todo h_g h_done].
  rewrite reset_clears. cbn [app]. rewrite <- Es, E. reflexivity.
Qed.

Lemma map_upd {A B} (f : A -> B) x : forall l i t,
  nth_error l i = Some t -> f x = f t -> map f (upd i x l) = map f l.
Proof.
  induction l as [|y l IH]; intros [|i] t Hn Hf; cbn [upd map]; try reflexivity.
  - cbn in Hn. injection Hn as ->. rewrite Hf. reflexivity.
  - cbn in Hn. rewrite (IH i t Hn Hf). reflexivity.
Qed.

Lemma sys_step_outcomes s c :
  map (outcome_of sniff ctm) (snd (sys_step sniff ctm reset s c)) = map (outcome_of sniff ctm) (snd s).
Proof.
  unfold sys_step. destruct (nth_error (snd s) (fst c)) as [t|] eqn:En; [|reflexivity].
  pose proof (thread_step_outcome (snd c) (fst s) t) as H.
  destruct (thread_step sniff ctm reset (snd c) (fst s) t) as [p' t']. cbn [snd] in *.
  apply (map_upd _ _ _ _ _ En H).
Qed.

(* For every interleaving, every choice of pooled writers and every pool content: each
   handler's response is the one it produces when run alone. *)
Theorem pool_independence sched : forall s,
  map (outcome_of sniff ctm) (snd (sys_run sniff ctm reset sched s)) = map (outcome_of sniff ctm) (snd s).
Proof.
  induction sched as [|c sched IH]; intros s; [reflexivity|].
  unfold sys_run. cbn [fold_left]. fold (sys_run sniff ctm reset sched (sys_step sniff ctm reset s c)).
  rewrite IH. apply sys_step_outcomes.
Qed.

Corollary pool_independence_thread sched pool ts i ops g r t :
  nth_error ts i = Some (mkH ops g None) ->
  nth_error (snd (sys_run sniff ctm reset sched (pool, ts))) i = Some t ->
  h_done t = Some r ->
  r = grw_result sniff (grw_run sniff ctm ops g).
Proof.
  intros H0 H1 Hd. pose proof (pool_independence sched (pool, ts)) as H. cbn [snd] in H.
  apply (f_equal (fun l => nth_error l i)) in H. rewrite !nth_error_map, H0, H1 in H.
  cbn [option_map] in H. injection H as H. unfold outcome_of in H.
  rewrite Hd in H. cbn [h_done h_todo h_g] in H. exact H.
Qed.
End PoolProofs.

(* without Reset a writer left dirty in the pool leaks into the next response; and a schedule
   of two handlers that both finish (non-vacuity of the corollary) *)
Example pool_leak_without_reset :
  let t := mkH [SetHeader H_CT (bs "text/html"); Write (bs "x")]
               (mkG None [] false (rec_new [])) None in
  let run r := map (fun t => h_done t)
                 (snd (sys_run (fun _ => []) (fun _ => true) r [(0, 0); (0, 0); (0, 0)]%nat ([bs "stale"], [t]))) in
  match run (fun w => w), run (fun _ => []) with
  | [Some a], [Some b] => o_fed a = Some (bs "stalex") /\ o_fed b = Some (bs "x")
  | _, _ => False
  end.
Proof. vm_compute. split; reflexivity. Qed.

Example pool_two_handlers_finish :
  let mk ops := mkH ops (mkG None [] false (rec_new [])) None in
  map (fun t => match h_done t with Some r => o_fed r | None => Some [0] end)
      (snd (sys_run (fun _ => []) (fun _ => true) (fun _ => [])
              [(0, 0); (1, 5); (0, 0); (1, 0); (1, 1); (0, 3); (1, 0); (0, 0)]%nat
              ([bs "junk"], [mk [Write (bs "ab"); Write (bs "cd")]; mk [WriteHeader 404; Write (bs "xyz")]])))
  = [Some (bs "abcd"); Some (bs "xyz")].
Proof. vm_compute. reflexivity. Qed.
