(** Proofs about Model/Gzip.v: the gzip response writer simulates the bare recorder
    (the inner handler writing to the ResponseWriter directly) for every sequence of
    calls; all C17 clauses are projections of that simulation. *)
From Coq Require Import String List NArith Bool Lia.
From Fabio Require Import Lib.Bytes Model.Gzip.
Import ListNotations.
Local Open Scope N_scope.

(* ---------- header maps ---------- *)
Definition olist {A} (o : option (list A)) : list A := match o with Some l => l | None => [] end.

Lemma hvals_hdel h k k' : hvals (hdel h k) k' = if beq k k' then None else hvals h k'.
Proof.
  induction h as [|[k0 vs] h IH]; cbn [hdel hvals].
  - destruct (beq k k'); reflexivity.
  - destruct (beq k0 k) eqn:E0.
    + apply beq_eq in E0; subst k0. rewrite IH. destruct (beq k k'); reflexivity.
    + cbn [hvals]. destruct (beq k0 k') eqn:E1.
      * destruct (beq k k') eqn:E; [|reflexivity].
        apply beq_eq in E1, E; subst. rewrite beq_refl in E0; discriminate.
      * exact IH.
Qed.

Lemma hvals_app1 h k vs k' :
  hvals (h ++ [(k, vs)]) k' =
  match hvals h k' with Some x => Some x | None => if beq k k' then Some vs else None end.
Proof.
  induction h as [|[k0 v0] h IH]; cbn [app hvals]; [reflexivity|].
  destruct (beq k0 k'); auto.
Qed.

Lemma hvals_hput h k vs k' : hvals (hput h k vs) k' = if beq k k' then Some vs else hvals h k'.
Proof.
  unfold hput. rewrite hvals_app1, hvals_hdel.
  destruct (beq k k'); [reflexivity|]. destruct (hvals h k'); reflexivity.
Qed.

Lemma hvals_hset h k v k' : hvals (hset h k v) k' = if beq k k' then Some [v] else hvals h k'.
Proof. apply hvals_hput. Qed.

Lemma hvals_hadd h k v k' :
  hvals (hadd h k v) k' = if beq k k' then Some (olist (hvals h k) ++ [v]) else hvals h k'.
Proof.
  unfold hadd. rewrite hvals_hput. destruct (beq k k'); [|reflexivity].
  destruct (hvals h k); reflexivity.
Qed.

Lemma hget_congr h1 h2 k : hvals h1 k = hvals h2 k -> hget h1 k = hget h2 k.
Proof. unfold hget. intros ->. reflexivity. Qed.

Lemma beq_false_ne a b : a <> b -> beq a b = false.
Proof. intro H. apply beq_neq. exact H. Qed.

(* the header names are pairwise distinct *)
Ltac names_ne := let H := fresh "H" in intro H; vm_compute in H; discriminate H.
Lemma CT_ne_VARY : H_CT <> H_VARY. Proof. names_ne. Qed.
Lemma CE_ne_VARY : H_CE <> H_VARY. Proof. names_ne. Qed.
Lemma CL_ne_VARY : H_CL <> H_VARY. Proof. names_ne. Qed.
Lemma TE_ne_VARY : H_TE <> H_VARY. Proof. names_ne. Qed.
Lemma CE_ne_CT : H_CE <> H_CT. Proof. names_ne. Qed.
Lemma CL_ne_CT : H_CL <> H_CT. Proof. names_ne. Qed.
Lemma CL_ne_CE : H_CL <> H_CE. Proof. names_ne. Qed.
Lemma TE_ne_CT : H_TE <> H_CT. Proof. names_ne. Qed.

(* ---------- the relation between the headers the client gets and the upstream's ---------- *)
(* Vary: equal, or the same list with one Accept-Encoding inserted *)
Definition vary_rel (a b : option (list str)) : Prop :=
  a = b \/ exists pre post, a = Some (pre ++ H_AE :: post) /\ olist b = pre ++ post.

(* equal on every key outside [ex] and Vary; Vary as above *)
Definition hdr_rel (ex : list str) (hg hb : hdr) : Prop :=
  (forall k, ~ In k ex -> k <> H_VARY -> hvals hg k = hvals hb k)
  /\ vary_rel (hvals hg H_VARY) (hvals hb H_VARY).

Lemma hdr_rel_weaken ex ex' hg hb :
  (forall k, In k ex -> In k ex') -> hdr_rel ex hg hb -> hdr_rel ex' hg hb.
Proof. intros Hs [H1 H2]. split; [|exact H2]. intros k Hk Hv. apply H1; auto. Qed.

Lemma hdr_rel_op o hg hb : hdr_rel [] hg hb -> hdr_rel [] (hdr_op o hg) (hdr_op o hb).
Proof.
  intros [H1 H2]. destruct o as [k v|k v|k| |c|b]; cbn [hdr_op]; try (split; assumption).
  - (* Set *) split.
    + intros k' _ Hv. rewrite !hvals_hset. destruct (beq k k'); auto.
    + rewrite !hvals_hset. destruct (beq k H_VARY); [left; reflexivity|exact H2].
  - (* Add *) split.
    + intros k' _ Hv. rewrite !hvals_hadd. destruct (beq k k') eqn:E; auto.
      apply beq_eq in E; subst k'. rewrite (H1 k); auto.
    + rewrite !hvals_hadd. destruct (beq k H_VARY) eqn:E; [|exact H2].
      apply beq_eq in E; subst k. destruct H2 as [H2|(pre & post & Ha & Hb)].
      * left. rewrite H2. reflexivity.
      * right. exists pre, (post ++ [v]). rewrite Ha, Hb. cbn [olist].
        rewrite <- !app_assoc. split; reflexivity.
  - (* Del *) split.
    + intros k' _ Hv. rewrite !hvals_hdel. destruct (beq k k'); auto.
    + rewrite !hvals_hdel. destruct (beq k H_VARY); [left; reflexivity|exact H2].
  - (* Clear *) split; [reflexivity|left; reflexivity].
Qed.

(* informational responses: same codes, headers related *)
Definition info_rel (a b : list (N * hdr)) : Prop :=
  Forall2 (fun x y => fst x = fst y /\ hdr_rel [] (snd x) (snd y)) a b.

Lemma info_rel_snoc a b c hg hb : info_rel a b -> hdr_rel [] hg hb -> info_rel (a ++ [(c, hg)]) (b ++ [(c, hb)]).
Proof. intros H1 H2. apply Forall2_app; [exact H1|]. constructor; [split; [reflexivity|exact H2]|constructor]. Qed.

Lemma hdr_rel_init h0 : hdr_rel [] (hadd h0 H_VARY H_AE) h0.
Proof.
  split.
  - intros k _ Hv. rewrite hvals_hadd. rewrite beq_false_ne; auto.
  - rewrite hvals_hadd, beq_refl. right. exists (olist (hvals h0 H_VARY)), [].
    split; [reflexivity|]. rewrite app_nil_r. reflexivity.
Qed.

Section Sim.
Variable sniff : str -> str.
Variable ctm : str -> bool.

Notation rec_write := (rec_write sniff).
Notation rec_step := (rec_step sniff).
Notation rec_run := (rec_run sniff).
Notation grw_write := (grw_write sniff ctm).
Notation grw_write_header := (grw_write_header ctm).
Notation grw_decide_write_header := (grw_decide_write_header ctm).
Notation grw_step := (grw_step sniff ctm).
Notation grw_run := (grw_run sniff ctm).
Notation is_compressable := (is_compressable ctm).

Ltac rsimp := cbn [g_sel g_fed g_panic g_rec r_wrote r_hdr r_code r_snap r_body r_info].

(* Content-Type: the upstream's, or -- when it has none -- a sniffed one *)
Definition ct_rel (sg sb : hdr) : Prop :=
  hvals sg H_CT = hvals sb H_CT \/ (hvals sb H_CT = None /\ exists b, hvals sg H_CT = Some [sniff b]).

Definition snap_plain (sg sb : hdr) : Prop := hdr_rel [H_CT] sg sb /\ ct_rel sg sb.

Definition snap_gzip (sg sb : hdr) : Prop :=
  hdr_rel [H_CT; H_CE; H_CL] sg sb /\ ct_rel sg sb
  /\ hvals sg H_CE = Some [GZIP] /\ hvals sg H_CL = None
  /\ hget sb H_CE = [] /\ ctm (hget sg H_CT) = true.

(* the simulation: [g] after some calls, [rb] = the bare writer after the same calls *)
Definition sim (g : grw) (rb : rcd) : Prop :=
  g_panic g = false /\ r_code (g_rec g) = r_code rb /\ info_rel (r_info (g_rec g)) (r_info rb) /\
  match g_sel g with
  | None => g_fed g = [] /\ r_wrote (g_rec g) = false /\ r_wrote rb = false
            /\ r_body (g_rec g) = [] /\ r_body rb = []
            /\ hdr_rel [] (r_hdr (g_rec g)) (r_hdr rb)
  | Some false => r_wrote (g_rec g) = true /\ r_wrote rb = true
                  /\ r_body (g_rec g) = r_body rb
                  /\ snap_plain (r_snap (g_rec g)) (r_snap rb)
  | Some true => r_wrote (g_rec g) = true /\ r_wrote rb = true
                 /\ r_body (g_rec g) = [] /\ g_fed g = r_body rb
                 /\ snap_gzip (r_snap (g_rec g)) (r_snap rb)
  end.

(* the decision, on related header maps *)
Lemma decide_gzip hg hb :
  hdr_rel [H_CT] hg hb -> ct_rel hg hb -> is_compressable hg = true ->
  snap_gzip (hset (hdel hg H_CL) H_CE GZIP) hb.
Proof.
  intros [H1 H2] Hct Hc. unfold is_compressable in Hc.
  destruct (beq (hget hg H_CE) []) eqn:Ece; [|discriminate]. apply beq_eq in Ece.
  assert (Hv : forall k, k <> H_CE -> k <> H_CL ->
           hvals (hset (hdel hg H_CL) H_CE GZIP) k = hvals hg k).
  { intros k Hk1 Hk2. rewrite hvals_hset, hvals_hdel.
    rewrite (beq_false_ne H_CE k), (beq_false_ne H_CL k); auto. }
  repeat split.
  - intros k Hk Hvy. cbn [In] in Hk. rewrite Hv by (intro E; apply Hk; subst k; auto). apply H1; [cbn [In]; tauto|exact Hvy].
  - rewrite Hv; [exact H2|apply not_eq_sym, CE_ne_VARY|apply not_eq_sym, CL_ne_VARY].
  - unfold ct_rel. rewrite Hv; [exact Hct|apply not_eq_sym, CE_ne_CT|apply not_eq_sym, CL_ne_CT].
  - rewrite hvals_hset, beq_refl. reflexivity.
  - rewrite hvals_hset, hvals_hdel, beq_refl. rewrite (beq_false_ne H_CE H_CL); auto.
    apply not_eq_sym, CL_ne_CE.
  - rewrite <- Ece. symmetry. apply hget_congr. apply H1; [|apply CE_ne_VARY].
    cbn [In]. intros [E|[]]. symmetry in E. exact (CE_ne_CT E).
  - erewrite hget_congr; [exact Hc|]. apply Hv; [apply not_eq_sym, CE_ne_CT|apply not_eq_sym, CL_ne_CT].
Qed.

Lemma rel_to_plain hg hb : hdr_rel [] hg hb -> hdr_rel [H_CT] hg hb /\ ct_rel hg hb.
Proof.
  intros H. split.
  - eapply hdr_rel_weaken; [|exact H]. intros k [].
  - left. apply (proj1 H); [intros []|apply CT_ne_VARY].
Qed.

(* a final WriteHeader on an undecided writer whose live headers are related *)
Lemma sim_decide c fed rg rb :
  is_1xx c = false ->
  r_wrote rg = false -> r_wrote rb = false -> r_body rg = [] -> r_body rb = [] ->
  info_rel (r_info rg) (r_info rb) ->
  hdr_rel [H_CT] (r_hdr rg) (r_hdr rb) -> ct_rel (r_hdr rg) (r_hdr rb) -> fed = [] ->
  sim (grw_decide_write_header c (mkG None fed false rg)) (rec_write_header c rb).
Proof.
  intros Hx Hwg Hwb Hbg Hbb Hi Hrel Hct Hfed. unfold Gzip.grw_decide_write_header, rec_write_header.
  rsimp. rewrite Hwb, Hx.
  destruct (is_compressable (r_hdr rg)) eqn:Ec; rsimp.
  - unfold rec_upd. rsimp. rewrite Hwg. unfold sim. rsimp.
    pose proof (decide_gzip _ _ Hrel Hct Ec) as D.
    repeat (split; [first [reflexivity|assumption|congruence]|]). exact D.
  - rewrite Hwg. unfold sim. rsimp.
    repeat (split; [first [reflexivity|assumption|congruence]|]). first [assumption|split; assumption].
Qed.

Lemma rec_write_wrote b r : r_wrote r = true ->
  rec_write b r = mkR (r_hdr r) true (r_code r) (r_snap r) (r_body r ++ b) (r_info r).
Proof. intros H. unfold Gzip.rec_write. cbv zeta. rewrite H. rewrite H. reflexivity. Qed.

Lemma rec_write_unwrote b r : r_wrote r = false ->
  rec_write b r =
  let r1 := rec_write_header 200
              (match hvals (r_hdr r) H_CT with
               | None => if beq (hget (r_hdr r) H_TE) []
                         then rec_upd (fun h => hset h H_CT (sniff b)) r else r
               | Some _ => r end) in
  mkR (r_hdr r1) (r_wrote r1) (r_code r1) (r_snap r1) (r_body r1 ++ b) (r_info r1).
Proof.
  intros H. unfold Gzip.rec_write, rec_write_header. cbv zeta. rewrite H.
  change (is_1xx 200) with false. cbv iota.
  destruct (hvals (r_hdr r) H_CT); [|destruct (beq (hget (r_hdr r) H_TE) [])];
    unfold rec_upd; rsimp; rewrite H; reflexivity.
Qed.

Lemma sim_step o g rb : sim g rb -> sim (grw_step o g) (rec_step o rb).
Proof.
  intros (Hp & Hc & Hi & H).
  destruct g as [sel fed pan rg]. rsimp. cbn [g_sel g_fed g_panic g_rec] in *. subst pan.
  destruct o as [k v|k v|k| |c|b].
  1-4: (unfold Gzip.grw_step, Gzip.rec_step, sim, rec_upd; rsimp;
        split; [reflexivity|split; [exact Hc|split; [exact Hi|]]];
        destruct sel as [[|]|]; try exact H;
        destruct H as (H1 & H2 & H3 & H4 & H5 & H6); repeat split; auto;
        apply (hdr_rel_op _ _ _ H6)).
  - (* WriteHeader *)
    unfold Gzip.grw_step, Gzip.rec_step, Gzip.grw_write_header.
    destruct (is_1xx c) eqn:Ex.
    + (* informational: passed through, nothing decided *)
      unfold rec_write_header, sim. rsimp. rewrite Ex.
      destruct sel as [[|]|].
      * destruct H as (H1 & H2 & H3). rewrite H1, H2. rsimp. repeat split; auto; apply H3.
      * destruct H as (H1 & H2 & H3). rewrite H1, H2. rsimp. repeat split; auto; apply H3.
      * destruct H as (H1 & H2 & H3 & H4 & H5 & H6). rewrite H2, H3. rsimp.
        repeat split; auto; try apply H6. apply info_rel_snoc; assumption.
    + destruct sel as [[|]|].
      * destruct H as (H1 & H2 & H3 & H4 & H5).
        unfold Gzip.grw_decide_write_header, rec_write_header, sim. rsimp. rewrite H1, H2. rsimp.
        repeat split; auto; apply H5.
      * destruct H as (H1 & H2 & H3 & H4).
        unfold Gzip.grw_decide_write_header, rec_write_header, sim. rsimp. rewrite H1, H2. rsimp.
        repeat split; auto; apply H4.
      * destruct H as (H1 & H2 & H3 & H4 & H5 & H6).
        destruct (rel_to_plain _ _ H6) as [Ha Hb]. apply sim_decide; auto.
  - (* Write *)
    unfold Gzip.grw_step, Gzip.rec_step. destruct sel as [[|]|].
    + destruct H as (H1 & H2 & H3 & H4 & H5).
      unfold Gzip.grw_write, grw_write_with. rsimp. rewrite (rec_write_wrote _ _ H2).
      unfold sim. rsimp. repeat split; auto; try apply H5. rewrite H4. reflexivity.
    + destruct H as (H1 & H2 & H3 & H4).
      unfold Gzip.grw_write, grw_write_with. rsimp.
      rewrite (rec_write_wrote _ _ H2), (rec_write_wrote _ _ H1).
      unfold sim. rsimp. repeat split; auto; try apply H4. rewrite H3. reflexivity.
    + destruct H as (H1 & H2 & H3 & H4 & H5 & H6).
      (* the live headers just before the implicit WriteHeader(200), on both sides *)
      set (rg' := match hvals (r_hdr rg) H_CT with
                  | None => rec_upd (fun h => hset h H_CT (sniff b)) rg
                  | Some _ => rg end).
      set (rb' := match hvals (r_hdr rb) H_CT with
                  | None => if beq (hget (r_hdr rb) H_TE) []
                            then rec_upd (fun h => hset h H_CT (sniff b)) rb else rb
                  | Some _ => rb end).
      assert (Hpre : r_wrote rg' = false /\ r_wrote rb' = false /\ r_body rg' = [] /\ r_body rb' = []
                     /\ r_code rg' = r_code rb' /\ info_rel (r_info rg') (r_info rb')
                     /\ hdr_rel [H_CT] (r_hdr rg') (r_hdr rb') /\ ct_rel (r_hdr rg') (r_hdr rb')).
      { assert (Hct : hvals (r_hdr rg) H_CT = hvals (r_hdr rb) H_CT)
          by (apply (proj1 H6); [intros []|apply CT_ne_VARY]).
        subst rg' rb'. rewrite <- Hct.
        destruct (hvals (r_hdr rg) H_CT) eqn:Eg.
        - destruct (rel_to_plain _ _ H6) as [Ra Rb].
          repeat (split; [assumption|]); assumption.
        - destruct (beq (hget (r_hdr rb) H_TE) []).
          + unfold rec_upd. rsimp.
            destruct (rel_to_plain _ _ (hdr_rel_op (SetHeader H_CT (sniff b)) _ _ H6)) as [Ra Rb].
            cbn [hdr_op] in Ra, Rb.
            repeat (split; [assumption|]); assumption.
          + unfold rec_upd. rsimp.
            repeat (split; [assumption|]). split; [split|].
            * intros k Hk Hv. rewrite hvals_hset. rewrite beq_false_ne.
              -- apply (proj1 H6); [intros []|exact Hv].
              -- intro E. apply Hk. left. exact E.
            * rewrite hvals_hset, (beq_false_ne H_CT H_VARY CT_ne_VARY). apply (proj2 H6).
            * right. split; [congruence|]. exists b. rewrite hvals_hset, beq_refl. reflexivity. }
      destruct Hpre as (Pa & Pb & Pc & Pd & Pe & Pi & Pf & Pg).
      pose proof (sim_decide 200 fed rg' rb' eq_refl Pa Pb Pc Pd Pi Pf Pg H1) as HS.
      unfold Gzip.grw_write, grw_write_with. rsimp.
      rewrite (rec_write_unwrote b rb H3). cbv zeta. fold rg' rb'.
      change (Gzip.grw_write_header ctm 200) with (grw_decide_write_header 200).
      destruct HS as (S1 & S2 & Si & S3).
      destruct (g_sel (grw_decide_write_header 200 (mkG None fed false rg'))) as [[|]|] eqn:Es.
      * destruct S3 as (T1 & T2 & T3 & T4 & T5).
        unfold sim. rsimp. repeat split; auto; try apply T5. rewrite T4. reflexivity.
      * destruct S3 as (T1 & T2 & T3 & T4).
        rewrite (rec_write_wrote _ _ T1).
        unfold sim. rsimp. repeat split; auto; try apply T4. rewrite T3. reflexivity.
      * exfalso. unfold Gzip.grw_decide_write_header in Es. rsimp. cbn [g_sel g_fed g_panic g_rec] in Es.
        destruct (is_compressable (r_hdr rg')); cbn [g_sel] in Es; discriminate.
Qed.

Lemma sim_run ops : forall g rb, sim g rb -> sim (grw_run ops g) (rec_run ops rb).
Proof.
  induction ops as [|o ops IH]; intros g rb H; [exact H|].
  unfold Gzip.grw_run, Gzip.rec_run. cbn [fold_left]. apply IH. apply sim_step. exact H.
Qed.

Lemma sim_init h0 : sim (mkG None [] false (rec_new (hadd h0 H_VARY H_AE))) (rec_new h0).
Proof.
  unfold sim, rec_new. rsimp.
  repeat split; try reflexivity; try apply hdr_rel_init. constructor.
Qed.

(* ---------- the non-accepting path: writer against writer ---------- *)
Definition rsim (ra rb : rcd) : Prop :=
  r_wrote ra = r_wrote rb /\ r_code ra = r_code rb /\ r_body ra = r_body rb /\
  info_rel (r_info ra) (r_info rb) /\
  if r_wrote ra then hdr_rel [] (r_snap ra) (r_snap rb) else hdr_rel [] (r_hdr ra) (r_hdr rb).

Lemma rsim_step o ra rb : rsim ra rb -> rsim (rec_step o ra) (rec_step o rb).
Proof.
  intros (Hw & Hc & Hb & Hi & Hh).
  destruct ra as [ha wa ca sa ba ia], rb as [hb wb cb sb bb ib].
  rsimp. cbn [r_wrote r_hdr r_code r_snap r_body r_info] in *. subst wb cb bb.
  destruct o as [k v|k v|k| |c|b].
  1-4: (unfold Gzip.rec_step, rec_upd, rsim; rsimp;
        repeat split; auto; destruct wa; [exact Hh|apply (hdr_rel_op _ _ _ Hh)]).
  - unfold Gzip.rec_step, rec_write_header, rsim. rsimp.
    destruct wa; rsimp; [repeat split; auto; apply Hh|].
    destruct (is_1xx c); rsimp; repeat split; auto; try apply Hh. apply info_rel_snoc; assumption.
  - unfold Gzip.rec_step, Gzip.rec_write, rec_upd, rsim. rsimp.
    destruct wa; rsimp; [repeat split; auto; apply Hh|].
    assert (Hct : hvals ha H_CT = hvals hb H_CT) by (apply (proj1 Hh); [intros []|apply CT_ne_VARY]).
    assert (Hte : hget ha H_TE = hget hb H_TE)
      by (apply hget_congr, (proj1 Hh); [intros []|apply TE_ne_VARY]).
    rewrite <- Hct, <- Hte.
    destruct (hvals ha H_CT); rsimp.
    + repeat split; auto; apply Hh.
    + destruct (beq (hget ha H_TE) []); rsimp.
      * repeat split; auto; apply (hdr_rel_op (SetHeader H_CT (sniff b)) _ _ Hh).
      * repeat split; auto; apply Hh.
Qed.

Lemma rsim_run ops : forall ra rb, rsim ra rb -> rsim (rec_run ops ra) (rec_run ops rb).
Proof.
  induction ops as [|o ops IH]; intros ra rb H; [exact H|].
  unfold Gzip.rec_run. cbn [fold_left]. apply IH. apply rsim_step. exact H.
Qed.

(* ---------- the body of the bare run is the concatenation of the writes ---------- *)
Lemma rec_step_body o r :
  r_body (rec_step o r) = r_body r ++ match o with Write b => b | _ => [] end.
Proof.
  destruct o; unfold Gzip.rec_step, rec_upd, rec_write_header, Gzip.rec_write;
    cbn [r_body]; try (rewrite app_nil_r; reflexivity).
  - destruct (r_wrote r); [|destruct (is_1xx c)]; cbn [r_body]; rewrite app_nil_r; reflexivity.
  - destruct (r_wrote r); cbn [r_body]; [reflexivity|].
    unfold rec_upd.
    destruct (hvals (r_hdr r) H_CT); [|destruct (beq (hget (r_hdr r) H_TE) [])];
      cbn [r_wrote r_body]; reflexivity.
Qed.

Lemma rec_run_body ops : forall r, r_body (rec_run ops r) = r_body r ++ written ops.
Proof.
  induction ops as [|o ops IH]; intros r; unfold Gzip.rec_run, written; cbn [fold_left flat_map].
  - rewrite app_nil_r. reflexivity.
  - fold (rec_run ops (rec_step o r)). rewrite IH, rec_step_body, <- app_assoc. reflexivity.
Qed.

(* ---------- the final relation between the handler's response and the upstream's ---------- *)
Definition res_rel (res up : result) : Prop :=
  o_code res = o_code up /\ o_panic res = false /\ info_rel (o_info res) (o_info up) /\
  match o_fed res with
  | None => o_plain res = o_plain up
            /\ hdr_rel [H_CT] (o_hdr res) (o_hdr up) /\ ct_rel (o_hdr res) (o_hdr up)
  | Some f => o_plain res = [] /\ f = o_plain up
              /\ hdr_rel [H_CT; H_CE; H_CL] (o_hdr res) (o_hdr up) /\ ct_rel (o_hdr res) (o_hdr up)
              /\ hvals (o_hdr res) H_CE = Some [GZIP] /\ hvals (o_hdr res) H_CL = None
              /\ hget (o_hdr up) H_CE = [] /\ ctm (hget (o_hdr res) H_CT) = true
  end.

Theorem handler_rel h0 accept ae ops :
  res_rel (handler sniff ctm h0 accept ae ops) (bare sniff h0 ops).
Proof.
  unfold handler, handler_core, bare. destruct (accepts_gzip accept ae).
  - pose proof (sim_run ops _ _ (sim_init h0)) as (Hp & Hc & Hi & H).
    unfold grw_result, rec_result, res_rel. cbn [o_code o_hdr o_plain o_fed o_panic o_info].
    destruct (g_sel (grw_run ops _)) as [[|]|].
    + destruct H as (H1 & H2 & H3 & H4 & H5 & H6 & H7 & H8 & H9 & H10). rewrite H1, H2.
      repeat split; auto; try apply H5.
    + destruct H as (H1 & H2 & H3 & H4 & H5). rewrite H1, H2. repeat split; auto; apply H4.
    + destruct H as (H1 & H2 & H3 & H4 & H5 & H6). rewrite H2, H3.
      destruct (rel_to_plain _ _ H6) as [[Ha Hb] Hd]. rewrite H4, H5. repeat split; auto.
  - assert (R0 : rsim (rec_new (hadd h0 H_VARY H_AE)) (rec_new h0)).
    { unfold rsim, rec_new. rsimp. repeat split; try reflexivity; try apply hdr_rel_init. constructor. }
    pose proof (rsim_run ops _ _ R0) as (Hw & Hc & Hb & Hi & Hh).
    unfold rec_result, res_rel. cbn [o_code o_hdr o_plain o_fed o_panic o_info].
    rewrite <- Hw. destruct (r_wrote (rec_run ops (rec_new (hadd h0 H_VARY H_AE))));
      destruct (rel_to_plain _ _ Hh) as [[Ha Hb'] Hd]; repeat split; auto.
Qed.

(* the decision is taken once: after it, selection, status and header snapshot are frozen *)
Lemma decided_step o g s :
  g_sel g = Some s -> r_wrote (g_rec g) = true ->
  g_sel (grw_step o g) = Some s /\ r_wrote (g_rec (grw_step o g)) = true
  /\ r_code (g_rec (grw_step o g)) = r_code (g_rec g)
  /\ r_snap (g_rec (grw_step o g)) = r_snap (g_rec g).
Proof.
  intros Hs Hw. destruct g as [sel fed pan rg]. cbn [g_sel g_rec] in *. subst sel.
  destruct o as [k v|k v|k| |c|b]; unfold Gzip.grw_step, rec_upd; rsimp; auto.
  - unfold Gzip.grw_write_header, Gzip.grw_decide_write_header, rec_write_header. rsimp.
    destruct (is_1xx c); rsimp; rewrite Hw; auto.
  - unfold Gzip.grw_write, grw_write_with. rsimp.
    destruct s; rsimp; auto.
    rewrite (rec_write_wrote _ _ Hw). rsimp. auto.
Qed.

Theorem decision_once ops : forall g s,
  g_sel g = Some s -> r_wrote (g_rec g) = true ->
  g_sel (grw_run ops g) = Some s
  /\ r_code (g_rec (grw_run ops g)) = r_code (g_rec g)
  /\ r_snap (g_rec (grw_run ops g)) = r_snap (g_rec g).
Proof.
  induction ops as [|o ops IH]; intros g s Hs Hw; [auto|].
  unfold Gzip.grw_run. cbn [fold_left]. fold (grw_run ops (grw_step o g)).
  destruct (decided_step o g s Hs Hw) as (A & B & C & D).
  destruct (IH _ _ A B) as (E & F & G). rewrite E, F, G, C, D. auto.
Qed.

(* an informational WriteHeader decides nothing and does not finalise the response *)
Lemma informational_does_not_decide c g : is_1xx c = true ->
  g_sel (grw_step (WriteHeader c) g) = g_sel g /\ g_fed (grw_step (WriteHeader c) g) = g_fed g
  /\ r_wrote (g_rec (grw_step (WriteHeader c) g)) = r_wrote (g_rec g)
  /\ r_hdr (g_rec (grw_step (WriteHeader c) g)) = r_hdr (g_rec g).
Proof.
  intros Hx. unfold Gzip.grw_step, Gzip.grw_write_header, rec_write_header. rewrite Hx. rsimp.
  destruct (r_wrote (g_rec g)) eqn:Ew; rsimp; auto.
Qed.

(* the decision: no upstream Content-Encoding, and the expression on the COMPLETE first value of
   Content-Type -- parameters, spacing and case as the upstream wrote them, not a part of it *)
Lemma decision_uses_full_content_type c g : is_1xx c = false -> g_sel g = None ->
  g_sel (grw_step (WriteHeader c) g)
  = Some (beq (hget (r_hdr (g_rec g)) H_CE) [] && ctm (hget (r_hdr (g_rec g)) H_CT)).
Proof.
  intros Hx Hs. unfold Gzip.grw_step, Gzip.grw_write_header. rewrite Hx.
  unfold Gzip.grw_decide_write_header. rewrite Hs. unfold Gzip.is_compressable.
  destruct (beq (hget (r_hdr (g_rec g)) H_CE) []); [destruct (ctm (hget (r_hdr (g_rec g)) H_CT))|]; reflexivity.
Qed.

(* the first NON-informational WriteHeader, or the first Write, decides (and finalises the header) *)
Lemma first_call_decides o g :
  (match o with WriteHeader c => is_1xx c = false | Write _ => True | _ => False end) ->
  g_sel (grw_step o g) <> None /\ (g_sel g = None -> r_wrote (g_rec g) = false -> r_wrote (g_rec (grw_step o g)) = true).
Proof.
  destruct g as [sel fed pan rg]. destruct o as [k v|k v|k| |c|b]; intros Ho; try (exfalso; exact Ho); unfold Gzip.grw_step.
  - unfold Gzip.grw_write_header. rewrite Ho. unfold Gzip.grw_decide_write_header. rsimp.
    destruct sel as [s|]; rsimp.
    + split; [discriminate|intros; discriminate].
    + destruct (is_compressable (r_hdr rg)); rsimp; (split; [discriminate|]);
        intros _ Hw; unfold rec_write_header, rec_upd; rsimp; rewrite Hw, Ho; reflexivity.
  - unfold Gzip.grw_write, grw_write_with. rsimp.
    destruct sel as [[|]|]; rsimp; try (split; [discriminate|intros; discriminate]).
    change (Gzip.grw_write_header ctm 200) with (grw_decide_write_header 200).
    unfold Gzip.grw_decide_write_header. rsimp.
    destruct (is_compressable _); rsimp; (split; [discriminate|]); intros _ Hw.
    + unfold rec_write_header, rec_upd. destruct (hvals (r_hdr rg) H_CT); rsimp; rewrite Hw; reflexivity.
    + unfold Gzip.rec_write, rec_write_header, rec_upd.
      destruct (hvals (r_hdr rg) H_CT); rsimp; rewrite Hw; rsimp; reflexivity.
Qed.

End Sim.

(* ================= acceptsGzip (commit 7cff601) against the RFC reading ================= *)
Lemma q_zero_zero_dot v : q_zero v = true -> zero_dot v = true /\ v <> [].
Proof.
  destruct v as [|a [|b ds]]; cbn [q_zero]; try discriminate.
  - intros H. apply N.eqb_eq in H; subst a. split; [reflexivity|discriminate].
  - intros H. apply andb_true_iff in H as [H Hd]. apply andb_true_iff in H as [Ha Hb].
    apply N.eqb_eq in Ha, Hb; subst a b. split; [|discriminate].
    unfold zero_dot. cbn [forallb]. change ((48 =? 48) || (48 =? 46)) with true.
    change ((46 =? 48) || (46 =? 46)) with true. cbn [andb].
    rewrite forallb_forall in *. intros x Hx. rewrite (Hd x Hx). reflexivity.
Qed.

Lemma zero_dot_lower v : zero_dot v = true -> lower v = v.
Proof.
  induction v as [|c v IH]; [reflexivity|]. unfold zero_dot. cbn [forallb map lower].
  intros H. apply andb_true_iff in H as [Hc Hv]. fold (lower v). rewrite (IH Hv).
  apply orb_true_iff in Hc as [Hc|Hc]; apply N.eqb_eq in Hc; subst c; reflexivity.
Qed.

(* an element the code accepts is a gzip / x-gzip entry whose weight is not zero in the RFC reading *)
Lemma elem_ok_coding e : gzip_elem_ok e = true ->
  is_gzip_name (fst (coding e)) = true /\ snd (coding e) = true.
Proof.
  unfold gzip_elem_ok, coding. destruct (cut_byte e 59) as [name params]. cbn [fst snd].
  intros H. apply andb_true_iff in H as [Hn Hw]. split; [exact Hn|].
  unfold strict_weight. destruct (trim_space params) as [|c [|d v]]; try reflexivity.
  destruct (((c =? 113) || (c =? 81)) && (d =? 61) && negb (existsb (N.eqb 59) v)) eqn:Ec; [|reflexivity].
  destruct (q_zero v) eqn:Ez; [exfalso|reflexivity].
  apply andb_true_iff in Ec as [Ec _]. apply andb_true_iff in Ec as [Ec Ed].
  apply N.eqb_eq in Ed; subst d.
  destruct (q_zero_zero_dot v Ez) as [Hz Hne].
  assert (Hl : lower (c :: 61 :: v) = 113 :: 61 :: v).
  { cbn [lower map]. fold (lower v). rewrite (zero_dot_lower v Hz).
    apply orb_true_iff in Ec as [Ec|Ec]; apply N.eqb_eq in Ec; subst c; reflexivity. }
  rewrite Hl in Hw. unfold zero_weight in Hw. rewrite Hz in Hw.
  change ((113 =? 113) && (61 =? 61)) with true in Hw.
  destruct v; [congruence|]. discriminate.
Qed.

(* acceptsGzip implies the RFC reading, for every request *)
Lemma accepts_rfc accept ae : accepts_gzip accept ae = true -> rfc_accepts_gzip ae = true.
Proof.
  unfold accepts_gzip. destruct (contains (hd [] accept) EVENT_STREAM); [discriminate|].
  intros Ha. apply existsb_exists in Ha as (e & Hin & Hok).
  destruct (elem_ok_coding e Hok) as [Hn Hw].
  assert (Hin' : In (coding e) (map coding (flat_map (fun v => split_byte v 44) ae))).
  { apply in_map. destruct ae as [|v ae']; cbn [hd] in Hin.
    - cbn in Hin. destruct Hin as [<-|[]]. vm_compute in Hok. discriminate.
    - cbn [flat_map]. apply in_or_app. left. exact Hin. }
  unfold rfc_accepts_gzip.
  assert (E1 : existsb (fun c => is_gzip_name (fst c)) (map coding (flat_map (fun v => split_byte v 44) ae)) = true).
  { apply existsb_exists. exists (coding e). auto. }
  rewrite E1. apply existsb_exists. exists (coding e). split; [exact Hin'|]. rewrite Hn, Hw. reflexivity.
Qed.

(* ================= the clauses of C17, in their final form ================= *)
Section Clauses.
Variable sniff : str -> str.
Variable ctm : str -> bool.
Variables (h0 : hdr) (accept ae : list str) (ops : list op).
Let res := handler sniff ctm h0 accept ae ops.
Let up := bare sniff h0 ops.

Lemma bare_plain : o_plain up = written ops.
Proof.
  unfold up, bare, rec_result. cbn [o_plain]. rewrite rec_run_body. reflexivity.
Qed.

Lemma status_preserved : o_code res = o_code up.
Proof. apply (handler_rel sniff ctm h0 accept ae ops). Qed.

Lemma never_panics : o_panic res = false.
Proof. apply (handler_rel sniff ctm h0 accept ae ops). Qed.

Lemma informational_preserved : info_rel (o_info res) (o_info up).
Proof. apply (handler_rel sniff ctm h0 accept ae ops). Qed.

Lemma compressed_only_if f : o_fed res = Some f ->
  accepts_gzip accept ae = true /\ ctm (hget (o_hdr res) H_CT) = true /\ hget (o_hdr up) H_CE = [].
Proof.
  intros Hf. pose proof (handler_rel sniff ctm h0 accept ae ops) as (_ & _ & _ & H).
  fold res up in H. rewrite Hf in H. split; [|split; apply H].
  unfold res, handler, handler_core in Hf. destruct (accepts_gzip accept ae); [reflexivity|].
  unfold rec_result in Hf. cbn [o_fed] in Hf. discriminate.
Qed.

Lemma gzip_labelled_no_length f : o_fed res = Some f ->
  hvals (o_hdr res) H_CE = Some [GZIP] /\ hvals (o_hdr res) H_CL = None.
Proof.
  intros Hf. pose proof (handler_rel sniff ctm h0 accept ae ops) as (_ & _ & _ & H).
  fold res up in H. rewrite Hf in H. split; apply H.
Qed.

Lemma gunzip_body_eq_writes (gz : str -> str) (gunzip : str -> option str) f :
  (forall b, gunzip (gz b) = Some b) ->
  o_fed res = Some f -> gunzip (body_of gz res) = Some (written ops) /\ o_plain up = written ops.
Proof.
  intros Hgz Hf. pose proof (handler_rel sniff ctm h0 accept ae ops) as (_ & _ & _ & H).
  fold res up in H. rewrite Hf in H. destruct H as (Hp & Hfu & _).
  unfold body_of. rewrite Hp, Hf. cbn [app]. rewrite Hgz, Hfu, bare_plain. auto.
Qed.

Lemma identity_otherwise (gz : str -> str) : o_fed res = None ->
  body_of gz res = written ops
  /\ hdr_rel [H_CT] (o_hdr res) (o_hdr up) /\ ct_rel sniff (o_hdr res) (o_hdr up).
Proof.
  intros Hf. pose proof (handler_rel sniff ctm h0 accept ae ops) as (_ & _ & _ & H).
  fold res up in H. rewrite Hf in H. destruct H as (Hp & Hr & Hc).
  unfold body_of. rewrite Hf, app_nil_r, Hp, bare_plain. auto.
Qed.

Lemma compressed_headers f : o_fed res = Some f ->
  hdr_rel [H_CT; H_CE; H_CL] (o_hdr res) (o_hdr up) /\ ct_rel sniff (o_hdr res) (o_hdr up).
Proof.
  intros Hf. pose proof (handler_rel sniff ctm h0 accept ae ops) as (_ & _ & _ & H).
  fold res up in H. rewrite Hf in H. split; apply H.
Qed.

(* against the RFC's reading of Accept-Encoding: every request (no region left after bfb8a14) *)
Lemma compressed_only_if_rfc_on_domain f : o_fed res = Some f -> rfc_accepts_gzip ae = true.
Proof.
  intros Hf. destruct (compressed_only_if f Hf) as (Ha & _). exact (accepts_rfc accept ae Ha).
Qed.
End Clauses.

(* before commit 7cff601: "gzip;q=0" -- the client refuses gzip, the handler compressed anyway *)
Lemma accept_q0_refuted : forall sniff, exists ae ops f,
  rfc_accepts_gzip ae = false
  /\ o_fed (handler_q0_unrepaired sniff (fun _ => true) [] [] ae ops) = Some f.
Proof.
  intros sniff.
  exists [bs "gzip;q=0"], [SetHeader H_CT (bs "text/html"); Write (bs "hello")], (bs "hello").
  split; vm_compute; reflexivity.
Qed.

(* the code as it is refuses every zero-weight spelling, either case, and matches names exactly ... *)
Example q0_repaired :
  forallb (fun v => negb (accepts_gzip [] [bs v]))
    ["gzip;q=0"; "gzip; q=0.0"; "gzip ; q=0"; "identity;q=1, gzip;q=0"; "deflate, gzip;q=0.000"; "gzip;q=0."; "x-gzip;q=0";
     "gzip;Q=0"; "gzip; Q=0.0"; "deflate, gzip;Q=0"; "Gzip;q=0"; "notgzip2"; "deflate"; ""]%string = true
  /\ forallb (fun v => accepts_gzip [] [bs v])
    ["gzip"; "GZIP"; "X-GZIP"; " gzip "; "deflate, gzip;q=0.5"; "gzip;q=0, x-gzip"; "gzip;q=0;x=1"]%string = true.
Proof. vm_compute. split; reflexivity. Qed.

(* ... between commits 7cff601 and bfb8a14 two kinds of refusal were still missed: a zero weight
   spelled with an upper-case Q, and a coding that merely contains the letters *)
Lemma accept_q0_residual_refuted : forall sniff,
  let ops := [SetHeader H_CT (bs "text/html"); Write (bs "hello")] in
  rfc_accepts_gzip [bs "gzip;Q=0"] = false
  /\ o_fed (handler_q0_7cff601 sniff (fun _ => true) [] [] [bs "gzip;Q=0"] ops) = Some (bs "hello")
  /\ rfc_accepts_gzip [bs "notgzip2"] = false
  /\ o_fed (handler_q0_7cff601 sniff (fun _ => true) [] [] [bs "notgzip2"] ops) = Some (bs "hello")
  /\ o_fed (handler sniff (fun _ => true) [] [] [bs "gzip;Q=0"] ops) = None
  /\ o_fed (handler sniff (fun _ => true) [] [] [bs "notgzip2"] ops) = None.
Proof. intros sniff. vm_compute. repeat split; reflexivity. Qed.

(* before commit a52f2fd: the upstream's 103 Early Hints (forwarded by httputil.ReverseProxy, which
   then clears the header map) took the decision from headers that are not the final response's;
   with an expression that matches the empty content type the final response went out compressed
   without Content-Encoding: gzip and with the upstream's Content-Length *)
Definition early_hints_ops : list op :=
  [SetHeader (bs "Link") (bs "</style.css>; rel=preload"); WriteHeader 103; ClearHeaders;
   SetHeader H_CT (bs "text/html"); SetHeader H_CL (bs "5"); WriteHeader 200; Write (bs "hello")].

Lemma informational_decides_unrepaired_refuted : forall sniff,
  let res := handler_unrepaired sniff (fun _ => true) [] [] [bs "gzip"] early_hints_ops in
  o_fed res = Some (bs "hello") /\ o_code res = 200
  /\ hvals (o_hdr res) H_CE = None /\ hvals (o_hdr res) H_CL = Some [bs "5"].
Proof. intros sniff. vm_compute. repeat split; reflexivity. Qed.

(* the repaired code on the same calls: labelled, no length, and the 103 went out first *)
Example early_hints_repaired : forall sniff,
  let res := handler sniff (fun _ => true) [] [] [bs "gzip"] early_hints_ops in
  o_fed res = Some (bs "hello") /\ o_code res = 200
  /\ hvals (o_hdr res) H_CE = Some [GZIP] /\ hvals (o_hdr res) H_CL = None
  /\ map fst (o_info res) = [103].
Proof. intros sniff. vm_compute. repeat split; reflexivity. Qed.

Lemma hget_first h k v vs : hvals h k = Some (v :: vs) -> hget h k = v.
Proof. unfold hget. intros ->. reflexivity. Qed.

(* an expression that excludes parameters (here: exactly "text/plain") does not match a type that
   carries one; cutting the value at ";" before matching would compress the first response too *)
Example parameters_are_matched : forall sniff,
  let run ct := o_fed (handler sniff (beq (bs "text/plain")) [] [] [bs "gzip"] [SetHeader H_CT (bs ct); Write (bs "hello")]) in
  run "text/plain; charset=utf-8"%string = None /\ run "text/plain ; q"%string = None /\ run "TEXT/PLAIN"%string = None
  /\ run "text/plain"%string = Some (bs "hello").
Proof. intros sniff. vm_compute. repeat split; reflexivity. Qed.

(* non-vacuity: a response that is compressed, one that is not, and requests on the RFC domain *)
Example compressed_nonvacuous :
  o_fed (handler (fun _ => bs "text/plain") (fun t => has_prefix t (bs "text/")) [] [] [bs "gzip, deflate"]
           [SetHeader H_CT (bs "text/html"); SetHeader H_CL (bs "10"); WriteHeader 404; Write (bs "hello"); Write (bs "world")])
  = Some (bs "helloworld").
Proof. vm_compute. reflexivity. Qed.

Example identity_nonvacuous :
  o_fed (handler (fun _ => bs "text/plain") (fun t => has_prefix t (bs "text/")) [] [] [bs "gzip"]
           [SetHeader H_CT (bs "text/html"); SetHeader H_CE (bs "br"); Write (bs "hello")]) = None.
Proof. vm_compute. reflexivity. Qed.

(* ================= the shared writer pool ================= *)
Section PoolProofs.
Variable sniff : str -> str.
Variable ctm : str -> bool.
Variable reset : str -> str.
Hypothesis reset_clears : forall w, reset w = [].

Lemma thread_step_outcome n pool t :
  outcome_of sniff ctm (snd (thread_step sniff ctm reset n pool t)) = outcome_of sniff ctm t.
Proof.
  unfold thread_step, outcome_of. destruct t as [todo g done]. cbn [h_todo h_g h_done].
  destruct done as [r|]; [reflexivity|].
  destruct todo as [|o rest]; cbn [snd h_todo h_g h_done]; [reflexivity|].
  assert (E : forall g' : grw, mkG (g_sel g') (g_fed g') (g_panic g') (g_rec g') = g') by (intros []; reflexivity).
  destruct (g_sel g) as [s|]; [reflexivity|].
  destruct (g_sel (grw_step sniff ctm o g)) as [[|]|] eqn:Es; try reflexivity.
  destruct (take n pool) as [w pool']. cbn [snd h_todo h_g h_done].
  rewrite reset_clears. cbn [app]. rewrite <- Es, E. reflexivity.
Qed.

Lemma map_upd {A B} (f : A -> B) x : forall l i t,
  nth_error l i = Some t -> f x = f t -> map f (upd i x l) = map f l.
Proof.
  induction l as [|y l IH]; intros [|i] t Hn Hf; cbn [upd map]; try reflexivity.
  - cbn in Hn. injection Hn as ->. rewrite Hf. reflexivity.
  - cbn in Hn. rewrite (IH i t Hn Hf). reflexivity.
Qed.

Lemma sys_step_outcomes s c :
  map (outcome_of sniff ctm) (snd (sys_step sniff ctm reset s c)) = map (outcome_of sniff ctm) (snd s).
Proof.
  unfold sys_step. destruct (nth_error (snd s) (fst c)) as [t|] eqn:En; [|reflexivity].
  pose proof (thread_step_outcome (snd c) (fst s) t) as H.
  destruct (thread_step sniff ctm reset (snd c) (fst s) t) as [p' t']. cbn [snd] in *.
  apply (map_upd _ _ _ _ _ En H).
Qed.

(* For every interleaving, every choice of pooled writers and every pool content: each
   handler's response is the one it produces when run alone. *)
Theorem pool_independence sched : forall s,
  map (outcome_of sniff ctm) (snd (sys_run sniff ctm reset sched s)) = map (outcome_of sniff ctm) (snd s).
Proof.
  induction sched as [|c sched IH]; intros s; [reflexivity|].
  unfold sys_run. cbn [fold_left]. fold (sys_run sniff ctm reset sched (sys_step sniff ctm reset s c)).
  rewrite IH. apply sys_step_outcomes.
Qed.

Corollary pool_independence_thread sched pool ts i ops g r t :
  nth_error ts i = Some (mkH ops g None) ->
  nth_error (snd (sys_run sniff ctm reset sched (pool, ts))) i = Some t ->
  h_done t = Some r ->
  r = grw_result (grw_run sniff ctm ops g).
Proof.
  intros H0 H1 Hd. pose proof (pool_independence sched (pool, ts)) as H. cbn [snd] in H.
  apply (f_equal (fun l => nth_error l i)) in H. rewrite !nth_error_map, H0, H1 in H.
  cbn [option_map] in H. injection H as H. unfold outcome_of in H.
  rewrite Hd in H. cbn [h_done h_todo h_g] in H. exact H.
Qed.
End PoolProofs.

(* without Reset a writer left dirty in the pool leaks into the next response; and a schedule
   of two handlers that both finish (non-vacuity of the corollary) *)
Example pool_leak_without_reset :
  let t := mkH [SetHeader H_CT (bs "text/html"); Write (bs "x")]
               (mkG None [] false (rec_new [])) None in
  let run r := map (fun t => h_done t)
                 (snd (sys_run (fun _ => []) (fun _ => true) r [(0, 0); (0, 0); (0, 0)]%nat ([bs "stale"], [t]))) in
  match run (fun w => w), run (fun _ => []) with
  | [Some a], [Some b] => o_fed a = Some (bs "stalex") /\ o_fed b = Some (bs "x")
  | _, _ => False
  end.
Proof. vm_compute. split; reflexivity. Qed.

Example pool_two_handlers_finish :
  let mk ops := mkH ops (mkG None [] false (rec_new [])) None in
  map (fun t => match h_done t with Some r => o_fed r | None => Some [0] end)
      (snd (sys_run (fun _ => []) (fun _ => true) (fun _ => [])
              [(0, 0); (1, 5); (0, 0); (1, 0); (1, 1); (0, 3); (1, 0); (0, 0)]%nat
              ([bs "junk"], [mk [Write (bs "ab"); Write (bs "cd")]; mk [WriteHeader 404; Write (bs "xyz")]])))
  = [Some (bs "abcd"); Some (bs "xyz")].
Proof. vm_compute. reflexivity. Qed.
