(** Proofs about the listener-timeout wrapper model (Model/ConnDeadline.v). *)
From Coq Require Import List NArith Bool Lia.
From Fabio Require Import Model.ConnDeadline.
Import ListNotations.
Local Open Scope N_scope.

(* the deadlines of a connection on which a direction has no timeout are never set *)
Definition winv (rt wt : N) (c : wconn) : Prop :=
  (rt = 0 -> c_rd c = None) /\ (wt = 0 -> c_wd c = None).

Lemma winv_fresh : forall rt wt, winv rt wt fresh_conn.
Proof. intros rt wt. split; intros _; reflexivity. Qed.

Lemma expires_armed : forall T now avail old, 0 < T ->
  expires (arm T now old) now avail = (now + T <=? avail).
Proof.
  intros T now avail old HT. unfold arm.
  destruct (N.ltb_spec 0 T) as [_ | H]; [| lia].
  unfold expires.
  destruct (N.leb_spec (now + T) (N.max now avail)) as [H1 | H1];
    destruct (N.leb_spec (now + T) avail) as [H2 | H2]; try reflexivity; lia.
Qed.

Lemma wstep_cut : forall rt wt c o, winv rt wt c -> snd (wstep rt wt c o) = op_cut rt wt o.
Proof.
  intros rt wt c [k now avail] [Hr Hw]. unfold wstep, op_cut. cbn [w_kind w_now w_avail].
  destruct k; cbn [snd timeout_of].
  - destruct (N.ltb_spec 0 rt) as [H | H].
    + rewrite expires_armed by exact H. reflexivity.
    + assert (rt = 0) as E by lia. unfold arm. subst rt. cbn [N.ltb N.compare].
      rewrite (Hr eq_refl). reflexivity.
  - destruct (N.ltb_spec 0 wt) as [H | H].
    + rewrite expires_armed by exact H. reflexivity.
    + assert (wt = 0) as E by lia. unfold arm. subst wt. cbn [N.ltb N.compare].
      rewrite (Hw eq_refl). reflexivity.
Qed.

Lemma wstep_inv : forall rt wt c o, winv rt wt c -> winv rt wt (fst (wstep rt wt c o)).
Proof.
  intros rt wt c [k now avail] [Hr Hw]. unfold wstep. cbn [w_kind w_now w_avail].
  destruct k; cbn [fst]; split; cbn [c_rd c_wd]; intros E; auto.
  - subst rt. unfold arm. cbn [N.ltb N.compare]. exact (Hr eq_refl).
  - subst wt. unfold arm. cbn [N.ltb N.compare]. exact (Hw eq_refl).
Qed.

(* every history: an operation is cut iff the specification says so of that operation alone *)
Lemma wrun_meets_spec_inv : forall rt wt ops c, winv rt wt c ->
  wrun rt wt c ops = map (op_cut rt wt) ops.
Proof.
  intros rt wt ops. induction ops as [| o rest IH]; intros c Hc; [reflexivity |].
  cbn [wrun map].
  pose proof (wstep_cut rt wt c o Hc) as Hcut.
  pose proof (wstep_inv rt wt c o Hc) as Hinv.
  destruct (wstep rt wt c o) as [c1 cut]. cbn [fst snd] in Hcut, Hinv.
  rewrite Hcut, (IH c1 Hinv). reflexivity.
Qed.

Theorem wrun_meets_spec : forall rt wt ops,
  wrun rt wt fresh_conn ops = map (op_cut rt wt) ops.
Proof. intros rt wt ops. apply wrun_meets_spec_inv, winv_fresh. Qed.

(* the fate of an operation does not depend on the history before it: neither on how long the
   connection has lived, nor on the operations of the other direction interleaved with it *)
Theorem wrun_history_independent : forall rt wt pre1 pre2 o,
  last (wrun rt wt fresh_conn (pre1 ++ [o])) false = last (wrun rt wt fresh_conn (pre2 ++ [o])) false.
Proof.
  intros rt wt pre1 pre2 o. rewrite !wrun_meets_spec, !map_app. cbn [map].
  rewrite !last_last. reflexivity.
Qed.

Lemma op_live_not_cut : forall rt wt o, op_live rt wt o = true -> op_cut rt wt o = false.
Proof.
  intros rt wt o H. unfold op_live in H. unfold op_cut.
  set (T := timeout_of rt wt (w_kind o)) in *.
  destruct (N.ltb_spec 0 T) as [HT | HT]; [| reflexivity].
  cbn [andb]. apply orb_true_iff in H. destruct H as [H | H].
  - apply N.eqb_eq in H. lia.
  - apply N.ltb_lt in H. apply N.leb_gt. exact H.
Qed.

(* a live tunnel is never cut by the listener's timeouts: if no single operation has to wait
   as long as the timeout of its direction, none is cut - for every number of operations, every
   interleaving of reads and writes and however long the conversation lasts *)
Theorem live_tunnel_never_cut : forall rt wt ops,
  forallb (op_live rt wt) ops = true ->
  existsb (fun b => b) (wrun rt wt fresh_conn ops) = false.
Proof.
  intros rt wt ops H. rewrite wrun_meets_spec.
  induction ops as [| o rest IH]; [reflexivity |].
  cbn [forallb] in H. apply andb_true_iff in H. destruct H as [H1 H2].
  cbn [map existsb]. rewrite (op_live_not_cut _ _ _ H1), (IH H2). reflexivity.
Qed.

(* and a peer that really stays silent for the whole timeout is cut: the timeouts are not
   switched off *)
Theorem silent_peer_is_cut : forall rt wt pre o,
  0 < timeout_of rt wt (w_kind o) -> w_now o + timeout_of rt wt (w_kind o) <= w_avail o ->
  last (wrun rt wt fresh_conn (pre ++ [o])) false = true.
Proof.
  intros rt wt pre o HT Hw. rewrite wrun_meets_spec, map_app. cbn [map]. rewrite last_last.
  unfold op_cut. apply andb_true_iff. split; [apply N.ltb_lt; exact HT | apply N.leb_le; exact Hw].
Qed.

Lemma conversation_live : forall rt wt rounds t gap,
  (rt = 0 \/ gap < rt) -> forallb (op_live rt wt) (conversation rounds t gap) = true.
Proof.
  intros rt wt rounds. induction rounds as [| r IH]; intros t gap Hg; [reflexivity |].
  cbn [conversation forallb]. rewrite (IH _ _ Hg), andb_true_r.
  apply andb_true_iff. split; unfold op_live; cbn [w_kind w_now w_avail timeout_of]; apply orb_true_iff.
  - destruct Hg as [E | Hlt]; [left; apply N.eqb_eq; exact E | right; apply N.ltb_lt; lia].
  - destruct (N.eqb_spec wt 0) as [E | E]; [left; reflexivity | right; apply N.ltb_lt; lia].
Qed.

(* the scripted conversation: whatever the number of rounds (however far the connection
   outlives rt) and whatever wt is, no operation is cut as long as each answer comes within rt *)
Theorem conversation_never_cut : forall rt wt rounds t gap,
  (rt = 0 \/ gap < rt) ->
  existsb (fun b => b) (wrun rt wt fresh_conn (conversation rounds t gap)) = false.
Proof. intros. apply live_tunnel_never_cut, conversation_live. assumption. Qed.

(* non-vacuity: rt = wt = 800, an answer every 150: 12 rounds = 1812 ticks, far beyond rt, 24
   operations, none cut; with answers every 900 the very first Read is cut *)
Theorem conversation_nonvacuous :
  length (conversation 12 0 150) = 24%nat /\
  forallb (op_live 800 800) (conversation 12 0 150) = true /\
  wrun 800 800 fresh_conn (conversation 12 0 150) = repeat false 24 /\
  wrun 800 800 fresh_conn (conversation 2 0 900) = [true; false; true; false].
Proof. repeat split; vm_compute; reflexivity. Qed.

(* the shared-stamp variant (not the code of /repo) violates the specification on exactly this
   conversation: every operation is live, yet the Read of round 6 keeps the deadline armed at
   time 0 (each Write moved the stamp just before it) and is cut at 800, in mid-conversation;
   with one of the two options alone the same variant gets through *)
Theorem shared_stamp_refuted :
  exists ops, forallb (op_live 800 800) ops = true /\
    existsb (fun b => b) (wrun 800 800 fresh_conn ops) = false /\
    existsb (fun b => b) (wrun_shared_stamp 800 800 {| s_c := fresh_conn; s_armed := None |} ops) = true /\
    existsb (fun b => b) (wrun_shared_stamp 800 0 {| s_c := fresh_conn; s_armed := None |} ops) = false.
Proof. exists (conversation 12 0 150). repeat split; vm_compute; reflexivity. Qed.

(* ---------- the link for the deadline log of the correspondence run ---------- *)
Lemma opt_eqb_eq : forall a b, opt_eqb a b = true -> a = b.
Proof.
  intros [x |] [y |] H; cbn [opt_eqb] in H; try discriminate; try reflexivity.
  apply N.eqb_eq in H. subst. reflexivity.
Qed.

Lemma dl_step_spec : forall rt wt c o now,
  clock_of (timeout_of rt wt (kind_of o)) o = Some now ->
  opt_eqb (deadline_of (fst (wstep rt wt c {| w_kind := kind_of o; w_now := now; w_avail := d_te o |})) (kind_of o)) (d_dl o) = true ->
  snd (wstep rt wt c {| w_kind := kind_of o; w_now := now; w_avail := d_te o |}) = true ->
  (0 <? timeout_of rt wt (kind_of o)) && (d_lo o + timeout_of rt wt (kind_of o) <=? d_te o) = true.
Proof.
  intros rt wt c o now Hclk Hdl Hcut.
  assert (forall T old, clock_of T o = Some now ->
            opt_eqb (arm T now old) (d_dl o) = true -> expires (arm T now old) now (d_te o) = true ->
            (0 <? T) && (d_lo o + T <=? d_te o) = true) as Core.
  { intros T old Hc He Hx. unfold clock_of in Hc.
    destruct (N.ltb_spec 0 T) as [HT | HT].
    - rewrite expires_armed in Hx by exact HT. apply N.leb_le in Hx.
      destruct (d_dl o) as [x |]; [| discriminate].
      destruct ((d_lo o + T <=? x) && (x <=? d_ts o + T)) eqn:Hb; [| discriminate].
      apply andb_true_iff in Hb. destruct Hb as [Hb1 Hb2]. apply N.leb_le in Hb1.
      injection Hc as <-. cbn [andb]. apply N.leb_le. lia.
    - assert (T = 0) as E by lia. subst T. unfold arm in He, Hx. cbn [N.ltb N.compare] in He, Hx.
      destruct (d_dl o) as [x |]; [discriminate |].
      apply opt_eqb_eq in He. subst old. discriminate Hx. }
  unfold wstep in Hdl, Hcut. cbn [w_kind w_now w_avail] in Hdl, Hcut.
  destruct (kind_of o); cbn [fst snd deadline_of c_rd c_wd timeout_of] in *.
  - exact (Core rt (c_rd c) Hclk Hdl Hcut).
  - exact (Core wt (c_wd c) Hclk Hdl Hcut).
Qed.

(* a log the model reproduces satisfies the specification on the observables: verdict 4 of the
   correspondence check cannot arise from the model side *)
Theorem dl_agrees_meets_spec : forall rt wt log c,
  dl_agrees rt wt c log = true -> dl_spec rt wt log = true.
Proof.
  intros rt wt log. induction log as [| o rest IH]; intros c H; [reflexivity |].
  cbn [dl_agrees] in H. unfold dl_spec. cbn [forallb]. fold (dl_spec rt wt rest).
  destruct (clock_of (timeout_of rt wt (kind_of o)) o) as [now |] eqn:Hclk; [| discriminate].
  pose proof (dl_step_spec rt wt c o now Hclk) as Hs.
  destruct (wstep rt wt c {| w_kind := kind_of o; w_now := now; w_avail := d_te o |}) as [c1 cut].
  cbn [fst snd] in Hs.
  apply andb_true_iff in H. destruct H as [H Hrest].
  apply andb_true_iff in H. destruct H as [Hdl Hcut].
  apply andb_true_iff. split; [| exact (IH c1 Hrest)].
  destruct (d_cut o); [| reflexivity]. cbn [negb orb].
  apply Hs; [exact Hdl |]. destruct cut; [reflexivity | discriminate Hcut].
Qed.

(* non-vacuity of the log check, with the two logs it must tell apart (rt = wt = 800):
   Read, Write, Read - each with a deadline armed inside its own window: reproduced;
   the same with the second Read still under the deadline of the first (800, armed at 0,
   although it was called at 152) and cut at 800 after waiting 648: not reproduced, and the
   specification on the observables fails *)
Definition wit_log_ok : list dl_obs :=
  [ {| d_read := true; d_lo := 0; d_ts := 2; d_dl := Some 801; d_te := 150; d_cut := false |};
    {| d_read := false; d_lo := 0; d_ts := 151; d_dl := Some 950; d_te := 151; d_cut := false |};
    {| d_read := true; d_lo := 150; d_ts := 152; d_dl := Some 951; d_te := 300; d_cut := false |} ].
Definition wit_log_stale : list dl_obs :=
  [ {| d_read := true; d_lo := 0; d_ts := 2; d_dl := Some 801; d_te := 150; d_cut := false |};
    {| d_read := false; d_lo := 0; d_ts := 151; d_dl := Some 950; d_te := 151; d_cut := false |};
    {| d_read := true; d_lo := 150; d_ts := 152; d_dl := Some 801; d_te := 801; d_cut := true |} ].
Theorem dl_log_nonvacuous :
  dl_agrees 800 800 fresh_conn wit_log_ok = true /\ dl_spec 800 800 wit_log_ok = true /\
  dl_agrees 800 800 fresh_conn wit_log_stale = false /\ dl_spec 800 800 wit_log_stale = false.
Proof. repeat split; vm_compute; reflexivity. Qed.
