(** Proofs about Model/EnumOptions.v: config.Load accepts exactly the values of
    proxy.strategy / proxy.matcher / ui.access the consumers implement, stores them as given,
    and no lookup at any consumer panics with an accepted configuration -- whichever source
    supplied the values. *)
From Coq Require Import String List NArith Bool Lia.
From Fabio Require Import Lib.Outcome Lib.Bytes Model.FlagSet Model.EnumOptions Proofs.FlagSet.
Import ListNotations.
Local Open Scope N_scope.

(* ---------- load_enums ---------- *)
Lemma load_enums_ok_inv s m a c :
  load_enums s m a = Ok c ->
  (beq (en_or en_default_strategy s) (bs "rr") || beq (en_or en_default_strategy s) (bs "rnd")) = true /\
  (beq (en_or en_default_matcher m) (bs "prefix") || beq (en_or en_default_matcher m) (bs "glob")
   || beq (en_or en_default_matcher m) (bs "iprefix")) = true /\
  (beq (en_or en_default_access a) (bs "ro") || beq (en_or en_default_access a) (bs "rw")) = true /\
  c = {| e_strategy := en_or en_default_strategy s;
         e_matcher := en_or en_default_matcher m;
         e_access := en_or en_default_access a |}.
Proof.
  unfold load_enums. intros H.
  destruct (beq (en_or en_default_strategy s) (bs "rr") || beq (en_or en_default_strategy s) (bs "rnd")); [|discriminate].
  destruct (beq (en_or en_default_matcher m) (bs "prefix") || beq (en_or en_default_matcher m) (bs "glob")
            || beq (en_or en_default_matcher m) (bs "iprefix")); [|discriminate].
  destruct (beq (en_or en_default_access a) (bs "ro") || beq (en_or en_default_access a) (bs "rw")); [|discriminate].
  injection H as <-. auto.
Qed.

(* the configuration carries the values as they were given: nothing is normalised *)
Theorem enum_stored_as_given s m a c :
  load_enums s m a = Ok c ->
  e_strategy c = en_or en_default_strategy s /\
  e_matcher c = en_or en_default_matcher m /\
  e_access c = en_or en_default_access a.
Proof. intros H. apply load_enums_ok_inv in H as (_ & _ & _ & ->). auto. Qed.

Lemma load_enums_not_panic s m a : load_enums s m a <> Panic.
Proof.
  unfold load_enums.
  destruct (_ || _); [|discriminate]. destruct (_ || _ || _); [|discriminate].
  destruct (_ || _); discriminate.
Qed.

Lemma load_enums_err s m a k : load_enums s m a = Err k -> k = 1.
Proof.
  unfold load_enums.
  destruct (_ || _); [|intros [= <-]; reflexivity].
  destruct (_ || _ || _); [|intros [= <-]; reflexivity].
  destruct (_ || _); [discriminate|intros [= <-]; reflexivity].
Qed.

(* the specification of the verdict: a list of admissible values per option *)
Theorem enum_accept_iff s m a :
  is_ok (load_enums s m a) = true <->
  In (en_or en_default_strategy s) [bs "rr"; bs "rnd"] /\
  In (en_or en_default_matcher m) [bs "prefix"; bs "glob"; bs "iprefix"] /\
  In (en_or en_default_access a) [bs "ro"; bs "rw"].
Proof.
  unfold load_enums.
  set (s' := en_or en_default_strategy s). set (m' := en_or en_default_matcher m).
  set (a' := en_or en_default_access a).
  split.
  - intros H.
    destruct (beq s' (bs "rr") || beq s' (bs "rnd")) eqn:Es; [|discriminate].
    destruct (beq m' (bs "prefix") || beq m' (bs "glob") || beq m' (bs "iprefix")) eqn:Em; [|discriminate].
    destruct (beq a' (bs "ro") || beq a' (bs "rw")) eqn:Ea; [|discriminate].
    repeat rewrite orb_true_iff in *. repeat rewrite beq_eq in *.
    cbn [In]. intuition (subst; auto).
  - intros (Hs & Hm & Ha). cbn [In] in *.
    assert (Es : beq s' (bs "rr") || beq s' (bs "rnd") = true).
    { repeat rewrite orb_true_iff. repeat rewrite beq_eq. intuition (subst; auto). }
    assert (Em : beq m' (bs "prefix") || beq m' (bs "glob") || beq m' (bs "iprefix") = true).
    { repeat rewrite orb_true_iff. repeat rewrite beq_eq. intuition (subst; auto). }
    assert (Ea : beq a' (bs "ro") || beq a' (bs "rw") = true).
    { repeat rewrite orb_true_iff. repeat rewrite beq_eq. intuition (subst; auto). }
    rewrite Es, Em, Ea. reflexivity.
Qed.

(* ---------- the consumers ---------- *)
Lemma picker_of_some s : picker_of s <> None <-> In s [bs "rr"; bs "rnd"].
Proof.
  unfold picker_of. cbn [In].
  destruct (beq s (bs "rnd")) eqn:E1.
  - apply beq_eq in E1. split; [auto|discriminate].
  - destruct (beq s (bs "rr")) eqn:E2.
    + apply beq_eq in E2. split; [auto|discriminate].
    + apply beq_neq in E1. apply beq_neq in E2. split; [congruence|].
      intros [H|[H|[]]]; congruence.
Qed.

Lemma matcher_of_some m : matcher_of m <> None <-> In m [bs "prefix"; bs "glob"; bs "iprefix"].
Proof.
  unfold matcher_of. cbn [In].
  destruct (beq m (bs "prefix")) eqn:E1.
  - apply beq_eq in E1. split; [auto|discriminate].
  - destruct (beq m (bs "glob")) eqn:E2.
    + apply beq_eq in E2. split; [auto|discriminate].
    + destruct (beq m (bs "iprefix")) eqn:E3.
      * apply beq_eq in E3. split; [auto|discriminate].
      * apply beq_neq in E1. apply beq_neq in E2. apply beq_neq in E3. split; [congruence|].
        intros [H|[H|[H|[]]]]; congruence.
Qed.

Lemma admin_mode_of_some a : admin_mode_of a <> None <-> In a [bs "ro"; bs "rw"].
Proof.
  unfold admin_mode_of. cbn [In].
  destruct (beq a (bs "ro")) eqn:E1.
  - apply beq_eq in E1. split; [auto|discriminate].
  - destruct (beq a (bs "rw")) eqn:E2.
    + apply beq_eq in E2. split; [auto|discriminate].
    + apply beq_neq in E1. apply beq_neq in E2. split; [congruence|].
      intros [H|[H|[]]]; congruence.
Qed.

(* a lookup with a picker and a matcher that are not nil never panics *)
Lemma en_lookup_total k mk routes : forall i, en_lookup (Some k) (Some mk) routes i <> Panic.
Proof.
  induction routes as [|r rest IH]; intros i; cbn [en_lookup]; [discriminate|].
  destruct mk; cbn [en_call_match bind];
    (match goal with |- (if ?b then _ else _) <> _ => destruct b end;
     [destruct (rt_targets r =? 0); [discriminate|destruct (rt_targets r =? 1); discriminate] | apply IH]).
Qed.

Lemma en_lookup_keys_total k mk keys : forall h, en_lookup_keys (Some k) (Some mk) keys h <> Panic.
Proof.
  induction keys as [|routes rest IH]; intros h; cbn [en_lookup_keys]; [discriminate|].
  destruct (en_lookup (Some k) (Some mk) routes 0) as [[x|]|e|] eqn:E; cbn [bind]; try discriminate.
  - apply IH.
  - exfalso. exact (en_lookup_total _ _ _ _ E).
Qed.

(* Accepted => runnable: with a configuration Load returned, no lookup at any of the four
   consumers panics, whatever the routing table holds, and the admin server implements the
   access mode *)
Theorem enum_accepted_runnable s m a c :
  load_enums s m a = Ok c ->
  (forall site keys, en_site_lookup c site keys <> Panic) /\ admin_mode_of (e_access c) <> None.
Proof.
  intros H. pose proof H as Hok.
  apply load_enums_ok_inv in H as (Hs & Hm & Ha & ->).
  assert (Hacc : is_ok (load_enums s m a) = true) by (rewrite Hok; reflexivity).
  apply enum_accept_iff in Hacc as (Is & Im & Ia).
  apply picker_of_some in Is. apply matcher_of_some in Im. apply admin_mode_of_some in Ia.
  split; [|exact Ia].
  intros site keys. unfold en_site_lookup. cbn [e_strategy e_matcher].
  destruct (picker_of (en_or en_default_strategy s)) as [k|]; [|congruence].
  destruct (matcher_of (en_or en_default_matcher m)) as [mk|]; [|congruence].
  destruct ((site =? 1) || (site =? 2)); apply en_lookup_keys_total.
Qed.

Theorem load_then_lookup_runnable s m a site keys :
  load_then_lookup s m a site keys = Err 1 \/ exists r, load_then_lookup s m a site keys = Ok r.
Proof.
  unfold load_then_lookup.
  destruct (load_enums s m a) as [c|k|] eqn:E; cbn [bind].
  - destruct (enum_accepted_runnable _ _ _ _ E) as (Hl & _). specialize (Hl site keys).
    destruct (en_site_lookup c site keys) as [r|k|] eqn:E2.
    + right. eauto.
    + exfalso. revert E2. unfold en_site_lookup.
      assert (Hk : forall p mm ks h, en_lookup_keys p mm ks h <> Err k).
      { intros p mm ks. induction ks as [|routes rest IH]; intros h; cbn [en_lookup_keys]; [discriminate|].
        assert (Hr : forall i, en_lookup p mm routes i <> Err k).
        { induction routes as [|r0 rs IHr]; intros i; cbn [en_lookup]; [discriminate|].
          destruct mm as [[| |]|]; cbn [en_call_match bind]; try discriminate;
            (match goal with |- (if ?b then _ else _) <> _ => destruct b end;
             [destruct (rt_targets r0 =? 0); [discriminate|destruct (rt_targets r0 =? 1); [discriminate|destruct p; discriminate]] | apply IHr]). }
        destruct (en_lookup p mm routes 0) as [[x|]|e|] eqn:E3; cbn [bind]; try discriminate.
        - apply IH.
        - intros [= ->]. exact (Hr _ E3). }
      destruct ((site =? 1) || (site =? 2)); apply Hk.
    + congruence.
  - left. rewrite (load_enums_err _ _ _ _ E). reflexivity.
  - exfalso. exact (load_enums_not_panic _ _ _ E).
Qed.

(* ... and the validation is not stricter than it has to be: Load accepts exactly the values
   for which the maps of the consumers hold a function *)
Theorem enum_accept_iff_implemented s m a :
  is_ok (load_enums s m a) = true <->
  picker_of (en_or en_default_strategy s) <> None /\
  matcher_of (en_or en_default_matcher m) <> None /\
  admin_mode_of (en_or en_default_access a) <> None.
Proof. rewrite enum_accept_iff, picker_of_some, matcher_of_some, admin_mode_of_some. reflexivity. Qed.

(* why the validation is needed: a strategy the picker map does not hold panics as soon as a
   request matches a route with two or more targets (routes with one target keep working); a
   matcher the matcher map does not hold panics on the first route of any host key *)
Theorem unknown_strategy_not_runnable s mk r n :
  picker_of s = None -> en_call_match (Some mk) r = Ok true -> rt_targets r = n -> 2 <= n ->
  en_lookup (picker_of s) (Some mk) [r] 0 = Panic.
Proof.
  intros Hs Hm Hn Hge. rewrite Hs. cbn [en_lookup]. rewrite Hm. cbn [bind]. rewrite Hn.
  destruct (n =? 0) eqn:E0; [apply N.eqb_eq in E0; lia|].
  destruct (n =? 1) eqn:E1; [apply N.eqb_eq in E1; lia|]. reflexivity.
Qed.

Theorem unknown_strategy_single_target_works s mk r :
  picker_of s = None -> en_call_match (Some mk) r = Ok true -> rt_targets r = 1 ->
  en_lookup (picker_of s) (Some mk) [r] 0 = Ok (Some (FoundOnly 0)).
Proof. intros Hs Hm Hn. rewrite Hs. cbn [en_lookup]. rewrite Hm. cbn [bind]. rewrite Hn. reflexivity. Qed.

Theorem unknown_matcher_not_runnable m p r rest :
  matcher_of m = None -> en_lookup p (matcher_of m) (r :: rest) 0 = Panic.
Proof. intros ->. reflexivity. Qed.

(* the values are case-sensitive at the consumers, so they have to be at the validation *)
Example enum_values_case_sensitive :
  picker_of (bs "RR") = None /\ picker_of (bs "Rnd") = None /\ matcher_of (bs "Glob") = None /\
  admin_mode_of (bs "RO") = None /\
  load_enums (Some (bs "RR")) None None = Err 1 /\
  load_enums None (Some (bs "Glob")) None = Err 1 /\
  load_enums None None (Some (bs "RO")) = Err 1.
Proof. vm_compute. repeat split; reflexivity. Qed.

(* ---------- from the four sources ---------- *)
Lemma enum_flags_results args environ props calls :
  parse_args enum_flags en_no_bad args [] = Ok calls ->
  exists r1 r2 r3,
    parse_flags enum_flags en_no_bad args environ fabio_prefixes props = Ok [r1; r2; r3] /\
    final_raw r1 = spec_choice calls environ props en_strategy_name /\
    final_raw r2 = spec_choice calls environ props en_matcher_name /\
    final_raw r3 = spec_choice calls environ props en_access_name.
Proof.
  intros Hc.
  destruct (parse_flags_accepts enum_flags en_no_bad args environ fabio_prefixes props calls Hc) as (rs & Hrs).
  { intros; reflexivity. }
  pose proof (precedence enum_flags en_no_bad args environ props calls rs Hc Hrs) as Hall.
  unfold enum_flags in Hall.
  inversion Hall as [|f1 r1 fs1 rs1 (_ & H1 & _) Hall1]; subst.
  inversion Hall1 as [|f2 r2 fs2 rs2 (_ & H2 & _) Hall2]; subst.
  inversion Hall2 as [|f3 r3 fs3 rs3 (_ & H3 & _) Hall3]; subst.
  inversion Hall3; subst.
  exists r1, r2, r3. cbn [fname] in *. auto.
Qed.

(* the same effect from every source, with the fixed precedence: what Load does with the three
   options depends only on the value of the first present source of each *)
Theorem enum_load_by_first_present_source args environ props calls :
  parse_args enum_flags en_no_bad args [] = Ok calls ->
  load_enums_from args environ props
  = load_enums (spec_choice calls environ props en_strategy_name)
               (spec_choice calls environ props en_matcher_name)
               (spec_choice calls environ props en_access_name).
Proof.
  intros Hc. destruct (enum_flags_results args environ props calls Hc) as (r1 & r2 & r3 & Hp & H1 & H2 & H3).
  unfold load_enums_from. rewrite Hp. cbn [bind]. rewrite H1, H2, H3. reflexivity.
Qed.

Theorem enum_load_from_never_panics args environ props :
  load_enums_from args environ props <> Panic.
Proof.
  unfold load_enums_from.
  destruct (parse_flags enum_flags en_no_bad args environ fabio_prefixes props) as [rs|k|] eqn:E; cbn [bind].
  - destruct rs as [|r1 [|r2 [|r3 [|r4 rs]]]]; try discriminate. apply load_enums_not_panic.
  - discriminate.
  - exfalso. exact (parse_flags_never_panics _ _ _ _ _ _ E).
Qed.

(* end to end: whatever combination of sources supplied the values, a configuration Load
   returns can be run *)
Theorem enum_load_from_sources_runnable args environ props c :
  load_enums_from args environ props = Ok c ->
  (forall site keys, en_site_lookup c site keys <> Panic) /\ admin_mode_of (e_access c) <> None.
Proof.
  unfold load_enums_from.
  destruct (parse_flags enum_flags en_no_bad args environ fabio_prefixes props) as [rs|k|]; cbn [bind]; try discriminate.
  destruct rs as [|r1 [|r2 [|r3 [|r4 rs]]]]; try discriminate.
  apply enum_accepted_runnable.
Qed.

(* non-vacuity: three sources at once; round robin on a two-target route, the only target of a
   one-target route, glob matching, the read-only admin server *)
Example enum_runnable_nonvacuous :
  let args := [bs "-proxy.strategy=rr"] in
  let env := [bs "Fabio_Proxy_Matcher=glob"; bs "proxy_strategy=RR"] in
  let props := Some [(bs "ui.access", bs "ro"); (bs "proxy.matcher", bs "Glob")] in
  let c := {| e_strategy := bs "rr"; e_matcher := bs "glob"; e_access := bs "ro" |} in
  let two := {| rt_prefix := false; rt_glob := true; rt_iprefix := false; rt_targets := 2 |} in
  let one := {| rt_prefix := true; rt_glob := false; rt_iprefix := true; rt_targets := 1 |} in
  load_enums_from args env props = Ok c /\
  en_site_lookup c 0 [[one; two]] = Ok (Some (0%nat, FoundPicked 1 PickRR)) /\
  en_site_lookup c 1 [[one; two]] = Ok (Some (0%nat, FoundOnly 0)) /\
  admin_mode_of (e_access c) = Some AdminForbidden /\
  load_enums_from [] [bs "proxy_strategy=RR"] None = Err 1 /\
  en_lookup (picker_of (bs "RR")) (Some MatchGlob) [two] 0 = Panic.
Proof. vm_compute. repeat split; reflexivity. Qed.
