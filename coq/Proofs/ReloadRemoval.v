(** Proofs about removals of the htpasswd file of a refreshed basic scheme (Model/BasicReload.v,
    Model/ReloadRemoval.v): EVERY removal locks everybody out - the first one and every later one,
    whatever was written, removed, restored, re-read and requested before.  All initial files, all
    schedules. *)
From Coq Require Import String List NArith Bool Lia PeanoNat.
From Fabio Require Import Lib.Outcome Lib.Bytes Model.Access Proofs.Access Model.BasicReload Proofs.BasicReload
                          Model.ReloadRemoval.
Import ListNotations.
Local Open Scope N_scope.

(* ================= the invariant behind the [cleared] flag ================= *)
(* "cleared" means: the table in force is the empty one *)
Definition cinv (st : rstate) : Prop := cleared st = true -> in_force st = [].

Lemma refresher_step_cinv st : cinv st -> cinv (snd (refresher_step st)).
Proof.
  unfold cinv, refresher_step. intros H.
  destruct (pc st) as [| |mt|mt whole rest acc].
  - destruct (fs st) as [[c mt]|]; cbn [snd].
    + destruct (mt =? cfg_mtime st); exact H.
    + destruct (cleared st) eqn:C.
      * intros _. apply H. reflexivity.
      * cbn [set_pc cleared in_force]. intros X. rewrite C in X. discriminate.
  - cbn [snd in_force]. reflexivity.
  - destruct (fs st) as [[c mt']|]; cbn [snd set_pc cleared in_force]; exact H.
  - destruct rest as [|l rest].
    + cbn [snd cleared]. discriminate.
    + destruct (add_line acc l) as [acc' bad]. cbn [snd set_pc cleared in_force]. exact H.
Qed.

Lemma rstep_cinv st a : cinv st -> cinv (snd (rstep st a)).
Proof.
  intros H. destruct a as [c mt| | |c]; cbn [rstep snd].
  - exact H.
  - exact H.
  - now apply refresher_step_cinv.
  - exact H.
Qed.

Lemma rrun_cinv sched : forall st, cinv st -> cinv (snd (rrun st sched)).
Proof.
  induction sched as [|a rest IH]; intros st H; [exact H|].
  rewrite rrun_cons_snd. apply IH. now apply rstep_cinv.
Qed.

(* after any schedule: the flag is up only while the empty table is in force *)
Theorem reload_cleared_means_empty init mt sched :
  cleared (snd (rrun (rboot init mt) sched)) = true -> in_force (snd (rrun (rboot init mt) sched)) = [].
Proof. apply rrun_cinv. unfold cinv. cbn [rboot cleared]. discriminate. Qed.

(* ================= the goroutine running on alone ================= *)
Lemma refresher_steps_rrun n : forall st, snd (rrun st (repeat ARefresher n)) = refresher_steps n st.
Proof.
  induction n as [|n IH]; intros st; [reflexivity|].
  cbn [repeat refresher_steps]. rewrite rrun_cons_snd. cbn [rstep]. apply IH.
Qed.

Lemma refresher_steps_add n m st : refresher_steps (n + m) st = refresher_steps m (refresher_steps n st).
Proof. revert st. induction n as [|n IH]; intros st; [reflexivity|]. cbn [Nat.add refresher_steps]. apply IH. Qed.

Lemma rrun_app_snd a : forall st b, snd (rrun st (a ++ b)) = snd (rrun (snd (rrun st a)) b).
Proof.
  induction a as [|x a IH]; intros st b; [reflexivity|].
  cbn [app]. rewrite !rrun_cons_snd. apply IH.
Qed.

Lemma locked_out_step st : locked_out st -> snd (refresher_step st) = st.
Proof.
  intros (Hfs & Hpc & Hcl & _). unfold refresher_step. now rewrite Hpc, Hfs, Hcl.
Qed.

Lemma locked_out_steps n : forall st, locked_out st -> refresher_steps n st = st.
Proof.
  induction n as [|n IH]; intros st H; [reflexivity|].
  cbn [refresher_steps]. rewrite (locked_out_step st H). now apply IH.
Qed.

(* from the ticker with the file away: two steps (Stat fails, the clearing), or none *)
Lemma idle_locks st :
  cinv st -> fs st = None -> pc st = RIdle -> locked_out (refresher_steps 2 st).
Proof.
  intros Hc Hfs Hpc. destruct (cleared st) eqn:C.
  - assert (L : locked_out st) by (repeat split; auto).
    now rewrite (locked_out_steps 2 st L).
  - cbn [refresher_steps]. unfold refresher_step at 2. rewrite Hpc, Hfs, C. cbn [snd].
    unfold refresher_step. cbn [set_pc pc snd fs]. repeat split; cbn [fs pc cleared in_force]; auto.
Qed.

Lemma removal_reaches_lock st :
  cinv st -> fs st = None -> locked_out (refresher_steps (removal_bound st) st).
Proof.
  intros Hc Hfs. unfold removal_bound. destruct (pc st) as [| |mt|mt whole rest acc] eqn:Hpc.
  - change 3%nat with (2 + 1)%nat. rewrite refresher_steps_add.
    pose proof (idle_locks st Hc Hfs Hpc) as L. now rewrite (locked_out_steps 1 _ L).
  - change 3%nat with (1 + 2)%nat. rewrite refresher_steps_add.
    assert (L : locked_out (refresher_steps 1 st)).
    { cbn [refresher_steps]. unfold refresher_step. rewrite Hpc. cbn [snd]. repeat split; cbn [fs pc cleared in_force]; auto. }
    now rewrite (locked_out_steps 2 _ L).
  - change 3%nat with (1 + 2)%nat. rewrite refresher_steps_add.
    assert (E : refresher_steps 1 st = set_pc st RIdle).
    { cbn [refresher_steps]. unfold refresher_step. now rewrite Hpc, Hfs. }
    rewrite E. apply idle_locks; [exact Hc | exact Hfs | reflexivity].
  - replace (List.length rest + 3)%nat with (S (List.length rest) + 2)%nat by lia.
    rewrite refresher_steps_add.
    pose proof (rrun_parse mt whole rest acc st Hpc) as (_ & _ & Ppc & Pcl & Pfs).
    rewrite refresher_steps_rrun in Ppc, Pcl, Pfs.
    apply idle_locks; [|congruence | exact Ppc].
    unfold cinv. rewrite Pcl. discriminate.
Qed.

(* THE THEOREM: after ANY schedule - any number of earlier removals, restorations and re-reads
   included - that leaves the file absent: once the goroutine has taken [removal_bound] further
   steps (requests interleaved at will, no operator action), no credentials are accepted, for as
   long as the file stays away *)
Theorem reload_every_removal_locks_out init mt sched tail c :
  fs (snd (rrun (rboot init mt) sched)) = None ->
  forallb (fun a => negb (is_env a)) tail = true ->
  (removal_bound (snd (rrun (rboot init mt) sched)) <= List.length (filter is_refresher tail))%nat ->
  basic_authorized (snd (rrun (rboot init mt) (sched ++ tail))) c = false.
Proof.
  intros Hfs Henv Hn. rewrite rrun_app_snd.
  set (st := snd (rrun (rboot init mt) sched)) in *.
  rewrite (rrun_requests_transparent tail st Henv), refresher_steps_rrun.
  assert (Hc : cinv st).
  { apply rrun_cinv. unfold cinv. cbn [rboot cleared]. discriminate. }
  pose proof (removal_reaches_lock st Hc Hfs) as L.
  replace (List.length (filter is_refresher tail))
    with (removal_bound st + (List.length (filter is_refresher tail) - removal_bound st))%nat by lia.
  rewrite refresher_steps_add, (locked_out_steps _ _ L).
  destruct L as (_ & _ & _ & Hin). unfold basic_authorized. rewrite Hin.
  destruct (c_ok c); reflexivity.
Qed.

(* composed with the gate of ServeHTTP: 401, nothing forwarded, no redirect answered *)
Theorem reload_every_removal_gets_401 parse_ip split_host init mt sched tail tg remote xff c :
  t_auth tg <> [] ->
  access_denied_http parse_ip split_host (t_rules tg) remote xff = false ->
  fs (snd (rrun (rboot init mt) sched)) = None ->
  forallb (fun a => negb (is_env a)) tail = true ->
  (removal_bound (snd (rrun (rboot init mt) sched)) <= List.length (filter is_refresher tail))%nat ->
  serve_http parse_ip split_host bcreds (Some tg)
             (basic_scheme_table (t_auth tg) (snd (rrun (rboot init mt) (sched ++ tail)))) remote xff c
    = [ERespond 401].
Proof.
  intros Hne Hd Hfs Henv Hn. apply unauthorized_gets_401; [exact Hd|].
  destruct (authorized _ _ c) eqn:A; [|reflexivity]. exfalso.
  apply authorized_iff in A as [A|(s & Hs & Hc)]; [contradiction|].
  unfold basic_scheme_table in Hs. rewrite beq_refl in Hs. inversion Hs; subst s.
  rewrite (reload_every_removal_locks_out init mt sched tail c Hfs Henv Hn) in Hc. discriminate.
Qed.

(* ---- non-vacuity: present / removed / restored / removed.  alice is let in, locked out by the
        first removal, let in again once the restored file has been read, and locked out by the
        SECOND removal just as well ---- *)
Definition ex_cycle : list raction :=
  [ARequest ex_alice;
   ARemove; ARefresher; ARefresher; ARequest ex_alice;
   AWrite ex_file1 3; ARefresher; ARefresher; ARefresher; ARefresher; ARequest ex_alice;
   ARemove].
Definition ex_cycle_tail : list raction := [ARefresher; ARequest ex_alice; ARefresher; ARefresher; ARequest ex_alice].

Theorem reload_removal_nonvacuous :
  fst (rrun (rboot ex_file1 1) (ex_cycle ++ ex_cycle_tail)) =
    [EvVerdict ex_alice true;
     EvStatFailed; EvLoaded []; EvVerdict ex_alice false;
     EvLoaded ex_file1; EvVerdict ex_alice true;
     EvStatFailed; EvVerdict ex_alice true; EvLoaded []; EvStatFailed; EvVerdict ex_alice false] /\
  fs (snd (rrun (rboot ex_file1 1) ex_cycle)) = None /\
  cleared (snd (rrun (rboot ex_file1 1) ex_cycle)) = false /\
  forallb (fun a => negb (is_env a)) ex_cycle_tail = true /\
  (removal_bound (snd (rrun (rboot ex_file1 1) ex_cycle)) <= List.length (filter is_refresher ex_cycle_tail))%nat.
Proof. repeat split; vm_compute; reflexivity. Qed.
