(** Proofs about Model/ServiceWatch.v: the loop around makeConfig publishes the configuration of
    the CURRENT registry state at every turn at which consul can be read, whatever failed before
    and without waiting for consul's index to move. *)
From Coq Require Import String List NArith Bool Lia Sorted.
From Fabio Require Import Lib.Outcome Lib.Bytes Model.WtF64 Model.TableCmd Model.RouteText Model.RouteCmd
                          Model.ServiceWatch Proofs.TableCmd Proofs.RouteCmd.
Import ListNotations.
Local Open Scope N_scope.

Lemma last_app_default {A} (l1 l2 : list A) (d : A) : last (l1 ++ l2) d = last l2 (last l1 d).
Proof.
  revert d. induction l1 as [|a l1 IH]; intro d; [reflexivity|].
  destruct l1 as [|b l1].
  - cbn [app last]. destruct l2 as [|c l2]; [reflexivity|].
    change (last (a :: c :: l2) d) with (last (c :: l2) d).
    (* last of a non-empty list does not depend on the default *)
    clear. revert c. induction l2 as [|x l2 IH]; intro c; [reflexivity|].
    change (last (c :: x :: l2) d) with (last (x :: l2) d).
    change (last (c :: x :: l2) a) with (last (x :: l2) a). apply IH.
  - change (last ((a :: b :: l1) ++ l2) d) with (last ((b :: l1) ++ l2) d).
    change (last (a :: b :: l1) d) with (last (b :: l1) d). apply IH.
Qed.

Lemma map_repeat_c {A B} (f : A -> B) (a : A) n : map f (repeat a n) = repeat (f a) n.
Proof. induction n as [|n IH]; [reflexivity|]. cbn [repeat map]. now rewrite IH. Qed.

Section LoopProofs.
  Variable T : Type.
  Notation view := (view T).

  (* ---- the declarative side: what a trace of consul answers is ---- *)
  (* consul's index never goes back *)
  Definition index_le (a b : view) : Prop := v_index a <= v_index b.
  Definition nondecreasing (vs : list view) : Prop := StronglySorted index_le vs.
  (* the registry content is a function of consul's index: whenever makeConfig succeeds it yields the
     configuration of the state with that index *)
  Definition faithful (content : N -> T) (v : view) : Prop :=
    forall c, v_config v = Some c -> c = content (v_index v).
  (* consul can be read at this turn *)
  Definition view_readable (v : view) : Prop := v_health_err v = false /\ v_config v <> None.

  Definition last_with (prev : option T) (outs : list (list T)) : option T := last (map Some (concat outs)) prev.

  Lemma last_with_cons prev out outs : last_with prev (out :: outs) = last_with (last (map Some out) prev) outs.
  Proof. unfold last_with. cbn [concat]. rewrite map_app. apply last_app_default. Qed.

  Lemma watch_from_app poll last xs ys :
    watch_from T poll last (xs ++ ys)
    = let '(l1, o1) := watch_from T poll last xs in
      let '(l2, o2) := watch_from T poll l1 ys in (l2, o1 ++ o2).
  Proof.
    revert last. induction xs as [|x xs IH]; intro last.
    - cbn [app watch_from]. destruct (watch_from T poll last ys); reflexivity.
    - cbn [app watch_from]. destruct (watch_turn T poll last x) as [l1 out]. rewrite IH.
      destruct (watch_from T poll l1 xs) as [l2 o1]. destruct (watch_from T poll l2 ys) as [l3 o2]. reflexivity.
  Qed.

  (* the invariant: the remembered index is the index of the state whose configuration was sent last *)
  Definition inv (content : N -> T) (last : N) (prev : option T) : Prop :=
    last <> 0 -> prev = Some (content last).

  Lemma watch_turn_inv content poll last prev v l1 out :
    inv content last prev -> faithful content v -> last <= v_index v ->
    watch_turn T poll last v = (l1, out) ->
    inv content l1 (List.last (map Some out) prev) /\ (l1 = last \/ l1 = v_index v).
  Proof.
    intros Hinv Hf Hle. unfold watch_turn.
    destruct (query_blocks T poll last v); [intros [= <- <-]; split; [exact Hinv|now left]|].
    destruct (v_health_err v); [intros [= <- <-]; split; [exact Hinv|now left]|].
    destruct (v_config v) as [c|] eqn:Hc; [|intros [= <- <-]; split; [exact Hinv|now left]].
    intros [= <- <-]. split; [|now right].
    intros _. cbn [map List.last]. now rewrite (Hf c Hc).
  Qed.

  Lemma watch_current_gen content poll : forall vs last prev v c,
    inv content last prev ->
    nondecreasing (vs ++ [v]) -> Forall (fun x => last <= v_index x) (vs ++ [v]) ->
    Forall (faithful content) (vs ++ [v]) ->
    v_health_err v = false -> v_config v = Some c ->
    last_with prev (snd (watch_from T poll last (vs ++ [v]))) = Some c.
  Proof.
    induction vs as [|a vs IH]; intros last prev v c Hinv Hs Hb Hf Hh Hc.
    - cbn [app watch_from]. inversion Hb as [|? ? Hlv _]; subst. inversion Hf as [|? ? Hfv _]; subst.
      unfold watch_turn. destruct (query_blocks T poll last v) eqn:Hq.
      + cbn [snd]. unfold last_with. cbn [concat app map List.last].
        unfold query_blocks in Hq. apply andb_prop in Hq as [Hq Hle]. apply andb_prop in Hq as [_ Hnz].
        apply negb_true_iff, N.eqb_neq in Hnz. apply N.leb_le in Hle.
        assert (v_index v = last) as He by lia. rewrite (Hinv Hnz), (Hfv c Hc), He. reflexivity.
      + rewrite Hh, Hc. cbn [snd]. unfold last_with. reflexivity.
    - cbn [app watch_from]. destruct (watch_turn T poll last a) as [l1 out] eqn:Ht.
      destruct (watch_from T poll l1 (vs ++ [v])) as [l2 outs] eqn:Hw. cbn [snd].
      rewrite last_with_cons.
      cbn [app] in Hs, Hb, Hf. inversion Hs as [|? ? Hs' Hall]; subst. inversion Hb as [|? ? Hla Hb']; subst.
      inversion Hf as [|? ? Hfa Hf']; subst.
      destruct (watch_turn_inv content poll last prev a l1 out Hinv Hfa Hla Ht) as [Hinv' Hl1].
      replace outs with (snd (watch_from T poll l1 (vs ++ [v]))) by now rewrite Hw.
      apply IH; auto.
      destruct Hl1 as [-> | ->]; [exact Hb'|].
      eapply Forall_impl; [|exact Hall]. intros x Hx. exact Hx.
  Qed.

  (* THE theorem of the loop: at every turn at which consul can be read, the configuration last sent
     is the configuration of the state consul holds at that turn -- whatever happened before
     (failed health queries, failed catalog lookups, any number of retries), in both modes, and
     although consul's index may not have moved since the failure. *)
  Theorem watch_current_when_readable content poll vs v c :
    nondecreasing (vs ++ [v]) -> Forall (faithful content) (vs ++ [v]) ->
    v_health_err v = false -> v_config v = Some c ->
    last_sent T (watch_sent T poll (vs ++ [v])) = Some c.
  Proof.
    intros Hs Hf Hh Hc. unfold last_sent, watch_sent.
    apply (watch_current_gen content poll vs 0 None v c); auto.
    - intros H; now elim H.
    - apply Forall_forall. intros x _. lia.
  Qed.

  (* what is sent at a turn is the configuration makeConfig made at THAT turn from a successful
     health query: nothing stale, nothing partial, at most one per turn *)
  Theorem watch_sends_only_current poll : forall vs last k c,
    In c (nth k (snd (watch_from T poll last vs)) []) ->
    exists v, nth_error vs k = Some v /\ v_health_err v = false /\ v_config v = Some c
              /\ nth k (snd (watch_from T poll last vs)) [] = [c].
  Proof.
    induction vs as [|a vs IH]; intros last k c Hin.
    - cbn [watch_from snd] in Hin. destruct k; elim Hin.
    - cbn [watch_from] in *. destruct (watch_turn T poll last a) as [l1 out] eqn:Ht.
      destruct (watch_from T poll l1 vs) as [l2 outs] eqn:Hw. cbn [snd] in *.
      destruct k as [|k].
      + cbn [nth nth_error] in *. exists a. unfold watch_turn in Ht.
        destruct (query_blocks T poll last a); [inversion Ht; subst; elim Hin|].
        destruct (v_health_err a); [inversion Ht; subst; elim Hin|].
        destruct (v_config a) as [c'|]; [|inversion Ht; subst; elim Hin].
        inversion Ht; subst. destruct Hin as [<-|[]]. auto.
      + cbn [nth nth_error] in *. specialize (IH l1 k c). rewrite Hw in IH. cbn [snd] in IH. exact (IH Hin).
  Qed.

  (* a failed round sends nothing (c8f84e8: a configuration built without the services whose
     lookup failed would take their routes out of the table) and leaves the index alone *)
  Theorem watch_failed_turn_keeps_index poll last v :
    v_health_err v = true \/ v_config v = None -> watch_turn T poll last v = (last, []).
  Proof.
    intros H. unfold watch_turn. destruct (query_blocks T poll last v); [reflexivity|].
    destruct H as [-> | H]; [reflexivity|]. destruct (v_health_err v); [reflexivity|]. now rewrite H.
  Qed.

  (* the retry form: consul changes (or not), any number of rounds fail at the same index, then the
     failure is lifted and NOTHING else changes: the very next turn publishes the current state *)
  Corollary watch_retry_needs_no_consul_change content poll before (failed : view) n lifted c :
    v_index lifted = v_index failed ->
    nondecreasing (before ++ [failed]) -> Forall (faithful content) (before ++ [failed]) ->
    faithful content lifted ->
    v_health_err lifted = false -> v_config lifted = Some c ->
    last_sent T (watch_sent T poll ((before ++ repeat failed (S n)) ++ [lifted])) = Some c.
  Proof.
    intros Hi Hs Hf Hfl Hh Hc. apply (watch_current_when_readable content); auto.
    - (* sortedness of before ++ failed^(n+1) ++ [lifted] *)
      rewrite <- app_assoc. clear Hf.
      induction before as [|b before IH].
      + cbn [app]. clear Hs. induction (S n) as [|m IHm].
        * cbn [repeat app]. constructor; constructor.
        * cbn [repeat app]. constructor; [exact IHm|].
          apply Forall_app. split.
          -- apply Forall_forall. intros x Hx. apply repeat_spec in Hx. subst. unfold index_le. lia.
          -- constructor; [unfold index_le; lia|constructor].
      + cbn [app] in *. inversion Hs as [|? ? Hs' Hall]; subst. constructor; [apply IH; exact Hs'|].
        apply Forall_app in Hall as [Hb Hfd]. inversion Hfd as [|? ? Hbf _]; subst.
        apply Forall_app. split; [exact Hb|]. apply Forall_app. split.
        * apply Forall_forall. intros x Hx. apply repeat_spec in Hx. subst. exact Hbf.
        * constructor; [unfold index_le in *; lia|constructor].
    - apply Forall_app in Hf as [Hfb Hff]. inversion Hff as [|? ? Hf1 _]; subst.
      apply Forall_app. split; [apply Forall_app; split; [exact Hfb|]|constructor; [exact Hfl|constructor]].
      apply Forall_forall. intros x Hx. apply repeat_spec in Hx. now subst.
  Qed.

  (* ---- the order matters: the index-first loop (seeded change C14-M) ---- *)
  Lemma watch_from_index_first_app poll last xs ys :
    watch_from_index_first T poll last (xs ++ ys)
    = let '(l1, o1) := watch_from_index_first T poll last xs in
      let '(l2, o2) := watch_from_index_first T poll l1 ys in (l2, o1 ++ o2).
  Proof.
    revert last. induction xs as [|x xs IH]; intro last.
    - cbn [app watch_from_index_first]. destruct (watch_from_index_first T poll last ys); reflexivity.
    - cbn [app watch_from_index_first]. destruct (watch_turn_index_first T poll last x) as [l1 out]. rewrite IH.
      destruct (watch_from_index_first T poll l1 xs) as [l2 o1].
      destruct (watch_from_index_first T poll l2 ys) as [l3 o2]. reflexivity.
  Qed.

  Lemma index_first_stuck (v : view) last n :
    last <> 0 -> v_index v = last ->
    watch_from_index_first T false last (repeat v n) = (last, repeat [] n).
  Proof.
    intros Hnz Hi. induction n as [|n IH]; [reflexivity|].
    cbn [repeat watch_from_index_first].
    assert (watch_turn_index_first T false last v = (last, [])) as ->.
    { unfold watch_turn_index_first, query_blocks. rewrite Hi.
      apply N.eqb_neq in Hnz. rewrite Hnz, N.leb_refl. reflexivity. }
    rewrite IH. reflexivity.
  Qed.
End LoopProofs.

(* the trace of the seeded change: state 1 is published; consul moves to state 2 while a catalog
   lookup fails; the failure is lifted and consul stays as it is, for as long as one likes *)
Definition ex_views_before : list (view N) :=
  [ Build_view 1 false (Some 10); Build_view 2 false None ].
Definition ex_view_lifted : view N := Build_view 2 false (Some 20).

Theorem watch_index_first_refuted : forall n,
  last_sent N (snd (watch_from_index_first N false 0 (ex_views_before ++ repeat ex_view_lifted n))) = Some 10
  /\ last_sent N (watch_sent N false (ex_views_before ++ repeat ex_view_lifted (S n))) = Some 20.
Proof.
  intro n. split.
  - rewrite watch_from_index_first_app.
    change (watch_from_index_first N false 0 ex_views_before) with (2, [[10]; @nil N]).
    cbv beta iota.
    rewrite (index_first_stuck N ex_view_lifted 2 n) by (try reflexivity; discriminate).
    cbn [snd]. unfold last_sent. rewrite concat_app.
    replace (concat (repeat (@nil N) n)) with (@nil N); [reflexivity|].
    induction n as [|m IH]; [reflexivity|]. cbn [repeat concat app]. exact IH.
  - replace (ex_views_before ++ repeat ex_view_lifted (S n))
      with ((ex_views_before ++ repeat ex_view_lifted n) ++ [ex_view_lifted]).
    + apply (watch_current_when_readable N (fun i => if i =? 1 then 10 else 20)); try reflexivity.
      * rewrite <- app_assoc. unfold ex_views_before. cbn [app].
        constructor; [constructor|].
        -- induction n as [|m IH].
           ++ cbn [repeat app]. constructor; constructor.
           ++ cbn [repeat app]. constructor; [exact IH|].
              apply Forall_app. split; [|constructor; [unfold index_le; cbn; lia|constructor]].
              apply Forall_forall. intros x Hx. apply repeat_spec in Hx. subst. unfold index_le. cbn. lia.
        -- apply Forall_app. split; [|constructor; [unfold index_le; cbn; lia|constructor]].
           apply Forall_forall. intros x Hx. apply repeat_spec in Hx. subst. unfold index_le. cbn. lia.
        -- constructor; [unfold index_le; cbn; lia|].
           apply Forall_app. split; [|constructor; [unfold index_le; cbn; lia|constructor]].
           apply Forall_forall. intros x Hx. apply repeat_spec in Hx. subst. unfold index_le. cbn. lia.
      * apply Forall_app. split; [apply Forall_app; split|].
        -- unfold ex_views_before. constructor; [|constructor; [|constructor]]; intros c Hc; cbn in Hc; now inversion Hc.
        -- apply Forall_forall. intros x Hx. apply repeat_spec in Hx. subst. intros c Hc. cbn in Hc. now inversion Hc.
        -- constructor; [|constructor]. intros c Hc. cbn in Hc. now inversion Hc.
    + rewrite <- app_assoc. f_equal. clear. induction n as [|m IH]; [reflexivity|].
      cbn [repeat app]. f_equal. exact IH.
Qed.

(* ================= instantiated with makeConfig ================= *)
Section MonitorProofs.
  Variable pw : str -> outcome wt.
  Variable canon : str -> option str.
  Variable gl : str -> bool.
  Variable env : env_t.
  Variable prefix : str.

  Notation view_of := (view_of pw canon gl env prefix).
  Notation monitor_text := (monitor_text pw canon gl env prefix).

  Definition moment_le (a b : moment) : Prop := m_index a <= m_index b.
  (* the registry content is a function of consul's index *)
  Definition content_by_index (ms : list moment) : Prop :=
    forall a b, In a ms -> In b ms -> m_index a = m_index b -> m_regs a = m_regs b.

  Definition content_of (ms : list moment) (i : N) : str :=
    match List.find (fun a => m_index a =? i) ms with Some a => monitor_text (m_regs a) | None => [] end.

  Lemma sorted_map_view ms : StronglySorted moment_le ms -> nondecreasing str (map view_of ms).
  Proof.
    induction 1 as [|a l Hs IH Hall]; [constructor|]. cbn [map]. constructor; [exact IH|].
    apply Forall_forall. intros x Hx. apply in_map_iff in Hx as (b & <- & Hb).
    rewrite Forall_forall in Hall. exact (Hall b Hb).
  Qed.

  Lemma faithful_map_view ms : content_by_index ms -> Forall (faithful str (content_of ms)) (map view_of ms).
  Proof.
    intros Hc. apply Forall_forall. intros x Hx. apply in_map_iff in Hx as (a & <- & Ha).
    intros c Hcfg. cbn [view_of v_config v_index] in *. unfold monitor_config in Hcfg.
    destruct (lookup_fails (m_failing a) (m_regs a)); [discriminate|]. inversion Hcfg; subst. clear Hcfg.
    unfold content_of. destruct (List.find (fun a0 => m_index a0 =? m_index a) ms) as [b|] eqn:Hf.
    - apply List.find_some in Hf as [Hb He]. apply N.eqb_eq in He. now rewrite (Hc b a Hb Ha He).
    - exfalso. pose proof (List.find_none _ _ Hf a Ha) as Hn. cbv beta in Hn. rewrite N.eqb_refl in Hn. discriminate.
  Qed.

  (* The clause "never prevents or delays route updates for other services", for the loop as a
     whole: for every trace of consul (index never going back, content a function of the index),
     in both modes, at every turn at which consul can be read (the health query answers, no lookup
     of a passing service fails), the text fabio routes by is the text of the registrations consul
     holds at that turn -- accepted by NewTable, holding the target of every emitted command of
     every service and nothing else -- whatever failed before and although the index may not
     have moved since. *)
  Theorem monitor_current_when_readable poll ms m :
    StronglySorted moment_le (ms ++ [m]) -> content_by_index (ms ++ [m]) ->
    readable m = true ->
    let text := monitor_text (m_regs m) in
    last_sent str (monitor_sent pw canon gl env prefix poll (ms ++ [m])) = Some text
    /\ exists t, new_table pw canon gl text = Ok t
        /\ (forall g c d, In g (m_regs m) -> In c (build pw canon gl env prefix g) ->
              parse_line pw c = Ok (Some d) ->
              exists url tg, canon (d_dst d) = Some url
               /\ In (lower (fst (hostpath (d_src d))), snd (hostpath (d_src d)), tg) (flat t)
               /\ same_target (d_svc d) url (w_clamp (d_w d)) (d_tags d) tg = true)
        /\ (forall x, In x (flat t) -> exists g c d url, In g (m_regs m) /\ In c (build pw canon gl env prefix g)
               /\ parse_line pw c = Ok (Some d) /\ canon (d_dst d) = Some url /\ x = trip d url).
  Proof.
    intros Hs Hc Hr text. split.
    - assert (map view_of ms ++ [view_of m] = map view_of (ms ++ [m])) as E by now rewrite map_app.
      unfold monitor_sent. rewrite <- E.
      apply (watch_current_when_readable str (content_of (ms ++ [m]))).
      + rewrite E. now apply sorted_map_view.
      + rewrite E. now apply faithful_map_view.
      + unfold readable in Hr. apply andb_prop in Hr as [Hh _]. cbn [view_of v_health_err].
        now apply negb_true_iff in Hh.
      + unfold readable in Hr. apply andb_prop in Hr as [_ Hl]. apply negb_true_iff in Hl.
        cbn [view_of v_config]. unfold monitor_config. now rewrite Hl.
    - exact (emitted_table_accepted pw canon gl env prefix (m_regs m)).
  Qed.

  (* the phase form the correspondence cases use is the same loop, grouped *)
  Theorem monitor_phases_is_loop poll : forall phases last,
    concat (monitor_phases pw canon gl env prefix poll last phases)
    = concat (snd (watch_from str poll last (map view_of (flat_map (fun p : moment * nat => repeat (fst p) (snd p)) phases)))).
  Proof.
    induction phases as [|[m n] r IH]; intro last; [reflexivity|].
    cbn [monitor_phases flat_map fst snd]. rewrite map_app, watch_from_app, map_repeat_c.
    destruct (watch_from str poll last (repeat (view_of m) n)) as [l1 o1].
    specialize (IH l1). destruct (watch_from str poll l1 _) as [l2 o2] eqn:Hw. cbn [snd] in *.
    cbn [concat]. rewrite concat_app, IH. reflexivity.
  Qed.
End MonitorProofs.

(* ---- non-vacuous: the demonstration of the seeded change.  'good' is published at index 5; at
   index 6 'half' has joined while its catalog lookup fails (two rounds); the lookup recovers and
   consul's index stays 6: the next turn publishes both services. ---- *)
Definition ex_m1 : moment := {| m_index := 5; m_health_err := false; m_failing := []; m_regs := [reg_good] |}.
Definition ex_m2 : moment := {| m_index := 6; m_health_err := false; m_failing := [bs "half"]; m_regs := [reg_good; reg_half] |}.
Definition ex_m3 : moment := {| m_index := 6; m_health_err := false; m_failing := []; m_regs := [reg_good; reg_half] |}.

Theorem monitor_nonvacuous :
  StronglySorted moment_le ([ex_m1; ex_m2; ex_m2] ++ [ex_m3])
  /\ content_by_index ([ex_m1; ex_m2; ex_m2] ++ [ex_m3])
  /\ readable ex_m2 = false /\ readable ex_m3 = true
  /\ monitor_sent pweight_dec idcanon anyglob env_dc pfx false ([ex_m1; ex_m2; ex_m2] ++ [ex_m3])
     = [[ex_text [reg_good]]; []; []; [ex_text [reg_good; reg_half]]]
  /\ ex_text [reg_good; reg_half] <> ex_text [reg_good]
  /\ monitor_phases pweight_dec idcanon anyglob env_dc pfx false 0 [(ex_m1, 1%nat); (ex_m2, 2%nat); (ex_m3, 2%nat)]
     = [[ex_text [reg_good]]; []; [ex_text [reg_good; reg_half]]].
Proof.
  split; [|split; [|split; [|split; [|split; [|split]]]]].
  - cbn [app]. repeat constructor; unfold moment_le; cbn; lia.
  - intros a b Ha Hb. cbn [app In] in Ha, Hb.
    destruct Ha as [<-|[<-|[<-|[<-|[]]]]]; destruct Hb as [<-|[<-|[<-|[<-|[]]]]]; cbn; intros H; try reflexivity; discriminate H.
  - vm_compute. reflexivity.
  - vm_compute. reflexivity.
  - vm_compute. reflexivity.
  - vm_compute. discriminate.
  - vm_compute. reflexivity.
Qed.
