(** C02: proofs about the tcp-dynamic listener loop (Model/TcpDynamic.v). *)
From Coq Require Import List NArith Bool.
From Fabio Require Import Lib.Bytes Model.TcpDynamic.
Import ListNotations.
Local Open Scope N_scope.

Lemma smem_In x l : smem x l = true <-> In x l.
Proof.
  unfold smem. rewrite existsb_exists. split.
  - intros [y [Hy Hb]]. apply beq_eq in Hb. now subst.
  - intros H. exists x. split; [exact H | apply beq_refl].
Qed.

Lemma smem_false x l : smem x l = false <-> ~ In x l.
Proof.
  rewrite <- smem_In. destruct (smem x l); split; intros H.
  - discriminate.
  - exfalso. now apply H.
  - intros H'. discriminate.
  - reflexivity.
Qed.

(* ---- the probe is what stands between a route text and exit.Fatal ---- *)
Lemma start_ports_steady w ps : steady w -> forall served, exists s, start_ports w ps served = Some s.
Proof.
  intros Hw. induction ps as [|p ps IH]; intros served; cbn [start_ports].
  - now exists served.
  - destruct (probe_free w p) eqn:Hp; cbn [andb].
    + destruct (smem p served) eqn:Hm; cbn [negb].
      * apply IH.
      * rewrite (Hw p Hp). cbn [andb negb]. apply IH.
    + apply IH.
Qed.

Lemma refresh_steady w t d : steady w -> exists d', refresh w t d = DRun d'.
Proof.
  intros Hw. unfold refresh.
  destruct (start_ports_steady w (ports_of t) Hw
              (filter (fun p => negb (smem p (sdiff (d_last d) (ports_of t)))) (d_served d))) as [s Hs].
  rewrite Hs. now eexists.
Qed.

Lemma run_dyn_steady h : (forall w t, In (w, t) h -> steady w) ->
  forall d, exists d', run_dyn h (DRun d) = DRun d'.
Proof.
  induction h as [|[w t] h IH]; intros Hh d; cbn [run_dyn refresh_st].
  - now exists d.
  - destruct (refresh_steady w t d (Hh w t (or_introl eq_refl))) as [d1 H1]. rewrite H1.
    apply IH. intros w' t' Hin. apply (Hh w' t'). now right.
Qed.

(* for every history of tables - whatever their host keys name: ports of other programs, of fabio's
   own listeners, numbers that are no ports - and every state of the loop, the process is still
   running, provided no port changes hands between a probe and its listener goroutine *)
Theorem tcpdyn_never_crashes : forall h d,
  (forall w t, In (w, t) h -> steady w) -> run_dyn h (DRun d) <> DCrashed.
Proof.
  intros h d Hh. destruct (run_dyn_steady h Hh d) as [d' H]. rewrite H. discriminate.
Qed.

Lemma world_of_steady u : steady (world_of u).
Proof. intros p H. exact H. Qed.

(* ... and the proviso is needed: a port which is free at the probe and taken when the goroutine
   binds (the listener goroutine of the PREVIOUS refresh when l.Refresh is 0, or another program)
   ends the process *)
Definition p6000 : port := [58; 54; 48; 48; 48].
Theorem tcpdyn_unsteady_world_crashes :
  exists w t d, (exists p, probe_free w p = true /\ listen_free w p = false)
                /\ refresh w t d = DCrashed.
Proof.
  exists (World (fun _ => true) (fun _ => false)), [(p6000, [s_tcp])], (Dyn [] []).
  split; [exists p6000; split; reflexivity | vm_compute; reflexivity].
Qed.

(* ---- which listeners run after a refresh ---- *)
Lemma start_ports_spec w ps : forall served s, start_ports w ps served = Some s ->
  forall p, In p s <-> In p served \/ (In p ps /\ probe_free w p = true).
Proof.
  induction ps as [|p0 ps IH]; intros served s H p; cbn [start_ports] in H.
  - injection H as <-. split; [now left | intros [H|[[] _]]; exact H].
  - destruct (probe_free w p0 && negb (smem p0 served)) eqn:Hg.
    + apply andb_prop in Hg. destruct Hg as [Hp Hm].
      destruct (listen_free w p0 && negb (smem p0 served)); [|discriminate].
      rewrite (IH _ _ H p). cbn [In]. split.
      * intros [[<-|Hs]|[Hin Hpp]]; [right; split; [now left | exact Hp] | now left | right; split; [now right | exact Hpp]].
      * intros [Hs|[[<-|Hin] Hpp]]; [left; now right | left; now left | right; now split].
    + rewrite (IH _ _ H p). cbn [In]. split.
      * intros [Hs|[Hin Hpp]]; [now left | right; split; [now right | exact Hpp]].
      * intros [Hs|[[<-|Hin] Hpp]]; [now left | | right; now split].
        left. rewrite Hpp in Hg. cbn [andb] in Hg. apply negb_false_iff in Hg. now apply smem_In.
Qed.

(* after a refresh the listeners are: those of before, except the ports that were in the previous
   table's ports and are not in the new table's; plus every port of the new table the world lets
   bind.  In particular no port owned by somebody else is ever 'served', and no port that left the
   table stays open: the listeners follow the complete new table. *)
Theorem tcpdyn_listeners_follow_table : forall w t d d', refresh w t d = DRun d' ->
  d_last d' = ports_of t
  /\ forall p, In p (d_served d') <->
               (In p (d_served d) /\ ~ (In p (d_last d) /\ ~ In p (ports_of t)))
               \/ (In p (ports_of t) /\ probe_free w p = true).
Proof.
  intros w t d d' H. unfold refresh in H.
  destruct (start_ports w (ports_of t) _) as [s|] eqn:Hs; [|discriminate].
  injection H as <-. cbn [d_last d_served]. split; [reflexivity|].
  intros p. rewrite (start_ports_spec _ _ _ _ Hs p). rewrite filter_In.
  assert (Hg : negb (smem p (sdiff (d_last d) (ports_of t))) = true <->
               ~ (In p (d_last d) /\ ~ In p (ports_of t))).
  { rewrite negb_true_iff, smem_false. unfold sdiff. rewrite filter_In, negb_true_iff, smem_false. tauto. }
  rewrite Hg. tauto.
Qed.

(* ---- the loop runs an unknown number of times between two tables: once is enough ---- *)
Lemma sdiff_self l : sdiff l l = [].
Proof.
  unfold sdiff. assert (H : forall a, (forall x, In x a -> In x l) -> filter (fun x => negb (smem x l)) a = []).
  { induction a as [|x a IH]; intros Ha; cbn [filter]; [reflexivity|].
    assert (Hx : smem x l = true) by (apply smem_In, Ha; now left).
    rewrite Hx. cbn [negb]. apply IH. intros y Hy. apply Ha. now right. }
  apply H. auto.
Qed.

Lemma filter_all {A} (l : list A) : filter (fun _ => true) l = l.
Proof. induction l as [|x l IH]; cbn [filter]; [reflexivity | now rewrite IH]. Qed.

Lemma start_ports_noop w ps served :
  (forall p, In p ps -> probe_free w p = true -> In p served) -> start_ports w ps served = Some served.
Proof.
  induction ps as [|p ps IH]; intros H; cbn [start_ports]; [reflexivity|].
  destruct (probe_free w p) eqn:Hp; cbn [andb].
  - assert (Hm : smem p served = true) by (apply smem_In, H; [now left | exact Hp]).
    rewrite Hm. cbn [negb]. apply IH. intros q Hq. apply H. now right.
  - apply IH. intros q Hq. apply H. now right.
Qed.

Theorem tcpdyn_refresh_idempotent : forall w t d d', refresh w t d = DRun d' -> refresh w t d' = DRun d'.
Proof.
  intros w t d d' H. destruct (tcpdyn_listeners_follow_table w t d d' H) as [Hl Hsv].
  unfold refresh. rewrite Hl, sdiff_self. cbn [smem existsb negb].
  rewrite filter_all. rewrite start_ports_noop.
  - destruct d' as [l s]. cbn [d_last d_served] in *. now rewrite Hl.
  - intros p Hin Hp. apply Hsv. right. now split.
Qed.

(* ---- non-vacuity: the history that ends the process once the probe is gone ---- *)
Definition p6001 : port := [58; 54; 48; 48; 49].
Definition p70000 : port := [58; 55; 48; 48; 48; 48].
Definition h_wit : list (world * habs) :=
  let w := world_of [p6001; p70000] in          (* another program listens on 6001; 70000 is no port *)
  [ (w, [(p6000, [s_tcp])]);
    (w, [(p6000, [s_tcp]); (p6001, [s_tcp])]);
    (w, [(p6000, [s_tcp]); (p6001, [s_tcp]); (p70000, [s_tcp])]);
    (world_of [p70000], [(p6000, [s_tcp]); (p6001, [s_tcp]); (p70000, [s_tcp])]);   (* the program went away *)
    (world_of [p70000], [(p6001, [s_tcp])]) ].
Theorem tcpdyn_never_crashes_nonvacuous :
  (forall w t, In (w, t) h_wit -> steady w)
  /\ map (fun s => match s with DRun d => Some (d_served d) | DCrashed => None end)
         (trace_dyn h_wit (DRun (Dyn [] [])))
     = [Some [p6000]; Some [p6000]; Some [p6000]; Some [p6001; p6000]; Some [p6001]].
Proof.
  split.
  - intros w t Hin. cbn [h_wit In] in Hin.
    repeat (destruct Hin as [Hin|Hin]; [injection Hin as <- _; apply world_of_steady|]). destruct Hin.
  - vm_compute. reflexivity.
Qed.
