(** Proofs for Model/RegistryTable.v: the registry layer (C01), the command generator (C14)
    and the table builder (C05) composed.  Headline: for a registry state
    whose healthy tagged entries are expressible, the pushed config is accepted
    by NewTable and the table has a target for (instance, prefix) iff the instance is healthy
    and advertises the prefix; the same for the ACTIVE table of the watch loop. *)
From Coq Require Import String List NArith ZArith Bool Lia.
From Fabio Require Import Lib.Outcome Lib.Bytes Model.WtF64 Model.TableCmd Model.RouteText Model.RouteCmd
     Proofs.TableCmd Proofs.RouteCmd
     Model.Consul Model.Watch Model.ConsulSpec Proofs.Consul Proofs.Watch Model.RegistryTable Proofs.ManualOnTop.
Import ListNotations.
Local Open Scope N_scope.

(* ================= the two models of strings.TrimSpace agree ================= *)
Lemma is_space_go_space c : Consul.is_space c = go_space c.
Proof.
  unfold Consul.is_space, go_space, re_space.
  destruct (N.eqb_spec c 32), (N.eqb_spec c 9), (N.eqb_spec c 10), (N.eqb_spec c 11),
           (N.eqb_spec c 12), (N.eqb_spec c 13), (N.leb_spec 9 c), (N.leb_spec c 13);
    cbn [orb andb]; try reflexivity; lia.
Qed.
Lemma trim_left_drop_while s : Consul.trim_left s = drop_while go_space s.
Proof.
  induction s as [|c s IH]; cbn [Consul.trim_left drop_while]; [reflexivity|].
  rewrite is_space_go_space, IH. reflexivity.
Qed.
Lemma trim_space_agree s : Consul.trim_space s = RouteText.trim_space s.
Proof. unfold Consul.trim_space, RouteText.trim_space. now rewrite !trim_left_drop_while. Qed.

Lemma route_tags_agree prefix g : Consul.route_tags prefix (g_tags g) = RouteCmd.route_tags prefix g.
Proof.
  unfold Consul.route_tags, RouteCmd.route_tags. f_equal. apply map_ext. apply trim_space_agree.
Qed.

(* strings.TrimSpace is idempotent *)
Lemma drop_while_idem p s : drop_while p (drop_while p s) = drop_while p s.
Proof.
  induction s as [|c s IH]; cbn [drop_while]; [reflexivity|].
  destruct (p c) eqn:E; [exact IH|]. cbn [drop_while]. now rewrite E.
Qed.
Definition nostart (p : N -> bool) (s : str) : Prop := match s with [] => True | c :: _ => p c = false end.
Lemma nostart_drop p s : nostart p (drop_while p s).
Proof. induction s as [|c s IH]; cbn [drop_while]; [exact I|]. destruct (p c) eqn:E; [exact IH | exact E]. Qed.
Lemma drop_nostart p s : nostart p s -> drop_while p s = s.
Proof. destruct s as [|c s]; cbn [nostart drop_while]; [reflexivity|]. now intros ->. Qed.
Lemma drop_while_snoc p l c : p c = false -> exists l', drop_while p (l ++ [c]) = l' ++ [c].
Proof.
  intros Hc. induction l as [|x l [l' IH]]; cbn [app drop_while].
  - rewrite Hc. now exists [].
  - destruct (p x); [now exists l' | now exists (x :: l)].
Qed.
Lemma nostart_trim p a : nostart p a -> nostart p (rev (drop_while p (rev a))).
Proof.
  destruct a as [|c a]; [intros _; exact I|]. cbn [nostart]. intros Hc. cbn [rev].
  destruct (drop_while_snoc p (rev a) c Hc) as [l' ->]. rewrite rev_app_distr. cbn [rev app]. exact Hc.
Qed.
Lemma trim_space_idem s : RouteText.trim_space (RouteText.trim_space s) = RouteText.trim_space s.
Proof.
  unfold RouteText.trim_space.
  rewrite (drop_nostart go_space (rev (drop_while go_space (rev (drop_while go_space s)))))
    by (apply nostart_trim, nostart_drop).
  now rewrite rev_involutive, drop_while_idem.
Qed.

(* ================= every routing tag yields exactly one command ================= *)
Lemma parse_tag_some env prefix t :
  has_prefix (RouteText.trim_space t) prefix = true -> exists ro, parse_url_prefix_tag env prefix t = Some ro.
Proof.
  intros H. unfold parse_url_prefix_tag. rewrite H. cbn [negb].
  destruct (index_byte _ 32) as [i|].
  - destruct (firstn i _) as [|c r]; [|destruct (c =? 58) eqn:E].
    all: repeat match goal with |- context [match ?x with _ => _ end] => destruct x end; eauto.
  - repeat match goal with |- context [match ?x with _ => _ end] => destruct x end; eauto.
Qed.

Lemma intent_of_tag_single env prefix g t :
  In t (RouteCmd.route_tags prefix g) -> exists i, intent_of_tag env prefix g t = [i].
Proof.
  intros Hin. unfold RouteCmd.route_tags in Hin. apply filter_In in Hin as [Hin Hp].
  apply in_map_iff in Hin as [raw [<- _]].
  assert (has_prefix (RouteText.trim_space (RouteText.trim_space raw)) prefix = true) as H
    by now rewrite trim_space_idem.
  destruct (parse_tag_some env prefix _ H) as [[route opts] E]. unfold intent_of_tag. rewrite E.
  destruct (fold_left _ _ _) as [[dst w] ro]. eauto.
Qed.
Lemma flat_map_single_length {A B} (f : A -> list B) l :
  (forall x, In x l -> exists y, f x = [y]) -> length (flat_map f l) = length l.
Proof.
  induction l as [|x l IH]; intros H; cbn [flat_map length]; [reflexivity|].
  destruct (H x (or_introl eq_refl)) as [y ->]. cbn [app length]. f_equal. apply IH. intros z Hz. apply H. now right.
Qed.
Lemma intents_length env prefix g : length (intents env prefix g) = length (RouteCmd.route_tags prefix g).
Proof. unfold intents. apply flat_map_single_length. intros t Ht. now apply intent_of_tag_single. Qed.

Section Compose.
  Variable pw : str -> outcome wt.
  Variable canon : str -> option str.
  Variable gl : str -> bool.
  Variable env : env_t.
  Variable prefix : str.

  Notation centry_of := (centry_of pw canon gl env prefix).
  Notation catalog_of := (catalog_of pw canon gl env prefix).
  Notation render := render_intent.
  Notation valid := (validate_intent pw canon gl).
  Notation bld := (table_builder pw canon gl).

  Lemma filter_map_comm {A B} (p : B -> bool) (f : A -> B) l :
    filter p (map f l) = map f (filter (fun x => p (f x)) l).
  Proof.
    induction l as [|x l IH]; cbn [map filter]; [reflexivity|]. destruct (p (f x)); cbn [map]; now rewrite IH.
  Qed.

  Lemma filter_len_le {A} (p : A -> bool) l : (length (filter p l) <= length l)%nat.
  Proof. induction l as [|x l IH]; cbn [filter length]; [lia|]. destruct (p x); cbn [length]; lia. Qed.

  (* the intents of an entry whose command build keeps (it validates, /repo d16ce3d) *)
  Definition vintents (g : reg) : list intent := filter valid (intents env prefix g).

  Lemma build_vintents g : RouteCmd.build pw canon gl env prefix g = map render (vintents g).
  Proof. reflexivity. Qed.

  (* a validated intent's command is, in particular, accepted by NewTable on its own *)
  Lemma validate_intent_validate i : validate_intent pw canon gl i = true -> validate pw canon gl (render i) = true.
  Proof.
    unfold validate_intent, validate_cmd, validate. intros H.
    repeat (apply andb_true_iff in H as [H ?]). apply andb_true_iff. split; assumption.
  Qed.

  (* (1) the commands Model/Consul.v's config generation takes for an entry are C14's [build]
     of that entry; the model's own consistency check (at most one command per routing tag)
     never fires *)
  Lemma entry_cmds_build r : entry_cmds prefix (centry_of r) = Ok (RouteCmd.build pw canon gl env prefix (r_reg r)).
  Proof.
    unfold entry_cmds, RegistryTable.centry_of. cbn [e_cmds e_tags].
    assert (length (RouteCmd.build pw canon gl env prefix (r_reg r))
            <= length (Consul.route_tags prefix (g_tags (r_reg r))))%nat as H.
    { rewrite route_tags_agree, <- (intents_length env). unfold RouteCmd.build.
      rewrite map_length. apply filter_len_le. }
    apply PeanoNat.Nat.leb_le in H. now rewrite H.
  Qed.

  Lemma service_entries_struct keys rs :
    service_entries prefix keys (map centry_of rs) =
    Ok (flat_map (fun r => RouteCmd.build pw canon gl env prefix (r_reg r))
                 (filter (fun r => existsb (key_eqb (inst_key (r_node r) (g_id (r_reg r)))) keys) rs)).
  Proof.
    induction rs as [|r rs IH]; cbn [map service_entries filter flat_map]; [reflexivity|].
    rewrite IH. cbn [bind]. change (e_node (centry_of r)) with (r_node r). change (e_sid (centry_of r)) with (g_id (r_reg r)).
    destruct (existsb (key_eqb (inst_key (r_node r) (g_id (r_reg r)))) keys); [|reflexivity].
    rewrite entry_cmds_build. reflexivity.
  Qed.

  Lemma all_configs_struct rcat m :
    all_configs prefix (catalog_of rcat) m =
    Ok (flat_map (fun r => RouteCmd.build pw canon gl env prefix (r_reg r)) (selected rcat m)).
  Proof.
    induction m as [|[name keys] m IH]; cbn [all_configs selected flat_map]; [reflexivity|].
    fold (selected rcat m). rewrite IH. unfold service_config.
    destruct (beq name [] || match keys with [] => true | _ :: _ => false end) eqn:E.
    - reflexivity.
    - unfold catalog_service, RegistryTable.catalog_of. rewrite filter_map_comm.
      change (fun x => beq (e_sname (centry_of x)) name) with (fun x => beq (g_name (r_reg x)) name).
      rewrite service_entries_struct. cbn [bind]. now rewrite flat_map_app.
  Qed.

  (* the lines of the pushed config are, in order, C14's rendered commands of the validated
     intents of the selected entries *)
  Theorem config_lines_struct rcat passing :
    config_lines prefix (catalog_of rcat) passing =
    Ok (map render (flat_map (fun r => vintents (r_reg r)) (selected rcat (group passing)))).
  Proof.
    unfold config_lines. rewrite all_configs_struct. f_equal.
    rewrite (map_flat_map render (fun r => vintents (r_reg r))).
    apply flat_map_ext. intros r. apply build_vintents.
  Qed.

  (* which entries are selected: those matching, by service name and key, a check in [passing] *)
  Lemma selected_iff rcat passing r :
    In r (selected rcat (group passing)) <->
    In r rcat /\ g_name (r_reg r) <> [] /\
    exists svc, In svc passing /\ c_sname svc = g_name (r_reg r)
                /\ inst_key (c_node svc) (c_sid svc) = inst_key (r_node r) (g_id (r_reg r)).
  Proof.
    unfold selected. rewrite in_flat_map. split.
    - intros [[name keys] [Hm Hr]].
      destruct (beq name []) eqn:En; cbn [orb] in Hr; [destruct Hr|].
      destruct keys as [|k0 keys]; [destruct Hr|].
      apply filter_In in Hr as [Hr Hk]. apply filter_In in Hr as [Hr Hn]. apply beq_eq in Hn.
      apply existsb_exists in Hk as [k [Hk Hb]]. apply key_eqb_eq in Hb. subst k.
      split; [exact Hr|]. split; [rewrite Hn; now apply beq_neq|].
      unfold group in Hm. destruct (group_sound _ _ _ _ _ Hm Hk) as [[ks0 [[] _]]|[svc [Hs [Hsn Hkey]]]].
      exists svc. split; [exact Hs|]. split; congruence.
    - intros [Hr [Hne [svc [Hs [Hn Hk]]]]].
      destruct (group_complete passing [] svc Hs) as [ks [Hin Hkin]].
      exists (c_sname svc, ks). split; [exact Hin|].
      rewrite Hn. destruct (beq (g_name (r_reg r)) []) eqn:En; [apply beq_eq in En; contradiction|]. cbn [orb].
      destruct ks as [|k0 ks]; [destruct Hkin|].
      apply filter_In. split; [apply filter_In; split; [exact Hr | apply beq_refl]|].
      apply existsb_exists. exists (inst_key (c_node svc) (c_sid svc)). split; [exact Hkin|]. rewrite Hk. apply key_eqb_refl.
  Qed.

  (* an intent stems from a tag that, trimmed, carries the prefix *)
  Lemma intent_tagged g i : In i (intents env prefix g) ->
    existsb (fun t => has_prefix (Consul.trim_space t) prefix) (g_tags g) = true.
  Proof.
    unfold intents. intros H. apply in_flat_map in H as [t [Ht _]].
    unfold RouteCmd.route_tags in Ht. apply filter_In in Ht as [Ht Hp]. apply in_map_iff in Ht as [raw [<- Hraw]].
    apply existsb_exists. exists raw. split; [exact Hraw|]. now rewrite trim_space_agree.
  Qed.

  Lemma intent_svc_tags g i : In i (intents env prefix g) -> i_svc i = g_name g /\ i_tags i = svc_tags prefix g.
  Proof.
    unfold intents. intros Hi. apply in_flat_map in Hi as (tag & _ & Hi). unfold intent_of_tag in Hi.
    destruct (parse_url_prefix_tag env prefix tag) as [[r o]|]; [|destruct Hi].
    destruct (fold_left _ _ _) as [[dst w] ro]. destruct Hi as [<-|[]]. split; reflexivity.
  Qed.

  (* ================= text -> table, with a manual part on top ================= *)
  Lemma split_byte_nonempty s c : exists w ws, split_byte s c = w :: ws.
  Proof.
    induction s as [|x s [w [ws IH]]]; cbn [split_byte]; [eauto|].
    destruct (x =? c); [eauto|]. rewrite IH. eauto.
  Qed.
  Lemma split_byte_app_sep a b c : split_byte (a ++ c :: b) c = split_byte a c ++ split_byte b c.
  Proof.
    induction a as [|x a IH]; cbn [app split_byte].
    - now rewrite N.eqb_refl.
    - destruct (x =? c); [now rewrite IH|]. rewrite IH.
      destruct (split_byte_nonempty a c) as [w [ws ->]]. reflexivity.
  Qed.

  Lemma parse_good_lines (ls : list str) :
    Forall (good_line pw canon gl) ls ->
    parse pw (config_text ls) = Ok (flat_map (fun l => olist (ldef pw l)) ls).
  Proof.
    intros Hall. rewrite Forall_forall in Hall.
    destruct ls as [|l0 ls0] eqn:Els; [reflexivity|]. rewrite <- Els in *.
    unfold parse, config_text. rewrite split_join.
    - apply parse_lines_each. intros l Hl. destruct (Hall l Hl) as (_ & Hcr & d & Hd & _).
      rewrite drop_cr_lacks by assumption. unfold ldef. now rewrite Hd.
    - rewrite Els. discriminate.
    - apply forallb_forall. intros l Hl. now destruct (Hall l Hl).
  Qed.

  (* the combined text of watchBackend: lines each of which is an acceptable 'route add' on its
     own, newline, manual text whose commands are all acceptable 'route add's.  The table holds
     the targets of the lines and of the manual commands and nothing else. *)
  Theorem table_with_manual (ls : list str) (m : str) (dm : list def) :
    Forall (good_line pw canon gl) ls ->
    parse pw m = Ok dm -> Forall (addable canon gl) dm ->
    exists t, new_table pw canon gl (next_text (config_text ls) m) = Ok t
      /\ (forall l d, In l ls -> parse_line pw l = Ok (Some d) -> def_target canon t d)
      /\ (forall d, In d dm -> def_target canon t d)
      /\ (forall x, In x (flat t) ->
             (exists l d url, In l ls /\ parse_line pw l = Ok (Some d) /\ canon (d_dst d) = Some url /\ x = trip d url)
             \/ (exists d url, In d dm /\ canon (d_dst d) = Some url /\ x = trip d url)).
  Proof.
    intros Hall Hm Hadd_m. pose proof (parse_good_lines ls Hall) as Hs.
    rewrite Forall_forall in Hall.
    set (ds := flat_map (fun l => olist (ldef pw l)) ls) in *.
    assert (parse pw (next_text (config_text ls) m) = Ok (ds ++ dm)) as Hparse.
    { unfold parse, next_text in *. rewrite split_byte_app_sep. now apply parse_lines_app. }
    assert (Forall (addable canon gl) ds) as Hadd_s.
    { apply Forall_forall. intros d Hd. apply in_flat_map in Hd as (l & Hl & Hd).
      destruct (Hall l Hl) as (_ & _ & d' & Hd' & Ha). unfold ldef in Hd. rewrite Hd' in Hd.
      destruct Hd as [<-|[]]. exact Ha. }
    assert (Forall (addable canon gl) (ds ++ dm)) as Hadd by (apply Forall_app; now split).
    destruct (run_from_adds canon gl _ [] Hadd) as (t0 & Hrun & _ & Hin & Horig).
    exists (sort_table t0). unfold new_table. rewrite Hparse. cbn [bind]. unfold TableCmd.run. rewrite Hrun. cbn [bind].
    split; [reflexivity|]. split; [|split].
    - intros l d Hl Hd.
      assert (In d (ds ++ dm)) as Hdin.
      { apply in_or_app. left. apply in_flat_map. exists l. split; auto. unfold ldef. rewrite Hd. now left. }
      destruct (Hin d Hdin) as (url & tg & Hu & Htg & Hsame). exists url, tg.
      split; [exact Hu|]. split; [now apply (proj2 (in_flat_sort _ _)) | exact Hsame].
    - intros d Hd. destruct (Hin d (in_or_app _ _ _ (or_intror Hd))) as (url & tg & Hu & Htg & Hsame).
      exists url, tg. split; [exact Hu|]. split; [now apply (proj2 (in_flat_sort _ _)) | exact Hsame].
    - intros x Hx. apply (proj1 (in_flat_sort _ _)) in Hx.
      destruct (Horig x Hx) as [[]|(d & url & Hd & Hu & ->)].
      apply in_app_or in Hd as [Hd|Hd]; [left | right; eauto].
      apply in_flat_map in Hd as (l & Hl & Hd). unfold ldef in Hd.
      destruct (parse_line pw l) as [[d'|]| |] eqn:E; cbn [olist In] in Hd; try contradiction.
      destruct Hd as [<-|[]]. exists l, d', url. auto.
  Qed.

  (* ---- ANY manual text (add, del, weight) on top of the service routes ---- *)
  Lemma parse_lines_ok_app_r a b : is_ok (parse_lines pw (a ++ b)) = true -> exists db, parse_lines pw b = Ok db.
  Proof.
    rewrite parse_lines_independent, forallb_app. intros H. apply andb_true_iff in H as [_ H].
    rewrite <- parse_lines_independent in H. destruct (parse_lines pw b) as [db| |]; [eauto | discriminate | discriminate].
  Qed.

  Lemma core_trip d url : core (trip d url) = add_core d url.
  Proof. reflexivity. Qed.

  (* the operator's commands are applied, in order, to the table of the service routes *)
  Theorem manual_on_top (ls : list str) (m : str) (dm : list def) :
    Forall (good_line pw canon gl) ls -> parse pw m = Ok dm ->
    exists t0, TableCmd.run canon gl (flat_map (fun l => olist (ldef pw l)) ls) = Ok t0
      /\ new_table pw canon gl (config_text ls) = Ok (sort_table t0)
      /\ new_table pw canon gl (next_text (config_text ls) m)
         = (do t <- run_from canon gl t0 dm; Ok (sort_table t))%outcome
      /\ (forall x, In x (flat t0) -> exists l d url, In l ls /\ parse_line pw l = Ok (Some d)
                                                   /\ canon (d_dst d) = Some url /\ x = trip d url).
  Proof.
    intros Hall Hm. pose proof (parse_good_lines ls Hall) as Hs. rewrite Forall_forall in Hall.
    set (ds := flat_map (fun l => olist (ldef pw l)) ls) in *.
    assert (Forall (addable canon gl) ds) as Hadd_s.
    { apply Forall_forall. intros d Hd. apply in_flat_map in Hd as (l & Hl & Hd).
      destruct (Hall l Hl) as (_ & _ & d' & Hd' & Ha). unfold ldef in Hd. rewrite Hd' in Hd.
      destruct Hd as [<-|[]]. exact Ha. }
    destruct (run_from_adds canon gl _ [] Hadd_s) as (t0 & Hrun & _ & _ & Horig).
    exists t0. split; [exact Hrun|]. split; [|split].
    - unfold new_table. rewrite Hs. cbn [bind]. unfold TableCmd.run. rewrite Hrun. reflexivity.
    - assert (parse pw (next_text (config_text ls) m) = Ok (ds ++ dm)) as Hparse.
      { unfold parse, next_text in *. rewrite split_byte_app_sep. now apply parse_lines_app. }
      unfold new_table. rewrite Hparse. cbn [bind]. unfold TableCmd.run in *. rewrite run_from_app, Hrun. cbn [bind].
      destruct (run_from canon gl t0 dm); reflexivity.
    - intros x Hx. destruct (Horig x Hx) as [[]|(d & url & Hd & Hu & ->)].
      apply in_flat_map in Hd as (l & Hl & Hd). unfold ldef in Hd.
      destruct (parse_line pw l) as [[d'|]| |] eqn:E; cbn [olist In] in Hd; try contradiction.
      destruct Hd as [<-|[]]. exists l, d', url. auto.
  Qed.

  (* sorting the generated lines only permutes the intents *)
  Lemma insert_desc_map {A} (f : A -> str) x ys :
    exists zs, Consul.insert_desc (f x) (map f ys) = map f zs /\ forall z, In z zs <-> z = x \/ In z ys.
  Proof.
    induction ys as [|y ys (zs & E & H)]; cbn [map Consul.insert_desc].
    - exists [x]. split; [reflexivity|]. intros z. cbn [In]. intuition auto.
    - destruct (str_ltb (f x) (f y)).
      + exists (y :: zs). rewrite E. split; [reflexivity|]. intros z. cbn [In]. rewrite H. intuition auto.
      + exists (x :: y :: ys). split; [reflexivity|]. intros z. cbn [In]. intuition auto.
  Qed.
  Lemma sort_desc_map {A} (f : A -> str) xs :
    exists ys, Consul.sort_desc (map f xs) = map f ys /\ forall x, In x ys <-> In x xs.
  Proof.
    unfold Consul.sort_desc. induction xs as [|x xs (ys & E & H)]; cbn [map fold_right].
    - exists []. split; reflexivity.
    - rewrite E. destruct (insert_desc_map f x ys) as (zs & E' & H'). exists zs. split; [exact E'|].
      intros z. rewrite H'. cbn [In]. rewrite H. intuition auto.
  Qed.

  (* ================= the headline: registry state -> table, for ALL catalogs ================= *)
  Section Headline.
    Variable status : list str.
    Variable strict : bool.
    Variable checks : list hcheck.
    Variable rcat : list rentry.
    Hypothesis Hcons : consistent checks rcat.

    Let passing := watch_passing prefix status strict checks.

    Lemma own_tagged r i : In r rcat -> In i (intents env prefix (r_reg r)) ->
      forall c, In c checks -> own (r_node r) (g_id (r_reg r)) c -> tagged prefix c = true.
    Proof.
      intros Hr Hi c Hc [Hn Hs]. unfold tagged. rewrite (Hcons c r Hc Hr Hn Hs). exact (intent_tagged _ _ Hi).
    Qed.

    (* selected entries that advertise something are exactly the healthy advertising instances *)
    Lemma selected_healthy r i : In i (intents env prefix (r_reg r)) ->
      (In r (selected rcat (group passing)) <->
       In r rcat /\ g_name (r_reg r) <> [] /\ inst_healthy status strict checks r).
    Proof.
      intros Hi. rewrite selected_iff. split.
      - intros [Hr [Hne [svc [Hs [Hn Hk]]]]]. split; [exact Hr|]. split; [exact Hne|].
        assert (In svc checks) as Hc.
        { unfold passing, watch_passing in Hs. apply passing_iff_healthy in Hs as [Hs _].
          unfold checks_with_tag_prefix in Hs. now apply filter_In in Hs. }
        destruct (inst_key_injective _ _ _ _ Hk) as [En Es].
        assert (forall c, In c checks -> own (c_node svc) (c_sid svc) c -> tagged prefix c = true) as Hown
          by (rewrite En, Es; exact (own_tagged r i Hr Hi)).
        apply (watch_passing_iff prefix checks status strict svc Hown) in Hs as [_ [Hsvc Hh]].
        split; [exists svc; repeat split; assumption | now rewrite <- En, <- Es].
      - intros [Hr [Hne [[svc [Hc [Hsvc [Hn [Hon Hos]]]]] Hh]]]. split; [exact Hr|]. split; [exact Hne|].
        exists svc. split; [|split; [exact Hn | now rewrite Hon, Hos]].
        apply watch_passing_iff; rewrite Hon, Hos; [exact (own_tagged r i Hr Hi)|].
        split; [exact Hc|]. split; [exact Hsvc | exact Hh].
    Qed.

    (* "healthy, named, advertising the prefix, and the command validates" *)
    Definition routed_intent (i : intent) : Prop :=
      exists r, In r rcat /\ g_name (r_reg r) <> [] /\ inst_healthy status strict checks r
                /\ advertises_intent env prefix r i /\ emitted pw canon gl i.

    (* the pushed text is the rendering of exactly the routed intents *)
    Lemma registry_intents :
      exists is1, registry_config pw canon gl env prefix status strict checks rcat = Ok (config_text (map render is1))
                  /\ Forall (good_line pw canon gl) (map render is1)
                  /\ forall i, In i is1 <-> routed_intent i.
    Proof.
      unfold registry_config, svc_config, make_config. rewrite config_lines_struct. cbn [bind].
      set (is0 := flat_map (fun r => vintents (r_reg r))
                           (selected rcat (group (watch_passing prefix status strict checks)))).
      destruct (sort_desc_map render is0) as (is1 & E & Hperm). exists is1. rewrite E.
      split; [reflexivity|].
      assert (forall i, In i is0 <-> routed_intent i) as Hchar.
      { intros i. unfold is0. rewrite in_flat_map. split.
        - intros [r [Hsel Hi]]. unfold vintents in Hi. apply filter_In in Hi as [Hi Hv].
          apply (selected_healthy r i Hi) in Hsel as [Hr [Hne Hh]]. exists r.
          split; [exact Hr|]. split; [exact Hne|]. split; [exact Hh|]. split; [exact Hi | exact Hv].
        - intros [r [Hr [Hne [Hh [Hi Hv]]]]]. exists r. split.
          + apply (selected_healthy r i Hi). split; [exact Hr|]. split; [exact Hne | exact Hh].
          + unfold vintents. apply filter_In. split; [exact Hi | exact Hv]. }
      split.
      - apply Forall_forall. intros l Hl. apply in_map_iff in Hl as [i [<- Hi]].
        apply Hperm, Hchar in Hi as [r [_ [_ [_ [_ Hv]]]]]. now apply validate_good_line, validate_intent_validate.
      - intros i. rewrite Hperm. apply Hchar.
    Qed.

    (* what the table of a registry state (plus manual 'route add' definitions [dm]) holds *)
    Definition table_holds (dm : list def) (t : table) : Prop :=
      (* every healthy instance has the target of every advertised prefix whose command validates *)
      (forall i, routed_intent i -> exists d, parse_line pw (render i) = Ok (Some d) /\ def_target canon t d)
      (* for an expressible intent that is the target the registration stands for *)
      /\ (forall r i, In r rcat -> inst_healthy status strict checks r -> advertises_intent env prefix r i ->
                      intent_expressible pw canon gl i = true -> has_target pw canon prefix t r i)
      (* every manual command has its target *)
      /\ (forall d, In d dm -> def_target canon t d)
      (* and the table holds nothing else *)
      /\ (forall x, In x (flat t) ->
             (exists i d url, routed_intent i /\ parse_line pw (render i) = Ok (Some d)
                              /\ canon (d_dst d) = Some url /\ x = trip d url)
             \/ (exists d url, In d dm /\ canon (d_dst d) = Some url /\ x = trip d url)).

    Lemma table_holds_unfold dm t :
      table_holds dm t <->
      (forall i, routed_intent i -> exists d, parse_line pw (render i) = Ok (Some d) /\ def_target canon t d)
      /\ (forall r i, In r rcat -> inst_healthy status strict checks r -> advertises_intent env prefix r i ->
                      intent_expressible pw canon gl i = true -> has_target pw canon prefix t r i)
      /\ (forall d, In d dm -> def_target canon t d)
      /\ (forall x, In x (flat t) ->
             (exists i d url, routed_intent i /\ parse_line pw (render i) = Ok (Some d)
                              /\ canon (d_dst d) = Some url /\ x = trip d url)
             \/ (exists d url, In d dm /\ canon (d_dst d) = Some url /\ x = trip d url)).
    Proof. reflexivity. Qed.
    Lemma routed_intent_unfold i :
      routed_intent i <->
      exists r, In r rcat /\ g_name (r_reg r) <> [] /\ inst_healthy status strict checks r
                /\ advertises_intent env prefix r i /\ emitted pw canon gl i.
    Proof. reflexivity. Qed.

    Lemma expressible_routed r i : In r rcat -> inst_healthy status strict checks r ->
      advertises_intent env prefix r i -> intent_expressible pw canon gl i = true -> routed_intent i.
    Proof.
      intros Hr Hh Hi He. exists r. split; [exact Hr|]. split; [|split; [exact Hh|split; [exact Hi|]]].
      - destruct (expr_inv pw canon gl i He) as (Hs & _).
        destruct (intent_svc_tags _ _ Hi) as [Hn _]. rewrite Hn in Hs. intros E0. rewrite E0 in Hs. discriminate.
      - exact (expressible_validates_intent pw canon gl i He).
    Qed.

    (* C01, all layers, ALL catalogs, with the operator's 'route add' commands on top *)
    Theorem svc_table_with_manual m dm :
      parse pw m = Ok dm -> Forall (addable canon gl) dm ->
      exists text t,
        registry_config pw canon gl env prefix status strict checks rcat = Ok text
        /\ new_table pw canon gl (next_text text m) = Ok t /\ table_holds dm t.
    Proof.
      intros Hm Hadd. destruct registry_intents as (is1 & Htext & Hgood & Hchar).
      destruct (table_with_manual (map render is1) m dm Hgood Hm Hadd) as (t & Ht & Hin & Hman & Horig).
      exists (config_text (map render is1)), t. split; [exact Htext|]. split; [exact Ht|].
      assert (forall i, routed_intent i -> exists d, parse_line pw (render i) = Ok (Some d) /\ def_target canon t d) as H1.
      { intros i Hi. pose proof Hi as [r [_ [_ [_ [_ Hv]]]]].
        destruct (validate_good_line pw canon gl i (validate_intent_validate i Hv)) as (_ & _ & d & Hd & _). exists d. split; [exact Hd|].
        apply (Hin (render i) d); [|exact Hd]. apply in_map. now apply Hchar. }
      split; [exact H1|]. split; [|split; [exact Hman|]].
      - intros r i Hr Hh Hi He. destruct (H1 i (expressible_routed r i Hr Hh Hi He)) as [d [Hd (url & tg & Hu & Htg & Hs)]].
        destruct (render_parse_line pw canon gl i He) as (d' & Hd' & Hp & _). rewrite Hp in Hd. inversion Hd; subst d'.
        destruct (intent_def_fields pw i d Hd') as (_ & F1 & F2 & F3 & F4 & _). rewrite F1, F2, F3, F4 in *.
        destruct (intent_svc_tags _ _ Hi) as [Hn Htags]. rewrite Hn, Htags in Hs.
        exists d, url, tg. split; [exact Hd'|]. split; [exact Hu|]. split; [exact Htg | exact Hs].
      - intros x Hx. destruct (Horig x Hx) as [(l & d & url & Hl & Hd & Hu & E)|R]; [left | now right].
        apply in_map_iff in Hl as [i [<- Hi]]. exists i, d, url.
        split; [now apply Hchar|]. split; [exact Hd|]. split; [exact Hu | exact E].
    Qed.

    Lemma parse_empty : parse pw [] = Ok [].
    Proof. reflexivity. Qed.

    (* C01_svc_table_iff: the table of the pushed config itself *)
    Theorem svc_table_iff :
      exists text t,
        registry_config pw canon gl env prefix status strict checks rcat = Ok text
        /\ new_table pw canon gl text = Ok t /\ table_holds [] t.
    Proof.
      destruct registry_intents as (is1 & Htext & Hgood & Hchar).
      destruct (lines_table pw canon gl (map render is1) Hgood) as (t & Ht & Hin & Horig).
      exists (config_text (map render is1)), t. split; [exact Htext|]. split; [exact Ht|].
      assert (forall i, routed_intent i -> exists d, parse_line pw (render i) = Ok (Some d) /\ def_target canon t d) as H1.
      { intros i Hi. pose proof Hi as [r [_ [_ [_ [_ Hv]]]]].
        destruct (validate_good_line pw canon gl i (validate_intent_validate i Hv)) as (_ & _ & d & Hd & _). exists d. split; [exact Hd|].
        apply (Hin (render i) d); [|exact Hd]. apply in_map. now apply Hchar. }
      split; [exact H1|]. split; [|split; [intros d []|]].
      - intros r i Hr Hh Hi He. destruct (H1 i (expressible_routed r i Hr Hh Hi He)) as [d [Hd (url & tg & Hu & Htg & Hs)]].
        destruct (render_parse_line pw canon gl i He) as (d' & Hd' & Hp & _). rewrite Hp in Hd. inversion Hd; subst d'.
        destruct (intent_def_fields pw i d Hd') as (_ & F1 & F2 & F3 & F4 & _). rewrite F1, F2, F3, F4 in *.
        destruct (intent_svc_tags _ _ Hi) as [Hn Htags]. rewrite Hn, Htags in Hs.
        exists d, url, tg. split; [exact Hd'|]. split; [exact Hu|]. split; [exact Htg | exact Hs].
      - intros x Hx. destruct (Horig x Hx) as (l & d & url & Hl & Hd & Hu & E). left.
        apply in_map_iff in Hl as [i [<- Hi]]. exists i, d, url.
        split; [now apply Hchar|]. split; [exact Hd|]. split; [exact Hu | exact E].
    Qed.

    (* ================= the ACTIVE table of the watch loop ================= *)
    (* After ANY history of deliveries whose last service text is the config of the registry
       state (checks, rcat) and whose last manual text [m] consists of acceptable 'route add'
       commands, the active table holds exactly the routed intents' and the manual targets. *)
    Theorem active_table_with_manual (w : wstate table) h e m dm :
      inv table bld w ->
      registry_config pw canon gl env prefix status strict checks rcat = Ok (last_svc (h ++ [e]) (w_svc w)) ->
      last_man (h ++ [e]) (w_man w) = m ->
      parse pw m = Ok dm -> Forall (addable canon gl) dm ->
      table_holds dm (w_active (Watch.run table bld w (h ++ [e]))).
    Proof.
      intros Hw Hsvc Hman Hm Hadd.
      destruct (svc_table_with_manual m dm Hm Hadd) as (text & t0 & Htext & Ht & Hholds).
      rewrite Htext in Hsvc. inversion Hsvc as [Etext].
      assert (bld (next_text (last_svc (h ++ [e]) (w_svc w)) (last_man (h ++ [e]) (w_man w))) = Some t0) as Hb
        by (rewrite <- Etext, Hman; unfold table_builder; now rewrite Ht).
      destruct (watch_quiescent table bld w h e t0 Hw Hb) as [Ha _]. now rewrite Ha.
    Qed.

    Theorem active_table_iff (w : wstate table) h e :
      inv table bld w ->
      registry_config pw canon gl env prefix status strict checks rcat = Ok (last_svc (h ++ [e]) (w_svc w)) ->
      last_man (h ++ [e]) (w_man w) = [] ->
      table_holds [] (w_active (Watch.run table bld w (h ++ [e]))).
    Proof.
      intros Hw Hsvc Hman. exact (active_table_with_manual w h e [] [] Hw Hsvc Hman parse_empty (Forall_nil _)).
    Qed.

    (* An instance that has become unhealthy is absent from every table installed after that
       state was observed: from the delivery of the state's config on, until a newer service
       config arrives, every installed table is NewTable of that config plus some manual text,
       and - when that manual text consists of acceptable 'route add' commands - it holds
       exactly the routed intents' and the manual targets. *)
    Theorem unhealthy_absent_table (w : wstate table) text h1 h2 tt :
      registry_config pw canon gl env prefix status strict checks rcat = Ok text ->
      forallb is_man h2 = true ->
      In tt (installs table bld w (h1 ++ Svc text :: h2)) ->
      In tt (installs table bld w h1) \/
      exists m T, tt = next_text text m /\ new_table pw canon gl tt = Ok T /\
        forall dm, parse pw m = Ok dm -> Forall (addable canon gl) dm -> table_holds dm T.
    Proof.
      intros Htext Hman Hin. rewrite installs_app in Hin. apply in_app_or in Hin as [Hin|Hin]; [now left|]. right.
      destruct (installs_after_svc table bld _ _ _ Hman tt Hin) as [m [Ett Hb]].
      unfold table_builder in Hb. destruct (new_table pw canon gl tt) as [T| |] eqn:ET; try congruence.
      exists m, T. split; [exact Ett|]. split; [reflexivity|].
      intros dm Hm Hadd. destruct (svc_table_with_manual m dm Hm Hadd) as (text' & t0 & Htext' & Ht & Hholds).
      rewrite Htext in Htext'. inversion Htext' as [E]. rewrite <- E, <- Ett, ET in Ht. now inversion Ht.
    Qed.
    (* ---- ANY manual text: where the targets of the table come from ---- *)
    (* apart from weight and options a target is that of a routed intent of the state, or that
       of a 'route add' of the manual text *)
    Definition allowed_core (dm : list def) (c : tcore) : Prop :=
      (exists i d url, routed_intent i /\ parse_line pw (render i) = Ok (Some d)
                       /\ canon (d_dst d) = Some url /\ c = add_core d url)
      \/ (exists d url, In d dm /\ d_cmd d = CmdAdd /\ canon (d_dst d) = Some url /\ c = add_core d url).

    Lemma allowed_core_unfold dm c :
      allowed_core dm c <->
      (exists i d url, routed_intent i /\ parse_line pw (render i) = Ok (Some d)
                       /\ canon (d_dst d) = Some url /\ c = add_core d url)
      \/ (exists d url, In d dm /\ d_cmd d = CmdAdd /\ canon (d_dst d) = Some url /\ c = add_core d url).
    Proof. reflexivity. Qed.

    (* C01 for ANY manual text the parser accepts (route add / del / weight in any mix): the
       table is the operator's commands applied in order to the table of the service routes,
       and none of its targets belongs to anything but a routed intent of the state or a manual
       'route add' - del and weight bring nothing in.  In particular an instance that is
       unhealthy in the state has no target of its own, whatever the manual text. *)
    Theorem svc_table_any_manual m T :
      forall text, registry_config pw canon gl env prefix status strict checks rcat = Ok text ->
      new_table pw canon gl (next_text text m) = Ok T ->
      exists dm t0, parse pw m = Ok dm
        /\ new_table pw canon gl text = Ok (sort_table t0)
        /\ (do t <- run_from canon gl t0 dm; Ok (sort_table t))%outcome = Ok T
        /\ forall x, In x (flat T) -> allowed_core dm (core x).
    Proof.
      intros text Htext HT. destruct registry_intents as (is1 & Htext' & Hgood & Hchar).
      rewrite Htext in Htext'. inversion Htext' as [E]. subst text.
      assert (exists dm, parse pw m = Ok dm) as [dm Hm].
      { unfold new_table in HT. destruct (parse pw (next_text (config_text (map render is1)) m)) as [dall| |] eqn:Ep;
          cbn [bind] in HT; try discriminate.
        unfold parse, next_text in Ep. rewrite split_byte_app_sep in Ep.
        apply (parse_lines_ok_app_r (split_byte (config_text (map render is1)) 10)). now rewrite Ep. }
      destruct (manual_on_top (map render is1) m dm Hgood Hm) as (t0 & Hrun & Ht0 & Hcomb & Horig).
      exists dm, t0. split; [exact Hm|]. split; [exact Ht0|]. rewrite <- Hcomb. split; [exact HT|].
      rewrite Hcomb in HT. destruct (run_from canon gl t0 dm) as [t1| |] eqn:Er; cbn [bind] in HT; try discriminate.
      inversion HT; subst T. intros x Hx. apply (proj1 (in_flat_sort _ _)) in Hx.
      apply (run_from_origin canon gl (allowed_core dm) dm t0 t1); [| | |exact Er|exact Hx].
      - unfold TableCmd.run in Hrun. eapply run_from_inv; [apply inv_nil | exact Hrun].
      - intros y Hy. destruct (Horig y Hy) as (l & d & url & Hl & Hd & Hu & ->). left.
        apply in_map_iff in Hl as [i [<- Hi]]. exists i, d, url. split; [now apply Hchar|]. split; [exact Hd|]. split; [exact Hu | apply core_trip].
      - intros d url Hd Hc Hu. right. exists d, url. repeat split; assumption.
    Qed.

    (* ... so: from the delivery of the state's config on, until a newer service config arrives,
       EVERY installed table - whatever the manual deliveries say - has only targets of routed
       intents of that state and of manual 'route add's *)
    Theorem unhealthy_absent_any_manual (w : wstate table) text h1 h2 tt :
      registry_config pw canon gl env prefix status strict checks rcat = Ok text ->
      forallb is_man h2 = true ->
      In tt (installs table bld w (h1 ++ Svc text :: h2)) ->
      In tt (installs table bld w h1) \/
      exists m dm T, tt = next_text text m /\ parse pw m = Ok dm /\ new_table pw canon gl tt = Ok T /\
                     forall x, In x (flat T) -> allowed_core dm (core x).
    Proof.
      intros Htext Hman Hin. rewrite installs_app in Hin. apply in_app_or in Hin as [Hin|Hin]; [now left|]. right.
      destruct (installs_after_svc table bld _ _ _ Hman tt Hin) as [m [Ett Hb]].
      unfold table_builder in Hb. destruct (new_table pw canon gl tt) as [T| |] eqn:ET; try congruence.
      subst tt. destruct (svc_table_any_manual m T text Htext ET) as (dm & t0 & Hm & _ & _ & Hall).
      exists m, dm, T. split; [reflexivity|]. split; [exact Hm|]. split; [reflexivity | exact Hall].
    Qed.
  End Headline.
End Compose.

(* ================= non-vacuity: a concrete registry state through all layers ================= *)
Definition ex_tags : list str := [bs "urlprefix-Foo.com/good"; bs " urlprefix-/two "; bs "blue"].
Definition ex_bad_tags : list str := [bs "urlprefix-/bad"; bs "a""b"].
Definition ex_reg (id : string) (addr : string) : reg :=
  {| g_name := bs "good"; g_id := bs id; g_addr := bs addr; g_node_addr := bs "192.168.0.1"; g_port := 80%Z;
     g_tags := ex_tags |}.
(* a healthy instance whose registration the command language cannot express (a tag with a
   double quote): its command is dropped by build, on its own *)
Definition ex_bad_reg : reg :=
  {| g_name := bs "bad"; g_id := bs "s3"; g_addr := bs "10.0.0.3"; g_node_addr := bs "192.168.0.3"; g_port := 80%Z;
     g_tags := ex_bad_tags |}.
Definition ex_rcat : list rentry :=
  [mkREntry (bs "n1") (ex_reg "s1" "10.0.0.1"); mkREntry (bs "n2") (ex_reg "s2" "10.0.0.2"); mkREntry (bs "n3") ex_bad_reg].
Definition ex_checks : list hcheck :=
  [mkCheck (bs "n1") (bs "service:s1") (bs "s1") (bs "good") (bs "passing") ex_tags;
   mkCheck (bs "n2") (bs "service:s2") (bs "s2") (bs "good") (bs "critical") ex_tags;
   mkCheck (bs "n3") (bs "service:s3") (bs "s3") (bs "bad") (bs "passing") ex_bad_tags;
   mkCheck (bs "n1") (bs "serfHealth") [] [] (bs "passing") []].

Example registry_table_nonvacuous :
  consistent ex_checks ex_rcat
  /\ expressible pweight_dec idcanon anyglob env_dc pfx (ex_reg "s1" "10.0.0.1") = true
  /\ expressible pweight_dec idcanon anyglob env_dc pfx ex_bad_reg = false
  /\ inst_healthy [bs "passing"] false ex_checks (mkREntry (bs "n1") (ex_reg "s1" "10.0.0.1"))
  /\ ~ inst_healthy [bs "passing"] false ex_checks (mkREntry (bs "n2") (ex_reg "s2" "10.0.0.2"))
  /\ inst_healthy [bs "passing"] false ex_checks (mkREntry (bs "n3") ex_bad_reg)
  /\ exists t, (do text <- registry_config pweight_dec idcanon anyglob env_dc pfx [bs "passing"] false ex_checks ex_rcat;
                new_table pweight_dec idcanon anyglob text)%outcome = Ok t
       /\ map (fun x => (fst (fst x), snd (fst x), t_url (snd x))) (flat t)
          = [(bs "foo.com", bs "/good", bs "http://10.0.0.1:80/"); ([], bs "/two", bs "http://10.0.0.1:80/")].
Proof.
  split; [|split; [|split; [|split; [|split; [|split]]]]].
  - intros c r Hc Hr Hn Hs.
    repeat (destruct Hc as [<-|Hc]; [repeat (destruct Hr as [<-|Hr]; [try reflexivity; try (vm_compute in Hs; discriminate); try (vm_compute in Hn; discriminate)|]); try destruct Hr|]); destruct Hc.
  - vm_compute; reflexivity.
  - vm_compute; reflexivity.
  - split; [eexists; split; [left; reflexivity|]; repeat split; vm_compute; reflexivity|].
    apply healthy_b_spec. vm_compute. reflexivity.
  - intros [_ H]. apply healthy_b_spec in H. vm_compute in H. discriminate.
  - split; [eexists; split; [right; right; left; reflexivity|]; repeat split; vm_compute; reflexivity|].
    apply healthy_b_spec. vm_compute. reflexivity.
  - eexists. split; vm_compute; reflexivity.
Qed.
