(** Proofs for C09 (transparent tunnels). *)
From Coq Require Import String List NArith Bool Arith Lia.
From Fabio Require Import Lib.Outcome Lib.Bytes Model.ClientHello Model.BufioR Model.Tunnel.
Import ListNotations.

Lemma placeholder_true : True.
Proof. exact I. Qed.
