(** Proofs for C09 (transparent tunnels): copy loop, PROXY line, the bufio.Reader
    conservation invariant, the SNI leftover, the two-copier race. *)
From Coq Require Import String List NArith Bool Arith PeanoNat Lia.
From Fabio Require Import Lib.Outcome Lib.Bytes Model.ClientHello Model.BufioR Model.Tunnel Proofs.ClientHello.
Import ListNotations.

(* ================= the scripted source ================= *)
Lemma src_read_conserves m src d s' e :
  src_read m src = (d, s', e) -> d ++ concat s' = concat src.
Proof.
  revert d s' e; induction src as [|seg rest IH]; intros d s' e H.
  - cbn [src_read] in H. inversion H; subst. reflexivity.
  - destruct seg as [|x seg].
    + cbn [src_read] in H. cbn [concat app]. eauto.
    + cbn [src_read] in H. inversion H; subst. cbn [concat].
      rewrite app_assoc, firstn_skipn. reflexivity.
Qed.

Lemma src_read_eof m src d s' :
  src_read m src = (d, s', true) -> d = [] /\ concat src = [].
Proof.
  revert d s'; induction src as [|seg rest IH]; intros d s' H.
  - cbn [src_read] in H. inversion H; subst. split; reflexivity.
  - destruct seg as [|x seg].
    + cbn [src_read] in H. cbn [concat app]. eauto.
    + cbn [src_read] in H. inversion H.
Qed.

Lemma src_read_progress m src d s' :
  (0 < m)%nat -> src_read m src = (d, s', false) ->
  d <> [] /\ (src_measure s' < src_measure src)%nat.
Proof.
  intros Hm. revert d s'; induction src as [|seg rest IH]; intros d s' H.
  - cbn [src_read] in H. inversion H.
  - destruct seg as [|x seg].
    + cbn [src_read] in H. destruct (IH _ _ H) as [Hd Hlt]. split; [exact Hd|].
      unfold src_measure in *. cbn [concat app length]. lia.
    + cbn [src_read] in H. inversion H; subst. destruct m as [|m']; [lia|].
      split; [cbn [firstn]; discriminate|].
      unfold src_measure. cbn [concat length].
      rewrite !app_length, skipn_length. cbn [length]. lia.
Qed.

(* ================= copy_buffer.go ================= *)
(* for every segmentation of the source and every buffer size the destination receives
   exactly the source's bytes, and the loop terminates within the stated fuel *)
Lemma copy_loop_preserves m : (0 < m)%nat -> forall fuel src,
  (src_measure src < fuel)%nat -> copy_loop fuel m src = Some (concat src).
Proof.
  intros Hm. induction fuel as [|f IH]; intros src Hf; [lia|].
  cbn [copy_loop]. destruct (src_read m src) as [[d s'] e] eqn:E. destruct e.
  - apply src_read_eof in E. destruct E as [_ ->]. reflexivity.
  - pose proof (src_read_conserves _ _ _ _ _ E) as Hc.
    destruct (src_read_progress _ _ _ _ Hm E) as [_ Hlt].
    rewrite IH by lia. now rewrite Hc.
Qed.

Lemma copy_buf_pos : (0 < copy_buf_size)%nat.
Proof. unfold copy_buf_size. pose proof (Nnat.N2Nat.inj_compare 0 32768) as H. vm_compute in H.
  apply Nat.compare_lt_iff. change 0%nat with (N.to_nat 0). symmetry. exact H. Qed.

Theorem copy_preserves_stream : forall src : list str, copy_buffer src = Ok (concat src).
Proof.
  intros src. unfold copy_buffer. rewrite (copy_loop_preserves _ copy_buf_pos) by lia. reflexivity.
Qed.

(* "for every chunking": any two segmentations of the same bytes are copied to the same output *)
Corollary copy_chunking_irrelevant : forall a b : list str,
  concat a = concat b -> copy_buffer a = copy_buffer b.
Proof. intros a b H. now rewrite !copy_preserves_stream, H. Qed.

Corollary copy_any_buffer_size : forall m src, (0 < m)%nat ->
  copy_loop (S (src_measure src)) m src = Some (concat src).
Proof. intros. apply copy_loop_preserves; [assumption | lia]. Qed.

(* ================= proxy_proto.go ================= *)
Definition no_sep (f : str) : Prop := ~ In 32%N f.

Lemma field_split (x x' r r' : str) :
  no_sep x -> no_sep x' -> x ++ 32%N :: r = x' ++ 32%N :: r' -> x = x' /\ r = r'.
Proof.
  revert x'; induction x as [|a x IH]; intros x' Hx Hx' H.
  - destruct x' as [|b x']; cbn [app] in H.
    + inversion H. split; reflexivity.
    + inversion H; subst. exfalso. apply Hx'. left; reflexivity.
  - destruct x' as [|b x']; cbn [app] in H.
    + inversion H; subst. exfalso. apply Hx. left; reflexivity.
    + inversion H; subst. destruct (IH x') as [-> ->]; try assumption.
      * intros Hin. apply Hx. right; exact Hin.
      * intros Hin. apply Hx'. right; exact Hin.
      * split; reflexivity.
Qed.

(* the line is "PROXY TCP4|TCP6 <client> <listener> <client port> <listener port>\r\n" *)
Theorem proxy_line_format : forall is4 ca sa cp sp,
  proxy_line is4 ca sa cp sp =
    bs "PROXY "%string ++ (if is4 then bs "TCP4"%string else bs "TCP6"%string) ++ bs " "%string ++ ca ++ bs " "%string ++ sa
      ++ bs " "%string ++ cp ++ bs " "%string ++ sp ++ [13%N; 10%N].
Proof. reflexivity. Qed.

(* ... and it is unambiguous: fields without a space can be read back *)
Theorem proxy_line_injective : forall is4 is4' ca sa cp sp ca' sa' cp' sp',
  no_sep ca -> no_sep sa -> no_sep cp -> no_sep ca' -> no_sep sa' -> no_sep cp' ->
  proxy_line is4 ca sa cp sp = proxy_line is4' ca' sa' cp' sp' ->
  is4 = is4' /\ ca = ca' /\ sa = sa' /\ cp = cp' /\ sp = sp'.
Proof.
  intros is4 is4' ca sa cp sp ca' sa' cp' sp' H1 H2 H3 H1' H2' H3' H.
  unfold proxy_line in H.
  assert (Hp : is4 = is4' /\ ca ++ [32%N] ++ sa ++ [32%N] ++ cp ++ [32%N] ++ sp ++ [13%N; 10%N]
                             = ca' ++ [32%N] ++ sa' ++ [32%N] ++ cp' ++ [32%N] ++ sp' ++ [13%N; 10%N]).
  { destruct is4, is4'; cbn in H; inversion H; split; try reflexivity; cbn [app]; assumption. }
  destruct Hp as [-> Hp]. cbn [app] in Hp.
  apply field_split in Hp; try assumption. destruct Hp as [-> Hp].
  apply field_split in Hp; try assumption. destruct Hp as [-> Hp].
  apply field_split in Hp; try assumption. destruct Hp as [-> Hp].
  apply app_inv_tail in Hp. subst. repeat split; reflexivity.
Qed.

(* ================= what the upstream receives ================= *)
(* tcp: for every segmentation, [PROXY line] ++ the client's bytes from the first one on *)
Theorem tcp_upstream_stream : forall pp line segs,
  upstream_stream KTcp pp line segs = Ok (Some ((if pp then line else []) ++ concat segs)).
Proof.
  intros. unfold upstream_stream, tunnel_setup. cbn [bind s_src s_pre].
  rewrite copy_preserves_stream. reflexivity.
Qed.

Corollary tcp_upstream_meets_spec : forall pp line segs,
  upstream_stream KTcp pp line segs = Ok (Some (spec_upstream KTcp pp line (concat segs))).
Proof. intros. rewrite tcp_upstream_stream. reflexivity. Qed.

(* tcp-dynamic: the client's bytes, for every segmentation; never a PROXY line *)
Theorem dynamic_upstream_stream : forall pp line segs,
  upstream_stream KDyn pp line segs = Ok (Some (concat segs)).
Proof.
  intros. unfold upstream_stream, tunnel_setup. cbn [bind s_src s_pre].
  rewrite copy_preserves_stream. reflexivity.
Qed.

Theorem dynamic_upstream_on_domain : forall line segs,
  upstream_stream KDyn false line segs = Ok (Some (spec_upstream KDyn false line (concat segs))).
Proof. intros. rewrite dynamic_upstream_stream. reflexivity. Qed.

Theorem dynamic_ignores_proxyproto_refuted : forall line segs, line <> [] ->
  region_dyn_proxyproto KDyn true = true /\
  upstream_stream KDyn true line segs <> Ok (Some (spec_upstream KDyn true line (concat segs))).
Proof.
  intros line segs Hl. split; [reflexivity|]. rewrite dynamic_upstream_stream. cbn [spec_upstream].
  intros H. inversion H as [H1]. apply Hl.
  apply (f_equal (@length N)) in H1. rewrite app_length in H1.
  destruct line; [reflexivity | cbn [length] in H1; lia].
Qed.

(* ================= the first finished direction ends the tunnel ================= *)
Record tinv (C U : str) (s : tstate) : Prop := {
  ti_c : t_c_done s ++ concat (t_c_todo s) = C;
  ti_u : t_u_done s ++ concat (t_u_todo s) = U;
  ti_ec : t_ended s = Some C2U -> t_c_todo s = [] /\ t_c_eof s = true;
  ti_eu : t_ended s = Some U2C -> t_u_todo s = [] /\ t_u_eof s = true
}.

Lemma tstep_inv C U d s : tinv C U s -> tinv C U (tstep d s).
Proof.
  intros [Hc Hu Hec Heu]. unfold tstep.
  destruct (t_ended s) eqn:E; [constructor; rewrite ?E; assumption|].
  destruct d.
  - destruct (t_c_todo s) as [|ch rest] eqn:T.
    + destruct (t_c_eof s) eqn:F.
      * constructor; cbn [t_c_done t_c_todo t_u_done t_u_todo t_ended t_c_eof t_u_eof].
        -- exact Hc.
        -- exact Hu.
        -- intros _. split; reflexivity.
        -- discriminate.
      * constructor; rewrite ?E, ?T; try assumption; intros X; discriminate X.
    + constructor; cbn [t_c_done t_c_todo t_u_done t_u_todo t_ended t_c_eof t_u_eof].
      * rewrite <- Hc. cbn [concat]. now rewrite app_assoc.
      * exact Hu.
      * discriminate.
      * discriminate.
  - destruct (t_u_todo s) as [|ch rest] eqn:T.
    + destruct (t_u_eof s) eqn:F.
      * constructor; cbn [t_c_done t_c_todo t_u_done t_u_todo t_ended t_c_eof t_u_eof].
        -- exact Hc.
        -- exact Hu.
        -- discriminate.
        -- intros _. split; reflexivity.
      * constructor; rewrite ?E, ?T; try assumption; intros X; discriminate X.
    + constructor; cbn [t_c_done t_c_todo t_u_done t_u_todo t_ended t_c_eof t_u_eof].
      * exact Hc.
      * rewrite <- Hu. cbn [concat]. now rewrite app_assoc.
      * discriminate.
      * discriminate.
Qed.

Lemma trun_inv C U sched : forall s, tinv C U s -> tinv C U (trun sched s).
Proof.
  induction sched as [|d sched IH]; intros s H; [exact H|].
  unfold trun. cbn [fold_left]. apply IH. apply tstep_inv. exact H.
Qed.

Lemma tinit_inv c ceof u ueof : tinv (concat c) (concat u) (tinit c ceof u ueof).
Proof. constructor; cbn; try reflexivity; discriminate. Qed.

Lemma tstep_eof d s : t_c_eof (tstep d s) = t_c_eof s /\ t_u_eof (tstep d s) = t_u_eof s.
Proof.
  unfold tstep. destruct (t_ended s); [split; reflexivity|].
  destruct d.
  - destruct (t_c_todo s); [destruct (t_c_eof s) eqn:F|]; cbn; rewrite ?F; split; reflexivity.
  - destruct (t_u_todo s); [destruct (t_u_eof s) eqn:F|]; cbn; rewrite ?F; split; reflexivity.
Qed.

Lemma trun_eof sched : forall s, t_c_eof (trun sched s) = t_c_eof s /\ t_u_eof (trun sched s) = t_u_eof s.
Proof.
  induction sched as [|d sched IH]; intros s; [split; reflexivity|].
  unfold trun. cbn [fold_left]. destruct (IH (tstep d s)) as [H1 H2]. unfold trun in H1, H2.
  rewrite H1, H2. apply tstep_eof.
Qed.

(* under every schedule: each side receives a prefix of what the other sent (in order,
   once, unmodified) ... *)
Theorem tunnel_delivers_prefixes : forall sched c ceof u ueof,
  let s := trun sched (tinit c ceof u ueof) in
  (exists rest, concat c = t_c_done s ++ rest) /\ (exists rest, concat u = t_u_done s ++ rest).
Proof.
  intros. destruct (trun_inv _ _ sched _ (tinit_inv c ceof u ueof)) as [Hc Hu _ _].
  split; [exists (concat (t_c_todo s)) | exists (concat (t_u_todo s))]; symmetry; assumption.
Qed.

(* ... and whichever direction finishes first has had all of its data delivered *)
Theorem finisher_fully_delivered : forall sched c ceof u ueof,
  let s := trun sched (tinit c ceof u ueof) in
  (t_ended s = Some C2U -> t_c_done s = concat c /\ ceof = true) /\
  (t_ended s = Some U2C -> t_u_done s = concat u /\ ueof = true).
Proof.
  intros.
  assert (Hk : t_c_eof s = ceof /\ t_u_eof s = ueof).
  { subst s. destruct (trun_eof sched (tinit c ceof u ueof)) as [-> ->]. split; reflexivity. }
  destruct Hk as [Hk1 Hk2].
  destruct (trun_inv _ _ sched _ (tinit_inv c ceof u ueof)) as [Hc Hu Hec Heu]. fold s in Hc, Hu, Hec, Heu.
  split; intros E.
  - destruct (Hec E) as [T F]. rewrite T in Hc. cbn [concat] in Hc. rewrite app_nil_r in Hc. split; congruence.
  - destruct (Heu E) as [T F]. rewrite T in Hu. cbn [concat] in Hu. rewrite app_nil_r in Hu. split; congruence.
Qed.

Example finisher_nonvacuous :
  t_ended (trun [C2U; U2C; C2U; C2U] (tinit [[1%N; 2%N]; [3%N]] true [[9%N]] false)) = Some C2U.
Proof. reflexivity. Qed.

(* a client that sends, half-closes (its source ends with EOF, it keeps reading) and an
   upstream that replies: under the schedule where the client direction sees EOF before the
   reply is relayed the tunnel is torn down and the reply never arrives *)
Theorem half_close_reply_refuted :
  exists sched req reply,
    let s := trun sched (tinit [req] true [reply] true) in
    reply <> [] /\ t_ended s = Some C2U /\ t_c_done s = req /\ t_u_done s = [] /\ t_u_done s <> reply.
Proof.
  exists [C2U; C2U; U2C], [1%N; 2%N; 3%N], [7%N; 8%N].
  cbv. repeat split; discriminate.
Qed.

(* the reply does arrive under every schedule in which the client only ends after the
   reply has been relayed (the waiting client of the correspondence run) *)
Theorem half_close_reply_on_domain : forall sched c u ueof,
  let s := trun sched (tinit c false u ueof) in
  t_ended s = Some U2C -> t_u_done s = concat u.
Proof.
  intros sched c u ueof s E.
  destruct (finisher_fully_delivered sched c false u ueof) as [_ H]. fold s in H. apply H. exact E.
Qed.

(* ================= bufio.Reader: nothing is invented, reordered or duplicated ================= *)
Definition pending (b : breader) : str := b_buf b ++ concat (b_src b).

Lemma fill_pending b : pending (fill b) = pending b.
Proof.
  unfold fill, pending. destruct (src_read (b_cap b - buffered b) (b_src b)) as [[d s'] e] eqn:E.
  cbn [b_buf b_src]. rewrite <- (src_read_conserves _ _ _ _ _ E). now rewrite app_assoc.
Qed.

Lemma peek_loop_pending fuel : forall b n b1, peek_loop fuel b n = Some b1 -> pending b1 = pending b.
Proof.
  induction fuel as [|f IH]; intros b n b1 H; cbn [peek_loop] in H.
  - destruct ((buffered b <? n)%nat && (buffered b <? b_cap b)%nat && (b_err b =? 0)%N); [discriminate|].
    inversion H; reflexivity.
  - destruct ((buffered b <? n)%nat && (buffered b <? b_cap b)%nat && (b_err b =? 0)%N).
    + rewrite (IH _ _ _ H). apply fill_pending.
    + inversion H; reflexivity.
Qed.

(* Peek consumes nothing and returns a prefix of what is pending *)
Lemma peek_pending b n d e b1 :
  peek b n = Ok (d, e, b1) -> pending b1 = pending b /\ exists r, pending b = d ++ r.
Proof.
  unfold peek. destruct (peek_loop (S (b_cap b)) b n) as [b2|] eqn:L; [|discriminate].
  pose proof (peek_loop_pending _ _ _ _ L) as P.
  destruct (b_cap b2 <? n)%nat.
  - intros H; inversion H; subst. split; [exact P|]. exists (concat (b_src b1)). rewrite <- P. reflexivity.
  - destruct (buffered b2 <? n)%nat.
    + intros H; inversion H; subst. unfold pending in *. cbn [clear_err b_buf b_src].
      split; [exact P|]. exists (concat (b_src b2)). rewrite <- P. reflexivity.
    + intros H; inversion H; subst. split; [exact P|].
      exists (skipn n (b_buf b1) ++ concat (b_src b1)). rewrite <- P. unfold pending.
      now rewrite app_assoc, firstn_skipn.
Qed.

Lemma firstn_skipn_app3 {A} n (l r : list A) : firstn n l ++ skipn n l ++ r = l ++ r.
Proof. now rewrite app_assoc, firstn_skipn. Qed.

(* Read hands out a prefix of what is pending and keeps the rest, in order *)
Lemma bread_pending b n d e b1 : bread b n = (d, e, b1) -> d ++ pending b1 = pending b.
Proof.
  unfold bread, pending. destruct n as [|n'].
  - destruct (0 <? buffered b)%nat; intros H; inversion H; subst; reflexivity.
  - destruct (b_buf b) as [|x buf] eqn:B.
    + destruct (negb (b_err b =? 0)%N).
      * intros H; inversion H; subst. cbn [clear_err b_buf b_src]. now rewrite B.
      * destruct (b_cap b <=? S n')%nat.
        -- destruct (src_read (S n') (b_src b)) as [[d0 s'] e0] eqn:E.
           intros H; inversion H; subst. cbn [b_buf b_src app].
           apply (src_read_conserves _ _ _ _ _ E).
        -- destruct (src_read (b_cap b) (b_src b)) as [[d0 s'] e0] eqn:E.
           pose proof (src_read_conserves _ _ _ _ _ E) as C.
           destruct d0 as [|y d0].
           ++ intros H; inversion H; subst. cbn [b_buf b_src app]. exact C.
           ++ intros H; inversion H; subst. cbn [b_buf b_src]. cbn [app] in C |- *.
              rewrite <- C. f_equal. rewrite app_assoc. f_equal. apply firstn_skipn.
    + intros H; inversion H; subst. cbn [set_buf b_buf b_src].
      apply (firstn_skipn_app3 (S n') (x :: buf)).
Qed.

Lemma read_full_loop_pending fuel : forall b need acc d e b1,
  read_full_loop fuel b need acc = Some (d, e, b1) -> d ++ pending b1 = acc ++ pending b.
Proof.
  induction fuel as [|f IH]; intros b need acc d e b1 H.
  - destruct need; cbn [read_full_loop] in H; [inversion H; subst; reflexivity | discriminate].
  - destruct need as [|need']; cbn [read_full_loop] in H; [inversion H; subst; reflexivity|].
    destruct (bread b (S need')) as [[d0 e0] b0] eqn:R.
    pose proof (bread_pending _ _ _ _ _ R) as P.
    destruct (e0 =? 0)%N.
    + rewrite (IH _ _ _ _ _ _ H). rewrite <- P. now rewrite app_assoc.
    + destruct (S need' <=? length d0)%nat; inversion H; subst; rewrite <- P; now rewrite app_assoc.
Qed.

Lemma read_full_pending b n d e b1 : read_full b n = Ok (d, e, b1) -> d ++ pending b1 = pending b.
Proof.
  unfold read_full. destruct (read_full_loop (S n) b n []) as [[[d0 e0] b0]|] eqn:L; [|discriminate].
  intros H; inversion H; subst. apply (read_full_loop_pending _ _ _ _ _ _ _ L).
Qed.

(* ================= reading on through the bufio.Reader ================= *)
Lemma src_read_eof_src m src d s' : src_read m src = (d, s', true) -> s' = [].
Proof.
  revert d s'; induction src as [|seg rest IH]; intros d s' H.
  - cbn [src_read] in H. inversion H; reflexivity.
  - destruct seg as [|x seg]; cbn [src_read] in H; [eauto | inversion H].
Qed.

Lemma src_read_measure m src d s' :
  src_read m src = (d, s', false) -> (length d + src_measure s' <= src_measure src)%nat.
Proof.
  revert d s'; induction src as [|seg rest IH]; intros d s' H.
  - cbn [src_read] in H. inversion H.
  - destruct seg as [|x seg]; cbn [src_read] in H.
    + specialize (IH _ _ H). unfold src_measure in *. cbn [concat app length]. lia.
    + inversion H; subst. unfold src_measure. cbn [concat length].
      rewrite !app_length, skipn_length, firstn_length. cbn [length]. lia.
Qed.

(* a pending EOF means the connection is exhausted *)
Definition wf (b : breader) : Prop := b_err b <> 0%N -> concat (b_src b) = [].

Ltac wf0 := let X := fresh in unfold wf; cbn; intros X; exfalso; apply X; reflexivity.

Lemma fill_wf b : wf (fill b).
Proof.
  unfold fill. destruct (src_read (b_cap b - buffered b) (b_src b)) as [[d s'] e] eqn:E.
  destruct e; [|wf0]. apply src_read_eof_src in E. subst. unfold wf. cbn. reflexivity.
Qed.

Lemma peek_loop_wf fuel : forall b n b1, wf b -> peek_loop fuel b n = Some b1 -> wf b1.
Proof.
  induction fuel as [|f IH]; intros b n b1 W H; cbn [peek_loop] in H.
  - destruct ((buffered b <? n)%nat && (buffered b <? b_cap b)%nat && (b_err b =? 0)%N); [discriminate|].
    inversion H; subst; exact W.
  - destruct ((buffered b <? n)%nat && (buffered b <? b_cap b)%nat && (b_err b =? 0)%N).
    + eapply IH; [apply fill_wf | exact H].
    + inversion H; subst; exact W.
Qed.

Lemma peek_wf b n d e b1 : wf b -> peek b n = Ok (d, e, b1) -> wf b1.
Proof.
  intros W. unfold peek. destruct (peek_loop (S (b_cap b)) b n) as [b2|] eqn:L; [|discriminate].
  pose proof (peek_loop_wf _ _ _ _ W L) as W2.
  destruct (b_cap b2 <? n)%nat; [intros H; inversion H; subst; exact W2|].
  destruct (buffered b2 <? n)%nat; intros H; inversion H; subst; [wf0 | exact W2].
Qed.

Lemma bread_wf b n d e b1 : wf b -> bread b n = (d, e, b1) -> wf b1.
Proof.
  intros W. unfold bread. destruct n as [|n'].
  - destruct (0 <? buffered b)%nat; intros H; inversion H; subst; [exact W | wf0].
  - destruct (b_buf b) as [|x buf] eqn:B.
    + destruct (negb (b_err b =? 0)%N); [intros H; inversion H; subst; wf0|].
      destruct (b_cap b <=? S n')%nat.
      * destruct (src_read (S n') (b_src b)) as [[d0 s'] e0]. intros H; inversion H; subst. wf0.
      * destruct (src_read (b_cap b) (b_src b)) as [[d0 s'] e0] eqn:E.
        destruct d0 as [|y d0]; intros H; inversion H; subst; [wf0|].
        destruct e0; [|wf0]. apply src_read_eof_src in E. subst. unfold wf. cbn. reflexivity.
    + intros H; inversion H; subst. exact W.
Qed.

Lemma read_full_loop_wf fuel : forall b need acc d e b1,
  wf b -> read_full_loop fuel b need acc = Some (d, e, b1) -> wf b1.
Proof.
  induction fuel as [|f IH]; intros b need acc d e b1 W H.
  - destruct need; cbn [read_full_loop] in H; [inversion H; subst; exact W | discriminate].
  - destruct need as [|need']; cbn [read_full_loop] in H; [inversion H; subst; exact W|].
    destruct (bread b (S need')) as [[d0 e0] b0] eqn:R.
    pose proof (bread_wf _ _ _ _ _ W R) as W0.
    destruct (e0 =? 0)%N; [eapply IH; eassumption|].
    destruct (S need' <=? length d0)%nat; inversion H; subst; exact W0.
Qed.

Lemma read_full_wf b n d e b1 : wf b -> read_full b n = Ok (d, e, b1) -> wf b1.
Proof.
  intros W. unfold read_full. destruct (read_full_loop (S n) b n []) as [[[d0 e0] b0]|] eqn:L; [|discriminate].
  intros H; inversion H; subst. eapply read_full_loop_wf; eassumption.
Qed.

(* one Read with a non-empty buffer argument: either an error with nothing pending, or
   progress *)
Lemma bread_step b m d e b1 : (0 < m)%nat -> wf b -> bread b m = (d, e, b1) ->
  (e <> 0%N /\ d = [] /\ pending b = []) \/
  (e = 0%N /\ wf b1 /\ (reader_measure b1 < reader_measure b)%nat).
Proof.
  intros Hm W. unfold bread. destruct m as [|n']; [lia|].
  destruct (b_buf b) as [|x buf] eqn:B.
  - destruct (b_err b =? 0)%N eqn:Eerr; cbn [negb].
    + destruct (b_cap b <=? S n')%nat eqn:Ecap.
      * destruct (src_read (S n') (b_src b)) as [[d0 s'] e0] eqn:E.
        intros H; inversion H; subst. destruct e0.
        -- left. apply src_read_eof in E. destruct E as [-> Hc].
           split; [discriminate|]. split; [reflexivity|]. unfold pending. now rewrite B, Hc.
        -- right. destruct (src_read_progress _ _ _ _ Hm E) as [_ Hlt].
           split; [reflexivity|]. split; [wf0|].
           unfold reader_measure. cbn [b_buf b_src]. rewrite B. cbn [length]. lia.
      * apply Nat.leb_gt in Ecap.
        destruct (src_read (b_cap b) (b_src b)) as [[d0 s'] e0] eqn:E.
        destruct d0 as [|y d0].
        -- intros H; inversion H; subst. destruct e0.
           ++ left. apply src_read_eof in E. destruct E as [_ Hc].
              split; [discriminate|]. split; [reflexivity|]. unfold pending. now rewrite B, Hc.
           ++ exfalso. assert (Hc : (0 < b_cap b)%nat) by lia.
              destruct (src_read_progress _ _ _ _ Hc E) as [Hd _]. now apply Hd.
        -- intros H; inversion H; subst. right. split; [reflexivity|].
           destruct e0.
           ++ apply src_read_eof in E. destruct E as [E _]. discriminate E.
           ++ split; [wf0|]. pose proof (src_read_measure _ _ _ _ E) as Hle.
              unfold reader_measure. cbn [b_buf b_src]. rewrite B. rewrite skipn_length.
              cbn [length] in *. lia.
    + apply N.eqb_neq in Eerr. intros H; inversion H; subst. left.
      split; [exact Eerr|]. split; [reflexivity|]. unfold pending. rewrite B. cbn [app]. exact (W Eerr).
  - intros H; inversion H; subst. right. split; [reflexivity|]. split; [exact W|].
    unfold reader_measure. cbn [set_buf b_buf b_src]. rewrite B, skipn_length. cbn [length]. lia.
Qed.

(* copying through the reader delivers exactly what is pending: the buffered bytes first,
   then the rest of the connection, for every segmentation *)
Lemma copy_reader_loop_preserves m : (0 < m)%nat -> forall fuel b,
  wf b -> (reader_measure b < fuel)%nat -> copy_reader_loop fuel m b = Some (pending b).
Proof.
  intros Hm. induction fuel as [|f IH]; intros b W Hf; [lia|].
  cbn [copy_reader_loop]. destruct (bread b m) as [[d e] b1] eqn:R.
  pose proof (bread_pending _ _ _ _ _ R) as P.
  destruct (bread_step _ _ _ _ _ Hm W R) as [[He [Hd Hp]] | [He [W1 Hlt]]].
  - destruct (e =? 0)%N eqn:E0; [apply N.eqb_eq in E0; contradiction|]. cbn [negb]. now rewrite Hd, Hp.
  - subst e. cbn [N.eqb negb]. rewrite IH by (assumption || lia). now rewrite P.
Qed.

Theorem copy_from_reader_preserves : forall b, wf b -> copy_from_reader b = Ok (pending b).
Proof.
  intros b W. unfold copy_from_reader.
  rewrite (copy_reader_loop_preserves _ copy_buf_pos) by (assumption || lia). reflexivity.
Qed.

(* ================= tcp+sni ================= *)
(* after the handshake: the bytes handed out so far plus what the reader still holds (buffer
   and connection) are the client's stream *)
Lemma sni_handshake_inv : forall line segs pre b,
  sni_handshake line segs = Ok (Some (pre, b)) ->
  wf b /\ exists data, pre = line ++ data /\ data ++ pending b = concat segs.
Proof.
  intros line segs pre b. unfold sni_handshake.
  assert (W0 : wf (new_reader 4096 segs)) by wf0.
  destruct (peek (new_reader 4096 segs) 9) as [[[hdr e1] b1]|k1|] eqn:P; cbn [bind]; try discriminate.
  destruct (peek_pending _ _ _ _ _ P) as [P1 _]. pose proof (peek_wf _ _ _ _ _ W0 P) as W1.
  destruct (negb (e1 =? 0)%N); [discriminate|].
  destruct (client_hello_buffer_size hdr) as [size|k2|]; try discriminate.
  destruct (read_full b1 (N.to_nat size)) as [[[data e2] b2]|k3|] eqn:R; cbn [bind]; try discriminate.
  pose proof (read_full_pending _ _ _ _ _ R) as P2. pose proof (read_full_wf _ _ _ _ _ W1 R) as W2.
  destruct (negb (e2 =? 0)%N); [discriminate|].
  destruct (read_server_name (skipn 5 data)) as [[|c name]|k4|]; try discriminate.
  intros H; inversion H; subst. split; [exact W2|].
  exists data. split; [reflexivity|]. rewrite P2, P1. reflexivity.
Qed.

(* tcp+sni (since c17abb6): for every segmentation the upstream receives
   [PROXY line] ++ the client's stream from its first byte, like tcp *)
Theorem sni_upstream_stream : forall (pp : bool) (line : str) segs up,
  upstream_stream KSni pp line segs = Ok (Some up) ->
  up = spec_upstream KSni pp line (concat segs).
Proof.
  intros pp line segs up. unfold upstream_stream.
  destruct (sni_handshake (if pp then line else []) segs) as [[[pre b]|]|k|] eqn:H; cbn [bind]; try discriminate.
  destruct (sni_handshake_inv _ _ _ _ H) as [W [data [-> Hc]]].
  rewrite (copy_from_reader_preserves _ W). cbn [bind]. intros E; inversion E; subst.
  cbn [spec_upstream]. rewrite <- Hc. now rewrite app_assoc.
Qed.

Definition wit_hello : str := enc_record 3 1 ex_hello.

Example sni_upstream_nonvacuous :
  upstream_stream KSni false [] [wit_hello ++ [1; 2; 3]%N; [9%N]] = Ok (Some (wit_hello ++ [1; 2; 3; 9]%N)) /\
  upstream_stream KSni false [] [firstn 20 wit_hello; skipn 20 wit_hello ++ [1%N]; [2; 3]%N]
    = Ok (Some (wit_hello ++ [1; 2; 3]%N)).
Proof. split; vm_compute; reflexivity. Qed.

(* the unrepaired copier (before c17abb6) read the raw connection: the upstream received the
   stream with exactly the bytes stuck in the reader cut out *)
Theorem sni_unrepaired_stream : forall (pp : bool) (line : str) segs up,
  upstream_stream_sni_unrepaired pp line segs = Ok (Some up) ->
  exists data rest, up = (if pp then line else []) ++ data ++ rest /\
    data ++ sni_leftover_unrepaired (if pp then line else []) segs ++ rest = concat segs.
Proof.
  intros pp line segs up. unfold upstream_stream_sni_unrepaired, sni_leftover_unrepaired.
  destruct (sni_handshake (if pp then line else []) segs) as [[[pre b]|]|k|] eqn:H; cbn [bind]; try discriminate.
  destruct (sni_handshake_inv _ _ _ _ H) as [_ [data [-> Hc]]].
  rewrite copy_preserves_stream. cbn [bind]. intros E; inversion E; subst.
  exists data, (concat (b_src b)). split; [now rewrite app_assoc | exact Hc].
Qed.

(* F-C09-1 as it was before the fix commit c17abb6: a first segment that carries the
   ClientHello plus 3 more bytes; they never arrived, although bytes sent later did *)
Theorem sni_leftover_refuted :
  exists segs, sni_leftover_unrepaired [] segs = [1; 2; 3]%N /\
    upstream_stream_sni_unrepaired false [] segs = Ok (Some (wit_hello ++ [9%N])) /\
    concat segs = wit_hello ++ [1; 2; 3; 9]%N /\
    upstream_stream_sni_unrepaired false [] segs <> Ok (Some (spec_upstream KSni false [] (concat segs))) /\
    upstream_stream KSni false [] segs = Ok (Some (spec_upstream KSni false [] (concat segs))).
Proof.
  exists [wit_hello ++ [1; 2; 3]%N; [9%N]].
  split; [vm_compute; reflexivity|]. split; [vm_compute; reflexivity|].
  split; [vm_compute; reflexivity|]. split; [vm_compute; discriminate | vm_compute; reflexivity].
Qed.

(* ================= websocket relay ================= *)
Lemma firstn_app_exact {A} (p r : list A) n : (length p <= n)%nat -> exists r', firstn n (p ++ r) = p ++ r'.
Proof.
  intros H. exists (firstn (n - length p) r). rewrite firstn_app.
  rewrite firstn_all2 by exact H. reflexivity.
Qed.

(* a first segment that carries at least the 12 tested bytes is accepted *)
Theorem ws_upgrade_on_domain : forall seg1, has_prefix seg1 ws_101 = true -> ws_upgraded seg1 = true.
Proof.
  intros seg1 H. apply has_prefix_spec in H. destruct H as [r ->].
  unfold ws_upgraded, ws_first_chunk. apply has_prefix_spec.
  apply firstn_app_exact. vm_compute. lia.
Qed.

Definition wit_reply : str := bs "HTTP/1.1 101 Switching Protocols
"%string.

(* the same reply arriving as "HTTP/1.1 1" + rest: the client receives the first 10 bytes
   and nothing else, the upstream nothing *)
Theorem ws_split_101_refuted :
  exists e, has_prefix wit_reply ws_101 = true /\ region_ws_split KWs wit_reply 10 = true /\
    scenario_expect KWs false [] [[1; 2]%N] false CStay UAtConnect wit_reply 10 (nlen' wit_reply) UStay = Ok e /\
    e_cl e = firstn 10 wit_reply /\ e_cl_hi e = 10%N /\ e_up e = [] /\
    spec_b KWs false [] [1; 2]%N false CStay UAtConnect wit_reply UStay (e_up e) (e_cl e) = false.
Proof. eexists. repeat split; vm_compute; reflexivity. Qed.

Example ws_unsplit_accepted :
  exists e, scenario_expect KWs false [] [[1; 2]%N] false CStay UAtConnect wit_reply 0 (nlen' wit_reply) UStay = Ok e /\
    e_cl e = wit_reply /\ e_cl_lo e = nlen' wit_reply /\ e_up e = [1; 2]%N /\ e_up_lo e = 2%N.
Proof. eexists. repeat split; vm_compute; reflexivity. Qed.

(* ================= the scripted scenarios: outside the finding regions the model's forced
   outcome meets the specification (tcp and tcp-dynamic; sni through sni_upstream_stream_on_domain) *)
Lemma is_prefix_refl s : is_prefix s s = true.
Proof. induction s as [|x s IH]; cbn [is_prefix]; [reflexivity|]. now rewrite N.eqb_refl, IH. Qed.

Theorem half_close_scenario_refuted :
  exists e, region_half_close false CHalf = true /\
    scenario_expect KTcp false [] [[1; 2; 3]%N] false CHalf UOnEOF [7; 8]%N 0 0 UClose = Ok e /\
    e_up e = [1; 2; 3]%N /\ e_up_lo e = 3%N /\ e_cl_hi e = 0%N /\
    spec_b KTcp false [] [1; 2; 3]%N false CHalf UOnEOF [7; 8]%N UClose [1; 2; 3]%N [] = false.
Proof. eexists. repeat split; vm_compute; reflexivity. Qed.

Example waiting_client_scenario :
  exists e, scenario_expect KTcp false [] [[1; 2; 3]%N] true CHalf (UAfterBytes 3) [7; 8]%N 0 0 UStay = Ok e /\
    e_up_lo e = 3%N /\ e_cl_lo e = 2%N /\
    spec_b KTcp false [] [1; 2; 3]%N true CHalf (UAfterBytes 3) [7; 8]%N UStay [1; 2; 3]%N [7; 8]%N = true.
Proof. eexists. repeat split; vm_compute; reflexivity. Qed.
