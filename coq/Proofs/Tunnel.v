(** Proofs for C09 (transparent tunnels): copy loop, PROXY line, the bufio.Reader
    conservation invariant, the SNI leftover, the two-copier race. *)
From Coq Require Import String List NArith Bool Arith PeanoNat Lia ZifyBool ZifyNat ZifyN.
From Fabio Require Import Lib.Outcome Lib.Bytes Model.ClientHello Model.BufioR Model.Tunnel Proofs.ClientHello.
Import ListNotations.

(* ================= the scripted source ================= *)
Lemma src_read_conserves m src d s' e :
  src_read m src = (d, s', e) -> d ++ concat s' = concat src.
Proof.
  revert d s' e; induction src as [|seg rest IH]; intros d s' e H.
  - cbn [src_read] in H. inversion H; subst. reflexivity.
  - destruct seg as [|x seg].
    + cbn [src_read] in H. cbn [concat app]. eauto.
    + cbn [src_read] in H. inversion H; subst. cbn [concat].
      rewrite app_assoc, firstn_skipn. reflexivity.
Qed.

Lemma src_read_eof m src d s' :
  src_read m src = (d, s', true) -> d = [] /\ concat src = [].
Proof.
  revert d s'; induction src as [|seg rest IH]; intros d s' H.
  - cbn [src_read] in H. inversion H; subst. split; reflexivity.
  - destruct seg as [|x seg].
    + cbn [src_read] in H. cbn [concat app]. eauto.
    + cbn [src_read] in H. inversion H.
Qed.

Lemma src_read_progress m src d s' :
  (0 < m)%nat -> src_read m src = (d, s', false) ->
  d <> [] /\ (src_measure s' < src_measure src)%nat.
Proof.
  intros Hm. revert d s'; induction src as [|seg rest IH]; intros d s' H.
  - cbn [src_read] in H. inversion H.
  - destruct seg as [|x seg].
    + cbn [src_read] in H. destruct (IH _ _ H) as [Hd Hlt]. split; [exact Hd|].
      unfold src_measure in *. cbn [concat app length]. lia.
    + cbn [src_read] in H. inversion H; subst. destruct m as [|m']; [lia|].
      split; [cbn [firstn]; discriminate|].
      unfold src_measure. cbn [concat length].
      rewrite !app_length, skipn_length. cbn [length]. lia.
Qed.

Lemma src_read_len m src d s' e : src_read m src = (d, s', e) -> (length d <= m)%nat.
Proof.
  revert d s' e; induction src as [|seg rest IH]; intros d s' e H.
  - cbn [src_read] in H. inversion H; subst. cbn [length]. lia.
  - destruct seg as [|x seg]; cbn [src_read] in H; [eauto|].
    inversion H; subst. rewrite firstn_length. lia.
Qed.

(* ================= copy_buffer.go ================= *)
(* for every segmentation of the source and every buffer size the destination receives
   exactly the source's bytes, and the loop terminates within the stated fuel *)
Lemma copy_loop_preserves m : (0 < m)%nat -> forall fuel src,
  (src_measure src < fuel)%nat -> copy_loop fuel m src = Some (concat src).
Proof.
  intros Hm. induction fuel as [|f IH]; intros src Hf; [lia|].
  cbn [copy_loop]. destruct (src_read m src) as [[d s'] e] eqn:E. destruct e.
  - apply src_read_eof in E. destruct E as [_ ->]. reflexivity.
  - pose proof (src_read_conserves _ _ _ _ _ E) as Hc.
    destruct (src_read_progress _ _ _ _ Hm E) as [_ Hlt].
    rewrite IH by lia. now rewrite Hc.
Qed.

Lemma copy_buf_pos : (0 < copy_buf_size)%nat.
Proof. unfold copy_buf_size. pose proof (Nnat.N2Nat.inj_compare 0 32768) as H. vm_compute in H.
  apply Nat.compare_lt_iff. change 0%nat with (N.to_nat 0). symmetry. exact H. Qed.

Theorem copy_preserves_stream : forall src : list str, copy_buffer src = Ok (concat src).
Proof.
  intros src. unfold copy_buffer. rewrite (copy_loop_preserves _ copy_buf_pos) by lia. reflexivity.
Qed.

(* "for every chunking": any two segmentations of the same bytes are copied to the same output *)
Corollary copy_chunking_irrelevant : forall a b : list str,
  concat a = concat b -> copy_buffer a = copy_buffer b.
Proof. intros a b H. now rewrite !copy_preserves_stream, H. Qed.

Corollary copy_any_buffer_size : forall m src, (0 < m)%nat ->
  copy_loop (S (src_measure src)) m src = Some (concat src).
Proof. intros. apply copy_loop_preserves; [assumption | lia]. Qed.

(* the read step in general: bytes may arrive together with an error *)
Lemma all_empty_concat src : all_empty src = true -> concat src = [].
Proof.
  induction src as [|s rest IH]; intros H; [reflexivity|].
  cbn [all_empty forallb] in H. apply andb_true_iff in H. destruct H as [H1 H2].
  destruct s; [|discriminate]. cbn [concat app]. apply IH. exact H2.
Qed.

Lemma copy_loop_st_preserves m fin : (0 < m)%nat -> forall fuel src,
  (src_measure src < fuel)%nat -> copy_loop_st fuel m fin src = Some (concat src).
Proof.
  intros Hm. induction fuel as [|f IH]; intros src Hf; [lia|].
  cbn [copy_loop_st]. unfold src_read_st. destruct (src_read m src) as [[d s'] e] eqn:E. destruct e.
  - apply src_read_eof in E. destruct E as [_ ->].
    destruct (fin =? 0)%N eqn:F; [reflexivity|]. rewrite F. reflexivity.
  - pose proof (src_read_conserves _ _ _ _ _ E) as Hc.
    destruct (src_read_progress _ _ _ _ Hm E) as [_ Hlt].
    destruct (negb (fin =? 0)%N && all_empty s') eqn:C.
    + apply andb_true_iff in C. destruct C as [C1 C2]. rewrite C1.
      rewrite <- Hc, (all_empty_concat _ C2), app_nil_r. reflexivity.
    + cbn [N.eqb negb]. rewrite IH by lia. now rewrite Hc.
Qed.

(* all bytes read are written, whatever error accompanies the last of them, for every
   segmentation *)
Theorem copy_preserves_stream_st : forall fin (src : list str), copy_buffer_st fin src = Ok (concat src).
Proof.
  intros fin src. unfold copy_buffer_st. rewrite (copy_loop_st_preserves _ fin copy_buf_pos) by lia. reflexivity.
Qed.

Example copy_st_final_read_carries_data :
  src_read_st 1 8 [[1; 2]%N; [3]%N] = ([1; 2]%N, [[]; [3]%N], 0%N) /\
  src_read_st 1 8 [[]; [3]%N] = ([3]%N, [[]], 1%N) /\
  copy_buffer_st 1 [[1; 2]%N; [3]%N] = Ok [1; 2; 3]%N /\ copy_buffer_st 9 [[1; 2]%N; [3]%N] = Ok [1; 2; 3]%N.
Proof. repeat split; vm_compute; reflexivity. Qed.

(* ================= proxy_proto.go ================= *)
Definition no_sep (f : str) : Prop := ~ In 32%N f.

Lemma field_split (x x' r r' : str) :
  no_sep x -> no_sep x' -> x ++ 32%N :: r = x' ++ 32%N :: r' -> x = x' /\ r = r'.
Proof.
  revert x'; induction x as [|a x IH]; intros x' Hx Hx' H.
  - destruct x' as [|b x']; cbn [app] in H.
    + inversion H. split; reflexivity.
    + inversion H; subst. exfalso. apply Hx'. left; reflexivity.
  - destruct x' as [|b x']; cbn [app] in H.
    + inversion H; subst. exfalso. apply Hx. left; reflexivity.
    + inversion H; subst. destruct (IH x') as [-> ->]; try assumption.
      * intros Hin. apply Hx. right; exact Hin.
      * intros Hin. apply Hx'. right; exact Hin.
      * split; reflexivity.
Qed.

(* the line is "PROXY TCP4|TCP6 <client> <listener> <client port> <listener port>\r\n" *)
Theorem proxy_line_format : forall is4 ca sa cp sp,
  proxy_line is4 ca sa cp sp =
    bs "PROXY "%string ++ (if is4 then bs "TCP4"%string else bs "TCP6"%string) ++ bs " "%string ++ ca ++ bs " "%string ++ sa
      ++ bs " "%string ++ cp ++ bs " "%string ++ sp ++ [13%N; 10%N].
Proof. reflexivity. Qed.

(* ... and it is unambiguous: fields without a space can be read back *)
Theorem proxy_line_injective : forall is4 is4' ca sa cp sp ca' sa' cp' sp',
  no_sep ca -> no_sep sa -> no_sep cp -> no_sep ca' -> no_sep sa' -> no_sep cp' ->
  proxy_line is4 ca sa cp sp = proxy_line is4' ca' sa' cp' sp' ->
  is4 = is4' /\ ca = ca' /\ sa = sa' /\ cp = cp' /\ sp = sp'.
Proof.
  intros is4 is4' ca sa cp sp ca' sa' cp' sp' H1 H2 H3 H1' H2' H3' H.
  unfold proxy_line in H.
  assert (Hp : is4 = is4' /\ ca ++ [32%N] ++ sa ++ [32%N] ++ cp ++ [32%N] ++ sp ++ [13%N; 10%N]
                             = ca' ++ [32%N] ++ sa' ++ [32%N] ++ cp' ++ [32%N] ++ sp' ++ [13%N; 10%N]).
  { destruct is4, is4'; cbn in H; inversion H; split; try reflexivity; cbn [app]; assumption. }
  destruct Hp as [-> Hp]. cbn [app] in Hp.
  apply field_split in Hp; try assumption. destruct Hp as [-> Hp].
  apply field_split in Hp; try assumption. destruct Hp as [-> Hp].
  apply field_split in Hp; try assumption. destruct Hp as [-> Hp].
  apply app_inv_tail in Hp. subst. repeat split; reflexivity.
Qed.

(* ================= what the upstream receives ================= *)
(* tcp: for every segmentation, [PROXY line] ++ the client's bytes from the first one on *)
Theorem tcp_upstream_stream : forall pp line segs,
  upstream_stream KTcp pp line segs = Ok (Some ((if pp then line else []) ++ concat segs)).
Proof.
  intros. unfold upstream_stream, tunnel_setup. cbn [bind s_src s_pre].
  rewrite copy_preserves_stream. reflexivity.
Qed.

Corollary tcp_upstream_meets_spec : forall pp line segs,
  upstream_stream KTcp pp line segs = Ok (Some (spec_upstream KTcp pp line (concat segs))).
Proof. intros. rewrite tcp_upstream_stream. reflexivity. Qed.

(* tcp-dynamic (since fix commit 341d532): like tcp, for every segmentation
   [PROXY line] ++ the client's stream *)
Theorem dynamic_upstream_stream : forall pp line segs,
  upstream_stream KDyn pp line segs = Ok (Some (spec_upstream KDyn pp line (concat segs))).
Proof.
  intros. unfold upstream_stream, tunnel_setup. cbn [bind s_src s_pre].
  rewrite copy_preserves_stream. reflexivity.
Qed.

(* F-C09-4 as it was before 341d532: the unrepaired proxy never wrote the PROXY line, so with
   pxyproto=true the upstream's stream was not the specified one, whatever the (non-empty) line
   and the segmentation; the repaired model delivers it *)
Theorem dynamic_ignores_proxyproto_refuted : forall line segs, line <> [] ->
  upstream_stream_dyn_unrepaired segs = Ok (Some (concat segs)) /\
  upstream_stream_dyn_unrepaired segs <> Ok (Some (spec_upstream KDyn true line (concat segs))) /\
  upstream_stream KDyn true line segs = Ok (Some (spec_upstream KDyn true line (concat segs))).
Proof.
  intros line segs Hl. unfold upstream_stream_dyn_unrepaired. rewrite copy_preserves_stream. cbn [bind].
  split; [reflexivity|]. split; [|apply dynamic_upstream_stream].
  cbn [spec_upstream]. intros H. inversion H as [H1]. apply Hl.
  apply (f_equal (@length N)) in H1. rewrite app_length in H1.
  destruct line; [reflexivity | cbn [length] in H1; lia].
Qed.

(* the stream the upstream receives does not depend on whether the client's last bytes come
   with an error or before it *)
Theorem upstream_stream_f_eq : forall k pp line segs fin,
  upstream_stream_f k pp line segs fin = upstream_stream k pp line segs.
Proof.
  intros k pp line segs fin. destruct k; try reflexivity;
    unfold upstream_stream_f, upstream_stream; rewrite copy_preserves_stream_st, copy_preserves_stream; reflexivity.
Qed.

(* ================= the tunnel: both directions, half-close passed on (tunnel.go, e0f2d05) ================= *)
Record hinv (C U : str) (s : hstate) : Prop := {
  hi_c : h_c_done s ++ concat (h_c_todo s) = C;
  hi_u : h_u_done s ++ concat (h_u_todo s) = U;
  hi_fc : forall b, h_c_fin s = Some b -> h_c_todo s = [] /\ b = h_cw_out s;
  hi_fu : forall b, h_u_fin s = Some b -> h_u_todo s = [] /\ b = h_cw_in s
}.

Ltac hproj := cbn [h_c_todo h_c_eof h_c_done h_c_fin h_u_todo h_u_eof h_u_done h_u_fin h_cw_out h_cw_in].

Lemma hstep_inv C U d s : hinv C U s -> hinv C U (hstep d s).
Proof.
  intros [H1 H2 H3 H4]. unfold hstep. destruct (h_ended s); [constructor; assumption|].
  destruct d.
  - destruct (h_c_fin s) as [b0|] eqn:F; [constructor; rewrite ?F; assumption|].
    destruct (h_c_todo s) as [|ch rest] eqn:T.
    + destruct (h_c_eof s) eqn:E; [|constructor; rewrite ?F, ?T; assumption].
      constructor; hproj.
      * exact H1.
      * exact H2.
      * intros b Hb. inversion Hb. split; reflexivity.
      * exact H4.
    + constructor; hproj.
      * rewrite <- H1. cbn [concat]. now rewrite app_assoc.
      * exact H2.
      * intros b Hb. discriminate Hb.
      * exact H4.
  - destruct (h_u_fin s) as [b0|] eqn:F; [constructor; rewrite ?F; assumption|].
    destruct (h_u_todo s) as [|ch rest] eqn:T.
    + destruct (h_u_eof s) eqn:E; [|constructor; rewrite ?F, ?T; assumption].
      constructor; hproj.
      * exact H1.
      * exact H2.
      * exact H3.
      * intros b Hb. inversion Hb. split; reflexivity.
    + constructor; hproj.
      * exact H1.
      * rewrite <- H2. cbn [concat]. now rewrite app_assoc.
      * exact H3.
      * intros b Hb. discriminate Hb.
Qed.

Lemma hstep_caps d s : h_cw_out (hstep d s) = h_cw_out s /\ h_cw_in (hstep d s) = h_cw_in s.
Proof.
  unfold hstep. destruct (h_ended s); [split; reflexivity|].
  destruct d; [destruct (h_c_fin s); [split; reflexivity|]; destruct (h_c_todo s); [destruct (h_c_eof s)|]
              | destruct (h_u_fin s); [split; reflexivity|]; destruct (h_u_todo s); [destruct (h_u_eof s)|]];
    split; reflexivity.
Qed.

Lemma hrun_inv C U sched : forall s, hinv C U s -> hinv C U (hrun sched s).
Proof.
  induction sched as [|d sched IH]; intros s H; [exact H|].
  unfold hrun. cbn [fold_left]. apply IH. apply hstep_inv. exact H.
Qed.

Lemma hrun_caps sched : forall s, h_cw_out (hrun sched s) = h_cw_out s /\ h_cw_in (hrun sched s) = h_cw_in s.
Proof.
  induction sched as [|d sched IH]; intros s; [split; reflexivity|].
  unfold hrun. cbn [fold_left]. destruct (IH (hstep d s)) as [A B]. unfold hrun in A, B.
  rewrite A, B. apply hstep_caps.
Qed.

Lemma hinit_inv c ceof u ueof co ci : hinv (concat c) (concat u) (hinit c ceof u ueof co ci).
Proof. constructor; cbn; try reflexivity; intros b Hb; discriminate Hb. Qed.

(* for every schedule of the two copiers, every pair of streams, every segmentation and both
   kinds of connection: each side has received a prefix of what the other sent (every byte at
   most once, in order, unmodified) ... *)
Theorem tunnel_delivers_prefixes : forall sched c ceof u ueof co ci,
  let s := hrun sched (hinit c ceof u ueof co ci) in
  (exists rest, concat c = h_c_done s ++ rest) /\ (exists rest, concat u = h_u_done s ++ rest).
Proof.
  intros. destruct (hrun_inv _ _ sched _ (hinit_inv c ceof u ueof co ci)) as [Hc Hu _ _].
  split; [exists (concat (h_c_todo s)) | exists (concat (h_u_todo s))]; symmetry; assumption.
Qed.

(* ... a direction that has finished - first or second - has delivered all of its data ... *)
Theorem finisher_fully_delivered : forall sched c ceof u ueof co ci,
  let s := hrun sched (hinit c ceof u ueof co ci) in
  (h_c_fin s <> None -> h_c_done s = concat c) /\ (h_u_fin s <> None -> h_u_done s = concat u).
Proof.
  intros. destruct (hrun_inv _ _ sched _ (hinit_inv c ceof u ueof co ci)) as [Hc Hu Hfc Hfu]. fold s in Hc, Hu, Hfc, Hfu.
  split; intros F.
  - destruct (h_c_fin s) as [b|] eqn:E; [|contradiction]. destruct (Hfc b eq_refl) as [T _].
    rewrite T in Hc. cbn [concat] in Hc. now rewrite app_nil_r in Hc.
  - destruct (h_u_fin s) as [b|] eqn:E; [|contradiction]. destruct (Hfu b eq_refl) as [T _].
    rewrite T in Hu. cbn [concat] in Hu. now rewrite app_nil_r in Hu.
Qed.

(* ... the client's EOF alone never ends the tunnel when the upstream connection can be closed
   for writing (a dialled TCP connection can): when the tunnel has ended, the upstream's whole
   output has been delivered - a client that half-closes after sending receives the full reply ... *)
Theorem half_close_reply_delivered : forall sched c ceof u ueof ci,
  let s := hrun sched (hinit c ceof u ueof true ci) in
  h_ended s = true -> h_u_done s = concat u.
Proof.
  intros sched c ceof u ueof ci s E.
  destruct (finisher_fully_delivered sched c ceof u ueof true ci) as [_ Hu]. fold s in Hu. apply Hu.
  destruct (hrun_inv _ _ sched _ (hinit_inv c ceof u ueof true ci)) as [_ _ Hfc _]. fold s in Hfc.
  destruct (hrun_caps sched (hinit c ceof u ueof true ci)) as [Co _]. fold s in Co. cbn [hinit h_cw_out] in Co.
  unfold h_ended in E. destruct (h_c_fin s) as [[|]|] eqn:Fc; destruct (h_u_fin s) as [[|]|] eqn:Fu;
    try discriminate; try (intros X; discriminate X).
  all: destruct (Hfc false eq_refl) as [_ Hb]; rewrite Co in Hb; discriminate Hb.
Qed.

(* ... and when both connections can be closed for writing the tunnel ends only when BOTH
   directions are done: every byte delivered exactly once, in order, both ways, whatever the
   order in which the two sides close *)
Theorem tunnel_end_all_delivered : forall sched c ceof u ueof,
  let s := hrun sched (hinit c ceof u ueof true true) in
  h_ended s = true -> h_c_done s = concat c /\ h_u_done s = concat u.
Proof.
  intros sched c ceof u ueof s E.
  destruct (finisher_fully_delivered sched c ceof u ueof true true) as [Hc Hu]. fold s in Hc, Hu.
  destruct (hrun_inv _ _ sched _ (hinit_inv c ceof u ueof true true)) as [_ _ Hfc Hfu]. fold s in Hfc, Hfu.
  destruct (hrun_caps sched (hinit c ceof u ueof true true)) as [Co Ci]. fold s in Co, Ci. cbn [hinit h_cw_out h_cw_in] in Co, Ci.
  unfold h_ended in E. destruct (h_c_fin s) as [[|]|] eqn:Fc; destruct (h_u_fin s) as [[|]|] eqn:Fu; try discriminate.
  - split; [apply Hc | apply Hu]; intros X; discriminate X.
  - destruct (Hfu false eq_refl) as [_ Hb]. rewrite Ci in Hb. discriminate Hb.
  - destruct (Hfc false eq_refl) as [_ Hb]. rewrite Co in Hb. discriminate Hb.
  - destruct (Hfc false eq_refl) as [_ Hb]. rewrite Co in Hb. discriminate Hb.
  - destruct (Hfc false eq_refl) as [_ Hb]. rewrite Co in Hb. discriminate Hb.
  - destruct (Hfu false eq_refl) as [_ Hb]. rewrite Ci in Hb. discriminate Hb.
Qed.

Example tunnel_half_close_nonvacuous :
  let s := hrun [C2U; C2U; U2C; U2C] (hinit [[1; 2; 3]%N] true [[7; 8]%N] true true true) in
  h_ended s = true /\ h_c_done s = [1; 2; 3]%N /\ h_u_done s = [7; 8]%N.
Proof. repeat split; reflexivity. Qed.

(* F-C09-5 as it was before fix commit ad209fd: behind the tcp server's wrapper (which could not
   be closed for writing, whatever it wrapped) an upstream half-close ended the tunnel at once
   and cut what the client was still sending; with the delegating CloseWrite the same schedule
   goes on and delivers everything, the client having seen EOF after the upstream's data *)
Theorem upstream_half_close_refuted :
  (let s := hrun [U2C; U2C; C2U] (hinit [[1; 2]%N; [3]%N] true [[7; 8]%N] true true (wrapper_cw_unrepaired true)) in
   h_ended s = true /\ h_u_done s = [7; 8]%N /\ h_c_done s = [] /\ h_c_done s <> [1; 2; 3]%N) /\
  (let s := hrun [U2C; U2C; C2U] (hinit [[1; 2]%N; [3]%N] true [[7; 8]%N] true true (wrapper_cw true)) in
   h_ended s = false /\ h_u_fin s = Some true /\ h_c_done s = [1; 2]%N) /\
  (let s := hrun [U2C; U2C; C2U; C2U; C2U] (hinit [[1; 2]%N; [3]%N] true [[7; 8]%N] true true (wrapper_cw true)) in
   h_ended s = true /\ h_u_done s = [7; 8]%N /\ h_c_done s = [1; 2; 3]%N) /\
  (let e := tunnel_expect [1; 2; 3]%N [7; 8]%N (wrapper_cw_unrepaired true) false false CHalf UAtConnect UHalf in
   region_upstream_half_close [1; 2; 3]%N (wrapper_cw_unrepaired true) UAtConnect UHalf = true /\ e_up_lo e = 0%N /\ e_cl_eof e = Some false) /\
  (let e := tunnel_expect [1; 2; 3]%N [7; 8]%N (wrapper_cw true) false false CHalf UAtConnect UHalf in
   region_upstream_half_close [1; 2; 3]%N (wrapper_cw true) UAtConnect UHalf = false /\ e_up_lo e = 3%N /\ e_cl_lo e = 2%N /\
   e_cl_eof e = Some true /\ e_ends e = Some true).
Proof. repeat split; try reflexivity; cbv; discriminate. Qed.

(* ---- liveness: under schedules that let both copiers run often enough the tunnel ends and
        everything has been delivered ---- *)
Definition is_c2u (d : dir) : bool := match d with C2U => true | U2C => false end.
Definition nC (sched : list dir) : nat := length (filter is_c2u sched).
Definition nU (sched : list dir) : nat := length (filter (fun d => negb (is_c2u d)) sched).

(* steps still needed by a direction: one per chunk and one for the EOF *)
Definition mc (s : hstate) : nat := match h_c_fin s with Some _ => O | None => S (length (h_c_todo s)) end.
Definition mu (s : hstate) : nat := match h_u_fin s with Some _ => O | None => S (length (h_u_todo s)) end.

(* both sides end their streams, both connections can be closed for writing *)
Record good (s : hstate) : Prop := {
  g_co : h_cw_out s = true; g_ci : h_cw_in s = true;
  g_ce : h_c_eof s = true; g_ue : h_u_eof s = true;
  g_fc : forall b, h_c_fin s = Some b -> b = true;
  g_fu : forall b, h_u_fin s = Some b -> b = true
}.

Lemma good_not_ended_c s : good s -> h_c_fin s = None -> h_ended s = false.
Proof.
  intros G F. unfold h_ended. rewrite F. destruct (h_u_fin s) as [[|]|] eqn:E; try reflexivity.
  pose proof (g_fu s G false E). discriminate.
Qed.
Lemma good_not_ended_u s : good s -> h_u_fin s = None -> h_ended s = false.
Proof.
  intros G F. unfold h_ended. rewrite F. destruct (h_c_fin s) as [[|]|] eqn:E; try reflexivity.
  pose proof (g_fc s G false E). discriminate.
Qed.

Lemma hstep_good d s : good s -> good (hstep d s) /\
  mc (hstep d s) = (if is_c2u d then pred (mc s) else mc s) /\
  mu (hstep d s) = (if is_c2u d then mu s else pred (mu s)).
Proof.
  intros G. pose proof G as [Gco Gci Gce Gue Gfc Gfu]. unfold hstep.
  destruct (h_ended s) eqn:E.
  - (* ended: with two clean-only fins both directions are done *)
    assert (Hc : h_c_fin s <> None) by (intros F; rewrite (good_not_ended_c s G F) in E; discriminate).
    assert (Hu : h_u_fin s <> None) by (intros F; rewrite (good_not_ended_u s G F) in E; discriminate).
    split; [exact G|]. unfold mc, mu.
    destruct (h_c_fin s); [|contradiction]. destruct (h_u_fin s); [|contradiction].
    destruct d; split; reflexivity.
  - destruct d; cbn [is_c2u].
    + destruct (h_c_fin s) as [b0|] eqn:F.
      * split; [exact G|]. unfold mc, mu. rewrite F. split; reflexivity.
      * destruct (h_c_todo s) as [|ch rest] eqn:T.
        -- rewrite Gce. split; [constructor; hproj; try assumption; try reflexivity; intros b Hb; inversion Hb; exact Gco|].
           unfold mc, mu. hproj. rewrite F, T. split; reflexivity.
        -- split; [constructor; hproj; try assumption; try reflexivity; intros b Hb; discriminate Hb|].
           unfold mc, mu. hproj. rewrite F, T. split; reflexivity.
    + destruct (h_u_fin s) as [b0|] eqn:F.
      * split; [exact G|]. unfold mc, mu. rewrite F. split; reflexivity.
      * destruct (h_u_todo s) as [|ch rest] eqn:T.
        -- rewrite Gue. split; [constructor; hproj; try assumption; try reflexivity; intros b Hb; inversion Hb; exact Gci|].
           unfold mc, mu. hproj. rewrite F, T. split; reflexivity.
        -- split; [constructor; hproj; try assumption; try reflexivity; intros b Hb; discriminate Hb|].
           unfold mc, mu. hproj. rewrite F, T. split; reflexivity.
Qed.

Lemma hrun_good sched : forall s, good s -> good (hrun sched s) /\
  mc (hrun sched s) = (mc s - nC sched)%nat /\ mu (hrun sched s) = (mu s - nU sched)%nat.
Proof.
  induction sched as [|d sched IH]; intros s G.
  - unfold hrun, nC, nU. cbn [fold_left filter length]. split; [exact G|]. split; lia.
  - destruct (hstep_good d s G) as [G1 [M1 M2]].
    destruct (IH (hstep d s) G1) as [G2 [N1 N2]].
    unfold hrun in *. cbn [fold_left]. split; [exact G2|].
    rewrite N1, N2, M1, M2. unfold nC, nU. cbn [filter].
    destruct d; cbn [is_c2u negb length]; split; lia.
Qed.

(* LIVENESS 1: both sides end their streams, both connections can be closed for writing: every
   schedule that gives the client direction more than [length c] steps and the upstream
   direction more than [length u] steps ends the tunnel, with every byte delivered both ways *)
Theorem tunnel_fair_schedule_ends : forall sched c u,
  (length c < nC sched)%nat -> (length u < nU sched)%nat ->
  let s := hrun sched (hinit c true u true true true) in
  h_ended s = true /\ h_c_done s = concat c /\ h_u_done s = concat u.
Proof.
  intros sched c u Hc Hu s.
  assert (G0 : good (hinit c true u true true true)).
  { constructor; cbn; try reflexivity; intros b Hb; discriminate Hb. }
  destruct (hrun_good sched _ G0) as [G [M1 M2]]. fold s in G, M1, M2.
  unfold mc, mu in M1, M2. cbn [hinit h_c_fin h_u_fin h_c_todo h_u_todo] in M1, M2.
  assert (E : h_ended s = true).
  { unfold h_ended. destruct (h_c_fin s) as [bc|] eqn:Fc; [|lia]. destruct (h_u_fin s) as [bu|] eqn:Fu; [|lia].
    rewrite (g_fc s G bc Fc), (g_fu s G bu Fu). reflexivity. }
  split; [exact E|]. apply (tunnel_end_all_delivered sched c true u true). exact E.
Qed.

(* LIVENESS 2: a half-closing client and an upstream that never closes ([ueof = false]): the
   tunnel never ends, and every schedule with at least [length u] upstream steps has delivered
   the whole reply *)
Lemma hstep_open d s :
  h_u_eof s = false -> h_u_fin s = None -> (forall b, h_c_fin s = Some b -> b = true) -> h_cw_out s = true ->
  h_u_eof (hstep d s) = false /\ h_u_fin (hstep d s) = None /\ (forall b, h_c_fin (hstep d s) = Some b -> b = true) /\
  h_cw_out (hstep d s) = true /\
  length (h_u_todo (hstep d s)) = (if is_c2u d then length (h_u_todo s) else pred (length (h_u_todo s))) /\
  h_u_done (hstep d s) ++ concat (h_u_todo (hstep d s)) = h_u_done s ++ concat (h_u_todo s).
Proof.
  intros Hue Hf Hc Hco. unfold hstep.
  assert (E : h_ended s = false).
  { unfold h_ended. rewrite Hf. destruct (h_c_fin s) as [[|]|] eqn:F; try reflexivity. pose proof (Hc false eq_refl). discriminate. }
  rewrite E.
  assert (Hc' : forall b, Some (h_cw_out s) = Some b -> b = true) by (intros b Hb; inversion Hb; exact Hco).
  destruct d; cbn [is_c2u].
  - destruct (h_c_fin s) as [b0|] eqn:F.
    + split; [exact Hue|]. split; [exact Hf|]. split; [intros b Hb; rewrite F in Hb; exact (Hc b Hb)|].
      split; [exact Hco|]. split; reflexivity.
    + destruct (h_c_todo s) as [|ch rest].
      * destruct (h_c_eof s); hproj.
        -- split; [exact Hue|]. split; [exact Hf|]. split; [exact Hc'|]. split; [exact Hco|]. split; reflexivity.
        -- split; [exact Hue|]. split; [exact Hf|]. split; [intros b Hb; rewrite F in Hb; discriminate Hb|].
           split; [exact Hco|]. split; reflexivity.
      * hproj. split; [exact Hue|]. split; [exact Hf|]. split; [intros b Hb; discriminate Hb|].
        split; [exact Hco|]. split; reflexivity.
  - rewrite Hf. destruct (h_u_todo s) as [|ch rest] eqn:T.
    + rewrite Hue. split; [exact Hue|]. split; [exact Hf|]. split; [exact Hc|]. split; [exact Hco|].
      rewrite T. split; reflexivity.
    + hproj. split; [exact Hue|]. split; [reflexivity|]. split; [exact Hc|]. split; [exact Hco|].
      split; [reflexivity|]. cbn [concat]. now rewrite app_assoc.
Qed.

Theorem half_close_reply_delivered_live : forall sched c ceof u ci,
  (length u <= nU sched)%nat ->
  let s := hrun sched (hinit c ceof u false true ci) in
  h_ended s = false /\ h_u_done s = concat u.
Proof.
  intros sched c ceof u ci.
  set (s0 := hinit c ceof u false true ci).
  assert (H0 : h_u_eof s0 = false /\ h_u_fin s0 = None /\ (forall b, h_c_fin s0 = Some b -> b = true) /\ h_cw_out s0 = true).
  { subst s0. cbn. repeat split; try reflexivity. intros b Hb; discriminate Hb. }
  assert (Hd : h_u_done s0 ++ concat (h_u_todo s0) = concat u) by reflexivity.
  assert (Hl : length (h_u_todo s0) = length u) by reflexivity.
  clearbody s0. revert s0 H0 Hd Hl. generalize (length u) as n.
  induction sched as [|d sched IH]; intros n s0 [Hue [Hf [Hc Hco]]] Hd Hl Hn s.
  - subst s. unfold hrun. cbn [fold_left]. unfold nU in Hn. cbn [filter length] in Hn.
    assert (h_u_todo s0 = []) by (destruct (h_u_todo s0); [reflexivity | cbn [length] in Hl; lia]).
    rewrite H in Hd. cbn [concat] in Hd. rewrite app_nil_r in Hd. split; [|exact Hd].
    unfold h_ended. rewrite Hf. destruct (h_c_fin s0) as [[|]|] eqn:F; try reflexivity. pose proof (Hc false eq_refl). discriminate.
  - destruct (hstep_open d s0 Hue Hf Hc Hco) as [A [B [C [D [L P]]]]].
    subst s. unfold hrun. cbn [fold_left].
    apply (IH (length (h_u_todo (hstep d s0))) (hstep d s0)); [repeat split; assumption | rewrite P; exact Hd | reflexivity |].
    rewrite L. unfold nU in *. cbn [filter] in Hn. destruct d; cbn [is_c2u negb length] in *; lia.
Qed.

(* F-C09-7 (open): the accepted connection cannot be closed for writing only (the Conn of
   go-proxyproto on listeners with pxyproto=true): the upstream half-closes - it is still
   reading - and the tunnel ends at once with the client's remaining bytes undelivered; on the
   scripted scenario the model's forced outcome allows that loss and the specification rejects it *)
Theorem upstream_half_close_no_closewrite_refuted :
  (let s := hrun [U2C; U2C; C2U] (hinit [[1; 2]%N; [3]%N] true [[7; 8]%N] true true false) in
   h_ended s = true /\ h_u_fin s = Some false /\ h_u_done s = [7; 8]%N /\ h_c_done s = [] /\ h_c_done s <> [1; 2; 3]%N) /\
  (let e := tunnel_expect [1; 2; 3]%N [7; 8]%N false false false CHalf UAtConnect UHalf in
   region_upstream_half_close [1; 2; 3]%N false UAtConnect UHalf = true /\ e_up_lo e = 0%N /\ e_ends e = Some true /\
   within [] (e_up e) (e_up_lo e) (nlen' (e_up e)) = true /\
   spec_core [1; 2; 3]%N [7; 8]%N false CHalf UAtConnect UHalf [] [7; 8]%N = false /\
   spec_core [1; 2; 3]%N [7; 8]%N false CHalf UAtConnect UHalf [1; 2; 3]%N [7; 8]%N = true).
Proof. repeat split; try reflexivity; cbv; discriminate. Qed.

(* ================= the unrepaired tunnel (before e0f2d05): the first finished direction ended it ================= *)

Record tinv (C U : str) (s : tstate) : Prop := {
  ti_c : t_c_done s ++ concat (t_c_todo s) = C;
  ti_u : t_u_done s ++ concat (t_u_todo s) = U;
  ti_ec : t_ended s = Some C2U -> t_c_todo s = [] /\ t_c_eof s = true;
  ti_eu : t_ended s = Some U2C -> t_u_todo s = [] /\ t_u_eof s = true
}.

Lemma tstep_inv C U d s : tinv C U s -> tinv C U (tstep_unrepaired d s).
Proof.
  intros [Hc Hu Hec Heu]. unfold tstep_unrepaired.
  destruct (t_ended s) eqn:E; [constructor; rewrite ?E; assumption|].
  destruct d.
  - destruct (t_c_todo s) as [|ch rest] eqn:T.
    + destruct (t_c_eof s) eqn:F.
      * constructor; cbn [t_c_done t_c_todo t_u_done t_u_todo t_ended t_c_eof t_u_eof].
        -- exact Hc.
        -- exact Hu.
        -- intros _. split; reflexivity.
        -- discriminate.
      * constructor; rewrite ?E, ?T; try assumption; intros X; discriminate X.
    + constructor; cbn [t_c_done t_c_todo t_u_done t_u_todo t_ended t_c_eof t_u_eof].
      * rewrite <- Hc. cbn [concat]. now rewrite app_assoc.
      * exact Hu.
      * discriminate.
      * discriminate.
  - destruct (t_u_todo s) as [|ch rest] eqn:T.
    + destruct (t_u_eof s) eqn:F.
      * constructor; cbn [t_c_done t_c_todo t_u_done t_u_todo t_ended t_c_eof t_u_eof].
        -- exact Hc.
        -- exact Hu.
        -- discriminate.
        -- intros _. split; reflexivity.
      * constructor; rewrite ?E, ?T; try assumption; intros X; discriminate X.
    + constructor; cbn [t_c_done t_c_todo t_u_done t_u_todo t_ended t_c_eof t_u_eof].
      * exact Hc.
      * rewrite <- Hu. cbn [concat]. now rewrite app_assoc.
      * discriminate.
      * discriminate.
Qed.

Lemma trun_inv C U sched : forall s, tinv C U s -> tinv C U (trun_unrepaired sched s).
Proof.
  induction sched as [|d sched IH]; intros s H; [exact H|].
  unfold trun_unrepaired. cbn [fold_left]. apply IH. apply tstep_inv. exact H.
Qed.

Lemma tinit_inv c ceof u ueof : tinv (concat c) (concat u) (tinit_unrepaired c ceof u ueof).
Proof. constructor; cbn; try reflexivity; discriminate. Qed.

Lemma tstep_eof d s : t_c_eof (tstep_unrepaired d s) = t_c_eof s /\ t_u_eof (tstep_unrepaired d s) = t_u_eof s.
Proof.
  unfold tstep_unrepaired. destruct (t_ended s); [split; reflexivity|].
  destruct d.
  - destruct (t_c_todo s); [destruct (t_c_eof s) eqn:F|]; cbn; rewrite ?F; split; reflexivity.
  - destruct (t_u_todo s); [destruct (t_u_eof s) eqn:F|]; cbn; rewrite ?F; split; reflexivity.
Qed.

Lemma trun_eof sched : forall s, t_c_eof (trun_unrepaired sched s) = t_c_eof s /\ t_u_eof (trun_unrepaired sched s) = t_u_eof s.
Proof.
  induction sched as [|d sched IH]; intros s; [split; reflexivity|].
  unfold trun_unrepaired. cbn [fold_left]. destruct (IH (tstep_unrepaired d s)) as [H1 H2]. unfold trun_unrepaired in H1, H2.
  rewrite H1, H2. apply tstep_eof.
Qed.

(* under every schedule: each side receives a prefix of what the other sent (in order,
   once, unmodified) ... *)
Theorem tunnel_delivers_prefixes_unrepaired : forall sched c ceof u ueof,
  let s := trun_unrepaired sched (tinit_unrepaired c ceof u ueof) in
  (exists rest, concat c = t_c_done s ++ rest) /\ (exists rest, concat u = t_u_done s ++ rest).
Proof.
  intros. destruct (trun_inv _ _ sched _ (tinit_inv c ceof u ueof)) as [Hc Hu _ _].
  split; [exists (concat (t_c_todo s)) | exists (concat (t_u_todo s))]; symmetry; assumption.
Qed.

(* ... and whichever direction finishes first has had all of its data delivered *)
Theorem finisher_fully_delivered_unrepaired : forall sched c ceof u ueof,
  let s := trun_unrepaired sched (tinit_unrepaired c ceof u ueof) in
  (t_ended s = Some C2U -> t_c_done s = concat c /\ ceof = true) /\
  (t_ended s = Some U2C -> t_u_done s = concat u /\ ueof = true).
Proof.
  intros.
  assert (Hk : t_c_eof s = ceof /\ t_u_eof s = ueof).
  { subst s. destruct (trun_eof sched (tinit_unrepaired c ceof u ueof)) as [-> ->]. split; reflexivity. }
  destruct Hk as [Hk1 Hk2].
  destruct (trun_inv _ _ sched _ (tinit_inv c ceof u ueof)) as [Hc Hu Hec Heu]. fold s in Hc, Hu, Hec, Heu.
  split; intros E.
  - destruct (Hec E) as [T F]. rewrite T in Hc. cbn [concat] in Hc. rewrite app_nil_r in Hc. split; congruence.
  - destruct (Heu E) as [T F]. rewrite T in Hu. cbn [concat] in Hu. rewrite app_nil_r in Hu. split; congruence.
Qed.

Example finisher_nonvacuous_unrepaired :
  t_ended (trun_unrepaired [C2U; U2C; C2U; C2U] (tinit_unrepaired [[1%N; 2%N]; [3%N]] true [[9%N]] false)) = Some C2U.
Proof. reflexivity. Qed.

(* a client that sends, half-closes (its source ends with EOF, it keeps reading) and an
   upstream that replies: under the schedule where the client direction sees EOF before the
   reply is relayed the tunnel is torn down and the reply never arrives *)
Theorem half_close_reply_refuted :
  exists sched req reply,
    let s := trun_unrepaired sched (tinit_unrepaired [req] true [reply] true) in
    reply <> [] /\ t_ended s = Some C2U /\ t_c_done s = req /\ t_u_done s = [] /\ t_u_done s <> reply.
Proof.
  exists [C2U; C2U; U2C], [1%N; 2%N; 3%N], [7%N; 8%N].
  cbv. repeat split; discriminate.
Qed.

(* the reply does arrive under every schedule in which the client only ends after the
   reply has been relayed (the waiting client of the correspondence run) *)
Theorem half_close_reply_on_domain_unrepaired : forall sched c u ueof,
  let s := trun_unrepaired sched (tinit_unrepaired c false u ueof) in
  t_ended s = Some U2C -> t_u_done s = concat u.
Proof.
  intros sched c u ueof s E.
  destruct (finisher_fully_delivered_unrepaired sched c false u ueof) as [_ H]. fold s in H. apply H. exact E.
Qed.

(* F-C09-2 paired: the schedule on which the unrepaired tunnel lost the reply (the client
   direction sees EOF first), run on the current tunnel: it does not end there, and ends - with
   request and reply both delivered - once the upstream direction is done too *)
Theorem half_close_reply_refuted_now_delivered :
  (let s := trun_unrepaired [C2U; C2U; U2C] (tinit_unrepaired [[1; 2; 3]%N] true [[7; 8]%N] true) in
   t_ended s = Some C2U /\ t_u_done s = [] /\ t_u_done s <> [7; 8]%N) /\
  (let s := hrun [C2U; C2U] (hinit [[1; 2; 3]%N] true [[7; 8]%N] true true true) in
   h_ended s = false /\ h_c_fin s = Some true) /\
  (let s := hrun [C2U; C2U; U2C; U2C] (hinit [[1; 2; 3]%N] true [[7; 8]%N] true true true) in
   h_ended s = true /\ h_c_done s = [1; 2; 3]%N /\ h_u_done s = [7; 8]%N).
Proof. repeat split; try reflexivity; cbv; discriminate. Qed.

(* ================= bufio.Reader: nothing is invented, reordered or duplicated ================= *)
Definition pending (b : breader) : str := b_buf b ++ concat (b_src b).

Lemma fill_pending b : pending (fill b) = pending b.
Proof.
  unfold fill, pending. destruct (src_read (b_cap b - buffered b) (b_src b)) as [[d s'] e] eqn:E.
  cbn [b_buf b_src]. rewrite <- (src_read_conserves _ _ _ _ _ E). now rewrite app_assoc.
Qed.

Lemma peek_loop_pending fuel : forall b n b1, peek_loop fuel b n = Some b1 -> pending b1 = pending b.
Proof.
  induction fuel as [|f IH]; intros b n b1 H; cbn [peek_loop] in H.
  - destruct ((buffered b <? n)%nat && (buffered b <? b_cap b)%nat && (b_err b =? 0)%N); [discriminate|].
    inversion H; reflexivity.
  - destruct ((buffered b <? n)%nat && (buffered b <? b_cap b)%nat && (b_err b =? 0)%N).
    + rewrite (IH _ _ _ H). apply fill_pending.
    + inversion H; reflexivity.
Qed.

(* Peek consumes nothing and returns a prefix of what is pending *)
Lemma peek_pending b n d e b1 :
  peek b n = Ok (d, e, b1) -> pending b1 = pending b /\ exists r, pending b = d ++ r.
Proof.
  unfold peek. destruct (peek_loop (S (b_cap b)) b n) as [b2|] eqn:L; [|discriminate].
  pose proof (peek_loop_pending _ _ _ _ L) as P.
  destruct (b_cap b2 <? n)%nat.
  - intros H; inversion H; subst. split; [exact P|]. exists (concat (b_src b1)). rewrite <- P. reflexivity.
  - destruct (buffered b2 <? n)%nat.
    + intros H; inversion H; subst. unfold pending in *. cbn [clear_err b_buf b_src].
      split; [exact P|]. exists (concat (b_src b2)). rewrite <- P. reflexivity.
    + intros H; inversion H; subst. split; [exact P|].
      exists (skipn n (b_buf b1) ++ concat (b_src b1)). rewrite <- P. unfold pending.
      now rewrite app_assoc, firstn_skipn.
Qed.

Lemma firstn_skipn_app3 {A} n (l r : list A) : firstn n l ++ skipn n l ++ r = l ++ r.
Proof. now rewrite app_assoc, firstn_skipn. Qed.

(* Read hands out a prefix of what is pending and keeps the rest, in order *)
Lemma bread_pending b n d e b1 : bread b n = (d, e, b1) -> d ++ pending b1 = pending b.
Proof.
  unfold bread, pending. destruct n as [|n'].
  - destruct (0 <? buffered b)%nat; intros H; inversion H; subst; reflexivity.
  - destruct (b_buf b) as [|x buf] eqn:B.
    + destruct (negb (b_err b =? 0)%N).
      * intros H; inversion H; subst. cbn [clear_err b_buf b_src]. now rewrite B.
      * destruct (b_cap b <=? S n')%nat.
        -- destruct (src_read (S n') (b_src b)) as [[d0 s'] e0] eqn:E.
           intros H; inversion H; subst. cbn [b_buf b_src app].
           apply (src_read_conserves _ _ _ _ _ E).
        -- destruct (src_read (b_cap b) (b_src b)) as [[d0 s'] e0] eqn:E.
           pose proof (src_read_conserves _ _ _ _ _ E) as C.
           destruct d0 as [|y d0].
           ++ intros H; inversion H; subst. cbn [b_buf b_src app]. exact C.
           ++ intros H; inversion H; subst. cbn [b_buf b_src]. cbn [app] in C |- *.
              rewrite <- C. f_equal. rewrite app_assoc. f_equal. apply firstn_skipn.
    + intros H; inversion H; subst. cbn [set_buf b_buf b_src].
      apply (firstn_skipn_app3 (S n') (x :: buf)).
Qed.

Lemma read_full_loop_pending fuel : forall b need acc d e b1,
  read_full_loop fuel b need acc = Some (d, e, b1) -> d ++ pending b1 = acc ++ pending b.
Proof.
  induction fuel as [|f IH]; intros b need acc d e b1 H.
  - destruct need; cbn [read_full_loop] in H; [inversion H; subst; reflexivity | discriminate].
  - destruct need as [|need']; cbn [read_full_loop] in H; [inversion H; subst; reflexivity|].
    destruct (bread b (S need')) as [[d0 e0] b0] eqn:R.
    pose proof (bread_pending _ _ _ _ _ R) as P.
    destruct (e0 =? 0)%N.
    + rewrite (IH _ _ _ _ _ _ H). rewrite <- P. now rewrite app_assoc.
    + destruct (S need' <=? length d0)%nat; inversion H; subst; rewrite <- P; now rewrite app_assoc.
Qed.

Lemma read_full_pending b n d e b1 : read_full b n = Ok (d, e, b1) -> d ++ pending b1 = pending b.
Proof.
  unfold read_full. destruct (read_full_loop (S n) b n []) as [[[d0 e0] b0]|] eqn:L; [|discriminate].
  intros H; inversion H; subst. apply (read_full_loop_pending _ _ _ _ _ _ _ L).
Qed.

(* ================= reading on through the bufio.Reader ================= *)
Lemma src_read_eof_src m src d s' : src_read m src = (d, s', true) -> s' = [].
Proof.
  revert d s'; induction src as [|seg rest IH]; intros d s' H.
  - cbn [src_read] in H. inversion H; reflexivity.
  - destruct seg as [|x seg]; cbn [src_read] in H; [eauto | inversion H].
Qed.

Lemma src_read_measure m src d s' :
  src_read m src = (d, s', false) -> (length d + src_measure s' <= src_measure src)%nat.
Proof.
  revert d s'; induction src as [|seg rest IH]; intros d s' H.
  - cbn [src_read] in H. inversion H.
  - destruct seg as [|x seg]; cbn [src_read] in H.
    + specialize (IH _ _ H). unfold src_measure in *. cbn [concat app length]. lia.
    + inversion H; subst. unfold src_measure. cbn [concat length].
      rewrite !app_length, skipn_length, firstn_length. cbn [length]. lia.
Qed.

(* a pending EOF means the connection is exhausted *)
Definition wf (b : breader) : Prop := b_err b <> 0%N -> concat (b_src b) = [].

Ltac wf0 := let X := fresh in unfold wf; cbn; intros X; exfalso; apply X; reflexivity.

Lemma fill_wf b : wf (fill b).
Proof.
  unfold fill. destruct (src_read (b_cap b - buffered b) (b_src b)) as [[d s'] e] eqn:E.
  destruct e; [|wf0]. apply src_read_eof_src in E. subst. unfold wf. cbn. reflexivity.
Qed.

Lemma peek_loop_wf fuel : forall b n b1, wf b -> peek_loop fuel b n = Some b1 -> wf b1.
Proof.
  induction fuel as [|f IH]; intros b n b1 W H; cbn [peek_loop] in H.
  - destruct ((buffered b <? n)%nat && (buffered b <? b_cap b)%nat && (b_err b =? 0)%N); [discriminate|].
    inversion H; subst; exact W.
  - destruct ((buffered b <? n)%nat && (buffered b <? b_cap b)%nat && (b_err b =? 0)%N).
    + eapply IH; [apply fill_wf | exact H].
    + inversion H; subst; exact W.
Qed.

Lemma peek_wf b n d e b1 : wf b -> peek b n = Ok (d, e, b1) -> wf b1.
Proof.
  intros W. unfold peek. destruct (peek_loop (S (b_cap b)) b n) as [b2|] eqn:L; [|discriminate].
  pose proof (peek_loop_wf _ _ _ _ W L) as W2.
  destruct (b_cap b2 <? n)%nat; [intros H; inversion H; subst; exact W2|].
  destruct (buffered b2 <? n)%nat; intros H; inversion H; subst; [wf0 | exact W2].
Qed.

Lemma bread_wf b n d e b1 : wf b -> bread b n = (d, e, b1) -> wf b1.
Proof.
  intros W. unfold bread. destruct n as [|n'].
  - destruct (0 <? buffered b)%nat; intros H; inversion H; subst; [exact W | wf0].
  - destruct (b_buf b) as [|x buf] eqn:B.
    + destruct (negb (b_err b =? 0)%N); [intros H; inversion H; subst; wf0|].
      destruct (b_cap b <=? S n')%nat.
      * destruct (src_read (S n') (b_src b)) as [[d0 s'] e0]. intros H; inversion H; subst. wf0.
      * destruct (src_read (b_cap b) (b_src b)) as [[d0 s'] e0] eqn:E.
        destruct d0 as [|y d0]; intros H; inversion H; subst; [wf0|].
        destruct e0; [|wf0]. apply src_read_eof_src in E. subst. unfold wf. cbn. reflexivity.
    + intros H; inversion H; subst. exact W.
Qed.

Lemma read_full_loop_wf fuel : forall b need acc d e b1,
  wf b -> read_full_loop fuel b need acc = Some (d, e, b1) -> wf b1.
Proof.
  induction fuel as [|f IH]; intros b need acc d e b1 W H.
  - destruct need; cbn [read_full_loop] in H; [inversion H; subst; exact W | discriminate].
  - destruct need as [|need']; cbn [read_full_loop] in H; [inversion H; subst; exact W|].
    destruct (bread b (S need')) as [[d0 e0] b0] eqn:R.
    pose proof (bread_wf _ _ _ _ _ W R) as W0.
    destruct (e0 =? 0)%N; [eapply IH; eassumption|].
    destruct (S need' <=? length d0)%nat; inversion H; subst; exact W0.
Qed.

Lemma read_full_wf b n d e b1 : wf b -> read_full b n = Ok (d, e, b1) -> wf b1.
Proof.
  intros W. unfold read_full. destruct (read_full_loop (S n) b n []) as [[[d0 e0] b0]|] eqn:L; [|discriminate].
  intros H; inversion H; subst. eapply read_full_loop_wf; eassumption.
Qed.

(* one Read with a non-empty buffer argument: either an error with nothing pending, or
   progress *)
Lemma bread_step b m d e b1 : (0 < m)%nat -> wf b -> bread b m = (d, e, b1) ->
  (e <> 0%N /\ d = [] /\ pending b = []) \/
  (e = 0%N /\ wf b1 /\ (reader_measure b1 < reader_measure b)%nat).
Proof.
  intros Hm W. unfold bread. destruct m as [|n']; [lia|].
  destruct (b_buf b) as [|x buf] eqn:B.
  - destruct (b_err b =? 0)%N eqn:Eerr; cbn [negb].
    + destruct (b_cap b <=? S n')%nat eqn:Ecap.
      * destruct (src_read (S n') (b_src b)) as [[d0 s'] e0] eqn:E.
        intros H; inversion H; subst. destruct e0.
        -- left. apply src_read_eof in E. destruct E as [-> Hc].
           split; [discriminate|]. split; [reflexivity|]. unfold pending. now rewrite B, Hc.
        -- right. destruct (src_read_progress _ _ _ _ Hm E) as [_ Hlt].
           split; [reflexivity|]. split; [wf0|].
           unfold reader_measure. cbn [b_buf b_src]. rewrite B. cbn [length]. lia.
      * apply Nat.leb_gt in Ecap.
        destruct (src_read (b_cap b) (b_src b)) as [[d0 s'] e0] eqn:E.
        destruct d0 as [|y d0].
        -- intros H; inversion H; subst. destruct e0.
           ++ left. apply src_read_eof in E. destruct E as [_ Hc].
              split; [discriminate|]. split; [reflexivity|]. unfold pending. now rewrite B, Hc.
           ++ exfalso. assert (Hc : (0 < b_cap b)%nat) by lia.
              destruct (src_read_progress _ _ _ _ Hc E) as [Hd _]. now apply Hd.
        -- intros H; inversion H; subst. right. split; [reflexivity|].
           destruct e0.
           ++ apply src_read_eof in E. destruct E as [E _]. discriminate E.
           ++ split; [wf0|]. pose proof (src_read_measure _ _ _ _ E) as Hle.
              unfold reader_measure. cbn [b_buf b_src]. rewrite B. rewrite skipn_length.
              cbn [length] in *. lia.
    + apply N.eqb_neq in Eerr. intros H; inversion H; subst. left.
      split; [exact Eerr|]. split; [reflexivity|]. unfold pending. rewrite B. cbn [app]. exact (W Eerr).
  - intros H; inversion H; subst. right. split; [reflexivity|]. split; [exact W|].
    unfold reader_measure. cbn [set_buf b_buf b_src]. rewrite B, skipn_length. cbn [length]. lia.
Qed.

(* copying through the reader delivers exactly what is pending: the buffered bytes first,
   then the rest of the connection, for every segmentation *)
Lemma copy_reader_loop_preserves m : (0 < m)%nat -> forall fuel b,
  wf b -> (reader_measure b < fuel)%nat -> copy_reader_loop fuel m b = Some (pending b).
Proof.
  intros Hm. induction fuel as [|f IH]; intros b W Hf; [lia|].
  cbn [copy_reader_loop]. destruct (bread b m) as [[d e] b1] eqn:R.
  pose proof (bread_pending _ _ _ _ _ R) as P.
  destruct (bread_step _ _ _ _ _ Hm W R) as [[He [Hd Hp]] | [He [W1 Hlt]]].
  - destruct (e =? 0)%N eqn:E0; [apply N.eqb_eq in E0; contradiction|]. cbn [negb]. now rewrite Hd, Hp.
  - subst e. cbn [N.eqb negb]. rewrite IH by (assumption || lia). now rewrite P.
Qed.

Theorem copy_from_reader_preserves : forall b, wf b -> copy_from_reader b = Ok (pending b).
Proof.
  intros b W. unfold copy_from_reader.
  rewrite (copy_reader_loop_preserves _ copy_buf_pos) by (assumption || lia). reflexivity.
Qed.

(* ================= tcp+sni ================= *)
(* after the handshake: the bytes handed out so far plus what the reader still holds (buffer
   and connection) are the client's stream *)
Lemma sni_handshake_inv : forall line segs pre b,
  sni_handshake line segs = Ok (Some (pre, b)) ->
  wf b /\ exists data, pre = line ++ data /\ data ++ pending b = concat segs.
Proof.
  intros line segs pre b. unfold sni_handshake.
  assert (W0 : wf (new_reader sni_buf_size segs)) by wf0.
  destruct (peek (new_reader sni_buf_size segs) 9) as [[[hdr e1] b1]|k1|] eqn:P; cbn [bind]; try discriminate.
  destruct (peek_pending _ _ _ _ _ P) as [P1 _]. pose proof (peek_wf _ _ _ _ _ W0 P) as W1.
  destruct (negb (e1 =? 0)%N); [discriminate|].
  destruct (client_hello_buffer_size hdr) as [size|k2|]; try discriminate.
  destruct (read_full b1 (N.to_nat size)) as [[[data e2] b2]|k3|] eqn:R; cbn [bind]; try discriminate.
  pose proof (read_full_pending _ _ _ _ _ R) as P2. pose proof (read_full_wf _ _ _ _ _ W1 R) as W2.
  destruct (negb (e2 =? 0)%N); [discriminate|].
  destruct (read_server_name (skipn 5 data)) as [[|c name]|k4|]; try discriminate.
  intros H; inversion H; subst. split; [exact W2|].
  exists data. split; [reflexivity|]. rewrite P2, P1. reflexivity.
Qed.

(* tcp+sni (since c17abb6): for every segmentation the upstream receives
   [PROXY line] ++ the client's stream from its first byte, like tcp *)
Theorem sni_upstream_stream : forall (pp : bool) (line : str) segs up,
  upstream_stream KSni pp line segs = Ok (Some up) ->
  up = spec_upstream KSni pp line (concat segs).
Proof.
  intros pp line segs up. unfold upstream_stream.
  destruct (sni_handshake (if pp then line else []) segs) as [[[pre b]|]|k|] eqn:H; cbn [bind]; try discriminate.
  destruct (sni_handshake_inv _ _ _ _ H) as [W [data [-> Hc]]].
  rewrite (copy_from_reader_preserves _ W). cbn [bind]. intros E; inversion E; subst.
  cbn [spec_upstream]. rewrite <- Hc. now rewrite app_assoc.
Qed.

Definition wit_hello : str := enc_record 3 1 ex_hello.

Example sni_upstream_nonvacuous :
  upstream_stream KSni false [] [wit_hello ++ [1; 2; 3]%N; [9%N]] = Ok (Some (wit_hello ++ [1; 2; 3; 9]%N)) /\
  upstream_stream KSni false [] [firstn 20 wit_hello; skipn 20 wit_hello ++ [1%N]; [2; 3]%N]
    = Ok (Some (wit_hello ++ [1; 2; 3]%N)).
Proof. split; vm_compute; reflexivity. Qed.

(* the unrepaired copier (before c17abb6) read the raw connection: the upstream received the
   stream with exactly the bytes stuck in the reader cut out *)
Theorem sni_unrepaired_stream : forall (pp : bool) (line : str) segs up,
  upstream_stream_sni_unrepaired pp line segs = Ok (Some up) ->
  exists data rest, up = (if pp then line else []) ++ data ++ rest /\
    data ++ sni_leftover_unrepaired (if pp then line else []) segs ++ rest = concat segs.
Proof.
  intros pp line segs up. unfold upstream_stream_sni_unrepaired, sni_leftover_unrepaired.
  destruct (sni_handshake (if pp then line else []) segs) as [[[pre b]|]|k|] eqn:H; cbn [bind]; try discriminate.
  destruct (sni_handshake_inv _ _ _ _ H) as [_ [data [-> Hc]]].
  rewrite copy_preserves_stream. cbn [bind]. intros E; inversion E; subst.
  exists data, (concat (b_src b)). split; [now rewrite app_assoc | exact Hc].
Qed.

(* F-C09-1 as it was before the fix commit c17abb6: a first segment that carries the
   ClientHello plus 3 more bytes; they never arrived, although bytes sent later did *)
Theorem sni_leftover_refuted :
  exists segs, sni_leftover_unrepaired [] segs = [1; 2; 3]%N /\
    upstream_stream_sni_unrepaired false [] segs = Ok (Some (wit_hello ++ [9%N])) /\
    concat segs = wit_hello ++ [1; 2; 3; 9]%N /\
    upstream_stream_sni_unrepaired false [] segs <> Ok (Some (spec_upstream KSni false [] (concat segs))) /\
    upstream_stream KSni false [] segs = Ok (Some (spec_upstream KSni false [] (concat segs))).
Proof.
  exists [wit_hello ++ [1; 2; 3]%N; [9%N]].
  split; [vm_compute; reflexivity|]. split; [vm_compute; reflexivity|].
  split; [vm_compute; reflexivity|]. split; [vm_compute; discriminate | vm_compute; reflexivity].
Qed.

(* ================= websocket relay ================= *)
Lemma firstn_app_exact {A} (p r : list A) n : (length p <= n)%nat -> exists r', firstn n (p ++ r) = p ++ r'.
Proof.
  intros H. exists (firstn (n - length p) r). rewrite firstn_app.
  rewrite firstn_all2 by exact H. reflexivity.
Qed.

Lemma ws_101_len : length ws_101 = 12%nat.
Proof. reflexivity. Qed.

(* the accumulating handshake read (io.ReadAtLeast(out, b, 12), since 9c9f13b) *)
Lemma ws_read_loop_total : forall fuel acc src,
  (12 - length acc <= fuel)%nat -> (12 <= length (acc ++ concat src))%nat ->
  exists chunk rest, ws_read_loop fuel acc src = Ok (Some (chunk, rest)) /\
    chunk ++ concat rest = acc ++ concat src /\ (12 <= length chunk)%nat.
Proof.
  induction fuel as [|f IH]; intros acc src Hf Ht; cbn [ws_read_loop];
    (destruct (12 <=? length acc)%nat eqn:C;
     [apply Nat.leb_le in C; exists acc, src; split; [reflexivity | split; [reflexivity | exact C]]
     | apply Nat.leb_gt in C]); [lia|].
  destruct (src_read (1024 - length acc) src) as [[d s'] e] eqn:E.
  assert (Hm : (0 < 1024 - length acc)%nat) by lia.
  destruct e.
  - apply src_read_eof in E. destruct E as [_ Hc]. rewrite Hc, app_nil_r in Ht. lia.
  - pose proof (src_read_conserves _ _ _ _ _ E) as Hc.
    destruct (src_read_progress _ _ _ _ Hm E) as [Hd _].
    destruct (IH (acc ++ d) s') as [chunk [rest [H1 [H2 H3]]]].
    + rewrite app_length. destruct d; [contradiction | cbn [length]; lia].
    + rewrite <- app_assoc, Hc. exact Ht.
    + exists chunk, rest. split; [exact H1|]. split; [|exact H3]. rewrite H2, <- app_assoc, Hc. reflexivity.
Qed.

Lemma ws_read_loop_fuel : forall fuel acc src,
  (12 - length acc <= fuel)%nat -> ws_read_loop fuel acc src <> Err 77%N.
Proof.
  induction fuel as [|f IH]; intros acc src Hf; cbn [ws_read_loop];
    destruct (12 <=? length acc)%nat eqn:C; try discriminate; apply Nat.leb_gt in C; [lia|].
  destruct (src_read (1024 - length acc) src) as [[d s'] e] eqn:E.
  destruct e; [discriminate|].
  assert (Hm : (0 < 1024 - length acc)%nat) by lia.
  destruct (src_read_progress _ _ _ _ Hm E) as [Hd _].
  apply IH. rewrite app_length. destruct d; [contradiction | cbn [length]; lia].
Qed.

Theorem ws_read_first_never_out_of_fuel : forall useg, ws_read_first useg <> Err 77%N.
Proof. intros useg. apply ws_read_loop_fuel. cbn [length]. lia. Qed.

Lemma long_prefix_has_prefix : forall (p c r1 r2 : str),
  c ++ r1 = p ++ r2 -> (length p <= length c)%nat -> has_prefix c p = true.
Proof.
  induction p as [|y p IH]; intros c r1 r2 H L; [reflexivity|].
  destruct c as [|x c]; [cbn [length] in L; lia|].
  cbn [app] in H. inversion H; subst. cbn [has_prefix]. rewrite N.eqb_refl. cbn [andb].
  eapply IH; [eassumption | cbn [length] in L; lia].
Qed.

(* unconditional in the segmentation: however an upstream reply that starts with
   "HTTP/1.1 101" is cut into segments, the handshake read succeeds, the chunk it forwards
   passes the prefix test, and chunk ++ what the relay then copies is the reply unmodified *)
Theorem ws_upgrade_any_segmentation : forall useg, has_prefix (concat useg) ws_101 = true ->
  exists chunk rest, ws_read_first useg = Ok (Some (chunk, rest)) /\
    has_prefix chunk ws_101 = true /\ chunk ++ concat rest = concat useg.
Proof.
  intros useg H. apply has_prefix_spec in H. destruct H as [r Hr].
  destruct (ws_read_loop_total 12 [] useg) as [chunk [rest [H1 [H2 H3]]]].
  - cbn [length]. lia.
  - cbn [app]. rewrite Hr, app_length, ws_101_len. lia.
  - exists chunk, rest. cbn [app] in H2. split; [exact H1|]. split; [|exact H2].
    apply (long_prefix_has_prefix ws_101 chunk (concat rest) r); [now rewrite H2 | rewrite ws_101_len; exact H3].
Qed.

(* ... and so for every segmentation of everything the upstream sends (the 101 head, payload
   in the same chunk, whatever follows): the chunk forwarded by the handshake step (at most
   1024 bytes) followed by what the relay's copy delivers is that stream, unmodified and
   without a hole *)
Lemma ws_read_loop_chunk_len : forall fuel acc src chunk rest,
  (length acc <= 1024)%nat -> ws_read_loop fuel acc src = Ok (Some (chunk, rest)) -> (length chunk <= 1024)%nat.
Proof.
  induction fuel as [|f IH]; intros acc src chunk rest Ha H; cbn [ws_read_loop] in H.
  { destruct (12 <=? length acc)%nat; [inversion H; subst; exact Ha | discriminate]. }
  destruct (12 <=? length acc)%nat; [inversion H; subst; exact Ha|].
  destruct (src_read (1024 - length acc) src) as [[d s'] e] eqn:E. destruct e; [discriminate|].
  apply IH in H; [exact H|]. rewrite app_length. pose proof (src_read_len _ _ _ _ _ E). lia.
Qed.

Theorem ws_client_stream_any_segmentation : forall useg, has_prefix (concat useg) ws_101 = true ->
  exists chunk rest, ws_read_first useg = Ok (Some (chunk, rest)) /\
    has_prefix chunk ws_101 = true /\ (length chunk <= 1024)%nat /\
    exists c, copy_buffer rest = Ok c /\ chunk ++ c = concat useg.
Proof.
  intros useg H. destruct (ws_upgrade_any_segmentation useg H) as [chunk [rest [H1 [H2 H3]]]].
  exists chunk, rest. split; [exact H1|]. split; [exact H2|]. split.
  - apply (ws_read_loop_chunk_len 12 [] useg chunk rest); [cbn [length]; lia | exact H1].
  - exists (concat rest). split; [apply copy_preserves_stream | exact H3].
Qed.

(* bytes the client sent together with its upgrade request (ws_handler.go since 66d5585): for
   every split of the client's stream into what the http server had buffered and the rest, in any
   segmentation, the upstream receives the whole stream in order *)
Theorem ws_early_bytes_delivered : forall buffered rest,
  ws_client_stream buffered rest = Ok (buffered ++ concat rest).
Proof. intros. unfold ws_client_stream. rewrite copy_preserves_stream. reflexivity. Qed.

(* F-C09-6 as it was before 66d5585: the hijacked reader was discarded *)
Theorem ws_early_bytes_refuted : forall buffered rest, buffered <> [] ->
  ws_client_stream_unrepaired buffered rest = Ok (concat rest) /\
  ws_client_stream_unrepaired buffered rest <> Ok (buffered ++ concat rest) /\
  ws_client_stream buffered rest = Ok (buffered ++ concat rest).
Proof.
  intros buffered rest Hb. unfold ws_client_stream_unrepaired. rewrite copy_preserves_stream.
  split; [reflexivity|]. split; [|apply ws_early_bytes_delivered].
  intros H. inversion H as [H1]. apply Hb.
  apply (f_equal (@length N)) in H1. rewrite app_length in H1.
  destruct buffered; [reflexivity | cbn [length] in H1; lia].
Qed.

Definition wit_reply_head : str := bs "HTTP/1.1 101 Switching Protocols"%string ++ [13; 10; 13; 10]%N.

Example ws_head_with_payload_one_chunk :
  exists chunk rest, ws_read_first [wit_reply_head ++ symseq 0 3000] = Ok (Some (chunk, rest)) /\
    length chunk = 1024%nat /\ chunk ++ concat rest = wit_reply_head ++ symseq 0 3000.
Proof. eexists. eexists. repeat split; vm_compute; reflexivity. Qed.

Definition wit_reply : str := bs "HTTP/1.1 101 Switching Protocols
"%string.

(* F-C09-3 as it was before fix commit 9c9f13b: the reply arriving as "HTTP/1.1 1" + rest failed
   the single-read prefix test (the client got the 10 bytes, the tunnel was closed); the current
   model accumulates, the upgrade succeeds and every byte is relayed in both directions *)
Theorem ws_split_101_refuted :
  has_prefix wit_reply ws_101 = true /\
  ws_first_chunk_unrepaired (firstn 10 wit_reply) = firstn 10 wit_reply /\
  ws_upgraded_unrepaired (firstn 10 wit_reply) = false /\
  exists e, scenario_expect KWs false [] [[1; 2]%N] 0 true false CStay UAtConnect wit_reply 10 (nlen' wit_reply) UStay = Ok e /\
    e_cl e = wit_reply /\ e_cl_lo e = nlen' wit_reply /\ e_up e = [1; 2]%N /\ e_up_lo e = 2%N /\
    spec_b KWs false [] [1; 2]%N false CStay UAtConnect wit_reply UStay (e_up e) (e_cl e) = true.
Proof. repeat split; try (vm_compute; reflexivity). eexists. repeat split; vm_compute; reflexivity. Qed.

(* an upstream that ends before 12 bytes have arrived: "error reading handshake", the client
   receives nothing (not even the partial bytes) *)
Example ws_short_reply_nothing_forwarded :
  exists e, scenario_expect KWs false [] [[1; 2]%N] 0 true false CStay UAtConnect (firstn 10 wit_reply) 4 10 UClose = Ok e /\
    e_cl e = [] /\ e_cl_hi e = 0%N /\ e_up e = [].
Proof. eexists. repeat split; vm_compute; reflexivity. Qed.

(* ================= the scripted scenarios: outside the finding regions the model's forced
   outcome meets the specification (tcp and tcp-dynamic; sni through sni_upstream_stream_on_domain) *)
Lemma is_prefix_refl s : is_prefix s s = true.
Proof. induction s as [|x s IH]; cbn [is_prefix]; [reflexivity|]. now rewrite N.eqb_refl, IH. Qed.

(* the scripted half-close scenario (F-C09-2's witness) on the current model: the request is
   delivered, the half-close is passed on, the reply sent at EOF arrives, the tunnel ends *)
Theorem half_close_scenario_delivered :
  exists e, scenario_expect KTcp false [] [[1; 2; 3]%N] 0 false false CHalf UOnEOF [7; 8]%N 0 0 UClose = Ok e /\
    e_up e = [1; 2; 3]%N /\ e_up_lo e = 3%N /\ e_cl e = [7; 8]%N /\ e_cl_lo e = 2%N /\ e_ends e = Some true /\
    spec_b KTcp false [] [1; 2; 3]%N false CHalf UOnEOF [7; 8]%N UClose [1; 2; 3]%N [7; 8]%N = true /\
    spec_b KTcp false [] [1; 2; 3]%N false CHalf UOnEOF [7; 8]%N UClose [1; 2; 3]%N [] = false.
Proof. eexists. repeat split; vm_compute; reflexivity. Qed.

Example waiting_client_scenario :
  exists e, scenario_expect KTcp false [] [[1; 2; 3]%N] 0 true true CHalf (UAfterBytes 3) [7; 8]%N 0 0 UStay = Ok e /\
    e_up_lo e = 3%N /\ e_cl_lo e = 2%N /\
    spec_b KTcp false [] [1; 2; 3]%N true CHalf (UAfterBytes 3) [7; 8]%N UStay [1; 2; 3]%N [7; 8]%N = true.
Proof. eexists. repeat split; vm_compute; reflexivity. Qed.

(* ================= fuel: the loops of the reader model terminate within the fuel supplied ================= *)

Lemma peek_loop_fuel : forall fuel b n, (b_cap b - buffered b <= fuel)%nat -> peek_loop fuel b n <> None.
Proof.
  induction fuel as [|f IH]; intros b n Hf; cbn [peek_loop].
  - destruct ((buffered b <? n)%nat && (buffered b <? b_cap b)%nat && (b_err b =? 0)%N) eqn:C; [|discriminate].
    apply andb_true_iff in C. destruct C as [C _]. apply andb_true_iff in C. destruct C as [_ C].
    apply Nat.ltb_lt in C. lia.
  - destruct ((buffered b <? n)%nat && (buffered b <? b_cap b)%nat && (b_err b =? 0)%N) eqn:C; [|discriminate].
    apply andb_true_iff in C. destruct C as [C _]. apply andb_true_iff in C. destruct C as [_ C].
    apply Nat.ltb_lt in C.
    unfold fill. destruct (src_read (b_cap b - buffered b) (b_src b)) as [[d s'] e] eqn:E.
    destruct e.
    + (* EOF: the next test fails on b.err *)
      destruct f as [|f']; cbn [peek_loop b_err N.eqb]; rewrite !andb_false_r; discriminate.
    + apply IH. assert (Hm : (0 < b_cap b - buffered b)%nat) by lia.
      destruct (src_read_progress _ _ _ _ Hm E) as [Hd _].
      unfold buffered in *. cbn [b_cap b_buf]. rewrite app_length.
      destruct d; [contradiction|]. cbn [length]. lia.
Qed.

Theorem peek_never_out_of_fuel : forall b n, peek b n <> Err 77%N.
Proof.
  intros b n. unfold peek. destruct (peek_loop (S (b_cap b)) b n) as [b1|] eqn:L.
  - destruct (b_cap b1 <? n)%nat; [discriminate|]. destruct (buffered b1 <? n)%nat; discriminate.
  - exfalso. apply (peek_loop_fuel (S (b_cap b)) b n); [lia | exact L].
Qed.

Lemma bread_len b m d e b1 : bread b m = (d, e, b1) -> (length d <= m)%nat.
Proof.
  unfold bread. destruct m as [|n'].
  - destruct (0 <? buffered b)%nat; intros H; inversion H; subst; cbn [length]; lia.
  - destruct (b_buf b) as [|x buf] eqn:B.
    + destruct (negb (b_err b =? 0)%N); [intros H; inversion H; subst; cbn [length]; lia|].
      destruct (b_cap b <=? S n')%nat.
      * destruct (src_read (S n') (b_src b)) as [[d0 s'] e0] eqn:E. intros H; inversion H; subst.
        apply (src_read_len _ _ _ _ _ E).
      * destruct (src_read (b_cap b) (b_src b)) as [[d0 s'] e0] eqn:E.
        destruct d0 as [|y d0]; intros H; inversion H; subst; [cbn [length]; lia|].
        cbn [length firstn]. rewrite ?firstn_length. lia.
    + intros H; inversion H; subst. cbn [length firstn]. rewrite ?firstn_length. lia.
Qed.

(* a successful Read with room in the argument returns at least one byte *)
Lemma bread_data b m d b1 : (0 < m)%nat -> bread b m = (d, 0%N, b1) -> d <> [].
Proof.
  intros Hm. unfold bread. destruct m as [|n']; [lia|].
  destruct (b_buf b) as [|x buf] eqn:B.
  - destruct (b_err b =? 0)%N eqn:Eerr; cbn [negb].
    + destruct (b_cap b <=? S n')%nat eqn:Ecap.
      * destruct (src_read (S n') (b_src b)) as [[d0 s'] e0] eqn:E. intros H; inversion H; subst.
        destruct e0; [discriminate|]. apply (src_read_progress _ _ _ _ Hm E).
      * apply Nat.leb_gt in Ecap. destruct (src_read (b_cap b) (b_src b)) as [[d0 s'] e0] eqn:E.
        destruct d0 as [|y d0]; intros H; inversion H; subst.
        -- destruct e0; [discriminate|]. assert (Hc : (0 < b_cap b)%nat) by lia.
           destruct (src_read_progress _ _ _ _ Hc E) as [Hd _]. exact Hd.
        -- cbn [firstn]. discriminate.
    + apply N.eqb_neq in Eerr. intros H; inversion H; subst. congruence.
  - intros H; inversion H; subst. cbn [firstn]. discriminate.
Qed.

Lemma read_full_loop_fuel : forall fuel b need acc, (need < fuel)%nat -> read_full_loop fuel b need acc <> None.
Proof.
  induction fuel as [|f IH]; intros b need acc Hf; [lia|].
  destruct need as [|k]; cbn [read_full_loop]; [discriminate|].
  destruct (bread b (S k)) as [[d e] b1] eqn:R.
  destruct (e =? 0)%N eqn:E0.
  - apply N.eqb_eq in E0. subst e.
    assert (Hd : d <> []) by (apply (bread_data _ _ _ _ (Nat.lt_0_succ k) R)).
    apply IH. destruct d; [contradiction|]. cbn [length]. lia.
  - destruct (S k <=? length d)%nat; discriminate.
Qed.

Theorem read_full_never_out_of_fuel : forall b n, read_full b n <> Err 77%N.
Proof.
  intros b n. unfold read_full. destruct (read_full_loop (S n) b n []) as [r|] eqn:L; [discriminate|].
  exfalso. apply (read_full_loop_fuel (S n) b n []); [lia | exact L].
Qed.

(* ================= Peek and ReadFull return exactly the next bytes of the stream ================= *)
Lemma fill_cap b : b_cap (fill b) = b_cap b.
Proof. unfold fill. destruct (src_read (b_cap b - buffered b) (b_src b)) as [[d s'] e]. reflexivity. Qed.

Lemma peek_loop_exit fuel : forall b n b1, peek_loop fuel b n = Some b1 ->
  b_cap b1 = b_cap b /\
  ((buffered b1 <? n)%nat && (buffered b1 <? b_cap b1)%nat && (b_err b1 =? 0)%N) = false.
Proof.
  induction fuel as [|f IH]; intros b n b1 H; cbn [peek_loop] in H.
  - destruct ((buffered b <? n)%nat && (buffered b <? b_cap b)%nat && (b_err b =? 0)%N) eqn:C; [discriminate|].
    inversion H; subst. split; [reflexivity | exact C].
  - destruct ((buffered b <? n)%nat && (buffered b <? b_cap b)%nat && (b_err b =? 0)%N) eqn:C.
    + destruct (IH _ _ _ H) as [Hc He]. rewrite fill_cap in Hc. split; assumption.
    + inversion H; subst. split; [reflexivity | exact C].
Qed.

Lemma firstn_app_le {A} n (a r : list A) : (n <= length a)%nat -> firstn n (a ++ r) = firstn n a.
Proof.
  intros H. rewrite firstn_app. replace (n - length a)%nat with 0%nat by lia.
  cbn [firstn]. apply app_nil_r.
Qed.

Lemma peek_exact b n : wf b -> (n <= b_cap b)%nat -> (n <= length (pending b))%nat ->
  exists b1, peek b n = Ok (firstn n (pending b), 0%N, b1) /\ pending b1 = pending b /\ wf b1.
Proof.
  intros W Hc Hn. unfold peek.
  destruct (peek_loop (S (b_cap b)) b n) as [b2|] eqn:L;
    [|exfalso; apply (peek_loop_fuel (S (b_cap b)) b n); [lia | exact L]].
  destruct (peek_loop_exit _ _ _ _ L) as [Hcap Hex].
  pose proof (peek_loop_pending _ _ _ _ L) as P. pose proof (peek_loop_wf _ _ _ _ W L) as W2.
  assert (Hb : (n <= buffered b2)%nat).
  { destruct (Nat.le_gt_cases n (buffered b2)) as [Hle|Hgt]; [exact Hle|]. exfalso.
    apply andb_false_iff in Hex. destruct Hex as [Hex|Hex].
    - apply andb_false_iff in Hex. destruct Hex as [Hex|Hex]; apply Nat.ltb_ge in Hex; lia.
    - apply N.eqb_neq in Hex. specialize (W2 Hex). unfold pending, buffered in *.
      rewrite <- P, W2, app_nil_r in Hn. lia. }
  exists b2. rewrite Hcap.
  destruct (b_cap b <? n)%nat eqn:E1; [apply Nat.ltb_lt in E1; lia|].
  destruct (buffered b2 <? n)%nat eqn:E2; [apply Nat.ltb_lt in E2; lia|].
  split; [|split; assumption]. rewrite <- P. unfold pending. rewrite firstn_app_le by exact Hb. reflexivity.
Qed.

Lemma read_full_loop_exact fuel : forall b need acc d e b1,
  wf b -> (need <= length (pending b))%nat ->
  read_full_loop fuel b need acc = Some (d, e, b1) -> e = 0%N /\ length d = (length acc + need)%nat.
Proof.
  induction fuel as [|f IH]; intros b need acc d e b1 W Hn H.
  - destruct need; cbn [read_full_loop] in H; [inversion H; subst; split; [reflexivity | lia] | discriminate].
  - destruct need as [|k]; cbn [read_full_loop] in H; [inversion H; subst; split; [reflexivity | lia]|].
    destruct (bread b (S k)) as [[d0 e0] b0] eqn:R.
    pose proof (bread_pending _ _ _ _ _ R) as P. pose proof (bread_len _ _ _ _ _ R) as Hl.
    destruct (bread_step _ _ _ _ _ (Nat.lt_0_succ k) W R) as [[_ [_ Hp]] | [He [W0 _]]].
    + rewrite Hp in Hn. cbn [length] in Hn. lia.
    + subst e0. cbn [N.eqb] in H.
      apply IH in H; [| exact W0 |].
      * destruct H as [-> Hd]. split; [reflexivity|]. rewrite Hd, app_length. lia.
      * apply (f_equal (@length N)) in P. rewrite app_length in P. lia.
Qed.

Lemma read_full_exact b n : wf b -> (n <= length (pending b))%nat ->
  exists b1, read_full b n = Ok (firstn n (pending b), 0%N, b1) /\
             firstn n (pending b) ++ pending b1 = pending b /\ wf b1.
Proof.
  intros W Hn. unfold read_full.
  destruct (read_full_loop (S n) b n []) as [[[d e] b1]|] eqn:L;
    [|exfalso; apply (read_full_loop_fuel (S n) b n []); [lia | exact L]].
  destruct (read_full_loop_exact _ _ _ _ _ _ _ W Hn L) as [-> Hd].
  pose proof (read_full_loop_pending _ _ _ _ _ _ _ L) as P. cbn [app length] in P, Hd. rewrite Nat.add_0_l in Hd.
  pose proof (read_full_loop_wf _ _ _ _ _ _ _ W L) as W1.
  assert (Hf : firstn n (pending b) = d).
  { rewrite <- P. rewrite firstn_app_le by lia. rewrite <- Hd. apply firstn_all. }
  exists b1. rewrite Hf. split; [reflexivity|]. split; assumption.
Qed.

(* ================= tcp+sni, unconditionally ================= *)
(* whenever the stream starts with a record the handshake accepts (C10's sni_route_name on the
   whole stream), however it is segmented, the handshake through the bufio.Reader reads exactly
   that record and leaves the rest pending *)
Lemma sni_handshake_steps : forall line segs n name,
  sni_route_name (concat segs) = Ok (n, name) -> name <> [] ->
  exists b1 b, peek (new_reader sni_buf_size segs) 9 = Ok (firstn 9 (concat segs), 0%N, b1) /\
            read_full b1 (N.to_nat n) = Ok (firstn (N.to_nat n) (concat segs), 0%N, b) /\
            sni_handshake line segs = Ok (Some (line ++ firstn (N.to_nat n) (concat segs), b)) /\ wf b /\
            firstn (N.to_nat n) (concat segs) ++ pending b = concat segs.
Proof.
  intros line segs n name H Hname. set (stream := concat segs) in *.
  unfold sni_route_name in H.
  destruct (9 <=? nlen stream)%N eqn:H9; [|discriminate].
  destruct (client_hello_buffer_size (firstn 9 stream)) as [sz|k|] eqn:Hs; cbn [bind] in H; try discriminate.
  destruct (sz <=? nlen stream)%N eqn:Hn; [|discriminate].
  destruct (slice stream 0 (N.to_nat sz)) as [data|k|] eqn:Hsl; cbn [bind] in H; try discriminate.
  destruct (from data 5) as [msg|k|] eqn:Hfr; cbn [bind] in H; try discriminate.
  destruct (read_server_name msg) as [nm|k|] eqn:Hr; cbn [bind] in H; try discriminate.
  inversion H; subst sz nm. clear H.
  apply slice_ok in Hsl. destruct Hsl as [-> _]. rewrite Nat.sub_0_r in Hfr. cbn [skipn] in Hfr.
  apply from_ok in Hfr. destruct Hfr as [-> _].
  apply N.leb_le in H9, Hn. unfold nlen in H9, Hn.
  assert (W0 : wf (new_reader sni_buf_size segs)) by wf0.
  assert (P0 : pending (new_reader sni_buf_size segs) = stream) by reflexivity.
  destruct (peek_exact (new_reader sni_buf_size segs) 9 W0) as [b1 [Hp [P1 W1]]].
  { cbn [new_reader b_cap]. apply Nat.leb_le. vm_compute. reflexivity. }
  { rewrite P0. lia. }
  destruct (read_full_exact b1 (N.to_nat n) W1) as [b2 [Hrf [P2 W2]]].
  { rewrite P1, P0. lia. }
  rewrite P0 in Hp. rewrite P1, P0 in Hrf, P2.
  exists b1, b2. split; [exact Hp|]. split; [exact Hrf|].
  unfold sni_handshake. rewrite Hp. cbn [bind N.eqb negb]. rewrite Hs.
  rewrite Hrf. cbn [bind N.eqb negb]. rewrite Hr.
  destruct name as [|c name]; [contradiction|]. split; [reflexivity|]. split; assumption.
Qed.

Lemma sni_handshake_total : forall line segs n name,
  sni_route_name (concat segs) = Ok (n, name) -> name <> [] ->
  exists b, sni_handshake line segs = Ok (Some (line ++ firstn (N.to_nat n) (concat segs), b)) /\ wf b /\
            firstn (N.to_nat n) (concat segs) ++ pending b = concat segs.
Proof.
  intros line segs n name H Hn. destruct (sni_handshake_steps line segs n name H Hn) as [b1 [b [_ [_ R]]]].
  exists b. exact R.
Qed.

Theorem sni_upstream_stream_total : forall (pp : bool) (line : str) segs n name,
  sni_route_name (concat segs) = Ok (n, name) -> name <> [] ->
  upstream_stream KSni pp line segs = Ok (Some (spec_upstream KSni pp line (concat segs))).
Proof.
  intros pp line segs n name H Hname.
  destruct (sni_handshake_total (if pp then line else []) segs n name H Hname) as [b [Hh [W P]]].
  unfold upstream_stream. rewrite Hh. cbn [bind]. rewrite (copy_from_reader_preserves _ W). cbn [bind].
  cbn [spec_upstream]. rewrite <- app_assoc, P. reflexivity.
Qed.

(* the model never reports fuel exhaustion: Err 77 is unreachable *)
Theorem upstream_stream_never_out_of_fuel : forall k pp line segs, upstream_stream k pp line segs <> Err 77%N.
Proof.
  intros k pp line segs. unfold upstream_stream.
  assert (Hc : forall st : setup, bind (copy_buffer (s_src st)) (fun c => Ok (Some (s_pre st ++ c))) <> Err 77%N).
  { intros st. rewrite copy_preserves_stream. discriminate. }
  destruct k; try apply Hc.
  unfold sni_handshake.
  assert (W0 : wf (new_reader sni_buf_size segs)) by wf0.
  destruct (peek (new_reader sni_buf_size segs) 9) as [[[hdr e1] b1]|k1|] eqn:P; cbn [bind]; try discriminate.
  2:{ intros E. inversion E; subst. apply (peek_never_out_of_fuel _ _ P). }
  pose proof (peek_wf _ _ _ _ _ W0 P) as W1.
  destruct (negb (e1 =? 0)%N); [discriminate|].
  destruct (client_hello_buffer_size hdr) as [size|k2|]; try discriminate.
  destruct (read_full b1 (N.to_nat size)) as [[[data e2] b2]|k3|] eqn:R; cbn [bind]; try discriminate.
  2:{ intros E. inversion E; subst. apply (read_full_never_out_of_fuel _ _ R). }
  pose proof (read_full_wf _ _ _ _ _ W1 R) as W2.
  destruct (negb (e2 =? 0)%N); [discriminate|].
  destruct (read_server_name (skipn 5 data)) as [[|c name]|k4|]; cbn [bind]; try discriminate.
  rewrite (copy_from_reader_preserves _ W2). discriminate.
Qed.

(* ================= the scenario analysis meets the specification ================= *)
Lemma is_prefix_len o s : is_prefix o s = true -> (length o <= length s)%nat.
Proof.
  revert s; induction o as [|x o IH]; intros s H; [cbn [length]; lia|].
  destruct s as [|y s]; cbn [is_prefix] in H; [discriminate|].
  apply andb_true_iff in H. destruct H as [_ H]. specialize (IH _ H). cbn [length]. lia.
Qed.

Lemma is_prefix_full o s : is_prefix o s = true -> (length s <= length o)%nat -> o = s.
Proof.
  revert s; induction o as [|x o IH]; intros s H L.
  - destruct s; [reflexivity | cbn [length] in L; lia].
  - destruct s as [|y s]; cbn [is_prefix] in H; [discriminate|].
    apply andb_true_iff in H. destruct H as [E H]. apply N.eqb_eq in E. subst y.
    cbn [length] in L. f_equal. apply IH; [exact H | lia].
Qed.

Ltac ncases :=
  repeat match goal with
  | |- context [N.min ?a ?b] => destruct (N.min_spec a b) as [[? ->]|[? ->]]
  | H : context [N.min ?a ?b] |- _ => destruct (N.min_spec a b) as [[? ->]|[? ->]]
  | |- context [(?a <=? ?b)%N] => destruct (N.leb_spec a b)
  | H : context [(?a <=? ?b)%N] |- _ => destruct (N.leb_spec a b)
  | |- context [(?a =? ?b)%N] => destruct (N.eqb_spec a b)
  | H : context [(?a =? ?b)%N] |- _ => destruct (N.eqb_spec a b)
  end.

(* whenever the specification demands the client's whole stream, the forced outcome has it *)
Lemma expect_up_complete : forall up reply cw_in cerr cwait ce ut ue,
  region_upstream_half_close up cw_in ut ue = false ->
  spec_req_up (nlen' up) ut ue = true ->
  e_up_lo (tunnel_expect up reply cw_in cerr cwait ce ut ue) = nlen' up.
Proof.
  intros up reply cw_in cerr cwait ce ut ue.
  unfold tunnel_expect, spec_req_up, spec_safe, spec_early, region_upstream_half_close. cbn [e_up_lo].
  generalize (nlen' up) as U. generalize (nlen' reply) as R. intros R U.
  destruct ue, cw_in, ut; cbn [negb andb orb]; intros H1 H2; ncases;
    cbn [negb andb orb] in *; try discriminate; try reflexivity; try lia.
Qed.

(* ... and likewise the whole reply *)
Lemma expect_cl_complete : forall up reply cw_in cerr cwait ce ut ue,
  spec_req_cl (nlen' up) (nlen' reply) cwait ce ut ue = true ->
  e_cl_lo (tunnel_expect up reply cw_in cerr cwait ce ut ue) = nlen' reply.
Proof.
  intros up reply cw_in cerr cwait ce ut ue.
  unfold tunnel_expect, spec_req_cl, spec_safe, spec_early, spec_wait_ok, is_stay. cbn [e_cl_lo].
  generalize (nlen' up) as U. generalize (nlen' reply) as R. intros R U.
  destruct ue, ce, cwait, ut; cbn [negb andb orb]; intros H1; ncases;
    cbn [negb andb orb fst snd] in *; try discriminate; try reflexivity; try lia.
Qed.

(* ... and the tunnel ends by itself whenever the specification demands it *)
Lemma expect_ends : forall up reply cw_in cerr cwait ce ut ue,
  spec_req_ends (nlen' up) (nlen' reply) cwait ce ut = true ->
  e_ends (tunnel_expect up reply cw_in cerr cwait ce ut ue) = Some true.
Proof.
  intros up reply cw_in cerr cwait ce ut ue.
  unfold tunnel_expect, spec_req_ends, spec_wait_ok, spec_early, is_stay. cbn [e_ends].
  generalize (nlen' up) as U. generalize (nlen' reply) as R. intros R U.
  destruct ue, ce, cwait, cw_in, ut; cbn [negb andb orb]; intros H1; ncases;
    cbn [negb andb orb] in *; try discriminate; try reflexivity; try lia.
Qed.

(* ... and the client sees EOF whenever the specification demands it *)
Lemma expect_eof : forall up reply cw_in cerr cwait ce ut ue,
  spec_req_eof (nlen' up) (nlen' reply) cw_in cerr cwait ce ut ue = true ->
  e_cl_eof (tunnel_expect up reply cw_in cerr cwait ce ut ue) = Some true.
Proof.
  intros up reply cw_in cerr cwait ce ut ue.
  unfold tunnel_expect, spec_req_eof, spec_req_ends, spec_safe, spec_wait_ok, spec_early, is_stay. cbn [e_cl_eof].
  generalize (nlen' up) as U. generalize (nlen' reply) as R. intros R U.
  destruct ue, ce, cwait, cw_in, cerr, ut; cbn [negb andb orb]; intros H1; ncases;
    cbn [negb andb orb] in *; try discriminate; try reflexivity; try lia.
Qed.

Lemma tunnel_expect_streams up reply cw_in cerr cwait ce ut ue :
  let e := tunnel_expect up reply cw_in cerr cwait ce ut ue in e_conn e = true /\ e_up e = up /\ e_cl e = reply.
Proof. unfold tunnel_expect. cbn [e_conn e_up e_cl]. repeat split. Qed.

(* an observation agrees with an expectation *)
Definition ends_agree (e : expectation) (o_ended : bool) : bool :=
  match e_ends e with Some b => Bool.eqb o_ended b | None => true end.
Definition eof_agree (e : expectation) (o_eof : bool) : bool :=
  match e_cl_eof e with Some b => Bool.eqb o_eof b | None => true end.

(* interval semantics: any observation within the forced outcome's bounds satisfies the
   specification, outside the upstream-half-close-without-CloseWrite combination *)
Theorem tunnel_expect_meets_spec : forall up reply cw_in cerr cwait ce ut ue o_up o_cl,
  let e := tunnel_expect up reply cw_in cerr cwait ce ut ue in
  region_upstream_half_close up cw_in ut ue = false ->
  within o_up (e_up e) (e_up_lo e) (nlen' (e_up e)) = true ->
  is_prefix o_cl (e_cl e) = true -> (e_cl_lo e <= nlen' o_cl)%N ->
  spec_core up reply cwait ce ut ue o_up o_cl = true.
Proof.
  intros up reply cw_in cerr cwait ce ut ue o_up o_cl e Hr Hup Hcl Hlo.
  destruct (tunnel_expect_streams up reply cw_in cerr cwait ce ut ue) as [_ [Eu Ec]]. fold e in Eu, Ec.
  rewrite Eu in Hup. rewrite Ec in Hcl. unfold within in Hup.
  apply andb_true_iff in Hup. destruct Hup as [Hup _]. apply andb_true_iff in Hup. destruct Hup as [Hpu Hlu].
  apply N.leb_le in Hlu.
  unfold spec_core. rewrite Hpu, Hcl. cbn [andb].
  apply andb_true_iff. split.
  - destruct (spec_req_up (nlen' up) ut ue) eqn:Q; [|reflexivity].
    apply beq_eq. apply is_prefix_full; [exact Hpu|].
    pose proof (expect_up_complete up reply cw_in cerr cwait ce ut ue Hr Q) as L. fold e in L.
    unfold nlen' in *. lia.
  - destruct (spec_req_cl (nlen' up) (nlen' reply) cwait ce ut ue) eqn:Q; [|reflexivity].
    apply beq_eq. apply is_prefix_full; [exact Hcl|].
    pose proof (expect_cl_complete up reply cw_in cerr cwait ce ut ue Q) as L. fold e in L.
    unfold nlen' in *. lia.
Qed.

Lemma has_prefix_firstn s p n : has_prefix s p = true -> (length p <= n)%nat -> has_prefix (firstn n s) p = true.
Proof.
  intros H L. apply has_prefix_spec in H. destruct H as [r ->]. apply has_prefix_spec.
  apply firstn_app_exact. exact L.
Qed.

(* on the websocket path the upstream's first output carries the status line: either everything
   leaves at once or the head the harness sends first has at least the 12 tested bytes *)
Definition ws_head_first (k : kind) (ut : utrig) (whead : N) : bool :=
  match k with
  | KWs => match ut with UAtConnect => true | _ => (12 <=? whead)%N end
  | _ => true
  end.

Lemma within_parts obs full lo hi : within obs full lo hi = true ->
  is_prefix obs full = true /\ (lo <= nlen' obs)%N.
Proof.
  unfold within. intros H. apply andb_true_iff in H. destruct H as [H _].
  apply andb_true_iff in H. destruct H as [H1 H2]. apply N.leb_le in H2. split; assumption.
Qed.

(* THE LINK: for all scenarios (proxy kind, PROXY option, segmentation, final-read status, close
   order incl. half-closes of either side, trigger, client connection with or without
   CloseWrite), every observation within the model's forced outcome - streams within their
   intervals, the tunnel ending or not as predicted - satisfies spec_b: the tripwire verdict 4
   cannot arise from the model side.  Excluded (named): an upstream that half-closes while
   client bytes are still on their way behind a client connection without CloseWrite
   ([region_upstream_half_close]: the code ends the tunnel there, timing decides how much of the
   client's stream is cut; kept out of the generated domain); [ws_head_first]. *)
Theorem scenario_meets_spec : forall k pp line segs fin cw_in cwait ce ut reply rseg1 whead ue e o_up o_cl,
  scenario_expect k pp line segs fin cw_in cwait ce ut reply rseg1 whead ue = Ok e ->
  region_upstream_half_close (spec_upstream k pp line (concat segs)) cw_in ut ue = false ->
  ws_head_first k ut whead = true ->
  within o_up (e_up e) (e_up_lo e) (nlen' (e_up e)) = true ->
  within o_cl (e_cl e) (e_cl_lo e) (e_cl_hi e) = true ->
  spec_b k pp line (concat segs) cwait ce ut reply ue o_up o_cl = true.
Proof.
  intros k pp line segs fin cw_in cwait ce ut reply rseg1 whead ue e o_up o_cl He Rr Hw Hup Hcl.
  destruct (within_parts _ _ _ _ Hcl) as [Hclp Hcll].
  unfold spec_b.
  destruct k.
  - (* tcp *)
    cbn [tunnelled negb]. unfold scenario_expect in He. rewrite upstream_stream_f_eq, tcp_upstream_stream in He. cbn [bind] in He.
    inversion He; subst e. cbn [spec_upstream] in *. apply (tunnel_expect_meets_spec _ _ cw_in (1 <? fin)%N); assumption.
  - (* tcp+sni *)
    unfold tunnelled. destruct (sni_route_name (concat segs)) as [[n [|c name]]|kk|] eqn:S; cbn [negb]; try reflexivity.
    unfold scenario_expect in He. rewrite upstream_stream_f_eq in He.
    rewrite (sni_upstream_stream_total pp line segs n (c :: name) S) in He by discriminate. cbn [bind] in He.
    inversion He; subst e. apply (tunnel_expect_meets_spec _ _ cw_in (1 <? fin)%N); assumption.
  - (* tcp-dynamic *)
    cbn [tunnelled negb]. unfold scenario_expect in He. rewrite upstream_stream_f_eq, dynamic_upstream_stream in He. cbn [bind] in He.
    inversion He; subst e. apply (tunnel_expect_meets_spec _ _ cw_in (1 <? fin)%N); assumption.
  - (* websocket *)
    unfold tunnelled. destruct (has_prefix reply ws_101) eqn:P; cbn [negb]; [|reflexivity].
    unfold scenario_expect in He.
    set (out0 := match ut with UAtConnect => reply | _ => firstn (N.to_nat whead) reply end) in He.
    assert (P0 : has_prefix out0 ws_101 = true).
    { subst out0. cbn [ws_head_first] in Hw.
      destruct ut; [exact P | | ]; apply has_prefix_firstn; try exact P;
        apply N.leb_le in Hw; rewrite ws_101_len; lia. }
    set (useg := if ((0 <? rseg1)%N && (rseg1 <? nlen' out0)%N)%bool
                 then [firstn (N.to_nat rseg1) out0; skipn (N.to_nat rseg1) out0] else [out0]) in He.
    assert (Hu : concat useg = out0).
    { subst useg. destruct ((0 <? rseg1)%N && (rseg1 <? nlen' out0)%N)%bool; cbn [concat]; rewrite app_nil_r;
        [apply firstn_skipn | reflexivity]. }
    destruct (ws_upgrade_any_segmentation useg) as [chunk [rest [R1 [R2 _]]]]; [rewrite Hu; exact P0|].
    rewrite R1 in He. cbn [bind] in He. rewrite R2 in He.
    rewrite copy_preserves_stream in He. cbn [bind] in He.
    inversion He; subst e. clear He. cbn [e_up e_up_lo e_cl e_cl_lo e_cl_hi e_ends e_cl_eof] in *.
    cbn [spec_upstream] in *. apply (tunnel_expect_meets_spec _ _ cw_in (1 <? fin)%N); try assumption.
    eapply N.le_trans; [apply N.le_max_r | exact Hcll].
Qed.

Example scenario_meets_spec_nonvacuous :
  exists e, scenario_expect KSni true [80; 32]%N [wit_hello ++ [1; 2]%N; [3]%N] 1 false false CHalf UOnEOF [7; 8]%N 0 0 UHalf = Ok e /\
    within ([80; 32]%N ++ wit_hello ++ [1; 2; 3]%N) (e_up e) (e_up_lo e) (nlen' (e_up e)) = true /\
    within [7; 8]%N (e_cl e) (e_cl_lo e) (e_cl_hi e) = true /\
    region_upstream_half_close (spec_upstream KSni true [80; 32]%N (wit_hello ++ [1; 2; 3]%N)) false UOnEOF UHalf = false.
Proof. eexists. repeat split; vm_compute; reflexivity. Qed.

(* ================= a segment boundary at the ClientHello's end: nothing is buffered beyond it ================= *)
(* [bnd b s2 k]: the connection still holds some segments [s1] and then [s2]; exactly [k] bytes
   (buffered ones and those of [s1]) lie before the boundary *)
Definition bnd (b : breader) (s2 : list str) (k : nat) : Prop :=
  exists s1, b_src b = s1 ++ s2 /\ (length (b_buf b) + length (concat s1) = k)%nat.

(* a Read never crosses a segment boundary *)
Lemma src_read_within m : forall s1 s2 d s' e,
  (0 < length (concat s1))%nat -> src_read m (s1 ++ s2) = (d, s', e) ->
  e = false /\ exists s1', s' = s1' ++ s2 /\ d ++ concat s1' = concat s1.
Proof.
  induction s1 as [|seg rest IH]; intros s2 d s' e Hpos H; [cbn [concat length] in Hpos; lia|].
  destruct seg as [|x seg]; cbn [app src_read] in H.
  - apply IH in H; [exact H | exact Hpos].
  - inversion H; subst. split; [reflexivity|]. exists (skipn m (x :: seg) :: rest). split; [reflexivity|].
    cbn [concat]. rewrite app_assoc, firstn_skipn. reflexivity.
Qed.

Lemma fill_bnd b s2 k : bnd b s2 k -> (buffered b < k)%nat -> bnd (fill b) s2 k.
Proof.
  intros [s1 [Hs Hk]] Hlt. unfold fill, buffered in *.
  destruct (src_read (b_cap b - length (b_buf b)) (b_src b)) as [[d s'] e] eqn:E. rewrite Hs in E.
  apply src_read_within in E; [|lia]. destruct E as [_ [s1' [-> Hc]]].
  exists s1'. cbn [b_buf b_src]. split; [reflexivity|].
  apply (f_equal (@length N)) in Hc. rewrite app_length in *. lia.
Qed.

Lemma peek_loop_bnd fuel : forall b n s2 k b1, bnd b s2 k -> (n <= k)%nat ->
  peek_loop fuel b n = Some b1 -> bnd b1 s2 k.
Proof.
  induction fuel as [|f IH]; intros b n s2 k b1 B Hn H; cbn [peek_loop] in H.
  - destruct ((buffered b <? n)%nat && (buffered b <? b_cap b)%nat && (b_err b =? 0)%N); [discriminate|].
    inversion H; subst; exact B.
  - destruct ((buffered b <? n)%nat && (buffered b <? b_cap b)%nat && (b_err b =? 0)%N) eqn:C.
    + apply andb_true_iff in C. destruct C as [C _]. apply andb_true_iff in C. destruct C as [C _].
      apply Nat.ltb_lt in C. eapply IH; [apply fill_bnd; [exact B | lia] | exact Hn | exact H].
    + inversion H; subst; exact B.
Qed.

Lemma peek_bnd b n s2 k d e b1 : bnd b s2 k -> (n <= k)%nat -> peek b n = Ok (d, e, b1) -> bnd b1 s2 k.
Proof.
  intros B Hn. unfold peek. destruct (peek_loop (S (b_cap b)) b n) as [b2|] eqn:L; [|discriminate].
  pose proof (peek_loop_bnd _ _ _ _ _ _ B Hn L) as B2.
  destruct (b_cap b2 <? n)%nat; [intros H; inversion H; subst; exact B2|].
  destruct (buffered b2 <? n)%nat; intros H; inversion H; subst; exact B2.
Qed.

Lemma bread_bnd b m s2 k d e b1 : bnd b s2 k -> (0 < k)%nat ->
  bread b m = (d, e, b1) -> bnd b1 s2 (k - length d).
Proof.
  intros [s1 [Hs Hk]] Hpos. unfold bread. destruct m as [|n'].
  - destruct (0 <? buffered b)%nat; intros H; inversion H; subst; cbn [length clear_err b_buf b_src];
      rewrite Nat.sub_0_r; exists s1; (split; [exact Hs | first [exact Hk | reflexivity | lia]]).
  - destruct (b_buf b) as [|x buf] eqn:B.
    + cbn [length] in Hk.
      destruct (negb (b_err b =? 0)%N).
      { intros H; inversion H; subst. cbn [length]. rewrite Nat.sub_0_r. exists s1.
        cbn [clear_err b_buf b_src]. rewrite B. split; [exact Hs | cbn [length]; lia]. }
      destruct (b_cap b <=? S n')%nat.
      * destruct (src_read (S n') (b_src b)) as [[d0 s'] e0] eqn:E. rewrite Hs in E.
        apply src_read_within in E; [|lia]. destruct E as [_ [s1' [-> Hc]]].
        intros H; inversion H; subst. exists s1'. cbn [b_buf b_src length]. split; [reflexivity|].
        apply (f_equal (@length N)) in Hc. rewrite app_length in Hc. lia.
      * destruct (src_read (b_cap b) (b_src b)) as [[d0 s'] e0] eqn:E. rewrite Hs in E.
        apply src_read_within in E; [|lia]. destruct E as [_ [s1' [-> Hc]]].
        apply (f_equal (@length N)) in Hc. rewrite app_length in Hc.
        destruct d0 as [|y d0]; intros H; inversion H; subst.
        -- exists s1'. cbn [b_buf b_src length] in *. split; [reflexivity | lia].
        -- exists s1'. cbn [b_buf b_src]. split; [reflexivity|].
           change (y :: firstn n' d0) with (firstn (S n') (y :: d0)).
           rewrite skipn_length, firstn_length. cbn [length] in *. lia.
    + intros H; inversion H; subst. exists s1. cbn [set_buf b_buf b_src]. split; [exact Hs|].
      change (x :: firstn n' buf) with (firstn (S n') (x :: buf)).
      rewrite skipn_length, firstn_length. rewrite ?B. cbn [length] in *. lia.
Qed.

(* reading exactly up to the boundary leaves the buffer empty *)
Lemma read_full_loop_bnd fuel : forall b need acc s2 d b1,
  bnd b s2 need -> read_full_loop fuel b need acc = Some (d, 0%N, b1) -> bnd b1 s2 0.
Proof.
  induction fuel as [|f IH]; intros b need acc s2 d b1 B H.
  - destruct need; cbn [read_full_loop] in H; [inversion H; subst; exact B | discriminate].
  - destruct need as [|k]; cbn [read_full_loop] in H; [inversion H; subst; exact B|].
    destruct (bread b (S k)) as [[d0 e0] b0] eqn:R.
    pose proof (bread_bnd _ _ _ _ _ _ _ B (Nat.lt_0_succ k) R) as B0.
    destruct (e0 =? 0)%N eqn:E0; [eapply IH; eassumption|].
    destruct (S k <=? length d0)%nat eqn:L.
    + apply Nat.leb_le in L. inversion H; subst. replace 0%nat with (S k - length d0)%nat by lia. exact B0.
    + exfalso. apply N.eqb_neq in E0.
      destruct ((0 <? length (acc ++ d0))%nat && (e0 =? 1)%N)%bool; inversion H; congruence.
Qed.

Theorem sni_boundary_nothing_buffered : forall line s1 s2 n name,
  sni_route_name (concat (s1 ++ s2)) = Ok (n, name) -> name <> [] ->
  length (concat s1) = N.to_nat n ->
  sni_leftover_unrepaired line (s1 ++ s2) = [].
Proof.
  intros line s1 s2 n name H Hname Hb.
  destruct (sni_handshake_steps line (s1 ++ s2) n name H Hname) as [b1 [b [Hp [Hrf [Hh _]]]]].
  destruct (sni_route_bound _ _ _ H) as [rl [_ [H10 _]]].
  assert (B0 : bnd (new_reader sni_buf_size (s1 ++ s2)) s2 (N.to_nat n)).
  { exists s1. cbn [new_reader b_src b_buf length]. split; [reflexivity | lia]. }
  assert (B1 : bnd b1 s2 (N.to_nat n)) by (refine (peek_bnd _ 9%nat s2 (N.to_nat n) _ _ _ B0 _ Hp); lia).
  unfold read_full in Hrf.
  destruct (read_full_loop (S (N.to_nat n)) b1 (N.to_nat n) []) as [[[d e] b2]|] eqn:L; [|discriminate].
  inversion Hrf; subst d e b2.
  destruct (read_full_loop_bnd _ _ _ _ _ _ _ B1 L) as [s1' [_ Hz]].
  unfold sni_leftover_unrepaired. rewrite Hh.
  destruct (b_buf b); [reflexivity | cbn [length] in Hz; lia].
Qed.

(* hence the unrepaired copier was right exactly there: with a segment boundary at the end of
   the ClientHello record the upstream received the whole stream even before c17abb6 *)
Corollary sni_unrepaired_right_on_boundary : forall (pp : bool) (line : str) s1 s2 n name,
  sni_route_name (concat (s1 ++ s2)) = Ok (n, name) -> name <> [] ->
  length (concat s1) = N.to_nat n ->
  upstream_stream_sni_unrepaired pp line (s1 ++ s2) = Ok (Some (spec_upstream KSni pp line (concat (s1 ++ s2)))).
Proof.
  intros pp line s1 s2 n name H Hname Hb.
  pose proof (sni_boundary_nothing_buffered (if pp then line else []) s1 s2 n name H Hname Hb) as Hl.
  destruct (sni_handshake_total (if pp then line else []) (s1 ++ s2) n name H Hname) as [b [Hh [W P]]].
  unfold sni_leftover_unrepaired in Hl. rewrite Hh in Hl.
  unfold upstream_stream_sni_unrepaired. rewrite Hh. cbn [bind]. rewrite copy_preserves_stream. cbn [bind].
  unfold pending in P. rewrite Hl in P. cbn [app] in P. cbn [spec_upstream]. rewrite <- app_assoc, P. reflexivity.
Qed.

Example sni_boundary_nonvacuous :
  sni_route_name (concat ([firstn 20 wit_hello; skipn 20 wit_hello] ++ [[1; 2; 3]%N])) = Ok (nlen wit_hello, bs "foo.com"%string) /\
  length (concat [firstn 20 wit_hello; skipn 20 wit_hello]) = N.to_nat (nlen wit_hello).
Proof. split; vm_compute; reflexivity. Qed.
