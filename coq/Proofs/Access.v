(** Proofs about Model/Access.v (property C12). *)
From Coq Require Import String List NArith Bool Lia PeanoNat.
From Fabio Require Import Lib.Outcome Lib.Bytes Model.Access.
Import ListNotations.
Local Open Scope N_scope.

(* ================= denyByIP ================= *)
Lemma deny_by_ip_nil r : deny_by_ip r None = false.
Proof. reflexivity. Qed.

Lemma deny_by_ip_empty r ip : rules_empty r = true -> deny_by_ip r ip = false.
Proof. intros H. destruct ip as [ip|]; [|reflexivity]. unfold deny_by_ip. now rewrite H. Qed.

Lemma deny_by_ip_allow r l ip :
  r_allow r = Some l ->
  deny_by_ip r (Some ip) = negb (existsb (fun b => contains b ip) l).
Proof. destruct r as [a d]; cbn [r_allow]; intros ->; reflexivity. Qed.

Lemma deny_by_ip_deny r l ip :
  r_allow r = None -> r_deny r = Some l ->
  deny_by_ip r (Some ip) = existsb (fun b => contains b ip) l.
Proof. destruct r as [a d]; cbn [r_allow r_deny]; intros -> ->; reflexivity. Qed.

Lemma deny_by_ip_no_rules r ip : r_allow r = None -> r_deny r = None -> deny_by_ip r ip = false.
Proof. destruct r as [a d]; cbn [r_allow r_deny]; intros -> ->. now destruct ip. Qed.

(* An allow list admits only addresses inside one of its blocks ... *)
Theorem allow_only_inside r l ip :
  r_allow r = Some l -> deny_by_ip r (Some ip) = false ->
  exists b, In b l /\ contains b ip = true.
Proof.
  intros H D. rewrite (deny_by_ip_allow _ _ _ H) in D.
  apply negb_false_iff in D. apply existsb_exists in D. exact D.
Qed.

(* ... and admits every such address (whatever the deny list says: allow takes precedence) *)
Theorem allow_inside_admitted r l ip b :
  r_allow r = Some l -> In b l -> contains b ip = true -> deny_by_ip r (Some ip) = false.
Proof.
  intros H Hin Hc. rewrite (deny_by_ip_allow _ _ _ H).
  apply negb_false_iff. apply existsb_exists. now exists b.
Qed.

(* an allow list without blocks (what denyAll installs) admits no address *)
Theorem empty_allow_denies_all r ip : r_allow r = Some [] -> deny_by_ip r (Some ip) = true.
Proof. intros H. now rewrite (deny_by_ip_allow _ _ _ H). Qed.

(* A deny list (no allow list) rejects every address inside one of its blocks ... *)
Theorem deny_inside r l ip b :
  r_allow r = None -> r_deny r = Some l -> In b l -> contains b ip = true ->
  deny_by_ip r (Some ip) = true.
Proof.
  intros Ha Hd Hin Hc. rewrite (deny_by_ip_deny _ _ _ Ha Hd). apply existsb_exists. now exists b.
Qed.

(* ... and only those *)
Theorem deny_only_inside r ip :
  r_allow r = None -> deny_by_ip r (Some ip) = true ->
  exists l b, r_deny r = Some l /\ In b l /\ contains b ip = true.
Proof.
  intros Ha D. destruct (r_deny r) as [l|] eqn:Ed.
  - rewrite (deny_by_ip_deny _ _ _ Ha Ed) in D. apply existsb_exists in D as (b & Hin & Hc).
    now exists l, b.
  - rewrite (deny_by_ip_no_rules _ _ Ha Ed) in D. discriminate.
Qed.

(* the decision depends on an address only through its canonical (unmapped) form *)
Lemma existsb_ext_eq {A} (f g : A -> bool) l : (forall x, f x = g x) -> existsb f l = existsb g l.
Proof. intros H. induction l as [|x l IH]; [reflexivity|]. cbn. now rewrite H, IH. Qed.

Lemma contains_canon n ip ip' : canon ip = canon ip' -> contains n ip = contains n ip'.
Proof. intros H. unfold contains. now rewrite H. Qed.

Lemma deny_by_ip_canon r ip ip' : canon ip = canon ip' -> deny_by_ip r (Some ip) = deny_by_ip r (Some ip').
Proof.
  intros H. unfold deny_by_ip. destruct (rules_empty r); [reflexivity|].
  assert (E : forall l, existsb (fun b => contains b ip) l = existsb (fun b => contains b ip') l)
    by (intros l; apply existsb_ext_eq; intros b; now apply contains_canon).
  destruct (r_allow r) as [l|]; [now rewrite E|]. destruct (r_deny r) as [l|]; [apply E | reflexivity].
Qed.

(* ================= AccessDeniedHTTP ================= *)
Lemma split_byte_nonempty s sep : split_byte s sep <> [].
Proof.
  induction s as [|x s IH]; cbn [split_byte]; [discriminate|].
  destruct (x =? sep); [discriminate|]. destruct (split_byte s sep); discriminate.
Qed.

(* strings.Split distributes over a separator: Split(a+sep+b) = Split(a) ++ Split(b) *)
Lemma split_byte_app_sep a b sep :
  split_byte (a ++ sep :: b) sep = split_byte a sep ++ split_byte b sep.
Proof.
  induction a as [|x a IH]; cbn [app split_byte].
  - now rewrite N.eqb_refl.
  - destruct (x =? sep); [now rewrite IH|]. rewrite IH.
    destruct (split_byte a sep) as [|w ws] eqn:E; [now apply split_byte_nonempty in E|]. reflexivity.
Qed.

(* every element of every field value is an element of the comma-join of all values *)
Lemma in_split_join xff v x :
  In v xff -> In x (split_byte v 44) -> In x (split_byte (join xff [44]) 44).
Proof.
  induction xff as [|w rest IH]; [contradiction|]. intros Hv Hx.
  destruct rest as [|w2 rest'].
  - destruct Hv as [->|[]]. exact Hx.
  - change (join (w :: w2 :: rest') [44]) with (w ++ 44 :: join (w2 :: rest') [44]).
    rewrite split_byte_app_sep. apply in_or_app.
    destruct Hv as [->|Hv]; [now left | right; now apply IH].
Qed.

Lemma in_split_join_inv xff x :
  xff <> [] -> In x (split_byte (join xff [44]) 44) -> exists v, In v xff /\ In x (split_byte v 44).
Proof.
  induction xff as [|w rest IH]; [congruence|]. intros _ Hx.
  destruct rest as [|w2 rest'].
  - exists w. split; [now left | exact Hx].
  - change (join (w :: w2 :: rest') [44]) with (w ++ 44 :: join (w2 :: rest') [44]) in Hx.
    rewrite split_byte_app_sep in Hx. apply in_app_or in Hx as [Hx|Hx].
    + exists w. split; [now left | exact Hx].
    + destruct IH as (v & Hv & Hxv); [discriminate | exact Hx |]. exists v. split; [now right | exact Hxv].
Qed.

Lemma strip_zone_nil : strip_zone [] = [].
Proof. reflexivity. Qed.

(* "addr%zone" is read as "addr" *)
Lemma strip_zone_zone a z : ~ In 37 a -> strip_zone (a ++ 37 :: z) = a.
Proof.
  intros H. unfold strip_zone.
  assert (E : index_byte (a ++ 37 :: z) 37 = Some (List.length a)).
  { induction a as [|x a IH]; cbn [app index_byte List.length].
    - now rewrite N.eqb_refl.
    - destruct (x =? 37) eqn:Ex; [apply N.eqb_eq in Ex; subst; exfalso; apply H; now left|].
      rewrite IH; [reflexivity | intros Hin; apply H; now right]. }
  rewrite E. rewrite firstn_app, Nat.sub_diag, firstn_all. cbn [firstn]. apply app_nil_r.
Qed.

Section Http.
  Variable parse_ip : str -> option ipaddr.
  Variable split_host : str -> option str.

  Notation parse_ip_zone := (parse_ip_zone parse_ip).

  Lemma xff_walk_false pip r host elems :
    xff_walk pip r host elems = false ->
    forall x ip, In x elems -> trim_space x <> host -> pip (trim_space x) = Some ip ->
                 deny_by_ip r (Some ip) = false.
  Proof.
    induction elems as [|e rest IH]; intros W x ip Hin Hne Hp; [contradiction|].
    cbn [xff_walk] in W.
    destruct (beq (trim_space e) host) eqn:Eh.
    - destruct Hin as [->|Hin]; [apply beq_eq in Eh; contradiction | eauto].
    - destruct (pip (trim_space e)) as [ipe|] eqn:Ep.
      + destruct (deny_by_ip r (Some ipe)) eqn:Ed; [discriminate|].
        destruct Hin as [->|Hin]; [congruence | eauto].
      + destruct Hin as [->|Hin]; [congruence | eauto].
  Qed.

  (* shape of a non-denial *)
  Lemma access_denied_http_false r remote xff :
    access_denied_http parse_ip split_host r remote xff = false ->
    rules_empty r = true \/ split_host remote = None \/
    exists host, split_host remote = Some host /\ deny_by_ip r (parse_ip_zone host) = false /\
                 (join xff [44] <> [] ->
                  xff_walk parse_ip_zone r host (split_byte (join xff [44]) 44) = false).
  Proof.
    unfold access_denied_http. intros H.
    destruct (rules_empty r); [now left|]. right.
    destruct (split_host remote) as [host|]; [right | now left].
    exists host. split; [reflexivity|].
    destruct (deny_by_ip r (parse_ip_zone host)); [discriminate|]. split; [reflexivity|].
    intros Hv. destruct (join xff [44]); [congruence | exact H].
  Qed.

  (* the peer address is checked (a zone, if any, is ignored) ... *)
  Theorem peer_checked r remote xff host ip :
    access_denied_http parse_ip split_host r remote xff = false ->
    split_host remote = Some host -> parse_ip (strip_zone host) = Some ip ->
    deny_by_ip r (Some ip) = false.
  Proof.
    intros H Hs Hp. apply access_denied_http_false in H as [He|[Hn|(h & Hh & Hd & _)]].
    - now apply deny_by_ip_empty.
    - congruence.
    - rewrite Hs in Hh. inversion Hh; subst h. unfold Access.parse_ip_zone in Hd. now rewrite Hp in Hd.
  Qed.

  Theorem zone_peer_checked r remote xff a z ip :
    access_denied_http parse_ip split_host r remote xff = false ->
    split_host remote = Some (a ++ 37 :: z) -> ~ In 37 a -> parse_ip a = Some ip ->
    deny_by_ip r (Some ip) = false.
  Proof.
    intros H Hs Hn Hp. eapply peer_checked; eauto. now rewrite strip_zone_zone.
  Qed.

  (* ... and so is every element of EVERY X-Forwarded-For field value, not only the first
     or the last element, not only the first header line *)
  Theorem xff_all_checked r remote host xff :
    access_denied_http parse_ip split_host r remote xff = false ->
    split_host remote = Some host -> parse_ip [] = None ->
    forall v x ip, In v xff -> In x (split_byte v 44) -> parse_ip (strip_zone (trim_space x)) = Some ip ->
                   deny_by_ip r (Some ip) = false.
  Proof.
    intros H Hs Hnil v x ip Hv Hin Hp.
    pose proof (in_split_join xff v x Hv Hin) as Hj.
    apply access_denied_http_false in H as [He|[Hn|(h & Hh & Hd & Hw)]].
    - now apply deny_by_ip_empty.
    - congruence.
    - rewrite Hs in Hh. inversion Hh; subst h.
      destruct (join xff [44]) as [|c j] eqn:Ej.
      + cbn in Hj. destruct Hj as [<-|[]]. cbn in Hp. congruence.
      + assert (Hne : c :: j <> []) by discriminate. specialize (Hw Hne).
        destruct (beq (trim_space x) host) eqn:E.
        * apply beq_eq in E. rewrite E in Hp. unfold Access.parse_ip_zone in Hd. now rewrite Hp in Hd.
        * apply beq_neq in E. eapply xff_walk_false; eauto.
  Qed.

  (* what remains fail-open: a peer host that net.ParseIP cannot read even without its zone is
     admitted as the nil IP.  Not an address, hence outside the property: net/http always
     supplies an IP literal, and X-Forwarded-For garbage is skipped by design. *)
  Theorem unparsable_peer_admitted r remote host :
    split_host remote = Some host -> parse_ip (strip_zone host) = None ->
    access_denied_http parse_ip split_host r remote [] = false.
  Proof.
    intros Hs Hp. unfold access_denied_http, Access.parse_ip_zone. rewrite Hs, Hp.
    destruct (rules_empty r); reflexivity.
  Qed.

  (* ---- the request-level specification: every address the request carries ---- *)
  Definition request_strings (host : str) (xff : list str) : list str :=
    host :: flat_map (fun v => map trim_space (split_byte v 44)) xff.

  (* [addr_of] = what each string means as an address (net/netip in the harness) *)
  Definition http_admitted_spec (addr_of : str -> option ipaddr) (r : rules) (host : str) (xff : list str) : Prop :=
    forall s a, In s (request_strings host xff) -> addr_of s = Some a -> deny_by_ip r (Some a) = false.

  (* A non-denial means that every address of the request is admitted, for any number of
     header lines and with zones.  The hypothesis left: whatever a string of the request
     means as an address, net.ParseIP reads the same address (up to v4-mapping) once the zone
     is cut - one direction only; strings like "1.2.3.4%eth0", which the code reads and netip
     rejects, are allowed.  True of net/netip: tested on every case by the correspondence check. *)
  Theorem http_gate_spec_on_domain addr_of r remote host xff :
    (forall s a, In s (request_strings host xff) -> addr_of s = Some a ->
                 exists ip, parse_ip (strip_zone s) = Some ip /\ canon ip = canon a) ->
    parse_ip [] = None ->
    split_host remote = Some host ->
    access_denied_http parse_ip split_host r remote xff = false ->
    http_admitted_spec addr_of r host xff.
  Proof.
    intros Hag Hnil Hs H s a Hin Ha. destruct (Hag s a Hin Ha) as (ip & Hp & Hc).
    rewrite <- (deny_by_ip_canon r ip a Hc).
    destruct Hin as [<-|Hin]; [eapply peer_checked; eauto|].
    apply in_flat_map in Hin as (v & Hv & Hin). apply in_map_iff in Hin as (x & <- & Hx).
    eapply xff_all_checked; eauto.
  Qed.

  (* ---- completeness of the walk: an address of the request that the rules reject makes
          AccessDeniedHTTP answer true (with the two theorems above: an exact characterisation) ---- *)
  Lemma xff_walk_true pip r host elems x ip :
    In x elems -> trim_space x <> host -> pip (trim_space x) = Some ip ->
    deny_by_ip r (Some ip) = true -> xff_walk pip r host elems = true.
  Proof.
    intros Hin Hne Hp Hd. induction elems as [|e rest IH]; [contradiction|]. cbn [xff_walk].
    destruct (beq (trim_space e) host) eqn:Eh.
    - destruct Hin as [->|Hin]; [apply beq_eq in Eh; contradiction | auto].
    - destruct (pip (trim_space e)) as [ipe|] eqn:Ep.
      + destruct (deny_by_ip r (Some ipe)) eqn:Ed; [reflexivity|].
        destruct Hin as [->|Hin]; [congruence | auto].
      + destruct Hin as [->|Hin]; [congruence | auto].
  Qed.

  Theorem rejected_address_denies r remote host xff s ip :
    split_host remote = Some host -> parse_ip [] = None ->
    In s (request_strings host xff) -> parse_ip (strip_zone s) = Some ip ->
    deny_by_ip r (Some ip) = true ->
    access_denied_http parse_ip split_host r remote xff = true.
  Proof.
    intros Hs Hnil Hin Hp Hd. unfold access_denied_http. rewrite Hs.
    destruct (rules_empty r) eqn:He; [rewrite (deny_by_ip_empty _ _ He) in Hd; discriminate|].
    destruct (deny_by_ip r (parse_ip_zone host)) eqn:Eh; [reflexivity|].
    destruct Hin as [<-|Hin]; [unfold Access.parse_ip_zone in Eh; rewrite Hp in Eh; congruence|].
    apply in_flat_map in Hin as (v & Hv & Hin). apply in_map_iff in Hin as (x & <- & Hx).
    pose proof (in_split_join xff v x Hv Hx) as Hj. cbn zeta.
    destruct (join xff [44]) as [|c j] eqn:Ej.
    - cbn in Hj. destruct Hj as [<-|[]]. cbn in Hp. congruence.
    - cbn [is_nil]. eapply (xff_walk_true parse_ip_zone); eauto.
      intros E. rewrite E in Hp. unfold Access.parse_ip_zone in Eh. rewrite Hp in Eh. congruence.
  Qed.
End Http.

(* ================= Authorized ================= *)
Theorem unknown_scheme_rejects (creds : Type) (name : str) (schemes : scheme_table creds) c :
  name <> [] -> schemes name = None -> authorized name schemes c = false.
Proof. intros Hn Hs. unfold authorized. destruct name; [congruence|]. cbn [is_nil]. now rewrite Hs. Qed.

Theorem no_scheme_accepts (creds : Type) (schemes : scheme_table creds) c :
  authorized [] schemes c = true.
Proof. reflexivity. Qed.

Theorem authorized_iff (creds : Type) name (schemes : scheme_table creds) c :
  authorized name schemes c = true <->
  name = [] \/ exists s, schemes name = Some s /\ s c = true.
Proof.
  unfold authorized. destruct name as [|x n]; cbn [is_nil].
  - split; [now left | reflexivity].
  - destruct (schemes (x :: n)) as [s|]; split.
    + intros H. right. now exists s.
    + intros [E|(s' & E & H)]; [discriminate | now inversion E; subst].
    + discriminate.
    + intros [E|(s' & E & _)]; discriminate.
Qed.

(* Authorized is a function of (scheme name, scheme table, credentials): in a history of
   requests against one scheme table every answer is the answer the same request gets on its
   own, whatever was asked before (no login is remembered).  Trivial in the model; the
   correspondence run ties it to /repo with request histories on one loaded scheme set. *)
Definition auth_history {creds : Type} (name : str) (schemes : scheme_table creds) (cs : list creds) : list bool :=
  map (authorized name schemes) cs.

Theorem auth_history_independent (creds : Type) name (schemes : scheme_table creds) pre c post d :
  nth (List.length pre) (auth_history name schemes (pre ++ c :: post)) d = authorized name schemes c.
Proof.
  unfold auth_history. rewrite map_app. cbn [map].
  rewrite app_nth2; rewrite map_length; [|apply le_n]. now rewrite Nat.sub_diag.
Qed.

(* The access verdict is a function of (rules, request): in a history of requests (or of TCP
   connections) on one target, the k-th verdict is the verdict of the k-th request alone,
   whatever was served before (no verdict is remembered per peer).  Trivial in the model; the
   correspondence run ties it to /repo with histories on one long-lived target. *)
Lemma nth_map_middle {A B} (f : A -> B) pre x post d :
  nth (List.length pre) (map f (pre ++ x :: post)) d = f x.
Proof.
  rewrite map_app. cbn [map]. rewrite app_nth2; rewrite map_length; [|apply le_n]. now rewrite Nat.sub_diag.
Qed.

Definition http_access_history (parse_ip : str -> option ipaddr) (split_host : str -> option str)
           (r : rules) (reqs : list (str * list str)) : list bool :=
  map (fun q => access_denied_http parse_ip split_host r (fst q) (snd q)) reqs.
Definition tcp_access_history (r : rules) (peers : list tcp_peer) : list bool :=
  map (access_denied_tcp r) peers.

Theorem http_access_history_independent parse_ip split_host r pre remote xff post d :
  nth (List.length pre) (http_access_history parse_ip split_host r (pre ++ (remote, xff) :: post)) d
  = access_denied_http parse_ip split_host r remote xff.
Proof. unfold http_access_history. now rewrite nth_map_middle. Qed.

Theorem tcp_access_history_independent r pre p post d :
  nth (List.length pre) (tcp_access_history r (pre ++ p :: post)) d = access_denied_tcp r p.
Proof. unfold tcp_access_history. now rewrite nth_map_middle. Qed.

(* ================= the gates ================= *)
Section Gate.
  Variable parse_ip : str -> option ipaddr.
  Variable split_host : str -> option str.
  Variable creds : Type.

  (* the per-request copy Table.Lookup hands out for a redirect route carries the same rules,
     scheme and code as the table's target *)
  Lemma copy_rules t : t_rules (table_lookup_copy t) = t_rules t.
  Proof. unfold table_lookup_copy. now destruct (t_redirect t =? 0). Qed.
  Lemma copy_auth t : t_auth (table_lookup_copy t) = t_auth t.
  Proof. unfold table_lookup_copy. now destruct (t_redirect t =? 0). Qed.
  Lemma copy_redirect t : t_redirect (table_lookup_copy t) = t_redirect t.
  Proof. unfold table_lookup_copy. now destruct (t_redirect t =? 0). Qed.

  (* ServeHTTP on the table's target, with the copy spelled out *)
  Lemma serve_http_eq tg (schemes : scheme_table creds) remote xff c :
    serve_http parse_ip split_host creds (Some tg) schemes remote xff c =
      if access_denied_http parse_ip split_host (t_rules tg) remote xff then [ERespond 403] else
      if negb (authorized (t_auth tg) schemes c) then [ERespond 401] else
      if negb (t_redirect tg =? 0) then [ERedirect (t_redirect tg)] else
      match split_host remote with None => [ERespond 500] | Some _ => [EUpstream] end.
  Proof. unfold serve_http. now rewrite copy_rules, copy_auth, copy_redirect. Qed.

  (* no upstream action and no redirect answer unless the target exists, access is not denied
     and the scheme accepts *)
  Theorem gate_before_upstream_http t (schemes : scheme_table creds) remote xff c :
    In EUpstream (serve_http parse_ip split_host creds t schemes remote xff c) ->
    exists tg, t = Some tg
      /\ access_denied_http parse_ip split_host (t_rules tg) remote xff = false
      /\ authorized (t_auth tg) schemes c = true
      /\ exists host, split_host remote = Some host.
  Proof.
    destruct t as [tg|]; [|intros [H|[]]; discriminate]. rewrite serve_http_eq.
    destruct (access_denied_http parse_ip split_host (t_rules tg) remote xff) eqn:Ed;
      [intros [H|[]]; discriminate|].
    destruct (authorized (t_auth tg) schemes c) eqn:Ea; cbn [negb]; [|intros [H|[]]; discriminate].
    destruct (t_redirect tg =? 0); cbn [negb]; [|intros [H|[]]; discriminate].
    destruct (split_host remote) as [host|] eqn:Es; [|intros [H|[]]; discriminate].
    intros _. exists tg. split; [reflexivity|]. split; [exact Ed|]. split; [exact Ea|]. now exists host.
  Qed.

  Theorem gate_before_redirect_http t (schemes : scheme_table creds) remote xff c code :
    In (ERedirect code) (serve_http parse_ip split_host creds t schemes remote xff c) ->
    exists tg, t = Some tg /\ t_redirect tg = code /\ code <> 0
      /\ access_denied_http parse_ip split_host (t_rules tg) remote xff = false
      /\ authorized (t_auth tg) schemes c = true.
  Proof.
    destruct t as [tg|]; [|intros [H|[]]; discriminate]. rewrite serve_http_eq.
    destruct (access_denied_http parse_ip split_host (t_rules tg) remote xff) eqn:Ed;
      [intros [H|[]]; discriminate|].
    destruct (authorized (t_auth tg) schemes c) eqn:Ea; cbn [negb]; [|intros [H|[]]; discriminate].
    destruct (t_redirect tg =? 0) eqn:Er; cbn [negb].
    - destruct (split_host remote); intros [H|[]]; discriminate.
    - intros [H|[]]. inversion H; subst code. exists tg. apply N.eqb_neq in Er. repeat split; auto.
  Qed.

  (* what the client sees otherwise, whether the route forwards or redirects *)
  Theorem denied_gets_403 tg (schemes : scheme_table creds) remote xff c :
    access_denied_http parse_ip split_host (t_rules tg) remote xff = true ->
    serve_http parse_ip split_host creds (Some tg) schemes remote xff c = [ERespond 403].
  Proof. intros H. rewrite serve_http_eq. now rewrite H. Qed.

  Theorem unauthorized_gets_401 tg (schemes : scheme_table creds) remote xff c :
    access_denied_http parse_ip split_host (t_rules tg) remote xff = false ->
    authorized (t_auth tg) schemes c = false ->
    serve_http parse_ip split_host creds (Some tg) schemes remote xff c = [ERespond 401].
  Proof. intros H A. rewrite serve_http_eq. now rewrite H, A. Qed.

  (* the gate's answer (403 / 401 / passed) does not depend on whether the route forwards or
     redirects, nor on the redirect code *)
  Definition gate_answer (ev : list event) : option N :=
    match ev with
    | [ERespond 403] => Some 403
    | [ERespond 401] => Some 401
    | _ => None
    end.
  Definition with_redirect (tg : target) (code : N) : target :=
    {| t_rules := t_rules tg; t_auth := t_auth tg; t_redirect := code |}.

  Theorem gate_independent_of_redirect tg (schemes : scheme_table creds) remote xff c code code' :
    gate_answer (serve_http parse_ip split_host creds (Some (with_redirect tg code)) schemes remote xff c)
    = gate_answer (serve_http parse_ip split_host creds (Some (with_redirect tg code')) schemes remote xff c).
  Proof.
    rewrite !serve_http_eq. unfold with_redirect. cbn [t_rules t_auth t_redirect].
    destruct (access_denied_http parse_ip split_host (t_rules tg) remote xff); [reflexivity|].
    destruct (authorized (t_auth tg) schemes c); cbn [negb]; [|reflexivity].
    destruct (code =? 0), (code' =? 0), (split_host remote); reflexivity.
  Qed.

  Theorem gate_before_upstream_tcp t p :
    In EUpstream (serve_tcp t p) ->
    exists tg, t = Some tg /\ access_denied_tcp (t_rules tg) p = false.
  Proof.
    unfold serve_tcp. destruct t as [tg|]; [|intros [H|[]]; discriminate].
    destruct (access_denied_tcp (t_rules tg) p) eqn:E; [intros [H|[]]; discriminate|].
    intros _. now exists tg.
  Qed.

  Theorem tcp_peer_checked r ip :
    access_denied_tcp r (TCPAddr (Some ip)) = deny_by_ip r (Some ip).
  Proof.
    unfold access_denied_tcp. destruct (rules_empty r) eqn:E; [|reflexivity].
    symmetry. now apply deny_by_ip_empty.
  Qed.

  (* end to end, HTTP: a forwarded request on a route with an allow list has its peer and
     every listed XFF element (every field value) inside a block of the list *)
  Theorem http_upstream_only_if_allowed tg l (schemes : scheme_table creds) remote xff c :
    In EUpstream (serve_http parse_ip split_host creds (Some tg) schemes remote xff c) ->
    r_allow (t_rules tg) = Some l -> parse_ip [] = None ->
    exists host, split_host remote = Some host /\
      (forall ip, parse_ip (strip_zone host) = Some ip ->
                  exists b, In b l /\ contains b ip = true) /\
      (forall v x ip, In v xff -> In x (split_byte v 44) ->
         parse_ip (strip_zone (trim_space x)) = Some ip ->
         exists b, In b l /\ contains b ip = true).
  Proof.
    intros H Ha Hnil. apply gate_before_upstream_http in H as (tg' & E & Hd & _ & host & Hs).
    inversion E; subst tg'. exists host. split; [exact Hs|]. split.
    - intros ip Hp. apply (allow_only_inside _ _ _ Ha). eapply peer_checked; eauto.
    - intros v x ip Hv Hin Hp. apply (allow_only_inside _ _ _ Ha).
      eapply xff_all_checked; eauto.
  Qed.

  (* end to end, TCP: a dial on a route with an allow list means the peer is inside *)
  Theorem tcp_upstream_only_if_allowed tg l ip :
    In EUpstream (serve_tcp (Some tg) (TCPAddr (Some ip))) ->
    r_allow (t_rules tg) = Some l ->
    exists b, In b l /\ contains b ip = true.
  Proof.
    intros H Ha. apply gate_before_upstream_tcp in H as (tg' & E & Hd). inversion E; subst tg'.
    rewrite tcp_peer_checked in Hd. now apply (allow_only_inside _ _ _ Ha).
  Qed.

  Theorem tcp_upstream_only_if_not_denied tg l ip b :
    In EUpstream (serve_tcp (Some tg) (TCPAddr (Some ip))) ->
    r_allow (t_rules tg) = None -> r_deny (t_rules tg) = Some l -> In b l -> contains b ip = false.
  Proof.
    intros H Ha Hdl Hin. apply gate_before_upstream_tcp in H as (tg' & E & Hd). inversion E; subst tg'.
    rewrite tcp_peer_checked in Hd. destruct (contains b ip) eqn:C; [|reflexivity].
    rewrite (deny_inside _ _ _ _ Ha Hdl Hin C) in Hd. discriminate.
  Qed.
End Gate.

(* ================= rule parsing ================= *)
Lemma beq_cons x a b : beq (x :: a) (x :: b) = beq a b.
Proof. unfold beq. cbn [list_eqb]. now rewrite N.eqb_refl. Qed.

Lemma tag_allow_allow x : beq (kind_str KAllow ++ [58] ++ x) ip_allow_tag = beq x (bs "ip").
Proof.
  change (kind_str KAllow ++ [58] ++ x) with (97 :: 108 :: 108 :: 111 :: 119 :: 58 :: x).
  change ip_allow_tag with (97 :: 108 :: 108 :: 111 :: 119 :: 58 :: bs "ip").
  now rewrite !beq_cons.
Qed.
Lemma tag_deny_deny x : beq (kind_str KDeny ++ [58] ++ x) ip_deny_tag = beq x (bs "ip").
Proof.
  change (kind_str KDeny ++ [58] ++ x) with (100 :: 101 :: 110 :: 121 :: 58 :: x).
  change ip_deny_tag with (100 :: 101 :: 110 :: 121 :: 58 :: bs "ip").
  now rewrite !beq_cons.
Qed.
Lemma tag_deny_allow x : beq (kind_str KDeny ++ [58] ++ x) ip_allow_tag = false.
Proof. reflexivity. Qed.
Lemma tag_allow_deny x : beq (kind_str KAllow ++ [58] ++ x) ip_deny_tag = false.
Proof. reflexivity. Qed.


Section Parse.
  Variable parse_ip : str -> option ipaddr.
  Variable parse_cidr : str -> option ipnet.

  Notation item_net := (item_net parse_ip parse_cidr).
  Notation parse_item := (parse_item parse_ip parse_cidr).
  Notation parse_items := (parse_items parse_ip parse_cidr).
  Notation intended_blocks := (intended_blocks parse_ip parse_cidr).
  Notation intended_admits := (intended_admits parse_ip parse_cidr).
  Notation target_rules := (target_rules parse_ip parse_cidr).
  Notation process_access_rules := (process_access_rules parse_ip parse_cidr).
  Notation rule_well_formed := (rule_well_formed parse_ip parse_cidr).

  Definition add_block (k : kind) (r : rules) (n : ipnet) : rules :=
    match k with
    | KAllow => {| r_allow := map_append (r_allow r) n; r_deny := r_deny r |}
    | KDeny => {| r_allow := r_allow r; r_deny := map_append (r_deny r) n |}
    end.

  (* one item: an error exactly when the item denotes no block, else that block is appended
     to the list of the option being parsed *)
  Lemma parse_item_spec k c r :
    parse_item k c r = match item_net c with Some n => Some (add_block k r n) | None => None end.
  Proof.
    unfold Access.parse_item, Access.item_net.
    destruct (split_colon c) as [[t0 t1]|]; [|reflexivity].
    destruct k.
    - rewrite tag_allow_allow, tag_allow_deny.
      destruct (beq (lower (trim_space t0)) (bs "ip")); [|reflexivity].
      destruct (value_net parse_ip parse_cidr (trim_space t1)); reflexivity.
    - rewrite tag_deny_allow, tag_deny_deny.
      destruct (beq (lower (trim_space t0)) (bs "ip")); [|reflexivity].
      destruct (value_net parse_ip parse_cidr (trim_space t1)); reflexivity.
  Qed.

  Definition blocks_of (items : list str) : list ipnet :=
    flat_map (fun c => match item_net c with Some n => [n] | None => [] end) items.
  Definition all_ok (items : list str) : bool :=
    forallb (fun c => match item_net c with Some _ => true | None => false end) items.
  (* the blocks of the items before the first one that does not parse *)
  Fixpoint prefix_blocks (items : list str) : list ipnet :=
    match items with
    | [] => []
    | c :: rest => match item_net c with Some n => n :: prefix_blocks rest | None => [] end
    end.

  (* appending several blocks to a map entry: an absent key stays absent when there is none *)
  Definition map_extend (o : option (list ipnet)) (l : list ipnet) : option (list ipnet) :=
    match l with
    | [] => o
    | _ => Some (match o with Some l0 => l0 ++ l | None => l end)
    end.
  Definition add_blocks (k : kind) (r : rules) (l : list ipnet) : rules :=
    match k with
    | KAllow => {| r_allow := map_extend (r_allow r) l; r_deny := r_deny r |}
    | KDeny => {| r_allow := r_allow r; r_deny := map_extend (r_deny r) l |}
    end.

  Lemma map_extend_cons o n l : map_extend (map_append o n) l = map_extend o (n :: l).
  Proof.
    destruct o as [l0|], l as [|x l']; cbn [map_extend map_append]; try reflexivity.
    - now rewrite <- app_assoc.
  Qed.
  Lemma add_blocks_cons k r n l : add_blocks k (add_block k r n) l = add_blocks k r (n :: l).
  Proof. destruct k; unfold add_blocks, add_block; cbn [r_allow r_deny]; now rewrite map_extend_cons. Qed.
  Lemma add_blocks_nil k r : add_blocks k r [] = r.
  Proof. destruct k, r as [ra rd]; reflexivity. Qed.

  (* the loop of parseAccessRule: blocks of the parsable prefix are appended, an error is
     returned exactly when some item does not parse *)
  Lemma parse_items_spec k items r :
    parse_items k items r = (add_blocks k r (prefix_blocks items), all_ok items).
  Proof.
    revert r. induction items as [|c rest IH]; intros r.
    - cbn. now rewrite add_blocks_nil.
    - cbn [Access.parse_items prefix_blocks all_ok forallb]. rewrite parse_item_spec.
      destruct (item_net c) as [n|].
      + rewrite IH, add_blocks_cons. reflexivity.
      + now rewrite add_blocks_nil.
  Qed.

  Lemma prefix_blocks_all_ok items : all_ok items = true -> prefix_blocks items = blocks_of items.
  Proof.
    induction items as [|c rest IH]; [reflexivity|]. cbn [all_ok forallb prefix_blocks].
    unfold blocks_of. cbn [flat_map]. destruct (item_net c); [|discriminate].
    intros H. cbn [andb] in H. cbn [app]. f_equal. now apply IH.
  Qed.

  Lemma blocks_of_nonempty items : items <> [] -> all_ok items = true -> blocks_of items <> [].
  Proof.
    destruct items as [|c rest]; [congruence|]. intros _ H. cbn [all_ok forallb] in H.
    apply andb_true_iff in H as [Hc _]. unfold blocks_of. cbn [flat_map].
    destruct (item_net c); [discriminate | discriminate].
  Qed.

  Lemma intended_blocks_eq opt : intended_blocks opt = blocks_of (split_byte opt 44).
  Proof. reflexivity. Qed.
  Lemma items_ok_eq opt : items_ok parse_ip parse_cidr opt = all_ok (split_byte opt 44).
  Proof. reflexivity. Qed.

  Lemma map_extend_none_ok opt :
    all_ok (split_byte opt 44) = true ->
    map_extend None (prefix_blocks (split_byte opt 44)) = Some (intended_blocks opt).
  Proof.
    intros H. rewrite (prefix_blocks_all_ok _ H), intended_blocks_eq.
    pose proof (blocks_of_nonempty _ (split_byte_nonempty opt 44) H) as Hne.
    destruct (blocks_of (split_byte opt 44)); [congruence | reflexivity].
  Qed.

  (* ---- ProcessAccessRules, completely: on a well-formed text (at most one option, every
          item parses) the map holds exactly the intended blocks; on every other text it is
          the empty allow list of denyAll (1cbe751) ---- *)
  Theorem process_access_rules_spec allow_opt deny_opt :
    process_access_rules allow_opt deny_opt =
      if rule_well_formed allow_opt deny_opt then
        ({| r_allow := if is_nil allow_opt then None else Some (intended_blocks allow_opt);
            r_deny := if is_nil deny_opt then None else Some (intended_blocks deny_opt) |}, true)
      else (deny_all_rules, false).
  Proof.
    unfold Access.process_access_rules, Access.rule_well_formed, Access.parse_access_rule.
    destruct (is_nil allow_opt) eqn:Ea, (is_nil deny_opt) eqn:Ed; cbn [negb andb orb].
    - reflexivity.
    - rewrite parse_items_spec, items_ok_eq.
      destruct (all_ok (split_byte deny_opt 44)) eqn:Hd; cbn [negb]; [|reflexivity].
      unfold add_blocks, no_rules. cbn [r_allow r_deny]. now rewrite (map_extend_none_ok _ Hd).
    - rewrite parse_items_spec, items_ok_eq.
      destruct (all_ok (split_byte allow_opt 44)) eqn:Ha; cbn [negb andb]; [|reflexivity].
      unfold add_blocks, no_rules. cbn [r_allow r_deny]. now rewrite (map_extend_none_ok _ Ha).
    - reflexivity.
  Qed.

  Theorem well_formed_rules allow_opt deny_opt :
    rule_well_formed allow_opt deny_opt = true ->
    process_access_rules allow_opt deny_opt =
      ({| r_allow := if is_nil allow_opt then None else Some (intended_blocks allow_opt);
          r_deny := if is_nil deny_opt then None else Some (intended_blocks deny_opt) |}, true).
  Proof. intros H. now rewrite process_access_rules_spec, H. Qed.

  Theorem unusable_rules_deny_all allow_opt deny_opt :
    rule_well_formed allow_opt deny_opt = false ->
    process_access_rules allow_opt deny_opt = (deny_all_rules, false).
  Proof. intros H. now rewrite process_access_rules_spec, H. Qed.

  (* on every well-formed rule text the decision IS the intended one *)
  Theorem fail_closed_on_domain allow_opt deny_opt ip :
    rule_well_formed allow_opt deny_opt = true ->
    deny_by_ip (target_rules allow_opt deny_opt) (Some ip) = negb (intended_admits allow_opt deny_opt ip).
  Proof.
    intros H. unfold Access.target_rules. rewrite (well_formed_rules _ _ H). cbn [fst].
    unfold Access.rule_well_formed in H. apply andb_true_iff in H as [H Hd]. apply andb_true_iff in H as [Hb Ha].
    unfold Access.intended_admits.
    destruct (is_nil allow_opt) eqn:Ea, (is_nil deny_opt) eqn:Ed; cbn [orb andb negb] in *; try discriminate.
    - reflexivity.
    - rewrite (deny_by_ip_deny _ (intended_blocks deny_opt)) by reflexivity. now rewrite negb_involutive.
    - rewrite (deny_by_ip_allow _ (intended_blocks allow_opt)) by reflexivity. now rewrite andb_true_r.
  Qed.

  (* ---- "a rule that cannot be parsed never widens access", for EVERY rule text ---- *)
  (* whoever is admitted by the rules in force is admitted by the rules built from the
     parsable items only ... *)
  Theorem fail_closed allow_opt deny_opt ip :
    deny_by_ip (target_rules allow_opt deny_opt) (Some ip) = false ->
    intended_admits allow_opt deny_opt ip = true.
  Proof.
    destruct (rule_well_formed allow_opt deny_opt) eqn:W.
    - rewrite (fail_closed_on_domain _ _ _ W). apply negb_false_iff.
    - unfold Access.target_rules. rewrite (unusable_rules_deny_all _ _ W). cbn [fst].
      rewrite empty_allow_denies_all by reflexivity. discriminate.
  Qed.

  (* ... and when the text has an unusable item (or gives both options) no address is admitted *)
  Theorem unusable_rule_admits_nobody allow_opt deny_opt ip :
    rule_well_formed allow_opt deny_opt = false ->
    deny_by_ip (target_rules allow_opt deny_opt) (Some ip) = true.
  Proof.
    intros W. unfold Access.target_rules. rewrite (unusable_rules_deny_all _ _ W). cbn [fst].
    now apply empty_allow_denies_all.
  Qed.

  Theorem fail_closed_every_text allow_opt deny_opt ip :
    (deny_by_ip (target_rules allow_opt deny_opt) (Some ip) = false ->
     intended_admits allow_opt deny_opt ip = true) /\
    (rule_well_formed allow_opt deny_opt = false ->
     deny_by_ip (target_rules allow_opt deny_opt) (Some ip) = true).
  Proof. split; [apply fail_closed | apply unusable_rule_admits_nobody]. Qed.

  (* corollary: an allow option alone *)
  Corollary allow_only_fail_closed allow_opt ip :
    deny_by_ip (target_rules allow_opt []) (Some ip) = false ->
    intended_admits allow_opt [] ip = true.
  Proof. apply fail_closed. Qed.
End Parse.

(* ================= refutations (witnesses run on the real code by the harness) ================= *)
(* the answers of the real net.ParseIP / net.ParseCIDR on the strings involved *)
Definition mapped (x : N) : N := 65535 * 2 ^ 32 + x.       (* ::ffff:a.b.c.d *)
Definition fe80_1 : N := 65152 * 2 ^ 112 + 1.                (* fe80::1 *)
Definition ex_parse_cidr (s : str) : option ipnet :=
  if beq s (bs "10.0.0.0/8") then Some {| n_ip := IP4 167772160; n_ones := 8; n_m16 := false |}
  else None.                                                   (* "10.0.0.0/33": error *)
Definition ex_parse_ip (s : str) : option ipaddr :=
  if beq s (bs "6.6.6.6") then Some (IP16 (mapped 101058054))     (* ::ffff:6.6.6.6 *)
  else if beq s (bs "8.8.8.8") then Some (IP16 (mapped 134744072))
  else if beq s (bs "1.1.1.1") then Some (IP16 (mapped 16843009))
  else None.                                                   (* "bad", "fe80::1%eth0": nil *)
Definition ip_8888 : ipaddr := IP4 134744072.
Definition ip_6666 : ipaddr := IP4 101058054.

(* REPAIRED by 1cbe751 ("fix: a route whose access rules cannot be parsed is served without
   any restriction").  The three refutations are about the code before that commit
   ([target_rules_unrepaired]: an error return left the map empty or partially filled). *)
(* allow=ip:10.0.0.0/33 admitted 8.8.8.8 (everyone); intended: nobody *)
Theorem bad_rule_widens_refuted :
  exists parse_ip parse_cidr allow_opt deny_opt ip,
    deny_by_ip (target_rules_unrepaired parse_ip parse_cidr allow_opt deny_opt) (Some ip) = false /\
    intended_admits parse_ip parse_cidr allow_opt deny_opt ip = false.
Proof.
  exists ex_parse_ip, ex_parse_cidr, (bs "ip:10.0.0.0/33"), [], ip_8888. split; vm_compute; reflexivity.
Qed.

(* deny=ip:bad,ip:6.6.6.6 admitted 6.6.6.6: the bad first item disabled the rest *)
Theorem bad_first_deny_item_refuted :
  exists parse_ip parse_cidr deny_opt ip,
    deny_by_ip (target_rules_unrepaired parse_ip parse_cidr [] deny_opt) (Some ip) = false /\
    intended_admits parse_ip parse_cidr [] deny_opt ip = false.
Proof.
  exists ex_parse_ip, ex_parse_cidr, (bs "ip:bad,ip:6.6.6.6"), ip_6666. split; vm_compute; reflexivity.
Qed.

(* allow=ip:10.0.0.0/8 together with deny=ip:6.6.6.6 admitted 6.6.6.6: both were dropped *)
Theorem allow_and_deny_refuted :
  exists parse_ip parse_cidr allow_opt deny_opt ip,
    allow_opt <> [] /\ deny_opt <> [] /\
    items_ok parse_ip parse_cidr allow_opt = true /\ items_ok parse_ip parse_cidr deny_opt = true /\
    deny_by_ip (target_rules_unrepaired parse_ip parse_cidr allow_opt deny_opt) (Some ip) = false /\
    intended_admits parse_ip parse_cidr allow_opt deny_opt ip = false.
Proof.
  exists ex_parse_ip, ex_parse_cidr, (bs "ip:10.0.0.0/8"), (bs "ip:6.6.6.6"), ip_6666.
  repeat split; try discriminate; vm_compute; reflexivity.
Qed.

(* the same three witnesses on the code as it is: the map is denyAll's and the address is denied *)
Theorem unusable_rules_now_denied :
  target_rules ex_parse_ip ex_parse_cidr (bs "ip:10.0.0.0/33") [] = deny_all_rules /\
  deny_by_ip (target_rules ex_parse_ip ex_parse_cidr (bs "ip:10.0.0.0/33") []) (Some ip_8888) = true /\
  deny_by_ip (target_rules ex_parse_ip ex_parse_cidr [] (bs "ip:bad,ip:6.6.6.6")) (Some ip_6666) = true /\
  deny_by_ip (target_rules ex_parse_ip ex_parse_cidr (bs "ip:10.0.0.0/8") (bs "ip:6.6.6.6")) (Some ip_6666) = true.
Proof. repeat split; vm_compute; reflexivity. Qed.

(* "[fe80::1%eth0]:1234" passed allow=ip:10.0.0.0/8: ParseIP rejects the zone, nil is admitted *)
Definition ex_split_host (s : str) : option str :=
  if beq s (bs "[fe80::1%eth0]:1234") then Some (bs "fe80::1%eth0")
  else if beq s (bs "1.1.1.1:1") then Some (bs "1.1.1.1") else None.
Definition ex_addr_of (s : str) : option ipaddr :=
  if beq s (bs "fe80::1%eth0") then Some (IP16 fe80_1)  (* fe80::1 *)
  else ex_parse_ip s.
Definition ex_allow_10 : rules :=
  {| r_allow := Some [{| n_ip := IP4 167772160; n_ones := 8; n_m16 := false |}]; r_deny := None |}.
Definition ex_deny_6666 : rules :=
  {| r_allow := None; r_deny := Some [{| n_ip := IP4 101058054; n_ones := 32; n_m16 := false |}] |}.

(* REPAIRED by f5e2970 ("fix: a zone-scoped IPv6 peer passes every access rule"): the
   statement is about the code before that commit ([access_denied_http_zone_unrepaired],
   net.ParseIP applied to the unstripped text) ... *)
Theorem zone_peer_admitted_refuted :
  exists parse_ip split_host addr_of r remote host,
    (forall s a, parse_ip s = Some a -> addr_of s = Some a) /\
    split_host remote = Some host /\
    access_denied_http_zone_unrepaired parse_ip split_host r remote [] = false /\
    ~ http_admitted_spec addr_of r host [].
Proof.
  exists ex_parse_ip, ex_split_host, ex_addr_of, ex_allow_10, (bs "[fe80::1%eth0]:1234"), (bs "fe80::1%eth0").
  split; [|split; [|split]].
  - intros s a H. unfold ex_addr_of. destruct (beq s (bs "fe80::1%eth0")) eqn:E; [|exact H].
    apply beq_eq in E. subst s. vm_compute in H. discriminate.
  - reflexivity.
  - vm_compute. reflexivity.
  - intros H. specialize (H (bs "fe80::1%eth0") (IP16 fe80_1)).
    assert (X : deny_by_ip ex_allow_10 (Some (IP16 fe80_1)) = true)
      by (vm_compute; reflexivity).
    rewrite H in X; [discriminate | now left | vm_compute; reflexivity].
Qed.

(* ... and the same witness is denied by the code as it is now (ParseIP reads "fe80::1") *)
Definition ex_parse_ip_z (s : str) : option ipaddr :=
  if beq s (bs "fe80::1") then Some (IP16 fe80_1) else ex_parse_ip s.
Theorem zone_peer_now_denied :
  access_denied_http ex_parse_ip_z ex_split_host ex_allow_10 (bs "[fe80::1%eth0]:1234") [] = true /\
  access_denied_http_zone_unrepaired ex_parse_ip_z ex_split_host ex_allow_10 (bs "[fe80::1%eth0]:1234") [] = false.
Proof. split; vm_compute; reflexivity. Qed.

(* REPAIRED by 273c6ed ("fix: access rules check only the first X-Forwarded-For header line"):
   about the code before that commit ([access_denied_http_first_value_unrepaired], Header.Get):
   two field values, only the first is read; 6.6.6.6 in the second passes deny=ip:6.6.6.6 *)
Theorem multi_value_xff_refuted :
  exists parse_ip split_host r remote host xff,
    split_host remote = Some host /\
    (forall s, In s (request_strings host xff) -> parse_ip s <> None) /\
    access_denied_http_first_value_unrepaired parse_ip split_host r remote xff = false /\
    ~ http_admitted_spec parse_ip r host xff.
Proof.
  exists ex_parse_ip, ex_split_host, ex_deny_6666, (bs "1.1.1.1:1"), (bs "1.1.1.1"), [bs "1.1.1.1"; bs "6.6.6.6"].
  split; [reflexivity|]. split; [|split].
  - intros s [<-|[<-|[<-|[]]]]; vm_compute; discriminate.
  - vm_compute. reflexivity.
  - intros H. specialize (H (bs "6.6.6.6") (IP16 (mapped 101058054))).
    assert (X : deny_by_ip ex_deny_6666 (Some (IP16 (mapped 101058054))) = true) by (vm_compute; reflexivity).
    rewrite H in X; [discriminate | right; right; now left | vm_compute; reflexivity].
Qed.

Theorem multi_value_xff_now_denied :
  access_denied_http ex_parse_ip ex_split_host ex_deny_6666 (bs "1.1.1.1:1") [bs "1.1.1.1"; bs "6.6.6.6"] = true.
Proof. vm_compute. reflexivity. Qed.

(* ================= CIDR membership against a bit-level specification ================= *)
Definition wf_ip (ip : ipaddr) : Prop :=
  match ip with IP4 a => a < 2 ^ 32 | IP16 a => a < 2 ^ 128 end.
Definition wf_net (n : ipnet) : Prop :=
  wf_ip (n_ip n) /\ n_ones n <= (if n_m16 n then 128 else 32).

Lemma testbit_above a w n : a < 2 ^ w -> w <= n -> N.testbit a n = false.
Proof.
  intros Ha Hn. destruct (N.eq_dec a 0) as [->|Hz]; [apply N.bits_0|].
  apply N.bits_above_log2. apply N.lt_le_trans with w; [|exact Hn].
  apply N.log2_lt_pow2; lia.
Qed.

Lemma same_prefix_spec w ones a b :
  ones <= w -> a < 2 ^ w -> b < 2 ^ w ->
  (same_prefix w ones a b = true <->
   forall i, i < ones -> N.testbit b (w - 1 - i) = N.testbit a (w - 1 - i)).
Proof.
  intros Ho Ha Hb. unfold same_prefix. rewrite N.eqb_eq. split.
  - intros E i Hi.
    assert (X : forall x, N.testbit x (w - 1 - i) = N.testbit (N.shiftr x (w - ones)) (ones - 1 - i)).
    { intros x. rewrite N.shiftr_spec'. f_equal. lia. }
    rewrite (X a), (X b). now rewrite E.
  - intros H. apply N.bits_inj. intros m. rewrite !N.shiftr_spec'.
    destruct (N.lt_ge_cases (m + (w - ones)) w) as [Hlt|Hge].
    + specialize (H (w - 1 - (m + (w - ones)))).
      replace (w - 1 - (w - 1 - (m + (w - ones)))) with (m + (w - ones)) in H by lia.
      symmetry. apply H. lia.
    + rewrite (testbit_above a w), (testbit_above b w); auto.
Qed.

Lemma canon_bound ip : wf_ip ip -> snd (canon ip) < 2 ^ width (fst (canon ip)).
Proof.
  unfold canon, to4. destruct ip as [a|a]; cbn [wf_ip]; intros H; [exact H|].
  destruct (N.shiftr a 32 =? 65535); cbn [fst snd width ip_raw]; [|exact H].
  rewrite N.land_ones. apply N.mod_lt. lia.
Qed.

Lemma nnm_bound n v6 nn ones :
  wf_net n -> network_number_and_mask n = Some (v6, nn, ones) ->
  nn < 2 ^ width v6 /\ ones <= width v6.
Proof.
  intros [Hip Hones]. unfold network_number_and_mask.
  pose proof (canon_bound (n_ip n) Hip) as Hc. unfold canon in Hc.
  destruct (to4 (n_ip n)) as [a|] eqn:E4; cbn [fst snd] in Hc.
  - intros X. inversion X; subst. split; [exact Hc|]. cbn [width]. destruct (n_m16 n); lia.
  - destruct (n_m16 n) eqn:Em; [|discriminate]. intros X. inversion X; subst. split; [exact Hc | exact Hones].
Qed.

(* net.IPNet.Contains (by shifting) decides exactly: same family after unmapping and
   agreement on the first [ones] bits counted from the most significant one *)
Theorem contains_spec n ip :
  wf_net n -> wf_ip ip ->
  (contains n ip = true <-> exists b, sblock_of n = Some b /\ in_sblock b (canon ip)).
Proof.
  intros Hn Hi. unfold contains, sblock_of.
  destruct (network_number_and_mask n) as [[[v6 nn] ones]|] eqn:E.
  - destruct (nnm_bound _ _ _ _ Hn E) as [Hnn Hones].
    pose proof (canon_bound ip Hi) as Hc. destruct (canon ip) as [x6 x]. cbn [fst snd] in Hc.
    rewrite andb_true_iff. split.
    + intros [Hf Hp]. apply eqb_prop in Hf. subst x6.
      destruct (same_prefix_spec (width v6) ones nn x Hones Hnn Hc) as [F _].
      eexists. split; [reflexivity|]. unfold in_sblock. cbn [fst snd s_v6 s_net s_len]. split; [reflexivity|].
      intros i Hi'. now apply (F Hp).
    + intros (b & Hb & Hf & Hbits). inversion Hb; subst b. cbn [fst snd s_v6 s_net s_len] in *. subst x6.
      split; [apply eqb_reflx|].
      destruct (same_prefix_spec (width v6) ones nn x Hones Hnn Hc) as [_ G].
      apply G. intros i Hi'. now apply Hbits.
  - split; [discriminate | intros (b & Hb & _); discriminate].
Qed.

(* the brute-force reference used by the correspondence check is the same predicate *)
Lemma bits_agree_spec fuel top a b :
  bits_agree fuel top a b = true <->
  forall i, i < N.of_nat fuel -> N.testbit a (top - i) = N.testbit b (top - i).
Proof.
  revert top. induction fuel as [|f IH]; intros top.
  - cbn. split; [intros _ i Hi; lia | reflexivity].
  - cbn [bits_agree]. rewrite andb_true_iff, IH. split.
    + intros [H0 H] i Hi. destruct (N.eq_dec i 0) as [->|Hz].
      * rewrite N.sub_0_r. now apply eqb_prop.
      * specialize (H (i - 1)). replace (top - 1 - (i - 1)) with (top - i) in H by lia. apply H. lia.
    + intros H. split.
      * specialize (H 0). rewrite N.sub_0_r in H. rewrite H by lia. apply eqb_reflx.
      * intros i Hi. specialize (H (i + 1)). replace (top - (i + 1)) with (top - 1 - i) in H by lia.
        apply H. lia.
Qed.

Theorem in_sblock_b_spec b a :
  s_len b <= width (s_v6 b) -> (in_sblock_b b a = true <-> in_sblock b a).
Proof.
  intros Hl. unfold in_sblock_b, in_sblock. rewrite andb_true_iff, bits_agree_spec.
  rewrite N2Nat.id, N.min_l by exact Hl. split.
  - intros [Hf H]. apply eqb_prop in Hf. split; [exact Hf|]. intros i Hi.
    replace (width (s_v6 b) - 1 - i) with (width (s_v6 b) - 1 - i) by reflexivity. now apply H.
  - intros [Hf H]. split; [rewrite Hf; apply eqb_reflx|]. intros i Hi. now apply H.
Qed.

(* ================= non-vacuity ================= *)
Definition ex_net_10 : ipnet := {| n_ip := IP4 167772160; n_ones := 8; n_m16 := false |}.
Example contains_nonvacuous :
  wf_net ex_net_10 /\ wf_ip (IP16 (mapped 168364297)) (* ::ffff:10.9.9.9 *) /\
  contains ex_net_10 (IP16 (mapped 168364297)) = true /\ contains ex_net_10 ip_8888 = false.
Proof. repeat split; vm_compute; try reflexivity; discriminate. Qed.

Example well_formed_nonvacuous :
  rule_well_formed ex_parse_ip ex_parse_cidr (bs "ip:10.0.0.0/8, IP:6.6.6.6") [] = true /\
  r_allow (target_rules ex_parse_ip ex_parse_cidr (bs "ip:10.0.0.0/8, IP:6.6.6.6") []) =
    Some [ex_net_10; {| n_ip := IP4 101058054; n_ones := 32; n_m16 := false |}].
Proof. split; vm_compute; reflexivity. Qed.

(* [fail_closed] is not vacuous: a text with a usable first and an unusable second item; an
   address inside the usable block would be admitted by the intended rules and by the code
   before 1cbe751, and is denied now (nobody is admitted) *)
Example fail_closed_nonvacuous :
  rule_well_formed ex_parse_ip ex_parse_cidr (bs "ip:10.0.0.0/8,ip:10.0.0.0/33") [] = false /\
  target_rules ex_parse_ip ex_parse_cidr (bs "ip:10.0.0.0/8,ip:10.0.0.0/33") [] = deny_all_rules /\
  intended_admits ex_parse_ip ex_parse_cidr (bs "ip:10.0.0.0/8,ip:10.0.0.0/33") [] (IP4 168364297) = true /\
  deny_by_ip (target_rules ex_parse_ip ex_parse_cidr (bs "ip:10.0.0.0/8,ip:10.0.0.0/33") []) (Some (IP4 168364297)) = true /\
  r_allow (target_rules_unrepaired ex_parse_ip ex_parse_cidr (bs "ip:10.0.0.0/8,ip:10.0.0.0/33") []) = Some [ex_net_10] /\
  (* and the premise of [fail_closed] is met by a well-formed text *)
  deny_by_ip (target_rules ex_parse_ip ex_parse_cidr (bs "ip:10.0.0.0/8, IP:6.6.6.6") []) (Some (IP4 168364297)) = false.
Proof. repeat split; vm_compute; reflexivity. Qed.

(* the gate theorems: a forwarded request exists, and each refusal exists *)
Example gate_nonvacuous :
  serve_http ex_parse_ip ex_split_host unit (Some {| t_rules := ex_deny_6666; t_auth := []; t_redirect := 0 |})
             (fun _ => None) (bs "1.1.1.1:1") [bs "8.8.8.8, 1.1.1.1"] tt = [EUpstream] /\
  serve_http ex_parse_ip ex_split_host unit (Some {| t_rules := ex_deny_6666; t_auth := []; t_redirect := 0 |})
             (fun _ => None) (bs "1.1.1.1:1") [bs "8.8.8.8, 6.6.6.6"] tt = [ERespond 403] /\
  serve_http ex_parse_ip ex_split_host unit (Some {| t_rules := ex_deny_6666; t_auth := bs "nosuch"; t_redirect := 0 |})
             (fun _ => None) (bs "1.1.1.1:1") [] tt = [ERespond 401] /\
  serve_tcp (Some {| t_rules := ex_allow_10; t_auth := []; t_redirect := 0 |}) (TCPAddr (Some ip_8888)) = [EClose] /\
  serve_tcp (Some {| t_rules := ex_allow_10; t_auth := []; t_redirect := 0 |}) (TCPAddr (Some (IP4 168430090))) = [EUpstream].
Proof. repeat split; vm_compute; reflexivity. Qed.

(* ================= the reference of the correspondence check = the intended reading ================= *)
Definition sblocks (l : list ipnet) : list sblock :=
  flat_map (fun n => match sblock_of n with Some b => [b] | None => [] end) l.

Lemma in_sblock_b_contains n b ip :
  wf_net n -> wf_ip ip -> sblock_of n = Some b -> in_sblock_b b (canon ip) = contains n ip.
Proof.
  intros Hn Hi Hb.
  assert (Hl : s_len b <= width (s_v6 b)).
  { unfold sblock_of in Hb. destruct (network_number_and_mask n) as [[[v6 nn] ones]|] eqn:E; [|discriminate].
    inversion Hb; subst b. cbn [s_len s_v6]. now destruct (nnm_bound _ _ _ _ Hn E). }
  pose proof (in_sblock_b_spec b (canon ip) Hl) as S1.
  pose proof (contains_spec n ip Hn Hi) as S2.
  destruct (in_sblock_b b (canon ip)) eqn:E1, (contains n ip) eqn:E2; try reflexivity.
  - assert (X : false = true); [|discriminate]. apply S2. exists b. split; [exact Hb|]. now apply S1.
  - assert (X : false = true); [|discriminate]. apply S1. destruct S2 as [S2 _].
    destruct (S2 eq_refl) as (b' & Hb' & Hin). rewrite Hb in Hb'. inversion Hb'; subst b'. exact Hin.
Qed.

Lemma contains_no_sblock n ip : sblock_of n = None -> contains n ip = false.
Proof.
  unfold sblock_of, contains. destruct (network_number_and_mask n) as [[[v6 nn] ones]|]; [discriminate|reflexivity].
Qed.

Lemma existsb_sblocks l ip :
  (forall n, In n l -> wf_net n) -> wf_ip ip ->
  existsb (fun b => in_sblock_b b (canon ip)) (sblocks l) = existsb (fun n => contains n ip) l.
Proof.
  intros Hl Hi. induction l as [|n l IH]; [reflexivity|].
  unfold sblocks. cbn [flat_map existsb]. fold (sblocks l).
  rewrite existsb_app, IH by (intros m Hm; apply Hl; now right).
  destruct (sblock_of n) as [b|] eqn:E.
  - cbn [existsb]. rewrite orb_false_r. now rewrite (in_sblock_b_contains n b ip (Hl n (or_introl eq_refl)) Hi E).
  - cbn [existsb]. now rewrite (contains_no_sblock n ip E).
Qed.

(* when the reference rules handed to the check are the blocks the intended reading denotes
   (which [ref_matches] tests on every case against the harness's net/netip reading), the
   check's boolean reference decides exactly [intended_admits] *)
Theorem ref_admits_is_intended parse_ip parse_cidr allow_opt deny_opt rr ip :
  wf_ip ip ->
  (forall n, In n (intended_blocks parse_ip parse_cidr allow_opt) -> wf_net n) ->
  (forall n, In n (intended_blocks parse_ip parse_cidr deny_opt) -> wf_net n) ->
  ref_allow rr = (if is_nil allow_opt then None else Some (sblocks (intended_blocks parse_ip parse_cidr allow_opt))) ->
  ref_deny rr = (if is_nil deny_opt then None else Some (sblocks (intended_blocks parse_ip parse_cidr deny_opt))) ->
  ref_admits rr (canon ip) = intended_admits parse_ip parse_cidr allow_opt deny_opt ip.
Proof.
  intros Hi Ha Hd Ea Ed. unfold ref_admits, intended_admits. rewrite Ea, Ed.
  destruct (is_nil allow_opt), (is_nil deny_opt); cbn [orb];
    rewrite ?existsb_sblocks by assumption; reflexivity.
Qed.

(* a redirect route: the admitted request gets the 3xx, the rejected one 403, the unauthenticated 401 *)
Example redirect_gate_nonvacuous :
  serve_http ex_parse_ip ex_split_host unit (Some {| t_rules := ex_deny_6666; t_auth := []; t_redirect := 301 |})
             (fun _ => None) (bs "1.1.1.1:1") [bs "8.8.8.8, 1.1.1.1"] tt = [ERedirect 301] /\
  serve_http ex_parse_ip ex_split_host unit (Some {| t_rules := ex_deny_6666; t_auth := []; t_redirect := 301 |})
             (fun _ => None) (bs "1.1.1.1:1") [bs "8.8.8.8, 6.6.6.6"] tt = [ERespond 403] /\
  serve_http ex_parse_ip ex_split_host unit (Some {| t_rules := deny_all_rules; t_auth := []; t_redirect := 308 |})
             (fun _ => None) (bs "1.1.1.1:1") [] tt = [ERespond 403] /\
  serve_http ex_parse_ip ex_split_host unit (Some {| t_rules := ex_deny_6666; t_auth := bs "nosuch"; t_redirect := 302 |})
             (fun _ => None) (bs "1.1.1.1:1") [] tt = [ERespond 401].
Proof. repeat split; vm_compute; reflexivity. Qed.

(* ================= the property's statement, composed =================
   For every rule text (well-formed or not), every RemoteAddr and X-Forwarded-For header set,
   every scheme name, scheme table and credentials, on a forwarding or a redirect route:
   the reading of the rule text is the independent [intended_admits] (blocks of the parsable
   items, CIDR membership = [contains], proved equal to the bit-level spec), the route's rule
   map is what ProcessAccessRules leaves in the target. *)
Section Property.
  Variable parse_ip : str -> option ipaddr.
  Variable parse_cidr : str -> option ipnet.
  Variable split_host : str -> option str.
  Variable creds : Type.

  Definition route_target (allow_opt deny_opt auth : str) (redirect : N) : target :=
    {| t_rules := target_rules parse_ip parse_cidr allow_opt deny_opt; t_auth := auth; t_redirect := redirect |}.

  (* every address the request carries is admitted by the intended reading of the rule text *)
  Definition request_admitted (allow_opt deny_opt host : str) (xff : list str) : Prop :=
    forall s ip, In s (request_strings host xff) -> parse_ip (strip_zone s) = Some ip ->
                 intended_admits parse_ip parse_cidr allow_opt deny_opt ip = true.

  (* forwarded (or answered with the route's redirect) => admitted and authorised *)
  Theorem http_forwarded_only_if allow_opt deny_opt auth redirect (schemes : scheme_table creds) remote host xff c :
    split_host remote = Some host -> parse_ip [] = None ->
    (In EUpstream (serve_http parse_ip split_host creds (Some (route_target allow_opt deny_opt auth redirect)) schemes remote xff c)
     \/ exists code, In (ERedirect code) (serve_http parse_ip split_host creds (Some (route_target allow_opt deny_opt auth redirect)) schemes remote xff c)) ->
    request_admitted allow_opt deny_opt host xff /\ authorized auth schemes c = true.
  Proof.
    intros Hs Hnil H.
    assert (G : access_denied_http parse_ip split_host (target_rules parse_ip parse_cidr allow_opt deny_opt) remote xff = false
                /\ authorized auth schemes c = true).
    { destruct H as [H|[code H]].
      - apply gate_before_upstream_http in H as (tg & E & Hd & Ha & _). inversion E; subst tg. now split.
      - apply gate_before_redirect_http in H as (tg & E & _ & _ & Hd & Ha). inversion E; subst tg. now split. }
    destruct G as [Hd Ha]. split; [|exact Ha].
    intros s ip Hin Hp. apply fail_closed.
    destruct Hin as [<-|Hin]; [eapply peer_checked; eauto|].
    apply in_flat_map in Hin as (v & Hv & Hin). apply in_map_iff in Hin as (x & <- & Hx).
    eapply xff_all_checked; eauto.
  Qed.

  (* an address of the request (peer or any X-Forwarded-For element) that the intended rules
     reject => 403 and nothing else: no upstream, no redirect, whatever the credentials *)
  Theorem http_rejected_gets_403 allow_opt deny_opt auth redirect (schemes : scheme_table creds) remote host xff c s ip :
    split_host remote = Some host -> parse_ip [] = None ->
    In s (request_strings host xff) -> parse_ip (strip_zone s) = Some ip ->
    intended_admits parse_ip parse_cidr allow_opt deny_opt ip = false ->
    serve_http parse_ip split_host creds (Some (route_target allow_opt deny_opt auth redirect)) schemes remote xff c
    = [ERespond 403].
  Proof.
    intros Hs Hnil Hin Hp Hi. apply denied_gets_403. cbn [route_target t_rules].
    eapply rejected_address_denies; eauto.
    destruct (deny_by_ip (target_rules parse_ip parse_cidr allow_opt deny_opt) (Some ip)) eqn:E; [reflexivity|].
    apply fail_closed in E. congruence.
  Qed.

  (* every address admitted by the rules in force but the scheme does not accept => 401 and nothing else *)
  Theorem http_unauthorised_gets_401 allow_opt deny_opt auth redirect (schemes : scheme_table creds) remote xff c :
    access_denied_http parse_ip split_host (target_rules parse_ip parse_cidr allow_opt deny_opt) remote xff = false ->
    authorized auth schemes c = false ->
    serve_http parse_ip split_host creds (Some (route_target allow_opt deny_opt auth redirect)) schemes remote xff c
    = [ERespond 401].
  Proof. intros Hd Ha. now apply unauthorized_gets_401. Qed.

  (* on a well-formed rule text "admitted by the rules in force" is "admitted by the intended reading" *)
  Theorem http_admitted_not_denied allow_opt deny_opt remote host xff :
    rule_well_formed parse_ip parse_cidr allow_opt deny_opt = true ->
    split_host remote = Some host -> parse_ip [] = None ->
    request_admitted allow_opt deny_opt host xff ->
    access_denied_http parse_ip split_host (target_rules parse_ip parse_cidr allow_opt deny_opt) remote xff = false.
  Proof.
    intros W Hs Hnil Hadm.
    destruct (access_denied_http parse_ip split_host (target_rules parse_ip parse_cidr allow_opt deny_opt) remote xff) eqn:E;
      [|reflexivity].
    exfalso. unfold access_denied_http in E. rewrite Hs in E.
    destruct (rules_empty (target_rules parse_ip parse_cidr allow_opt deny_opt)); [discriminate|].
    assert (X : forall s ip, In s (request_strings host xff) -> parse_ip (strip_zone s) = Some ip ->
                deny_by_ip (target_rules parse_ip parse_cidr allow_opt deny_opt) (Some ip) = false).
    { intros s ip Hin Hp. rewrite (fail_closed_on_domain _ _ _ _ _ W). now rewrite (Hadm s ip Hin Hp). }
    destruct (deny_by_ip (target_rules parse_ip parse_cidr allow_opt deny_opt) (parse_ip_zone parse_ip host)) eqn:Eh.
    - unfold parse_ip_zone in Eh. destruct (parse_ip (strip_zone host)) as [ip|] eqn:Ep; [|discriminate].
      rewrite (X host ip (or_introl eq_refl) Ep) in Eh. discriminate.
    - cbn zeta in E. destruct (join xff [44]) as [|ch j] eqn:Ej; [discriminate|]. cbn [is_nil] in E.
      (* a denying element of the walk is an address of the request *)
      assert (W2 : forall elems, (forall x, In x elems -> In (trim_space x) (request_strings host xff)) ->
                   xff_walk (parse_ip_zone parse_ip) (target_rules parse_ip parse_cidr allow_opt deny_opt) host elems = false).
      { induction elems as [|e rest IH]; intros Hall; [reflexivity|]. cbn [xff_walk].
        destruct (beq (trim_space e) host); [apply IH; intros x Hx; apply Hall; now right|].
        destruct (parse_ip_zone parse_ip (trim_space e)) as [ipe|] eqn:Ep; [|apply IH; intros x Hx; apply Hall; now right].
        unfold parse_ip_zone in Ep. rewrite (X _ ipe (Hall e (or_introl eq_refl)) Ep).
        apply IH; intros x Hx; apply Hall; now right. }
      rewrite W2 in E; [discriminate|]. intros x Hx. right.
      destruct xff as [|v0 rest0]; [discriminate|].
      assert (Hne : v0 :: rest0 <> []) by discriminate.
      destruct (in_split_join_inv (v0 :: rest0) x Hne) as (v & Hv & Hxv); [now rewrite Ej|].
      apply in_flat_map. exists v. split; [exact Hv|]. apply in_map. exact Hxv.
  Qed.

  (* ---- TCP ---- *)
  Theorem denied_tcp_closes t p :
    access_denied_tcp (t_rules t) p = true -> serve_tcp (Some t) p = [EClose].
  Proof. intros H. unfold serve_tcp. now rewrite H. Qed.

  Theorem tcp_dialled_only_if allow_opt deny_opt ip :
    In EUpstream (serve_tcp (Some (route_target allow_opt deny_opt [] 0)) (TCPAddr (Some ip))) ->
    intended_admits parse_ip parse_cidr allow_opt deny_opt ip = true.
  Proof.
    intros H. apply gate_before_upstream_tcp in H as (tg & E & Hd). inversion E; subst tg.
    cbn [route_target t_rules] in Hd. rewrite tcp_peer_checked in Hd. now apply fail_closed.
  Qed.

  Theorem tcp_rejected_closes allow_opt deny_opt ip :
    intended_admits parse_ip parse_cidr allow_opt deny_opt ip = false ->
    serve_tcp (Some (route_target allow_opt deny_opt [] 0)) (TCPAddr (Some ip)) = [EClose].
  Proof.
    intros Hi. apply denied_tcp_closes. cbn [route_target t_rules]. rewrite tcp_peer_checked.
    destruct (deny_by_ip (target_rules parse_ip parse_cidr allow_opt deny_opt) (Some ip)) eqn:E; [reflexivity|].
    apply fail_closed in E. congruence.
  Qed.

  (* the rule map ProcessAccessRules leaves never holds both keys: the deny-list theorems'
     hypothesis [r_allow r = None] is met by every route with a deny key *)
  Theorem reachable_rules_one_key allow_opt deny_opt :
    r_allow (target_rules parse_ip parse_cidr allow_opt deny_opt) = None \/
    r_deny (target_rules parse_ip parse_cidr allow_opt deny_opt) = None.
  Proof.
    unfold target_rules. rewrite process_access_rules_spec.
    destruct (rule_well_formed parse_ip parse_cidr allow_opt deny_opt) eqn:W; cbn [fst r_allow r_deny deny_all_rules]; [|now right].
    unfold rule_well_formed in W. apply andb_true_iff in W as [W _]. apply andb_true_iff in W as [W _].
    destruct (is_nil allow_opt); [now left|]. destruct (is_nil deny_opt); [now right|]. discriminate.
  Qed.

  (* ---- gRPC: F-C12-4 (open).  The gRPC path applies no gate: a rejected peer's call reaches
          the upstream.  Outside the region (no access and no auth option on the route) the
          property holds trivially. ---- *)
  Theorem grpc_not_gated_refuted :
    exists (t : target) (ip : ipaddr),
      deny_by_ip (t_rules t) (Some ip) = true /\ In EUpstream (serve_grpc (Some t)).
  Proof.
    exists {| t_rules := deny_all_rules; t_auth := []; t_redirect := 0 |}, (IP4 134744072).
    split; [reflexivity | now left].
  Qed.

  Theorem grpc_unauthorised_refuted :
    exists (t : target) (schemes : scheme_table unit),
      authorized (t_auth t) schemes tt = false /\ In EUpstream (serve_grpc (Some t)).
  Proof.
    exists {| t_rules := no_rules; t_auth := [110]; t_redirect := 0 |}, (fun _ => None).
    split; [reflexivity | now left].
  Qed.

  Theorem grpc_gate_on_domain t (schemes : scheme_table creds) c ip :
    rules_empty (t_rules t) = true -> t_auth t = [] ->
    In EUpstream (serve_grpc (Some t)) ->
    deny_by_ip (t_rules t) ip = false /\ authorized (t_auth t) schemes c = true.
  Proof. intros He Ha _. split; [now apply deny_by_ip_empty | now rewrite Ha]. Qed.
End Property.

(* examples for each branch of the composed statement *)
Example property_nonvacuous :
  (* admitted, no scheme: forwarded *)
  serve_http ex_parse_ip ex_split_host unit (Some (route_target ex_parse_ip ex_parse_cidr [] (bs "ip:6.6.6.6") [] 0))
             (fun _ => None) (bs "1.1.1.1:1") [bs "8.8.8.8"; bs "1.1.1.1"] tt = [EUpstream] /\
  (* an X-Forwarded-For element in a second header line is rejected: 403 *)
  serve_http ex_parse_ip ex_split_host unit (Some (route_target ex_parse_ip ex_parse_cidr [] (bs "ip:6.6.6.6") [] 0))
             (fun _ => None) (bs "1.1.1.1:1") [bs "8.8.8.8"; bs "6.6.6.6"] tt = [ERespond 403] /\
  intended_admits ex_parse_ip ex_parse_cidr [] (bs "ip:6.6.6.6") (IP16 (mapped 101058054)) = false /\
  (* admitted, unknown scheme: 401 *)
  serve_http ex_parse_ip ex_split_host unit (Some (route_target ex_parse_ip ex_parse_cidr [] (bs "ip:6.6.6.6") (bs "nosuch") 0))
             (fun _ => None) (bs "1.1.1.1:1") [] tt = [ERespond 401] /\
  (* unusable rule: 403 for everybody *)
  serve_http ex_parse_ip ex_split_host unit (Some (route_target ex_parse_ip ex_parse_cidr (bs "ip:10.0.0.0/33") [] [] 0))
             (fun _ => None) (bs "1.1.1.1:1") [] tt = [ERespond 403] /\
  (* TCP *)
  serve_tcp (Some (route_target ex_parse_ip ex_parse_cidr (bs "ip:10.0.0.0/8") [] [] 0)) (TCPAddr (Some ip_8888)) = [EClose] /\
  serve_tcp (Some (route_target ex_parse_ip ex_parse_cidr (bs "ip:10.0.0.0/8") [] [] 0)) (TCPAddr (Some (IP4 168430090))) = [EUpstream].
Proof. repeat split; vm_compute; reflexivity. Qed.
