(** Proofs about Model/GrpcTransport.v: pooled channels over histories in which backends lose
    their connections (C16). *)
From Coq Require Import String List NArith Bool Lia Permutation.
From Fabio Require Import Lib.Outcome Lib.Bytes Model.GrpcPool Model.GrpcTransport Proofs.GrpcPool.
Import ListNotations.
Local Open Scope N_scope.

(* ---- lists ---- *)
Lemma perm_filter_split {A} (f g : A -> bool) l :
  (forall x, g x = negb (f x)) -> Permutation l (filter f l ++ filter g l).
Proof.
  intros H. induction l as [|a l IH]; cbn [filter app]; [constructor|].
  rewrite (H a). destruct (f a); cbn [negb app].
  - now constructor.
  - now apply Permutation_cons_app.
Qed.
Lemma perm_filter {A} (f : A -> bool) l l' : Permutation l l' -> Permutation (filter f l) (filter f l').
Proof.
  induction 1 as [|x l l' P IH|x y l|l l' l'' P1 IH1 P2 IH2]; cbn [filter].
  - constructor.
  - destruct (f x); [now constructor | exact IH].
  - destruct (f x), (f y); try apply Permutation_refl. apply perm_swap.
  - now apply (Permutation_trans IH1).
Qed.
Lemma count_at_perm u l l' : Permutation l l' -> count_at u l = count_at u l'.
Proof. intros P. unfold count_at. f_equal. apply Permutation_length. now apply perm_filter. Qed.
Lemma count_at_app u a b : count_at u (a ++ b) = count_at u a + count_at u b.
Proof. unfold count_at. rewrite filter_app, app_length. lia. Qed.
Lemma count_at_one u c v : count_at u [(c, v)] = if beq v u then 1 else 0.
Proof. unfold count_at, to_backend. cbn [filter snd]. destruct (beq v u); reflexivity. Qed.
Lemma count_at_filter_same u l : count_at u (filter (to_backend u) l) = count_at u l.
Proof.
  unfold count_at. f_equal. f_equal. induction l as [|a l IH]; cbn [filter]; [reflexivity|].
  destruct (to_backend u a) eqn:E; cbn [filter]; [rewrite E; now f_equal | exact IH].
Qed.
Lemma count_at_filter_not u l : count_at u (filter (fun cu => negb (to_backend u cu)) l) = 0.
Proof.
  unfold count_at. induction l as [|a l IH]; cbn [filter]; [reflexivity|].
  destruct (to_backend u a) eqn:E; cbn [negb filter]; [exact IH | now rewrite E].
Qed.
Lemma count_at_filter_other u v l : v <> u -> count_at u (filter (to_backend v) l) = 0.
Proof.
  intros Nq. unfold count_at. induction l as [|a l IH]; cbn [filter]; [reflexivity|].
  destruct (to_backend v a) eqn:E; [|exact IH]. cbn [filter].
  destruct (to_backend u a) eqn:E2; [|exact IH]. exfalso. unfold to_backend in *.
  apply beq_eq in E. apply beq_eq in E2. congruence.
Qed.
Lemma count_at_filter_keep_other u v l : v <> u ->
  count_at u (filter (fun cu => negb (to_backend v cu)) l) = count_at u l.
Proof.
  intros Nq. unfold count_at. f_equal. f_equal. induction l as [|a l IH]; cbn [filter]; [reflexivity|].
  destruct (to_backend v a) eqn:E; cbn [negb filter].
  - destruct (to_backend u a) eqn:E2; [|exact IH]. exfalso. unfold to_backend in *.
    apply beq_eq in E. apply beq_eq in E2. congruence.
  - destruct (to_backend u a); [now f_equal | exact IH].
Qed.
Lemma count_at_zero u l : (forall c, ~ In (c, u) l) -> count_at u l = 0.
Proof.
  intros H. unfold count_at. induction l as [|[c v] l IH]; cbn [filter]; [reflexivity|].
  unfold to_backend at 1. cbn [snd]. destruct (beq v u) eqn:E.
  - exfalso. apply beq_eq in E. subst v. apply (H c). now left.
  - apply IH. intros c' Hin. apply (H c'). now right.
Qed.
Lemma count_at_pos u l c : In (c, u) l -> 0 < count_at u l.
Proof.
  intros H. unfold count_at. induction l as [|[c' v] l IH]; [destruct H|]. cbn [filter].
  unfold to_backend at 1. cbn [snd]. destruct H as [H|H].
  - inversion H; subst. rewrite beq_refl. cbn [length]. lia.
  - destruct (beq v u); [cbn [length]; lia | now apply IH].
Qed.
Lemma has_transport_In up c : has_transport up c = true <-> In c (map fst up).
Proof.
  unfold has_transport. rewrite existsb_exists. split.
  - intros [cu [H E]]. apply N.eqb_eq in E. subst c. now apply in_map.
  - intros H. apply in_map_iff in H. destruct H as [cu [E H]]. exists cu. split; [exact H | now apply N.eqb_eq].
Qed.
Lemma nodup_snoc {A} (l : list A) a : NoDup l -> ~ In a l -> NoDup (l ++ [a]).
Proof.
  intros ND Hn. induction l as [|b l IH]; cbn [app]; [constructor; [tauto | constructor]|].
  inversion ND as [|? ? Hb ND']; subst. constructor.
  - intros H. apply in_app_or in H. destruct H as [H|[H|[]]]; [tauto | subst; apply Hn; now left].
  - apply IH; [exact ND' | intros H; apply Hn; now right].
Qed.

(* ---- the pool machine, step by step ---- *)
Lemma step_accounted ng s o : wf (s_pool s) -> accounted (s_pool s) -> accounted (s_pool (step ng s o)).
Proof.
  intros W A. destruct o as [m p k|t| |u]; cbn [step].
  - destruct (lookup (s_tbl s) ng (dsthost m) p) as [ts|]; [|exact A].
    destruct (nth_error ts k) as [u|]; [|exact A]. cbn [s_pool]. now apply accounted_get.
  - exact A.
  - cbn [s_pool]. now apply accounted_tick.
  - cbn [s_pool]. now apply accounted_shutdown.
Qed.

(* every pooled channel was dialled for the backend it is pooled under *)
Definition pool_dialled (s : pstate) : Prop := forall u c, In (u, c) (p_pool s) -> In (c, u) (p_dials s).

Lemma get_pool_dialled s u : pool_dialled s -> pool_dialled (fst (p_get s u)).
Proof.
  intros PD. rewrite p_get_unfold.
  destruct (assoc u (p_pool s)) as [c|]; [destruct (live s c); [exact PD|]|];
    (unfold p_dial_set; cbn [fst]; intros v c' H; cbn [p_pool p_dials] in *; apply in_or_app;
     destruct H as [H|H]; [inversion H; subst; right; now left | left; apply PD; apply remove_key_In in H; tauto]).
Qed.
Lemma get_dials_mono s u d : In d (p_dials s) -> In d (p_dials (fst (p_get s u))).
Proof.
  intros H. rewrite p_get_unfold.
  destruct (assoc u (p_pool s)) as [c|]; [destruct (live s c); [exact H|]|];
    (unfold p_dial_set; cbn [fst p_dials]; apply in_or_app; now left).
Qed.
Lemma step_pool_dialled ng s o : pool_dialled (s_pool s) -> pool_dialled (s_pool (step ng s o)).
Proof.
  intros PD. destruct o as [m p k|t| |u]; cbn [step].
  - destruct (lookup (s_tbl s) ng (dsthost m) p) as [ts|]; [|exact PD].
    destruct (nth_error ts k) as [u|]; [|exact PD]. cbn [s_pool]. now apply get_pool_dialled.
  - exact PD.
  - cbn [s_pool]. unfold p_tick. intros u c H. cbn [p_pool p_dials] in *. apply filter_In in H. apply PD. tauto.
  - cbn [s_pool]. unfold p_shutdown. destruct (assoc u (p_pool (s_pool s))); exact PD.
Qed.
Lemma step_dials_mono ng s o d : In d (p_dials (s_pool s)) -> In d (p_dials (s_pool (step ng s o))).
Proof.
  intros H. destruct o as [m p k|t| |u]; cbn [step].
  - destruct (lookup (s_tbl s) ng (dsthost m) p) as [ts|]; [|exact H].
    destruct (nth_error ts k) as [u|]; [|exact H]. cbn [s_pool]. now apply get_dials_mono.
  - exact H.
  - exact H.
  - cbn [s_pool]. unfold p_shutdown. destruct (assoc u (p_pool (s_pool s))); exact H.
Qed.

(* ---- the invariant of histories with transport losses ---- *)
Record xinv (xs : xstate) : Prop := {
  xi_wf : wf (s_pool (x_st xs));
  xi_acc : accounted (s_pool (x_st xs));
  xi_pd : pool_dialled (s_pool (x_st xs));
  (* a transport belongs to a live channel that was dialled for that backend *)
  xi_live : forall c u, In (c, u) (x_up xs) -> live (s_pool (x_st xs)) c = true;
  xi_dialled : forall c u, In (c, u) (x_up xs) -> In (c, u) (p_dials (s_pool (x_st xs)));
  (* one transport per channel *)
  xi_nodup : NoDup (map fst (x_up xs));
  (* every transport that was established has ended or is up *)
  xi_bal : Permutation (x_begun xs) (x_ended xs ++ x_up xs)
}.

Lemma xinv_init t : xinv (x_init t).
Proof.
  constructor; cbn [x_init x_st x_up x_begun x_ended s_pool app map].
  - exact wf_init.
  - exact accounted_init.
  - intros u c [].
  - intros c u [].
  - intros c u [].
  - constructor.
  - constructor.
Qed.

(* a transport that is up belongs to THE pooled live channel of its backend *)
Lemma up_holds xs c u : xinv xs -> In (c, u) (x_up xs) -> holds (s_pool (x_st xs)) u c.
Proof.
  intros I H. pose proof (xi_live _ I c u H) as L. split; [|exact L].
  destruct (xi_acc _ I c u (xi_dialled _ I c u H)) as [S|P].
  - unfold live in L. rewrite S in L. discriminate.
  - apply In_assoc_nodup; [apply (xi_wf _ I) | exact P].
Qed.

Lemma xinv_lose xs u : xinv xs -> xinv (x_lose xs u).
Proof.
  intros I. constructor; cbn [x_lose x_st x_up x_begun x_ended]; try apply I.
  - intros c v H. apply filter_In in H. apply (xi_live _ I c v). tauto.
  - intros c v H. apply filter_In in H. apply (xi_dialled _ I c v). tauto.
  - apply filter_nodup_map. apply I.
  - eapply Permutation_trans; [apply (xi_bal _ I)|].
    rewrite <- app_assoc. apply Permutation_app_head.
    apply perm_filter_split. intros x. reflexivity.
Qed.

Lemma xinv_base ng xs o : xinv xs -> xinv (x_base ng xs o).
Proof.
  intros I. unfold x_base. constructor; cbn [x_st x_up x_begun x_ended].
  - apply step_wf, I.
  - apply step_accounted; apply I.
  - apply step_pool_dialled, I.
  - intros c v H. unfold x_kept in H. apply filter_In in H. cbn [fst] in H. tauto.
  - intros c v H. unfold x_kept in H. apply filter_In in H. apply step_dials_mono. apply (xi_dialled _ I c v). tauto.
  - unfold x_kept. apply filter_nodup_map. apply I.
  - eapply Permutation_trans; [apply (xi_bal _ I)|].
    rewrite <- app_assoc. apply Permutation_app_head.
    eapply Permutation_trans; [|apply Permutation_app_comm].
    unfold x_kept, x_dead. apply perm_filter_split. intros x. reflexivity.
Qed.

Lemma x_base_st ng xs o : x_st (x_base ng xs o) = step ng (x_st xs) o.
Proof. reflexivity. Qed.

Lemma xinv_connect ng xs m p k u c :
  xinv xs -> call_conn ng (x_st xs) m p k = Some (u, c) ->
  has_transport (x_up (x_base ng xs (Call m p k))) c = false ->
  xinv (x_connect (x_base ng xs (Call m p k)) c u).
Proof.
  intros I CC HT. pose proof (xinv_base ng xs (Call m p k) I) as B.
  pose proof (call_conn_holds ng _ m p k u c (xi_wf _ I) CC) as Hh. rewrite <- x_base_st in Hh.
  set (b := x_base ng xs (Call m p k)) in *.
  constructor; cbn [x_connect x_st x_up x_begun x_ended]; try apply B.
  - intros c0 v H. apply in_app_or in H. destruct H as [H|[H|[]]]; [now apply (xi_live _ B c0 v)|].
    inversion H; subst. apply Hh.
  - intros c0 v H. apply in_app_or in H. destruct H as [H|[H|[]]]; [now apply (xi_dialled _ B c0 v)|].
    inversion H; subst. apply (xi_pd _ B). apply assoc_In. apply Hh.
  - rewrite map_app. cbn [map fst]. apply nodup_snoc; [apply B|].
    intros H. apply has_transport_In in H. congruence.
  - rewrite app_assoc. apply Permutation_app_tail. apply B.
Qed.

Lemma xstep_inv ng un xs o : xinv xs -> xinv (xstep ng un xs o).
Proof.
  intros I. destruct o as [o|u]; cbn [xstep]; [|now apply xinv_lose].
  destruct (op_conn ng (x_st xs) o) as [[u c]|] eqn:CC; [|now apply xinv_base].
  destruct (un u || has_transport (x_up (x_base ng xs o)) c) eqn:HT; [now apply xinv_base|].
  apply orb_false_iff in HT. destruct HT as [_ HT].
  destruct o as [m p k|t| |v]; cbn [op_conn] in CC; try discriminate.
  now apply (xinv_connect ng xs m p k u c).
Qed.
Lemma xrun_inv ng un ops : forall xs, xinv xs -> xinv (xrun ng un xs ops).
Proof.
  induction ops as [|o ops IH]; intros xs I; cbn [xrun fold_left]; [exact I|].
  apply IH. now apply xstep_inv.
Qed.
Theorem x_reachable_inv ng un t ops : xinv (xrun ng un (x_init t) ops).
Proof. apply xrun_inv, xinv_init. Qed.

(* ---- a transport loss is invisible to the pool: every theorem about [run] carries over ---- *)
Lemma xstep_st ng un xs o :
  x_st (xstep ng un xs o) = match o with XOp o => step ng (x_st xs) o | XLose _ => x_st xs end.
Proof.
  destruct o as [o|u]; cbn [xstep]; [|reflexivity].
  destruct (op_conn ng (x_st xs) o) as [[u c]|]; [|reflexivity].
  destruct (un u || has_transport (x_up (x_base ng xs o)) c); reflexivity.
Qed.
Theorem xrun_st ng un ops : forall xs, x_st (xrun ng un xs ops) = run ng (x_st xs) (xproj ops).
Proof.
  induction ops as [|o ops IH]; intros xs; cbn [xrun fold_left xproj]; [reflexivity|].
  change (fold_left (xstep ng un) ops (xstep ng un xs o)) with (xrun ng un (xstep ng un xs o) ops).
  rewrite IH, xstep_st. destruct o as [o|u]; reflexivity.
Qed.

(* the pooled channel survives the loss of its transport: calls for one backend are served on
   one channel, and nothing is dialled for it, whatever transports are lost in between *)
Theorem one_channel_across_losses ng un xs m p k u c ops m' p' k' c' :
  wf (s_pool (x_st xs)) ->
  call_conn ng (x_st xs) m p k = Some (u, c) ->
  undisturbed ng u (step ng (x_st xs) (Call m p k)) (xproj ops) ->
  let xs' := xrun ng un (xstep ng un xs (XOp (Call m p k))) ops in
  call_conn ng (x_st xs') m' p' k' = Some (u, c') ->
  c' = c /\
  count_dials (s_pool (x_st xs')) u = count_dials (s_pool (step ng (x_st xs) (Call m p k))) u.
Proof.
  intros W CC U xs'. unfold xs'. rewrite xrun_st, xstep_st. intros CC'.
  exact (calls_share_connection ng (x_st xs) m p k u c (xproj ops) m' p' k' c' W CC U CC').
Qed.

(* ---- a routed call is served: after it the pooled live channel of its backend holds a
   transport to that backend, whatever was lost before ---- *)
Theorem call_has_transport ng un xs m p k u c :
  xinv xs -> call_conn ng (x_st xs) m p k = Some (u, c) -> un u = false ->
  let xs' := xstep ng un xs (XOp (Call m p k)) in
  In (c, u) (x_up xs') /\ holds (s_pool (x_st xs')) u c.
Proof.
  intros I CC R xs'. unfold xs'. cbn [xstep op_conn]. rewrite CC, R. cbn [orb].
  pose proof (call_conn_holds ng _ m p k u c (xi_wf _ I) CC) as Hh.
  destruct (has_transport (x_up (x_base ng xs (Call m p k))) c) eqn:HT.
  - split; [|exact Hh].
    apply has_transport_In in HT. apply in_map_iff in HT. destruct HT as [[c0 v] [E Hin]]. cbn [fst] in E. subst c0.
    pose proof (up_holds _ c v (xinv_base ng xs _ I) Hin) as Hv. rewrite x_base_st in Hv.
    (* one channel, pooled under [v] and under [u]: the same key *)
    assert (v = u); [|now subst v].
    destruct Hh as [Hu _]. destruct Hv as [Hv _]. apply assoc_In in Hu. apply assoc_In in Hv.
    pose proof (wf_conns _ (step_wf ng _ (Call m p k) (xi_wf _ I))) as ND.
    revert ND Hu Hv. generalize (p_pool (s_pool (step ng (x_st xs) (Call m p k)))) as l.
    induction l as [|[k2 c2] l IH]; cbn [map snd In]; [tauto|].
    intros ND Hu Hv. inversion ND as [|? ? Hn ND']; subst.
    destruct Hu as [Hu|Hu]; destruct Hv as [Hv|Hv].
    + inversion Hu; inversion Hv; subst. reflexivity.
    + inversion Hu; subst. exfalso. apply Hn. change c with (snd (v, c)). now apply in_map.
    + inversion Hv; subst. exfalso. apply Hn. change c with (snd (u, c)). now apply in_map.
    + now apply IH.
  - cbn [x_connect x_st x_up]. split; [apply in_or_app; right; now left | exact Hh].
Qed.

(* ---- what the backends see ---- *)
Lemma balance_at xs u : xinv xs -> x_begun_at xs u = x_ended_at xs u + x_up_at xs u.
Proof.
  intros I. unfold x_begun_at, x_ended_at, x_up_at. rewrite (count_at_perm u _ _ (xi_bal _ I)). apply count_at_app.
Qed.

(* at most one transport per backend at any time *)
Lemma up_at_most_one xs u : xinv xs -> x_up_at xs u <= 1.
Proof.
  intros I. unfold x_up_at, count_at.
  assert (Same : forall c c', In (c, u) (x_up xs) -> In (c', u) (x_up xs) -> c = c').
  { intros c c' H H'. destruct (up_holds _ _ _ I H) as [A _]. destruct (up_holds _ _ _ I H') as [A' _]. congruence. }
  pose proof (xi_nodup _ I) as ND. revert ND Same. generalize (x_up xs) as l.
  induction l as [|[c v] l IH]; intros ND Same; cbn [filter]; [cbn; lia|].
  inversion ND as [|? ? Hn ND']; subst.
  assert (IHl : (N.of_nat (length (filter (to_backend u) l)) <= 1)).
  { apply IH; [exact ND'|]. intros c1 c2 H1 H2. apply Same; now right. }
  unfold to_backend at 1. cbn [snd]. destruct (beq v u) eqn:E; [|exact IHl].
  apply beq_eq in E. subst v. cbn [length].
  destruct (filter (to_backend u) l) as [|[c2 v2] r] eqn:F; [cbn; lia|]. exfalso.
  assert (Hin : In (c2, v2) (filter (to_backend u) l)) by (rewrite F; now left).
  apply filter_In in Hin. destruct Hin as [Hin Tb]. unfold to_backend in Tb. cbn [snd] in Tb. apply beq_eq in Tb. subst v2.
  assert (c = c2) by (apply Same; [now left | now right]). subst c2.
  apply Hn. cbn [map fst] in *. change c with (fst (c, u)). now apply in_map.
Qed.
Theorem one_transport_per_backend ng un t ops u :
  let xs := xrun ng un (x_init t) ops in
  x_ended_at xs u <= x_begun_at xs u <= x_ended_at xs u + 1.
Proof.
  intros xs. pose proof (x_reachable_inv ng un t ops) as I. fold xs in I.
  rewrite (balance_at xs u I). pose proof (up_at_most_one xs u I). lia.
Qed.

(* a backend that loses its connections has seen every connection it had end; nothing is
   opened by that, and nobody else is affected *)
Theorem lose_counts xs u : xinv xs ->
  let xs' := x_lose xs u in
  x_ended_at xs' u = x_begun_at xs u /\ x_begun_at xs' u = x_begun_at xs u /\
  forall v, v <> u -> x_begun_at xs' v = x_begun_at xs v /\ x_ended_at xs' v = x_ended_at xs v.
Proof.
  intros I xs'. split; [|split; [reflexivity|]].
  - rewrite (balance_at xs u I). unfold xs', x_ended_at, x_up_at, x_lose. cbn [x_ended].
    now rewrite count_at_app, count_at_filter_same.
  - intros v Nq. split; [reflexivity|]. unfold xs', x_ended_at, x_lose. cbn [x_ended].
    rewrite count_at_app, (count_at_filter_other v u) by congruence. lia.
Qed.

(* a call that reaches backend [u] opens exactly one connection there if [u] has none at that
   moment, none otherwise; it ends none, and no other backend sees anything *)
Theorem call_counts ng un xs m p k u c : xinv xs ->
  call_conn ng (x_st xs) m p k = Some (u, c) -> un u = false ->
  let xs' := xstep ng un xs (XOp (Call m p k)) in
  x_begun_at xs' u = (if x_ended_at xs u <? x_begun_at xs u then x_begun_at xs u else x_begun_at xs u + 1) /\
  (forall v, x_ended_at xs' v = x_ended_at xs v) /\
  forall v, v <> u -> x_begun_at xs' v = x_begun_at xs v.
Proof.
  intros I CC R xs'.
  (* no channel enters Shutdown in a call: every transport is kept *)
  assert (Sh : p_shut (s_pool (step ng (x_st xs) (Call m p k))) = p_shut (s_pool (x_st xs))).
  { cbn [step]. destruct (lookup (s_tbl (x_st xs)) ng (dsthost m) p) as [ts|]; [|reflexivity].
    destruct (nth_error ts k) as [v|]; [|reflexivity]. cbn [s_pool]. apply get_shut. }
  assert (K : x_kept (step ng (x_st xs) (Call m p k)) (x_up xs) = x_up xs).
  { unfold x_kept. pose proof (xi_live _ I) as L. revert L. generalize (x_up xs) as l.
    induction l as [|[c0 v] l IH]; intros L; cbn [filter fst]; [reflexivity|].
    unfold live at 1. rewrite Sh. fold (live (s_pool (x_st xs)) c0). rewrite (L c0 v) by now left.
    f_equal. apply IH. intros c1 v1 H. apply (L c1 v1). now right. }
  assert (D : x_dead (step ng (x_st xs) (Call m p k)) (x_up xs) = []).
  { unfold x_dead. pose proof (xi_live _ I) as L. revert L. generalize (x_up xs) as l.
    induction l as [|[c0 v] l IH]; intros L; cbn [filter fst]; [reflexivity|].
    unfold live at 1. rewrite Sh. fold (live (s_pool (x_st xs)) c0). rewrite (L c0 v) by now left.
    cbn [negb]. apply IH. intros c1 v1 H. apply (L c1 v1). now right. }
  assert (B : x_base ng xs (Call m p k) = mkx (step ng (x_st xs) (Call m p k)) (x_up xs) (x_begun xs) (x_ended xs)).
  { unfold x_base. rewrite K, D, app_nil_r. reflexivity. }
  unfold xs'. cbn [xstep op_conn]. rewrite CC, R, B. cbn [orb x_up].
  pose proof (balance_at xs u I) as Bal.
  destruct (has_transport (x_up xs) c) eqn:HT.
  - (* the channel holds a transport: to [u], hence [u] has a connection *)
    split; [|split; [reflexivity | reflexivity]].
    unfold x_begun_at at 1. cbn [x_begun]. fold (x_begun_at xs u).
    apply has_transport_In in HT. apply in_map_iff in HT. destruct HT as [[c0 v] [E Hin]]. cbn [fst] in E. subst c0.
    assert (v = u).
    { destruct (up_holds _ _ _ I Hin) as [Hv Lv].
      unfold call_conn in CC. destruct (lookup (s_tbl (x_st xs)) ng (dsthost m) p) as [ts|]; [|discriminate].
      destruct (nth_error ts k) as [w|]; [|discriminate]. inversion CC; subst w. clear CC.
      (* Get for [u] returned [c], which is live and pooled under [v] *)
      rewrite p_get_unfold in H1.
      destruct (assoc u (p_pool (s_pool (x_st xs)))) as [cu|] eqn:Eu.
      - destruct (live (s_pool (x_st xs)) cu) eqn:Lu.
        + cbn [snd] in H1. subst cu. apply assoc_In in Eu. apply assoc_In in Hv.
          pose proof (wf_conns _ (xi_wf _ I)) as ND. revert ND Eu Hv. generalize (p_pool (s_pool (x_st xs))) as l.
          induction l as [|[k2 c2] l IH]; cbn [map snd In]; [tauto|].
          intros ND Eu Hv. inversion ND as [|? ? Hn ND']; subst.
          destruct Eu as [Eu|Eu]; destruct Hv as [Hv|Hv].
          * inversion Eu; inversion Hv; subst. reflexivity.
          * inversion Eu; subst. exfalso. apply Hn. change c with (snd (v, c)). now apply in_map.
          * inversion Hv; subst. exfalso. apply Hn. change c with (snd (u, c)). now apply in_map.
          * now apply IH.
        + exfalso. unfold p_dial_set in H1. cbn [snd] in H1.
          pose proof (wf_dials _ (xi_wf _ I) c v (xi_dialled _ I c v Hin)). lia.
      - exfalso. unfold p_dial_set in H1. cbn [snd] in H1.
        pose proof (wf_dials _ (xi_wf _ I) c v (xi_dialled _ I c v Hin)). lia. }
    subst v. pose proof (count_at_pos u (x_up xs) c Hin) as Pos. fold (x_up_at xs u) in Pos.
    destruct (x_ended_at xs u <? x_begun_at xs u) eqn:Lt; [reflexivity|]. apply N.ltb_ge in Lt. lia.
  - (* it connects: [u] had no connection *)
    cbn [x_connect x_st x_up x_begun x_ended].
    assert (Z : x_up_at xs u = 0).
    { apply count_at_zero. intros c0 Hin. destruct (up_holds _ _ _ I Hin) as [Hv Lv].
      unfold call_conn in CC.
      destruct (lookup (s_tbl (x_st xs)) ng (dsthost m) p) as [ts|]; [|discriminate].
      destruct (nth_error ts k) as [w|] eqn:Nth; [|discriminate].
      destruct (list_eq_dec N.eq_dec w u) as [->|Nq].
      - rewrite (get_reuse _ _ _ Hv Lv) in CC. cbn [snd] in CC. inversion CC; subst c0.
        assert (In c (map fst (x_up xs))) by (change c with (fst (c, u)); now apply in_map).
        apply has_transport_In in H. congruence.
      - inversion CC. congruence. }
    split; [|split; [reflexivity|]].
    + unfold x_begun_at at 1. unfold x_connect. cbn [x_begun]. rewrite count_at_app, count_at_one, beq_refl. fold (x_begun_at xs u).
      destruct (x_ended_at xs u <? x_begun_at xs u) eqn:Lt; [|reflexivity]. apply N.ltb_lt in Lt. lia.
    + intros v Nq. unfold x_begun_at at 1. unfold x_connect. cbn [x_begun]. rewrite count_at_app, count_at_one. fold (x_begun_at xs v).
      destruct (beq u v) eqn:E; [apply beq_eq in E; congruence | lia].
Qed.

(* a cleanup tick opens nothing; it ends every connection of a backend outside the table and
   none of a backend inside *)
Theorem tick_counts ng un xs u : xinv xs ->
  let xs' := xstep ng un xs (XOp CleanupTick) in
  x_begun_at xs' u = x_begun_at xs u /\
  x_ended_at xs' u = (if mem u (table_urls (s_tbl (x_st xs))) then x_ended_at xs u else x_begun_at xs u).
Proof.
  intros I xs'. unfold xs'. cbn [xstep op_conn]. split; [reflexivity|].
  unfold x_ended_at at 1. unfold x_base. cbn [x_ended]. rewrite count_at_app. fold (x_ended_at xs u).
  set (s' := step ng (x_st xs) CleanupTick).
  destruct (mem u (table_urls (s_tbl (x_st xs)))) eqn:Hu.
  - (* routed: the transport of its channel is kept *)
    rewrite (count_at_zero u (x_dead s' (x_up xs))); [lia|].
    intros c Hin. unfold x_dead in Hin. apply filter_In in Hin. destruct Hin as [Hin Dead]. cbn [fst] in Dead.
    pose proof (up_holds _ _ _ I Hin) as Hh. apply mem_In in Hu.
    destruct (tick_keeps_holds _ _ u c (xi_wf _ I) Hu Hh) as [_ L].
    unfold s' in Dead. cbn [step s_pool] in Dead. rewrite L in Dead. discriminate.
  - (* unrouted: every transport to it ends *)
    rewrite (balance_at xs u I). f_equal. unfold x_up_at, count_at. f_equal. f_equal.
    unfold x_dead. pose proof (fun c H => up_holds xs c u I H) as Hh. revert Hh. generalize (x_up xs) as l.
    induction l as [|[c v] l IH]; intros Hh; cbn [filter fst]; [reflexivity|].
    assert (IHl : filter (to_backend u) (filter (fun cu => negb (live (s_pool s') (fst cu))) l) = filter (to_backend u) l).
    { apply IH. intros c0 H. apply Hh. now right. }
    destruct (to_backend u (c, v)) eqn:Tb.
    + unfold to_backend in Tb. cbn [snd] in Tb. apply beq_eq in Tb. subst v.
      destruct (Hh c (or_introl eq_refl)) as [Hc _]. apply mem_false in Hu.
      destruct (tick_drops (table_urls (s_tbl (x_st xs))) (s_pool (x_st xs)) u Hu) as [_ Cl].
      specialize (Cl c Hc). unfold s'. cbn [step s_pool]. unfold live. rewrite Cl. cbn [negb filter].
      unfold to_backend at 1. cbn [snd]. rewrite beq_refl. f_equal. exact IHl.
    + destruct (negb (live (s_pool s') c)); [cbn [filter]; rewrite Tb|]; exact IHl.
Qed.

(* ---- non-vacuity: a call, the loss of the backend's connection, a call ---- *)
Definition ex_reach (u : url) : bool := false.
Definition ex_lose_hist : list xop :=
  [XOp (Call [] (bs "/pkg.Svc/Get") 0); XLose ex_u; XOp (Call [] (bs "/pkg.Svc/Get") 0)].
Example transport_loss_nonvacuous :
  let xs1 := xrun false ex_reach (x_init ex_tbl) [XOp (Call [] (bs "/pkg.Svc/Get") 0)] in
  let xs2 := xrun false ex_reach (x_init ex_tbl) [XOp (Call [] (bs "/pkg.Svc/Get") 0); XLose ex_u] in
  let xs3 := xrun false ex_reach (x_init ex_tbl) ex_lose_hist in
  call_conn false (x_st (x_init ex_tbl)) [] (bs "/pkg.Svc/Get") 0 = Some (ex_u, 0) /\
  x_up xs1 = [(0, ex_u)] /\ x_up xs2 = [] /\ (x_begun_at xs2 ex_u, x_ended_at xs2 ex_u) = (1, 1) /\
  call_conn false (x_st xs2) [] (bs "/pkg.Svc/Get") 0 = Some (ex_u, 0) /\
  undisturbed false ex_u (step false (x_st (x_init ex_tbl)) (Call [] (bs "/pkg.Svc/Get") 0)) (xproj [XLose ex_u]) /\
  x_up xs3 = [(0, ex_u)] /\ (x_begun_at xs3 ex_u, x_ended_at xs3 ex_u) = (2, 1) /\
  count_dials (s_pool (x_st xs3)) ex_u = 1 /\ p_pool (s_pool (x_st xs3)) = [(ex_u, 0)].
Proof. vm_compute. repeat split. Qed.
