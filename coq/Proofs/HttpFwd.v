(** Proofs about the pass-through model (Model/HttpFwd.v). *)
From Coq Require Import String List NArith ZArith Bool Lia.
From Fabio Require Import Lib.Outcome Lib.Bytes Model.UrlPathC07 Model.HttpFwd Proofs.UrlPathC07.
Import ListNotations.
Local Open Scope N_scope.

(* ---------- raw_drop ---------- *)
Lemma raw_drop_pct a b r s st :
  raw_drop (37 :: a :: b :: r) (s :: st) = if (unhex a * 16 + unhex b =? s) then raw_drop r st else None.
Proof. reflexivity. Qed.
Lemma raw_drop_lit c r s st :
  c <> 37 -> raw_drop (c :: r) (s :: st) = if c =? s then raw_drop r st else None.
Proof. intros H. cbn [raw_drop]. apply N.eqb_neq in H. rewrite H. reflexivity. Qed.

(* on a canonically encoded path, taking the prefix off the raw bytes and off the decoded
   bytes is the same thing *)
Lemma raw_drop_escape : forall strip path,
  all_lt_256 path = true ->
  raw_drop (escape path) strip =
  if has_prefix path strip then Some (escape (skipn (length strip) path)) else None.
Proof.
  induction strip as [|s strip IH]; intros path Hb; [reflexivity|].
  destruct path as [|c r]; [reflexivity|].
  unfold all_lt_256 in Hb. cbn [forallb] in Hb. apply andb_true_iff in Hb as [Hc Hr]. apply N.ltb_lt in Hc.
  rewrite escape_cons. cbn [has_prefix length skipn]. unfold esc_byte. destruct (should_escape c) eqn:E.
  - destruct (byte_split c Hc) as (H1 & H2 & H3).
    destruct (hex_roundtrip _ H1) as [_ A2]. destruct (hex_roundtrip _ H2) as [_ B2].
    cbn [app]. rewrite raw_drop_pct, A2, B2, H3.
    destruct (c =? s); [apply IH; exact Hr | reflexivity].
  - cbn [app]. rewrite raw_drop_lit by (now apply plain_not_pct).
    destruct (c =? s); [apply IH; exact Hr | reflexivity].
Qed.

(* whatever raw prefix raw_drop removes decodes to [strip] *)
Lemma raw_drop_sound : forall strip raw path rest,
  unescape raw = Ok path -> raw_drop raw strip = Some rest -> has_prefix path strip = true.
Proof.
  induction strip as [|s strip IH]; intros raw path rest U D.
  - destruct path; reflexivity.
  - destruct raw as [|c r]; [cbn [raw_drop] in D; discriminate|].
    destruct (N.eq_dec c 37) as [->|Hne].
    + destruct r as [|a [|b r']].
      * rewrite unescape_pct1 in U. discriminate.
      * rewrite unescape_pct2 in U. discriminate.
      * rewrite unescape_pct in U. destruct (ishex a && ishex b); [|discriminate].
        destruct (unescape r') as [t| |] eqn:E; try discriminate. inversion U; subst path.
        rewrite raw_drop_pct in D. destruct (unhex a * 16 + unhex b =? s) eqn:C; [|discriminate].
        cbn [has_prefix]. rewrite C. cbn [andb]. eapply IH; eauto.
    + rewrite unescape_lit in U by assumption.
      destruct (unescape r) as [t| |] eqn:E; try discriminate. inversion U; subst path.
      rewrite raw_drop_lit in D by assumption. destruct (c =? s) eqn:C; [|discriminate].
      cbn [has_prefix]. rewrite C. cbn [andb]. eapply IH; eauto.
Qed.

(* ---------- slash_fix, target_path ---------- *)
Lemma escape_slash_fix x : escape (slash_fix x) = slash_fix (escape x).
Proof.
  unfold slash_fix. rewrite escape_has_slash.
  destruct (has_prefix x [47]); [reflexivity | apply escape_head47].
Qed.

Lemma slash_fix_abs x : exists t, slash_fix x = 47 :: t.
Proof.
  unfold slash_fix. destruct (has_prefix x [47]) eqn:E; [now apply has_prefix_slash in E | eauto].
Qed.

Lemma target_path_abs path strip prepend :
  (exists t, path = 47 :: t) -> exists t, target_path path strip prepend = 47 :: t.
Proof.
  intros H. unfold target_path. destruct (nonempty prepend); [apply slash_fix_abs|].
  destruct (strip_applies path strip); [apply slash_fix_abs | exact H].
Qed.

Lemma escaped_path_canon tp : (exists t, tp = 47 :: t) -> escaped_path tp [] = escape tp.
Proof. intros [t ->]. unfold escaped_path. cbn [nonempty andb]. now rewrite beq_47_star. Qed.

Lemma escaped_path_abs tp rp :
  (exists t, tp = 47 :: t) -> (rp = [] \/ exists r, rp = 47 :: r) -> exists x, escaped_path tp rp = 47 :: x.
Proof.
  intros [t ->] Hr. unfold escaped_path.
  destruct (nonempty rp && valid_encoded rp && out_is (unescape rp) (47 :: t)) eqn:E.
  - destruct Hr as [->|[r ->]]; [discriminate | eauto].
  - rewrite beq_47_star, escape_head47. eauto.
Qed.

(* the heart of strip_on_domain: on a canonical raw path fabio's computation on the decoded
   path and the specification on the raw bytes coincide *)
Lemma target_canonical path strip prepend :
  all_lt_256 path = true ->
  spec_raw_path (escape path) strip prepend = escape (target_path path strip prepend).
Proof.
  intros Hb. unfold spec_raw_path, target_path, strip_applies.
  assert (R1 : match (if nonempty strip then raw_drop (escape path) strip else None) with
               | Some rest => slash_fix rest | None => escape path end
               = escape (if nonempty strip && has_prefix path strip
                         then slash_fix (skipn (length strip) path) else path)).
  { destruct (nonempty strip); cbn [andb]; [|reflexivity].
    rewrite raw_drop_escape by assumption.
    destruct (has_prefix path strip); [now rewrite escape_slash_fix | reflexivity]. }
  rewrite R1. destruct (nonempty prepend); [|reflexivity].
  now rewrite escape_slash_fix, escape_app.
Qed.

(* ---------- parse_target, forward: inversion ---------- *)
Definition query_of (oq : option str) : str * bool :=
  match oq with Some [] => ([], true) | Some x => (x, false) | None => ([], false) end.

Lemma parse_target_inv t p :
  parse_target t = Ok p ->
  has_prefix t [47] = true /\ set_path (fst (cut_q t)) = Ok (p_path p, p_rawpath p)
  /\ (p_rawquery p, p_force p) = query_of (snd (cut_q t)).
Proof.
  unfold parse_target. destruct (negb (has_ctl t)); [|discriminate].
  destruct (nonempty t); [|discriminate]. destruct (has_prefix t [47]) eqn:P; [|discriminate].
  destruct (cut_q t) as [a [[|x0 x]|]]; cbn [fst snd]; cbv beta iota zeta;
    destruct (set_path a) as [[path raw]| |]; cbn [bind]; cbv beta iota; intros H; inversion H;
    cbn [p_path p_rawpath p_rawquery p_force query_of]; auto.
Qed.

Lemma forward_inv wire o q u :
  forward wire o q = Ok u ->
  exists p, parse_target (rq_target q) = Ok p
    /\ up_method u = rq_method q /\ up_body u = rq_body q
    /\ up_target u = fwd_target o p /\ up_host u = fwd_host o (rq_host q)
    /\ up_headers u = (if wire then wire_headers (rq_method q) (fwd_headers (rq_headers q))
                       else fwd_headers (rq_headers q)).
Proof.
  unfold forward. destruct (parse_target (rq_target q)) as [p| |]; cbn [bind]; try discriminate.
  destruct (negb _); [|discriminate]. intros H. inversion H. exists p.
  cbn [up_method up_body up_target up_host up_headers]. auto 10.
Qed.

Lemma cut_q_head r : exists r', fst (cut_q (47 :: r)) = 47 :: r'.
Proof.
  cbn [cut_q]. change (47 =? 63) with false. cbv iota. destruct (cut_q r) as [a b]. cbn [fst]. eauto.
Qed.

Lemma cut_q_lt256 s : all_lt_256 s = true -> all_lt_256 (fst (cut_q s)) = true.
Proof.
  unfold all_lt_256. induction s as [|c r IH]; [reflexivity|].
  cbn [forallb cut_q]. intros H. apply andb_true_iff in H as [Hc Hr].
  destruct (c =? 63); [reflexivity|]. specialize (IH Hr). destruct (cut_q r) as [a b].
  cbn [fst forallb] in *. now rewrite Hc, IH.
Qed.

(* ---------- the query part ---------- *)
Lemma query_part X tq oq :
  (if snd (query_of oq) || nonempty (merge_query tq (fst (query_of oq)))
   then X ++ 63 :: merge_query tq (fst (query_of oq)) else X)
  = X ++ (if match oq with Some _ => true | None => false end || nonempty tq
          then 63 :: join (filter nonempty [tq; match oq with Some x => x | None => [] end]) [38]
          else []).
Proof.
  destruct oq as [[|x0 x]|]; destruct tq as [|t0 tq]; cbn; rewrite ?app_nil_r; reflexivity.
Qed.

Lemma request_uri_abs tp rp mq force x :
  escaped_path tp rp = 47 :: x ->
  request_uri tp rp mq force = if force || nonempty mq then (47 :: x) ++ 63 :: mq else 47 :: x.
Proof. intros E. unfold request_uri. rewrite E. reflexivity. Qed.

(* what a successful forward has established about the target *)
Lemma forward_target wire o q u :
  forward wire o q = Ok u ->
  exists path rp raw,
    raw = raw_path_of (rq_target q) /\ (exists r, raw = 47 :: r) /\ (exists t, path = 47 :: t)
    /\ unescape raw = Ok path /\ rp = (if beq (escape path) raw then [] else raw)
    /\ forall x, escaped_path (target_path path (ro_strip o) (ro_prepend o))
                              (target_rawpath path rp (ro_strip o) (ro_prepend o)) = 47 :: x ->
                 up_target u = (47 :: x) ++ spec_query o (rq_target q).
Proof.
  intros F. apply forward_inv in F as (p & P & _ & _ & T & _).
  apply parse_target_inv in P as (A & S & Q).
  apply has_prefix_slash in A as [r A].
  destruct (cut_q_head r) as [r' R]. rewrite <- A in R.
  pose proof (set_path_inv _ _ _ S) as [U RP].
  exists (p_path p), (p_rawpath p), (fst (cut_q (rq_target q))).
  split; [reflexivity|]. split; [eauto|]. split.
  { rewrite R in U. eapply unescape_head47; eauto. }
  split; [exact U|]. split; [exact RP|].
  intros x E. rewrite T. unfold fwd_target. rewrite (request_uri_abs _ _ _ _ x E).
  assert (Q1 : p_rawquery p = fst (query_of (snd (cut_q (rq_target q))))) by (now rewrite <- Q).
  assert (Q2 : p_force p = snd (query_of (snd (cut_q (rq_target q))))) by (now rewrite <- Q).
  rewrite Q1, Q2, query_part. reflexivity.
Qed.

(* ---------- the rewritten RawPath hint ---------- *)
Lemma target_rawpath_nil path strip prepend : target_rawpath path [] strip prepend = [].
Proof.
  unfold target_rawpath, strip_applies. destruct (nonempty strip) eqn:N; cbn [andb].
  - destruct strip; [discriminate|]. destruct (has_prefix path (n :: strip)); cbn [has_prefix nonempty];
      destruct (nonempty prepend); reflexivity.
  - cbn [nonempty]. destruct (nonempty prepend); reflexivity.
Qed.

Lemma target_rawpath_abs path rp strip prepend :
  (rp = [] \/ exists r, rp = 47 :: r) ->
  target_rawpath path rp strip prepend = [] \/ exists r, target_rawpath path rp strip prepend = 47 :: r.
Proof.
  intros H. unfold target_rawpath.
  set (r1 := if strip_applies path strip
             then (if has_prefix rp strip then slash_fix (skipn (length strip) rp) else []) else rp).
  assert (R : r1 = [] \/ exists r, r1 = 47 :: r).
  { unfold r1. destruct (strip_applies path strip); [|exact H].
    destruct (has_prefix rp strip); [right; apply slash_fix_abs | now left]. }
  destruct (nonempty prepend); [|exact R].
  destruct (nonempty r1); [right; apply slash_fix_abs | exact R].
Qed.

Lemma rp_shape path raw (r : str) :
  raw = 47 :: r ->
  (if beq (escape path) raw then [] else raw) = [] \/ exists r', (if beq (escape path) raw then [] else raw) = 47 :: r'.
Proof. intros ->. destruct (beq _ _); [now left | right; eauto]. Qed.

Lemma valid_no_q s : valid_encoded s = true -> ~ In 63 s.
Proof.
  unfold valid_encoded. intros H I. rewrite forallb_forall in H. specialize (H _ I).
  vm_compute in H. discriminate.
Qed.

(* ---------- absolute path, query ---------- *)
Theorem absolute_path_always wire o q u :
  forward wire o q = Ok u -> exists t, up_target u = 47 :: t.
Proof.
  intros F. destruct (forward_target _ _ _ _ F) as (path & rp & raw & _ & [r Hr] & Hp & _ & RP & K).
  destruct (escaped_path_abs (target_path path (ro_strip o) (ro_prepend o))
                             (target_rawpath path rp (ro_strip o) (ro_prepend o))) as [x E].
  - now apply target_path_abs.
  - apply target_rawpath_abs. rewrite RP. now apply (rp_shape path raw r).
  - rewrite (K x E). cbn [app]. eauto.
Qed.

Theorem query_merge wire o q u :
  forward wire o q = Ok u ->
  exists rp, ~ In 63 rp /\ up_target u = rp ++ spec_query o (rq_target q).
Proof.
  intros F. destruct (forward_target _ _ _ _ F) as (path & rp & raw & Hraw & [r Hr] & Hp & _ & RP & K).
  destruct (escaped_path_abs (target_path path (ro_strip o) (ro_prepend o))
                             (target_rawpath path rp (ro_strip o) (ro_prepend o))) as [x E].
  - now apply target_path_abs.
  - apply target_rawpath_abs. rewrite RP. now apply (rp_shape path raw r).
  - exists (47 :: x). split; [|now apply K]. rewrite <- E. unfold escaped_path.
    set (tr := target_rawpath path rp (ro_strip o) (ro_prepend o)).
    destruct (nonempty tr && valid_encoded tr && out_is (unescape tr) _) eqn:C.
    + apply andb_true_iff in C as [C _]. apply andb_true_iff in C as [_ C]. now apply valid_no_q.
    + destruct (beq _ [42]); [intros [H|[]]; discriminate | apply escape_no_q].
Qed.

(* ---------- plain strings (their own encoding) ---------- *)
Lemma plain_cons c r : plain (c :: r) = true -> should_escape c = false /\ plain r = true.
Proof.
  unfold plain. cbn [forallb]. intros H. apply andb_true_iff in H as [A B].
  apply negb_true_iff in A. auto.
Qed.

Lemma plain_unescape_app s r :
  plain s = true ->
  unescape (s ++ r) = match unescape r with Ok d => Ok (s ++ d) | e => e end.
Proof.
  induction s as [|c s IH]; intros P.
  - cbn [app]. destruct (unescape r); reflexivity.
  - apply plain_cons in P as [E P]. cbn [app]. rewrite unescape_lit by (now apply plain_not_pct).
    rewrite (IH P). destruct (unescape r); reflexivity.
Qed.

Lemma plain_escape s : plain s = true -> escape s = s.
Proof.
  induction s as [|c s IH]; intros P; [reflexivity|].
  apply plain_cons in P as [E P]. rewrite escape_cons. unfold esc_byte. rewrite E. cbn [app].
  now rewrite (IH P).
Qed.

Lemma plain_valid s : plain s = true -> valid_encoded s = true.
Proof.
  unfold plain, valid_encoded. intros H. rewrite forallb_forall in *. intros c I.
  rewrite (H c I). apply orb_true_r.
Qed.

Lemma plain_raw_drop strip rest : plain strip = true -> raw_drop (strip ++ rest) strip = Some rest.
Proof.
  induction strip as [|c s IH]; intros P; [reflexivity|].
  apply plain_cons in P as [E P]. cbn [app]. rewrite raw_drop_lit by (now apply plain_not_pct).
  rewrite N.eqb_refl. now apply IH.
Qed.

Lemma valid_app a b : valid_encoded (a ++ b) = valid_encoded a && valid_encoded b.
Proof. apply forallb_app. Qed.

Lemma valid_slash_fix s : valid_encoded s = true -> valid_encoded (slash_fix s) = true.
Proof.
  intros H. unfold slash_fix. destruct (has_prefix s [47]); [exact H|].
  unfold valid_encoded in *. cbn [forallb]. now rewrite H.
Qed.

Lemma has_prefix_split s p : has_prefix s p = true -> s = p ++ skipn (length p) s.
Proof.
  intros H. apply has_prefix_spec in H as [r ->]. f_equal.
  induction p as [|c p IH]; [reflexivity | exact IH].
Qed.

Lemma skipn_app_len {A} (p r : list A) : skipn (length p) (p ++ r) = r.
Proof. induction p as [|c p IH]; [reflexivity | exact IH]. Qed.

(* slash_fix on a raw string and on its decoded form *)
Lemma unescape_slash_fix rest d :
  unescape rest = Ok d -> Bool.eqb (has_prefix d [47]) (has_prefix rest [47]) = true ->
  unescape (slash_fix rest) = Ok (slash_fix d).
Proof.
  intros U E. apply eqb_prop in E. unfold slash_fix. rewrite E.
  destruct (has_prefix rest [47]); [exact U|].
  rewrite unescape_lit by discriminate. now rewrite U.
Qed.

Lemma slash_fix_nonempty s : nonempty (slash_fix s) = true.
Proof. destruct (slash_fix_abs s) as [t ->]. reflexivity. Qed.

(* the heart of the repaired behaviour: under the side-condition the rewritten RawPath is a valid
   encoding of the rewritten Path and is, byte for byte, what the specification asks for *)
Lemma kept_raw o raw path (r : str) :
  raw = 47 :: r -> unescape raw = Ok path -> valid_encoded raw = true ->
  encoding_kept_cond o raw path = true ->
  let tr := target_rawpath path raw (ro_strip o) (ro_prepend o) in
  nonempty tr = true /\ valid_encoded tr = true
  /\ unescape tr = Ok (target_path path (ro_strip o) (ro_prepend o))
  /\ tr = spec_raw_path raw (ro_strip o) (ro_prepend o).
Proof.
  intros Hr U V C. unfold encoding_kept_cond in C. apply andb_true_iff in C as [CS CP].
  unfold target_rawpath, target_path, spec_raw_path.
  set (strip := ro_strip o) in *. set (prepend := ro_prepend o) in *.
  (* step 1: strip *)
  set (r1 := if strip_applies path strip
             then (if has_prefix raw strip then slash_fix (skipn (length strip) raw) else []) else raw).
  set (p1 := if strip_applies path strip then slash_fix (skipn (length strip) path) else path).
  set (s1 := match (if nonempty strip then raw_drop raw strip else None) with
             | Some rest => slash_fix rest | None => raw end).
  assert (S1 : nonempty r1 = true /\ valid_encoded r1 = true /\ unescape r1 = Ok p1 /\ r1 = s1
               /\ exists x, r1 = 47 :: x).
  { unfold r1, p1, s1. destruct (strip_applies path strip) eqn:SA.
    - cbn [negb orb] in CS. apply andb_true_iff in CS as [CS SO]. apply andb_true_iff in CS as [PL HP].
      rewrite HP. unfold strip_applies in SA. apply andb_true_iff in SA as [NS _]. rewrite NS.
      pose proof (has_prefix_split _ _ HP) as SPL. set (rest := skipn (length strip) raw) in *.
      unfold slash_ok in SO. destruct (unescape rest) as [d| |] eqn:UR; try discriminate.
      assert (PD : path = strip ++ d).
      { rewrite SPL, (plain_unescape_app _ _ PL), UR in U. now inversion U. }
      assert (VR : valid_encoded rest = true).
      { rewrite SPL, valid_app in V. now apply andb_true_iff in V as [_ V]. }
      repeat split.
      + apply slash_fix_nonempty.
      + now apply valid_slash_fix.
      + rewrite PD, skipn_app_len. now apply unescape_slash_fix.
      + rewrite SPL. now rewrite (plain_raw_drop _ _ PL).
      + apply slash_fix_abs.
    - repeat split; try assumption.
      + now rewrite Hr.
      + destruct (nonempty strip) eqn:NS; [|reflexivity].
        destruct (raw_drop raw strip) as [rest|] eqn:D; [|reflexivity].
        apply (raw_drop_sound _ _ _ _ U) in D. unfold strip_applies in SA. rewrite NS, D in SA. discriminate.
      + eauto. }
  destruct S1 as (N1 & V1 & U1 & E1 & [x X1]).
  (* step 2: prepend *)
  destruct (nonempty prepend) eqn:NP.
  - cbn [negb orb] in CP. rewrite N1.
    destruct prepend as [|c0 pr]; [discriminate|].
    assert (SF : forall y, slash_fix ((c0 :: pr) ++ y) = (if c0 =? 47 then [] else [47]) ++ (c0 :: pr) ++ y).
    { intros y. unfold slash_fix. cbn [app has_prefix]. destruct (c0 =? 47); reflexivity. }
    rewrite !SF. repeat split.
    + destruct (c0 =? 47); reflexivity.
    + rewrite !valid_app, (plain_valid _ CP), V1. destruct (c0 =? 47); reflexivity.
    + assert (UU : unescape ((c0 :: pr) ++ r1) = Ok ((c0 :: pr) ++ p1)).
      { rewrite (plain_unescape_app _ _ CP), U1. reflexivity. }
      destruct (c0 =? 47); cbn [app] in *; [exact UU|].
      rewrite unescape_lit by discriminate. now rewrite UU.
    + rewrite (plain_escape _ CP), <- E1, SF. reflexivity.
  - repeat split; assumption.
Qed.

(* ---------- the raw path: outside the two regions it is what the property asks for ---------- *)
Theorem target_on_domain wire o q u :
  all_lt_256 (rq_target q) = true ->
  forward wire o q = Ok u ->
  region_strip_encoding o (rq_target q) = false ->
  region_invalid_byte o (rq_target q) = false ->
  up_target u = spec_target o (rq_target q).
Proof.
  intros Hb F R1 R2.
  destruct (forward_target _ _ _ _ F) as (path & rp & raw & Hraw & [r Hr] & [t Ht] & U & RP & K).
  unfold region_strip_encoding, region_invalid_byte, opts_touch_path, canonical_raw in R1, R2.
  rewrite <- Hraw, U in R1, R2. unfold spec_target. rewrite <- Hraw.
  assert (Hbp : all_lt_256 path = true).
  { eapply unescape_lt256; [|exact U]. rewrite Hraw. now apply cut_q_lt256. }
  destruct (beq (escape path) raw) eqn:C.
  - (* canonical: any options; the hint stays empty *)
    apply beq_eq in C. subst rp. rewrite target_rawpath_nil in K.
    assert (A : exists t', target_path path (ro_strip o) (ro_prepend o) = 47 :: t')
      by (apply target_path_abs; eauto).
    pose proof (escaped_path_canon _ A) as E.
    destruct A as [t' A]. pose proof E as E'. rewrite A, escape_head47 in E'. rewrite <- A in E'.
    rewrite (K _ E'). f_equal. rewrite <- C, target_canonical by assumption.
    rewrite A. now rewrite escape_head47.
  - (* not canonical: all bytes are URI path bytes and the side-condition holds *)
    assert (V : valid_encoded raw = true).
    { destruct (valid_encoded raw); [reflexivity|]. cbn [negb andb] in R2. discriminate. }
    assert (CC : encoding_kept_cond o raw path = true).
    { destruct (encoding_kept_cond o raw path) eqn:CC; [reflexivity|]. rewrite V in R1.
      destruct (strip_applies path (ro_strip o)) eqn:S; [cbn [orb negb andb] in R1; discriminate|].
      destruct (nonempty (ro_prepend o)) eqn:P; [cbn [orb negb andb] in R1; discriminate|].
      unfold encoding_kept_cond in CC. rewrite S, P in CC. cbn [negb orb andb] in CC. discriminate. }
    subst rp.
    destruct (kept_raw o raw path r Hr U V CC) as (N & V2 & UT & SP).
    set (tr := target_rawpath path raw (ro_strip o) (ro_prepend o)) in *.
    assert (E : escaped_path (target_path path (ro_strip o) (ro_prepend o)) tr = tr).
    { unfold escaped_path. rewrite N, V2, UT. cbn [andb out_is]. now rewrite beq_refl. }
    destruct (target_rawpath_abs path raw (ro_strip o) (ro_prepend o)) as [Z|[x X]]; [right; eauto | |].
    + fold tr in Z. rewrite Z in N. discriminate.
    + fold tr in X. assert (E' : escaped_path (target_path path (ro_strip o) (ro_prepend o)) tr = 47 :: x)
        by (rewrite E; exact X).
      rewrite (K _ E'), <- X, SP. reflexivity.
Qed.

(* special case named by the property: nothing configured, path made of URI path bytes *)
Theorem raw_path_preserved_no_opts wire o q u :
  all_lt_256 (rq_target q) = true ->
  forward wire o q = Ok u ->
  ro_strip o = [] -> ro_prepend o = [] ->
  valid_encoded (raw_path_of (rq_target q)) = true ->
  up_target u = raw_path_of (rq_target q) ++ spec_query o (rq_target q).
Proof.
  intros Hb F S P V.
  assert (T : forall raw, opts_touch_path o raw = false).
  { intros raw. unfold opts_touch_path, strip_applies. rewrite S, P. destruct (unescape raw); reflexivity. }
  rewrite (target_on_domain wire o q u Hb F).
  - unfold spec_target, spec_raw_path. now rewrite S, P.
  - unfold region_strip_encoding. rewrite T. destruct (unescape _); reflexivity.
  - unfold region_invalid_byte. rewrite V. cbn [negb]. now rewrite andb_false_r.
Qed.

(* the repaired behaviour, spelled out: the strip prefix literally in front of the raw path, cut
   where a '/' can be put consistently, plain options: the upstream path is the (absolute) prepend
   followed by the client's raw remainder, byte for byte *)
Theorem strip_prepend_keep_raw wire o q u rest :
  all_lt_256 (rq_target q) = true ->
  forward wire o q = Ok u ->
  raw_path_of (rq_target q) = ro_strip o ++ rest ->
  nonempty (ro_strip o) = true -> plain (ro_strip o) = true -> slash_ok rest = true ->
  valid_encoded (raw_path_of (rq_target q)) = true ->
  (ro_prepend o = [] \/ plain (ro_prepend o) = true) ->
  up_target u = (if nonempty (ro_prepend o) then slash_fix (ro_prepend o ++ slash_fix rest) else slash_fix rest)
                ++ spec_query o (rq_target q).
Proof.
  intros Hb F SPL NS PS SO V PP.
  assert (HP : has_prefix (raw_path_of (rq_target q)) (ro_strip o) = true).
  { apply has_prefix_spec. now exists rest. }
  assert (SK : skipn (length (ro_strip o)) (raw_path_of (rq_target q)) = rest).
  { rewrite SPL. apply skipn_app_len. }
  rewrite (target_on_domain wire o q u Hb F).
  - unfold spec_target, spec_raw_path. rewrite NS, SPL, (plain_raw_drop _ _ PS).
    destruct PP as [->|PP]; [reflexivity|]. destruct (nonempty (ro_prepend o)); [|reflexivity].
    now rewrite (plain_escape _ PP).
  - unfold region_strip_encoding. destruct (unescape (raw_path_of (rq_target q))) as [path| |]; try reflexivity.
    assert (CC : encoding_kept_cond o (raw_path_of (rq_target q)) path = true).
    { unfold encoding_kept_cond. rewrite PS, HP, SK, SO. cbn [andb]. rewrite orb_true_r. cbn [andb].
      destruct PP as [-> | ->]; [reflexivity | apply orb_true_r]. }
    rewrite CC. cbn [negb]. apply andb_false_r.
  - unfold region_invalid_byte. rewrite V. cbn [negb]. apply andb_false_r.
Qed.

Lemma slash_ok_slash rest d :
  unescape rest = Ok d -> has_prefix rest [47] = true -> slash_ok rest = true.
Proof.
  intros U H. unfold slash_ok. rewrite U, H. apply has_prefix_slash in H as [r ->].
  destruct (unescape_head47 _ _ U) as [t ->]. reflexivity.
Qed.

(* ---------- even inside the finding regions the upstream path DECODES to the right path ---------- *)
Lemma lt256_app a b : all_lt_256 a = true -> all_lt_256 b = true -> all_lt_256 (a ++ b) = true.
Proof. unfold all_lt_256. intros A B. rewrite forallb_app. now rewrite A, B. Qed.
Lemma lt256_skipn n : forall l, all_lt_256 l = true -> all_lt_256 (skipn n l) = true.
Proof.
  unfold all_lt_256. induction n as [|n IH]; intros l H; [exact H|].
  destruct l as [|c r]; [reflexivity|]. cbn [skipn]. cbn [forallb] in H.
  apply andb_true_iff in H as [_ H]. now apply IH.
Qed.
Lemma lt256_slash_fix l : all_lt_256 l = true -> all_lt_256 (slash_fix l) = true.
Proof.
  intros H. unfold slash_fix. destruct (has_prefix l [47]); [exact H|].
  unfold all_lt_256 in *. cbn [forallb]. now rewrite H.
Qed.
Lemma lt256_target_path path strip prepend :
  all_lt_256 path = true -> all_lt_256 prepend = true ->
  all_lt_256 (target_path path strip prepend) = true.
Proof.
  intros A B. unfold target_path.
  assert (C : all_lt_256 (if strip_applies path strip then slash_fix (skipn (length strip) path) else path) = true).
  { destruct (strip_applies path strip); [apply lt256_slash_fix, lt256_skipn|]; exact A. }
  destruct (nonempty prepend); [apply lt256_slash_fix, lt256_app|]; assumption.
Qed.

Theorem upstream_path_denotes wire o q u :
  all_lt_256 (rq_target q) = true -> all_lt_256 (ro_prepend o) = true ->
  forward wire o q = Ok u ->
  exists rp path,
    unescape (raw_path_of (rq_target q)) = Ok path
    /\ up_target u = rp ++ spec_query o (rq_target q)
    /\ unescape rp = Ok (target_path path (ro_strip o) (ro_prepend o)).
Proof.
  intros Hb Hp F.
  destruct (forward_target _ _ _ _ F) as (path & rp & raw & Hraw & [r Hr] & [t Ht] & U & RP & K).
  assert (Hbp : all_lt_256 path = true).
  { eapply unescape_lt256; [|exact U]. rewrite Hraw. now apply cut_q_lt256. }
  set (tp := target_path path (ro_strip o) (ro_prepend o)) in *.
  assert (A : exists t', tp = 47 :: t') by (apply target_path_abs; eauto).
  set (tr := target_rawpath path rp (ro_strip o) (ro_prepend o)) in *.
  destruct (escaped_path_abs tp tr A) as [x E].
  { apply target_rawpath_abs. rewrite RP. now apply (rp_shape path raw r). }
  exists (47 :: x), path. rewrite <- Hraw. split; [exact U|]. split; [now apply K|].
  assert (D : out_is (unescape (escaped_path tp tr)) tp = true).
  { apply escaped_path_denotes; [now apply lt256_target_path|]. destruct A as [t' ->]. discriminate. }
  rewrite E in D. destruct (unescape (47 :: x)) as [y| |]; cbn [out_is] in D; try discriminate.
  apply beq_eq in D. now subst y.
Qed.

(* ---------- Host ---------- *)
Theorem host_spec wire o q u : forward wire o q = Ok u -> up_host u = spec_host o (rq_host q).
Proof.
  intros F. apply forward_inv in F as (p & _ & _ & _ & _ & H & _). rewrite H.
  unfold fwd_host, spec_host. destruct (beq (ro_host o) dst) eqn:D.
  - apply beq_eq in D. rewrite D. cbn [nonempty dst bs]. destruct (nonempty (ro_thost o)); reflexivity.
  - destruct (nonempty (ro_host o)) eqn:N; [now rewrite N|]. reflexivity.
Qed.

Theorem host_only_when_asked wire o q u :
  forward wire o q = Ok u -> ro_host o = [] -> rq_host q <> [] -> up_host u = rq_host q.
Proof.
  intros F H N. rewrite (host_spec _ _ _ _ F). unfold spec_host. rewrite H. cbn [nonempty].
  destruct (rq_host q); [contradiction | reflexivity].
Qed.

(* ---------- headers: the model's transformation is the identity outside the managed set ---------- *)
Lemma hvalues_cons a b r k : hvalues ((a, b) :: r) k = if beq a k then b :: hvalues r k else hvalues r k.
Proof. unfold hvalues. cbn [filter fst]. destruct (beq a k); reflexivity. Qed.
Lemma hdel_cons k' a b r : hdel k' ((a, b) :: r) = if beq a k' then hdel k' r else (a, b) :: hdel k' r.
Proof. unfold hdel. cbn [filter fst]. destruct (beq a k'); reflexivity. Qed.

Lemma hvalues_hdel k k' h : k <> k' -> hvalues (hdel k' h) k = hvalues h k.
Proof.
  intros N. induction h as [|[a b] r IH]; [reflexivity|].
  rewrite hdel_cons, hvalues_cons. destruct (beq a k') eqn:E1.
  - destruct (beq a k) eqn:E2; [apply beq_eq in E1, E2; congruence | exact IH].
  - rewrite hvalues_cons. destruct (beq a k); [f_equal|]; exact IH.
Qed.

Lemma hvalues_hinsert k k' v h : k <> k' -> hvalues (hinsert k' v h) k = hvalues h k.
Proof.
  intros N. assert (B : beq k' k = false) by (apply beq_neq; congruence).
  induction h as [|[a b] r IH]; cbn [hinsert].
  - rewrite hvalues_cons, B. reflexivity.
  - destruct (str_ltb k' a).
    + rewrite hvalues_cons, B. reflexivity.
    + rewrite !hvalues_cons. destruct (beq a k); [f_equal|]; exact IH.
Qed.

Lemma hvalues_hset k k' v h : k <> k' -> hvalues (hset k' v h) k = hvalues h k.
Proof. intros N. unfold hset. now rewrite hvalues_hinsert, hvalues_hdel. Qed.

Lemma hvalues_fold_del ks : forall h k,
  ~ In k ks -> hvalues (fold_left (fun acc k0 => hdel k0 acc) ks h) k = hvalues h k.
Proof.
  induction ks as [|a ks IH]; intros h k N; cbn [fold_left]; [reflexivity|].
  rewrite IH by (intros H; apply N; now right). apply hvalues_hdel. intros ->. apply N. now left.
Qed.

Lemma mem_str_false k l : mem_str k l = false -> ~ In k l.
Proof.
  unfold mem_str. intros H I. assert (T : existsb (beq k) l = true).
  { apply existsb_exists. exists k. split; [exact I | apply beq_refl]. }
  congruence.
Qed.

Lemma not_hop_not_in h k : is_hop h k = false -> ~ In k (conn_listed h ++ hop_headers).
Proof.
  unfold is_hop. intros H. apply orb_false_iff in H as [A B]. intros I.
  apply in_app_or in I as [I|I]; [now apply (mem_str_false _ _ B) | now apply (mem_str_false _ _ A)].
Qed.

Lemma hvalues_remove_hop h k : is_hop h k = false -> hvalues (remove_hop h) k = hvalues h k.
Proof. intros H. unfold remove_hop. apply hvalues_fold_del. now apply not_hop_not_in. Qed.

Lemma hhas_hvalues h k : hhas h k = match hvalues h k with [] => false | _ => true end.
Proof.
  unfold hhas. induction h as [|[a b] r IH]; [reflexivity|].
  cbn [existsb fst]. rewrite hvalues_cons. destruct (beq a k); [reflexivity | exact IH].
Qed.

Lemma hop_names k h : is_hop h k = false -> k <> k_te /\ k <> k_connection /\ k <> k_upgrade.
Proof.
  intros H. apply not_hop_not_in in H.
  repeat split; intros ->; apply H; apply in_or_app; right; unfold hop_headers; cbn [In]; auto 10.
Qed.

(* the pre-User-Agent part of fwd_headers *)
Definition fwd_h3 (h : header) : header :=
  let h1 := remove_hop h in
  let h2 := if values_contain_token (hvalues h k_te) (bs "trailers") then hset k_te (bs "trailers") h1 else h1 in
  let ut := upgrade_type h in
  if nonempty ut then hset k_upgrade ut (hset k_connection (bs "Upgrade") h2) else h2.
Lemma fwd_headers_h3 h :
  fwd_headers h = if hhas (fwd_h3 h) k_user_agent then fwd_h3 h else hset k_user_agent [] (fwd_h3 h).
Proof. reflexivity. Qed.

Lemma fwd_h3_values h k : is_hop h k = false -> hvalues (fwd_h3 h) k = hvalues h k.
Proof.
  intros H. destruct (hop_names _ _ H) as (N1 & N2 & N3). unfold fwd_h3.
  destruct (nonempty (upgrade_type h)); [rewrite !hvalues_hset by assumption|];
    (destruct (values_contain_token _ _); [rewrite hvalues_hset by assumption|]; now apply hvalues_remove_hop).
Qed.

Lemma fwd_headers_values h k :
  is_hop h k = false -> (k = k_user_agent -> hhas h k = true) ->
  hvalues (fwd_headers h) k = hvalues h k.
Proof.
  intros H UA. pose proof (fwd_h3_values h k H) as E3. rewrite fwd_headers_h3.
  destruct (hhas (fwd_h3 h) k_user_agent) eqn:U; [exact E3|].
  destruct (beq k k_user_agent) eqn:B.
  - apply beq_eq in B. specialize (UA B). subst k.
    rewrite hhas_hvalues in U, UA. rewrite E3 in U. congruence.
  - apply beq_neq in B. rewrite hvalues_hset by assumption. exact E3.
Qed.

Lemma hvalues_hdel_same k h : hvalues (hdel k h) k = [].
Proof.
  induction h as [|[a b] r IH]; [reflexivity|]. rewrite hdel_cons.
  destruct (beq a k) eqn:E; [exact IH|]. rewrite hvalues_cons, E. exact IH.
Qed.
Lemma hvalues_hinsert_same k v h : hvalues h k = [] -> hvalues (hinsert k v h) k = [v].
Proof.
  induction h as [|[a b] r IH]; intros E; cbn [hinsert].
  - rewrite hvalues_cons, beq_refl. reflexivity.
  - rewrite hvalues_cons in E. destruct (beq a k) eqn:B; [discriminate|].
    destruct (str_ltb k a).
    + rewrite hvalues_cons, beq_refl, hvalues_cons, B, E. reflexivity.
    + rewrite hvalues_cons, B. now apply IH.
Qed.
Lemma hvalues_hset_same k v h : hvalues (hset k v h) k = [v].
Proof. unfold hset. apply hvalues_hinsert_same, hvalues_hdel_same. Qed.

Lemma fwd_headers_ua_absent h :
  is_hop h k_user_agent = false -> hhas h k_user_agent = false ->
  hvalues (fwd_headers h) k_user_agent = [[]].
Proof.
  intros H A. pose proof (fwd_h3_values h _ H) as E3. rewrite fwd_headers_h3.
  assert (U : hhas (fwd_h3 h) k_user_agent = false).
  { rewrite hhas_hvalues, E3. rewrite hhas_hvalues in A. exact A. }
  rewrite U. apply hvalues_hset_same.
Qed.

Theorem headers_identity o q u k :
  forward false o q = Ok u ->
  is_hop (rq_headers q) k = false ->
  (k = k_user_agent -> hhas (rq_headers q) k = true) ->
  hvalues (up_headers u) k = hvalues (rq_headers q) k.
Proof.
  intros F H UA. apply forward_inv in F as (p & _ & _ & _ & _ & _ & E). rewrite E.
  now apply fwd_headers_values.
Qed.

(* ---------- membership: where an upstream header can come from ---------- *)
Lemma In_hdel kv k h : In kv (hdel k h) -> In kv h /\ beq (fst kv) k = false.
Proof. unfold hdel. intros H. apply filter_In in H as [A B]. apply negb_true_iff in B. auto. Qed.
Lemma In_hinsert kv k v h : In kv (hinsert k v h) -> kv = (k, v) \/ In kv h.
Proof.
  induction h as [|[a b] r IH]; cbn [hinsert]; intros H.
  - destruct H as [H|[]]; auto.
  - destruct (str_ltb k a).
    + destruct H as [H|H]; auto.
    + destruct H as [H|H]; [right; now left|]. destruct (IH H); auto. right. now right.
Qed.
Lemma In_hset kv k v h : In kv (hset k v h) -> kv = (k, v) \/ In kv h.
Proof. unfold hset. intros H. apply In_hinsert in H as [H|H]; auto. apply In_hdel in H as [H _]. auto. Qed.
Lemma In_fold_del ks : forall h kv,
  In kv (fold_left (fun acc k0 => hdel k0 acc) ks h) -> In kv h /\ ~ In (fst kv) ks.
Proof.
  induction ks as [|a ks IH]; intros h kv H; cbn [fold_left] in H; [split; [exact H | intros []]|].
  apply IH in H as [H N]. apply In_hdel in H as [H B]. split; [exact H|].
  intros [E|E]; [|auto]. apply beq_neq in B. congruence.
Qed.
Lemma mem_str_not_in k l : ~ In k l -> mem_str k l = false.
Proof.
  intros N. unfold mem_str. destruct (existsb (beq k) l) eqn:E; [|reflexivity].
  apply existsb_exists in E as [x [I B]]. apply beq_eq in B. subst x. contradiction.
Qed.
Lemma In_remove_hop k v h : In (k, v) (remove_hop h) -> In (k, v) h /\ is_hop h k = false.
Proof.
  unfold remove_hop. intros H. apply In_fold_del in H as [H N]. cbn [fst] in N. split; [exact H|].
  unfold is_hop. apply orb_false_iff. split; apply mem_str_not_in; intros I; apply N; apply in_or_app; auto.
Qed.

Definition own_header (k v : str) : Prop :=
  k = k_te \/ k = k_connection \/ k = k_upgrade \/ (k = k_user_agent /\ v = []).

Lemma In_fwd_h3 k v h : In (k, v) (fwd_h3 h) -> (In (k, v) h /\ is_hop h k = false) \/ own_header k v.
Proof.
  unfold fwd_h3, own_header. intros H.
  assert (A : forall x, In (k, v) (if values_contain_token (hvalues h k_te) (bs "trailers")
                                   then hset k_te (bs "trailers") (remove_hop h) else remove_hop h) ->
              (In (k, v) h /\ is_hop h k = false) \/ k = k_te \/ x).
  { intros x I. destruct (values_contain_token _ _).
    - apply In_hset in I as [I|I]; [inversion I; auto | left; now apply In_remove_hop].
    - left. now apply In_remove_hop. }
  destruct (nonempty (upgrade_type h)).
  - apply In_hset in H as [H|H]; [inversion H; auto|].
    apply In_hset in H as [H|H]; [inversion H; auto|]. destruct (A False H) as [B|[B|[]]]; auto.
  - destruct (A False H) as [B|[B|[]]]; auto.
Qed.

Lemma In_fwd_headers k v h :
  In (k, v) (fwd_headers h) -> (In (k, v) h /\ is_hop h k = false) \/ own_header k v.
Proof.
  rewrite fwd_headers_h3. destruct (hhas (fwd_h3 h) k_user_agent); intros H.
  - now apply In_fwd_h3.
  - apply In_hset in H as [H|H]; [inversion H; right; unfold own_header; auto 10 | now apply In_fwd_h3].
Qed.

Lemma hget_In h k : nonempty (hget h k) = true -> In (k, hget h k) h.
Proof.
  unfold hget. induction h as [|[a b] r IH]; [discriminate|].
  rewrite hvalues_cons. destruct (beq a k) eqn:E.
  - intros _. apply beq_eq in E. subst a. now left.
  - intros H. right. now apply IH.
Qed.

Lemma In_wire_headers m k v h : In (k, v) (wire_headers m h) -> In (k, v) h.
Proof.
  unfold wire_headers. destruct (nonempty (hget h k_user_agent)) eqn:N; intros H.
  - apply In_hset in H as [H|H]; [|exact H]. inversion H. now apply hget_In.
  - now apply In_hdel in H as [H _].
Qed.

(* no header reaches the upstream that the client did not send, except the proxy's own
   (Te: trailers, Connection/Upgrade of an upgrade request, the empty User-Agent; the forwarding
   headers of property C08 are added outside this model and are projected away by the check) *)
Theorem no_new_headers wire o q u k v :
  forward wire o q = Ok u -> In (k, v) (up_headers u) ->
  (In (k, v) (rq_headers q) /\ is_hop (rq_headers q) k = false) \/ own_header k v.
Proof.
  intros F I. apply forward_inv in F as (p & _ & _ & _ & _ & _ & E). rewrite E in I.
  destruct wire; [apply In_wire_headers in I|]; now apply In_fwd_headers.
Qed.

Theorem method_body_identity wire o q u :
  forward wire o q = Ok u -> up_method u = rq_method q /\ up_body u = rq_body q.
Proof. intros F. apply forward_inv in F as (p & _ & M & B & _). auto. Qed.

Theorem response_identity r :
  rs_status (respond r) = rs_status r /\ rs_body (respond r) = rs_body r
  /\ forall k, is_hop (rs_headers r) k = false ->
               hvalues (rs_headers (respond r)) k = hvalues (rs_headers r) k.
Proof.
  repeat split. intros k H. cbn [respond rs_headers]. now apply hvalues_remove_hop.
Qed.

(* ---------- no route ---------- *)
Theorem noroute_no_upstream wire cf q answer :
  serve_http wire cf None q answer
  = Ok (None, {| rs_status := noroute_status (cf_noroute_status cf); rs_headers := [];
                 rs_body := cf_noroute_html cf |}).
Proof. reflexivity. Qed.

Theorem noroute_status_spec c :
  noroute_status c = (if (100 <=? c) && (c <=? 999) then c else 404)%Z.
Proof.
  unfold noroute_status.
  destruct (Z.ltb_spec c 100), (Z.ltb_spec 999 c), (Z.leb_spec 100 c), (Z.leb_spec c 999);
    cbn [orb andb]; try reflexivity; lia.
Qed.

(* a routed request leads to exactly the modelled round trip, and the client gets the modelled
   projection of its answer *)
Theorem routed_one_upstream wire cf o q answer u :
  forward wire o q = Ok u ->
  serve_http wire cf (Some o) q answer = Ok (Some u, respond (answer u)).
Proof. intros F. unfold serve_http. now rewrite F. Qed.

(* ---------- over real sockets (fabio's transport): nothing is added ---------- *)
Theorem headers_identity_wire o q u k :
  forward true o q = Ok u ->
  is_hop (rq_headers q) k = false -> k <> k_user_agent ->
  hvalues (up_headers u) k = hvalues (rq_headers q) k.
Proof.
  intros F H NU.
  destruct (forward false o q) as [u0| |] eqn:F0.
  - pose proof (headers_identity o q u0 k F0 H (fun E => False_ind _ (NU E))) as I.
    apply forward_inv in F as (p & _ & _ & _ & _ & _ & E). apply forward_inv in F0 as (p0 & _ & _ & _ & _ & _ & E0).
    rewrite E. rewrite E0 in I. unfold wire_headers.
    destruct (nonempty _); [rewrite hvalues_hset by assumption | rewrite hvalues_hdel by assumption]; exact I.
  - unfold forward in *. destruct (parse_target (rq_target q)); cbn [bind] in *; try discriminate.
    destruct (negb _); discriminate.
  - unfold forward in *. destruct (parse_target (rq_target q)); cbn [bind] in *; try discriminate.
    destruct (negb _); discriminate.
Qed.

(* ---------- witnesses (evaluated by the kernel) ---------- *)
Definition mk_req (target : string) : request :=
  {| rq_method := bs "GET"; rq_target := bs target; rq_host := bs "example.com";
     rq_headers := [(bs "Accept", bs "*/*")]; rq_body := [] |}.
Definition mk_opts (strip prepend : string) : route_opts :=
  {| ro_strip := bs strip; ro_prepend := bs prepend; ro_host := []; ro_thost := bs "10.0.0.7:8080"; ro_tquery := [] |}.
Definition parsed_of (target : string) : parsed :=
  match parse_target (bs target) with Ok p => p | _ => {| p_path := []; p_rawpath := []; p_rawquery := []; p_force := false |} end.

(* before fix 402775d (director left the client's RawPath in place): the encoding was lost *)
Theorem strip_keeps_encoding_unrepaired :
  fwd_target_unrepaired (mk_opts "/strip" "") (parsed_of "/strip/a%2Fb") = bs "/a/b"
  /\ fwd_target_unrepaired (mk_opts "" "/pre") (parsed_of "/a%2Fb") = bs "/pre/a/b"
  /\ fwd_target_unrepaired (mk_opts "/strip" "") (parsed_of "/strip/%41") = bs "/A".
Proof. repeat split; vm_compute; reflexivity. Qed.

(* the code as it is: the same requests keep their encoding *)
Theorem strip_keeps_encoding_repaired :
  (exists u, forward false (mk_opts "/strip" "") (mk_req "/strip/a%2Fb") = Ok u /\ up_target u = bs "/a%2Fb")
  /\ (exists u, forward false (mk_opts "" "/pre") (mk_req "/a%2Fb") = Ok u /\ up_target u = bs "/pre/a%2Fb")
  /\ (exists u, forward false (mk_opts "/strip" "") (mk_req "/strip/%41") = Ok u /\ up_target u = bs "/%41")
  /\ (exists u, forward false (mk_opts "/strip" "pre") (mk_req "/strip/a%2Fb?q=%2F") = Ok u
                /\ up_target u = bs "/pre/a%2Fb?q=%2F").
Proof. repeat split; eexists; split; vm_compute; reflexivity. Qed.

(* what remains (region 1, narrowed): the strip prefix itself percent-encoded in the request ... *)
Theorem strip_encoded_prefix_refuted :
  exists o q u, forward false o q = Ok u
    /\ region_strip_encoding o (rq_target q) = true
    /\ spec_target o (rq_target q) = bs "/a%2Fb"
    /\ up_target u = bs "/a/b".
Proof.
  exists (mk_opts "/strip" ""), (mk_req "/str%69p/a%2Fb").
  eexists. repeat split; vm_compute; reflexivity.
Qed.

(* ... a strip prefix that cuts in front of an encoded '/' ... *)
Theorem strip_before_encoded_slash_refuted :
  exists o q u, forward false o q = Ok u
    /\ region_strip_encoding o (rq_target q) = true
    /\ spec_target o (rq_target q) = bs "/%2Fb/%41"
    /\ up_target u = bs "/b/A".
Proof.
  exists (mk_opts "/a" ""), (mk_req "/a%2Fb/%41").
  eexists. repeat split; vm_compute; reflexivity.
Qed.

(* ... and a prepend option holding a byte that needs escaping *)
Theorem prepend_escaped_byte_refuted :
  exists o q u, forward false o q = Ok u
    /\ region_strip_encoding o (rq_target q) = true
    /\ spec_target o (rq_target q) = bs "/a%20b/x%2Fy"
    /\ up_target u = bs "/a%20b/x/y".
Proof.
  exists (mk_opts "" "/a b"), (mk_req "/x%2Fy").
  eexists. repeat split; vm_compute; reflexivity.
Qed.

Theorem invalid_byte_reencoded_refuted :
  exists o q u, forward false o q = Ok u
    /\ region_invalid_byte o (rq_target q) = true
    /\ spec_target o (rq_target q) = bs "/a^b%2Fc"
    /\ up_target u = bs "/a%5Eb/c".
Proof.
  exists (mk_opts "" ""), (mk_req "/a^b%2Fc").
  eexists. repeat split; vm_compute; reflexivity.
Qed.

(* before fix 5e1efca the transport added an Accept-Encoding of its own; now it does not *)
Theorem gzip_added_unrepaired :
  let q := mk_req "/x" in let h := fwd_headers (rq_headers q) in
  region_gzip_added q = true
  /\ hvalues (rq_headers q) k_accept_encoding = []
  /\ hvalues (wire_headers_unrepaired (rq_method q) h) k_accept_encoding = [bs "gzip"]
  /\ hvalues (wire_headers (rq_method q) h) k_accept_encoding = [].
Proof. repeat split; vm_compute; reflexivity. Qed.

Theorem no_gzip_added_example :
  exists u, forward true (mk_opts "" "") (mk_req "/x") = Ok u
    /\ hvalues (up_headers u) k_accept_encoding = []
    /\ spec_forward (mk_opts "" "") (mk_req "/x") u = true.
Proof. eexists. repeat split; vm_compute; reflexivity. Qed.

(* ---------- non-vacuity ---------- *)
Example on_domain_nonvacuous :
  let o := mk_opts "/strip" "/pre" in let q := mk_req "/strip/x%20y/z?q=1" in
  all_lt_256 (rq_target q) = true
  /\ region_strip_encoding o (rq_target q) = false /\ region_invalid_byte o (rq_target q) = false
  /\ exists u, forward false o q = Ok u /\ up_target u = bs "/pre/x%20y/z?q=1" /\ spec_forward o q u = true.
Proof. repeat split. eexists. repeat split; vm_compute; reflexivity. Qed.

Example no_opts_nonvacuous :
  let o := mk_opts "" "" in let q := mk_req "/a%2Fb/%41?x=%2F" in
  valid_encoded (raw_path_of (rq_target q)) = true
  /\ exists u, forward false o q = Ok u /\ up_target u = rq_target q.
Proof. split; [reflexivity|]. eexists. split; vm_compute; reflexivity. Qed.

Example keep_raw_nonvacuous :
  let o := mk_opts "/strip" "/pre" in let q := mk_req "/strip/a%2Fb/%41" in
  raw_path_of (rq_target q) = ro_strip o ++ bs "/a%2Fb/%41"
  /\ nonempty (ro_strip o) = true /\ plain (ro_strip o) = true /\ slash_ok (bs "/a%2Fb/%41") = true
  /\ valid_encoded (raw_path_of (rq_target q)) = true /\ plain (ro_prepend o) = true
  /\ canonical_raw (raw_path_of (rq_target q)) = false
  /\ exists u, forward false o q = Ok u /\ up_target u = bs "/pre/a%2Fb/%41".
Proof. repeat split. eexists. split; vm_compute; reflexivity. Qed.

(* ================= the boolean specification the check evaluates (group B) ================= *)
Lemma list_eqb_beq_refl l : list_eqb beq l l = true.
Proof. induction l as [|a l IH]; [reflexivity|]. cbn [list_eqb]. now rewrite beq_refl, IH. Qed.

Lemma hvalues_project drop h k : mem_str k drop = false -> hvalues (project drop h) k = hvalues h k.
Proof.
  intros N. unfold project. induction h as [|[a b] r IH]; [reflexivity|].
  cbn [filter fst]. destruct (mem_str a drop) eqn:M; cbn [negb].
  - rewrite hvalues_cons. destruct (beq a k) eqn:E; [apply beq_eq in E; congruence | exact IH].
  - rewrite !hvalues_cons. destruct (beq a k); [f_equal|]; exact IH.
Qed.
Lemma hhas_project drop h k : mem_str k drop = false -> hhas (project drop h) k = hhas h k.
Proof. intros N. now rewrite !hhas_hvalues, hvalues_project. Qed.
Lemma names_project drop h k : In k (map fst (project drop h)) -> mem_str k drop = false.
Proof.
  intros I. apply in_map_iff in I as [[a b] [E I]]. cbn [fst] in E. subst a.
  unfold project in I. apply filter_In in I as [_ I]. now apply negb_true_iff in I.
Qed.

Lemma wire_headers_other m h k : k <> k_user_agent -> hvalues (wire_headers m h) k = hvalues h k.
Proof.
  intros N. unfold wire_headers. destruct (nonempty _); [now apply hvalues_hset | now apply hvalues_hdel].
Qed.

(* values the upstream sees for a name that is not hop-by-hop *)
Lemma up_values_e2e wire m h k :
  is_hop h k = false ->
  (wire = true -> k = k_user_agent ->
   match hvalues h k with [] => True | [v] => nonempty v = true | _ => False end) ->
  let hout := if wire then wire_headers m (fwd_headers h) else fwd_headers h in
  (if beq k k_user_agent && negb (hhas h k)
   then hvalues hout k = [[]] \/ hvalues hout k = []
   else hvalues hout k = hvalues h k).
Proof.
  intros HK R hout. destruct (beq k k_user_agent) eqn:BU; cbn [andb].
  - apply beq_eq in BU. subst k. destruct (hhas h k_user_agent) eqn:HU; cbn [negb].
    + pose proof (fwd_headers_values h _ HK (fun _ => HU)) as V. unfold hout. destruct wire; [|exact V].
      specialize (R eq_refl eq_refl). rewrite hhas_hvalues in HU.
      destruct (hvalues h k_user_agent) as [|v [|w l]] eqn:VS; try discriminate; try contradiction.
      unfold wire_headers, hget. rewrite V, R. apply hvalues_hset_same.
    + pose proof (fwd_headers_ua_absent h HK HU) as V. unfold hout. destruct wire; [|now left].
      right. unfold wire_headers, hget. rewrite V. cbn [nonempty]. apply hvalues_hdel_same.
  - apply beq_neq in BU. unfold hout. destruct wire; [rewrite wire_headers_other by assumption|];
      apply fwd_headers_values; auto; intros E; contradiction.
Qed.

Theorem spec_forward_rest_holds wire o q u :
  forward wire o q = Ok u -> (wire = true -> region_ua_wire q = false) ->
  spec_forward_rest o q u = true.
Proof.
  intros F R. pose proof (host_spec _ _ _ _ F) as HS.
  pose proof F as F'. apply forward_inv in F' as (p & _ & M & B & _ & _ & E).
  unfold spec_forward_rest. rewrite M, B, HS, !beq_refl. cbn [andb].
  set (h := rq_headers q) in *. apply andb_true_iff. split.
  - unfold e2e_same. apply forallb_forall. intros k I.
    assert (NM : mem_str k managed_req = false).
    { apply in_app_or in I as [I|I]; eapply names_project; eauto. }
    rewrite !hvalues_project, !hhas_project by assumption.
    destruct (is_hop h k) eqn:HK; [reflexivity|].
    assert (RR : wire = true -> k = k_user_agent ->
                 match hvalues h k with [] => True | [v] => nonempty v = true | _ => False end).
    { intros W EK. subst k. specialize (R W). unfold region_ua_wire in R. fold h in R. rewrite HK in R.
      cbn [negb andb] in R. destruct (hvalues h k_user_agent) as [|v [|w l]]; try exact I0; try discriminate.
      - exact Logic.I.
      - now apply negb_false_iff in R. }
    pose proof (up_values_e2e wire (rq_method q) h k HK RR) as V. cbv zeta in V. rewrite <- E in V.
    destruct (beq k k_user_agent && negb (hhas h k)).
    + destruct V as [V|V]; rewrite ?hhas_hvalues, V; reflexivity.
    + rewrite V. apply list_eqb_beq_refl.
  - unfold own_hop_ok. apply forallb_forall. intros [k v] I. cbn [fst snd].
    rewrite E in I. assert (J : In (k, v) (fwd_headers h)).
    { destruct wire; [now apply In_wire_headers in I | exact I]. }
    apply In_fwd_headers in J as [[_ J]|[J|[J|[J|[J1 J2]]]]].
    + now rewrite J.
    + subst k. destruct (negb _); reflexivity.
    + subst k. destruct (negb _); reflexivity.
    + subst k. destruct (negb _); reflexivity.
    + subst k v. destruct (negb _); reflexivity.
Qed.

Theorem spec_response_respond drop r : spec_response drop r (respond r) = true.
Proof.
  unfold spec_response. cbn [respond rs_status rs_body rs_headers]. rewrite Z.eqb_refl, beq_refl. cbn [andb].
  set (h := rs_headers r). apply andb_true_iff. split.
  - unfold e2e_same. apply forallb_forall. intros k I.
    assert (NM : mem_str k drop = false).
    { apply in_app_or in I as [I|I]; eapply names_project; eauto. }
    rewrite !hvalues_project, !hhas_project by assumption.
    destruct (is_hop h k) eqn:HK; [reflexivity|].
    pose proof (hvalues_remove_hop h k HK) as V.
    destruct (beq k k_user_agent && negb (hhas h k)) eqn:C.
    + apply andb_true_iff in C as [_ C]. apply negb_true_iff in C.
      rewrite (hhas_hvalues (remove_hop h)), V, <- hhas_hvalues, C. apply orb_true_r.
    + rewrite V. apply list_eqb_beq_refl.
  - apply forallb_forall. intros [k v] I. cbn [fst]. unfold project in I.
    apply filter_In in I as [I _]. apply In_remove_hop in I as [_ I]. now rewrite I.
Qed.

(* ---------- Host, clause by clause ---------- *)
Theorem host_dst wire o q u :
  forward wire o q = Ok u -> ro_host o = dst -> up_host u = ro_thost o.
Proof.
  intros F H. rewrite (host_spec _ _ _ _ F). unfold spec_host. rewrite H. reflexivity.
Qed.
Theorem host_named wire o q u :
  forward wire o q = Ok u -> ro_host o <> [] -> ro_host o <> dst -> up_host u = ro_host o.
Proof.
  intros F N D. rewrite (host_spec _ _ _ _ F). unfold spec_host.
  destruct (ro_host o) as [|c r] eqn:E; [contradiction|]. cbn [nonempty].
  destruct (beq (c :: r) dst) eqn:B; [apply beq_eq in B; contradiction | reflexivity].
Qed.

(* ---------- websocket upgrade: the request line sent on the upstream connection ---------- *)
Definition no_headers (q : request) : request :=
  {| rq_method := rq_method q; rq_target := rq_target q; rq_host := rq_host q; rq_headers := []; rq_body := rq_body q |}.

Lemma ws_as_forward o q m t h :
  ws_forward o q = Ok (m, t, h) -> region_ws_lone_q (rq_target q) = false ->
  exists u, forward false o (no_headers q) = Ok u /\ up_target u = t /\ up_host u = h /\ m = rq_method q.
Proof.
  unfold ws_forward, forward, region_ws_lone_q, raw_query_of. cbn [no_headers rq_target rq_headers rq_host rq_method].
  destruct (parse_target (rq_target q)) as [p| |] eqn:P; cbn [bind]; try discriminate.
  intros W L. inversion W; subst. eexists. split; [reflexivity|].
  cbn [up_target up_host]. repeat split. unfold fwd_target.
  apply parse_target_inv in P as (_ & _ & Q).
  assert (FQ : p_force p = false).
  { assert (E : p_force p = snd (query_of (snd (cut_q (rq_target q))))) by (now rewrite <- Q).
    rewrite E. destruct (snd (cut_q (rq_target q))) as [[|x0 x]|]; try reflexivity. discriminate. }
  now rewrite FQ.
Qed.

Theorem ws_target_on_domain o q m t h :
  all_lt_256 (rq_target q) = true ->
  ws_forward o q = Ok (m, t, h) ->
  region_ws_lone_q (rq_target q) = false ->
  region_strip_encoding o (rq_target q) = false ->
  region_invalid_byte o (rq_target q) = false ->
  t = spec_target o (rq_target q) /\ h = spec_host o (rq_host q) /\ m = rq_method q.
Proof.
  intros Hb W L R1 R2. destruct (ws_as_forward _ _ _ _ _ W L) as (u & F & T & H & M).
  split; [|split; [|exact M]].
  - rewrite <- T. now apply (target_on_domain false o (no_headers q) u).
  - rewrite <- H. apply (host_spec false o (no_headers q) u F).
Qed.

Theorem ws_lone_q_refuted :
  exists o q m t h, ws_forward o q = Ok (m, t, h)
    /\ region_ws_lone_q (rq_target q) = true
    /\ spec_target o (rq_target q) = bs "/x?" /\ t = bs "/x".
Proof.
  exists (mk_opts "" ""), (mk_req "/x?"). do 3 eexists. repeat split; vm_compute; reflexivity.
Qed.

(* ---------- User-Agent over a real connection ---------- *)
Definition mk_req_ua (uas : list string) : request :=
  {| rq_method := bs "GET"; rq_target := bs "/x"; rq_host := bs "example.com";
     rq_headers := map (fun v => (k_user_agent, bs v)) uas; rq_body := [] |}.

Theorem ua_wire_refuted :
  (exists u, forward true (mk_opts "" "") (mk_req_ua ["a/1"%string; "b/2"%string]) = Ok u
     /\ region_ua_wire (mk_req_ua ["a/1"%string; "b/2"%string]) = true
     /\ hvalues (up_headers u) k_user_agent = [bs "a/1"]
     /\ spec_forward_rest (mk_opts "" "") (mk_req_ua ["a/1"%string; "b/2"%string]) u = false)
  /\ (exists u, forward true (mk_opts "" "") (mk_req_ua [""%string]) = Ok u
     /\ region_ua_wire (mk_req_ua [""%string]) = true
     /\ hvalues (up_headers u) k_user_agent = []
     /\ spec_forward_rest (mk_opts "" "") (mk_req_ua [""%string]) u = false).
Proof. split; eexists; repeat split; vm_compute; reflexivity. Qed.

Example spec_rest_nonvacuous :
  let q := {| rq_method := bs "POST"; rq_target := bs "/x"; rq_host := bs "example.com";
              rq_headers := [(bs "Accept", bs "*/*"); (bs "Connection", bs "X-Foo, close"); (bs "Cookie", bs "a=1");
                             (bs "Cookie", bs "b=2"); (bs "Te", bs "trailers"); (bs "X-Foo", bs "1")];
              rq_body := bs "body" |} in
  region_ua_wire q = false
  /\ exists u, forward true (mk_opts "" "") q = Ok u
       /\ map fst (up_headers u) = [bs "Accept"; bs "Cookie"; bs "Cookie"; bs "Te"].
Proof. split; [reflexivity|]. eexists. split; vm_compute; reflexivity. Qed.

Example on_domain_noncanonical_nonvacuous :
  let o := mk_opts "/strip" "" in let q := mk_req "/strip/a%2Fb" in
  canonical_raw (raw_path_of (rq_target q)) = false
  /\ region_strip_encoding o (rq_target q) = false /\ region_invalid_byte o (rq_target q) = false.
Proof. repeat split. Qed.

(* the statements exported to Properties: restricted to names outside the managed set (the
   forwarding headers are rewritten by addHeaders, property C08, outside this model) *)
Lemma headers_identity_e2e o q u k :
  forward false o q = Ok u -> mem_str k managed_req = false ->
  is_hop (rq_headers q) k = false -> (k = k_user_agent -> hhas (rq_headers q) k = true) ->
  hvalues (up_headers u) k = hvalues (rq_headers q) k.
Proof. intros F _ H U. exact (headers_identity o q u k F H U). Qed.
Lemma headers_identity_wire_e2e o q u k :
  forward true o q = Ok u -> mem_str k managed_req = false ->
  is_hop (rq_headers q) k = false -> k <> k_user_agent ->
  hvalues (up_headers u) k = hvalues (rq_headers q) k.
Proof. intros F _ H U. exact (headers_identity_wire o q u k F H U). Qed.
