(** Proofs about the binary64 instance of the weight arithmetic (Model/WeighF.v),
    through Flocq's correctness theorems ([B2R], rounding to nearest even).  These
    are the only proofs of the development that use the real numbers (and with them
    the four axioms of Coq's Reals library). *)
From Coq Require Import List ZArith Reals Lra Lia Bool Permutation.
From Flocq Require Import Core.Core Relative IEEE754.BinarySingleNaN IEEE754.Binary IEEE754.Bits.
From Fabio Require Import Lib.Outcome Model.Weigh Model.WeighF Model.Ring Model.Pick Proofs.Ring Proofs.Pick Proofs.Split.
Import ListNotations.

Notation fexp64 := (FLT_exp (3 - 1024 - 53) 53).
Notation rnd64 := (round radix2 fexp64 (round_mode mode_NE)).
Notation R64 := (B2R 53 1024).
Notation fin64 := (is_finite 53 1024).

(* ---------- integers up to 2^53 are binary64 numbers ---------- *)
Lemma format_IZR z : (Z.abs z <= 2 ^ 53)%Z -> generic_format radix2 fexp64 (IZR z).
Proof.
  intros Hz. destruct (Z.eq_dec (Z.abs z) (2 ^ 53)) as [He|Hn].
  - (* +-2^53 = +-bpow 53 *)
    assert (Hb : generic_format radix2 fexp64 (bpow radix2 53)).
    { apply generic_format_bpow. unfold FLT_exp. cbn. lia. }
    assert (H53 : bpow radix2 53 = IZR (2 ^ 53)) by (rewrite <- IZR_Zpower by lia; reflexivity).
    destruct (Z.abs_eq_or_opp z) as [Hz'|Hz'].
    + rewrite <- Hz', He, <- H53. exact Hb.
    + replace z with (- Z.abs z)%Z by lia. rewrite He, opp_IZR, <- H53.
      now apply generic_format_opp.
  - apply generic_format_FLT. exists (Float radix2 z 0).
    + unfold F2R. cbn. lra.
    + cbn [Fnum]. change (radix2 ^ 53)%Z with (2 ^ 53)%Z. lia.
    + cbn. lia.
Qed.

Lemma bpow_1024_big x : (Rabs x <= 9007199254740992)%R -> (Rabs x < bpow radix2 1024)%R.
Proof.
  intros H. apply Rle_lt_trans with (1 := H).
  apply Rlt_le_trans with (bpow radix2 54); [|apply bpow_le; lia].
  rewrite <- IZR_Zpower by lia. apply IZR_lt. reflexivity.
Qed.

Lemma f64_of_Z_correct z : (Z.abs z <= 2 ^ 53)%Z ->
  R64 (f64_of_Z z) = IZR z /\ fin64 (f64_of_Z z) = true.
Proof.
  intros Hz. unfold f64_of_Z.
  pose proof (binary_normalize_correct 53 1024 Hprec53 Hmax1024 mode_NE z 0 false) as H.
  assert (HF : F2R (Float radix2 z 0) = IZR z) by (unfold F2R; cbn; lra).
  rewrite HF in H. rewrite (round_generic radix2 fexp64 _ (IZR z) (format_IZR z Hz)) in H.
  rewrite Rlt_bool_true in H.
  - destruct H as (H1 & H2 & _). split; assumption.
  - apply bpow_1024_big. rewrite <- abs_IZR. apply IZR_le.
    change 9007199254740992%Z with (2 ^ 53)%Z. exact Hz.
Qed.

(* ---------- int(float64(maxSlots) * w) for a weight in [0, 1 + 2^-16] ---------- *)
Lemma format_half_20001 : generic_format radix2 fexp64 (IZR 20001 / 2).
Proof.
  apply generic_format_FLT. exists (Float radix2 20001 (-1)).
  - unfold F2R. cbn [Fnum Fexp]. change (bpow radix2 (-1)) with (/ 2)%R. unfold Rdiv. reflexivity.
  - cbn [Fnum]. change (radix2 ^ 53)%Z with (2 ^ 53)%Z. lia.
  - cbn. lia.
Qed.

Lemma u52_le : (bpow radix2 (-52) <= / 65536)%R.
Proof. change (/ 65536)%R with (bpow radix2 (-16)). apply bpow_le. lia. Qed.

Lemma slot_countF_range (w : f64) :
  fin64 w = true -> (0 <= R64 w <= 1 + / 65536)%R -> (0 <= slot_count arithF w <= 10000)%Z.
Proof.
  intros Hfin [Hw0 Hw1].
  destruct (f64_of_Z_correct 10000 ltac:(cbn; lia)) as [Hc Hcf].
  unfold slot_count. cbv zeta. cbn [a_trunc a_mul a_max_slots a_gt a_zero arithF].
  set (p := b64_mult mode_NE (f64_of_Z 10000) w).
  assert (Hp : fin64 p = true /\ (0 <= R64 p <= IZR 20001 / 2)%R).
  { pose proof (Bmult_correct 53 1024 Hprec53 Hmax1024 binop_nan_pl64 mode_NE (f64_of_Z 10000) w) as H.
    change (Bmult 53 1024 Hprec53 Hmax1024 binop_nan_pl64 mode_NE (f64_of_Z 10000) w) with p in H.
    rewrite Hc in H.
    match type of H with context [Rlt_bool (Rabs ?r) _] => set (rr := r) in * end.
    assert (Hr : (0 <= rr <= IZR 20001 / 2)%R).
    { unfold rr. split.
      - rewrite <- (round_0 radix2 fexp64 (round_mode mode_NE)).
        apply round_le; [apply FLT_exp_valid; reflexivity|apply valid_rnd_round_mode|lra].
      - apply round_le_generic; [apply FLT_exp_valid; reflexivity|apply valid_rnd_round_mode|exact format_half_20001|lra]. }
    clearbody rr.
    rewrite Rlt_bool_true in H.
    - destruct H as (H1 & H2 & _). rewrite H1, H2, Hcf, Hfin. split; [reflexivity|exact Hr].
    - apply bpow_1024_big. rewrite Rabs_pos_eq by lra. lra. }
  destruct Hp as [Hpf [Hp0 Hp1]].
  assert (Ht : (0 <= f64_trunc p <= 10000)%Z).
  { unfold f64_trunc. rewrite Hpf.
    assert (Hz : (0 <= Binary.Btrunc 53 1024 p <= 10000)%Z).
    { pose proof (Btrunc_correct 53 1024 Hmax1024 p) as Hb. rewrite round_FIX_IZR in Hb.
      apply eq_IZR in Hb. rewrite Hb. rewrite Ztrunc_floor by exact Hp0. split.
      - rewrite <- (Zfloor_IZR 0). now apply Zfloor_le.
      - replace 10000%Z with (Zfloor (IZR 20001 / 2)); [now apply Zfloor_le|].
        apply Zfloor_imp. rewrite plus_IZR. lra. }
    unfold min_int64.
    replace ((- 2 ^ 63 <=? Binary.Btrunc 53 1024 p) && (Binary.Btrunc 53 1024 p <? 2 ^ 63))%Z with true; [exact Hz|].
    symmetry. apply andb_true_iff. split; lia. }
  destruct ((f64_trunc p =? 0)%Z && f64_gt w (f64_of_Z 0)); lia.
Qed.

(* ---------- slot counts in [0, S] never crash the ring construction ---------- *)
Lemma zpos_sum_nonneg counts : Forall (fun n => 0 <= n)%Z counts -> zpos_sum counts = zsum counts.
Proof.
  induction 1 as [|n counts Hn _ IH]; [reflexivity|].
  cbn [zpos_sum zsum fold_right]. fold (zpos_sum counts). fold (zsum counts). rewrite IH.
  destruct (0 <? n)%Z eqn:E; lia.
Qed.

Lemma zsum_bound' counts B : Forall (fun n => n <= B)%Z counts -> (zsum counts <= B * Z.of_nat (length counts))%Z.
Proof.
  induction 1 as [|n counts Hn _ IH]; cbn [zsum fold_right length]; [lia|]. fold (zsum counts). lia.
Qed.

Lemma ring_status_ok_of_range counts :
  Forall (fun n => 0 <= n <= 10000)%Z counts -> (Z.of_nat (length counts) <= 3000000000)%Z ->
  ring_status counts = Ok tt.
Proof.
  intros Hr Hlen.
  assert (Hnn : Forall (fun n => 0 <= n)%Z counts) by (eapply Forall_impl; [|exact Hr]; cbn; intros; lia).
  assert (Hub : Forall (fun n => n <= 10000)%Z counts) by (eapply Forall_impl; [|exact Hr]; cbn; intros; lia).
  pose proof (zsum_bound' counts 10000 Hub) as Hz. pose proof (zsum_nonneg counts Hnn) as Hz0.
  assert (H45 : (2 ^ 45 = 35184372088832)%Z) by reflexivity.
  unfold ring_status. rewrite used_slots_sum by (auto; lia).
  unfold wanted_slots. rewrite wanted_slots_gen, zpos_sum_nonneg by exact Hnn. cbn [Z.add].
  replace ((zsum counts <? 0) || (2 ^ 45 <? zsum counts))%Z with false
    by (symmetry; apply orb_false_iff; split; lia).
  destruct (zsum counts =? 0)%Z eqn:E0; [reflexivity|]. rewrite Z.ltb_irrefl. reflexivity.
Qed.

(** binary64, conditional form: IF the weights the binary64 instance computes are finite
    and in [0, 1 + 2^-52], THEN weighTargets does not crash (neither make nor the fill), for every
    behaviour of the sort.  What is missing for the unconditional statement on a "sane"
    input domain is exactly the hypothesis: a rounding-error analysis of sumFixed,
    1/sumFixed, f * scale and (1 - sumFixed) / k showing they stay finite within [0, 1]. *)
Theorem binary64_no_panic_partial_unrepaired (fixed : list f64) order :
  (Z.of_nat (length fixed) <= 3000000000)%Z ->
  (forall s, Permutation (order s) s) ->
  (forall w, In w (weigh_unrepaired arithF fixed) -> fin64 w = true /\ (0 <= R64 w <= 1 + bpow radix2 (-52))%R) ->
  status_of (route_ring_unrepaired arithF order fixed) = Ok tt.
Proof.
  intros Hlen Hord Hw.
  assert (Hst : route_status_unrepaired arithF fixed = Ok tt).
  { unfold route_status_unrepaired. destruct (Nat.eqb (n_fixed arithF fixed) 0); [reflexivity|].
    apply ring_status_ok_of_range.
    - apply Forall_forall. intros n Hn. apply in_map_iff in Hn. destruct Hn as (w & <- & Hin).
      destruct (Hw w Hin) as [Hf Hr]. apply slot_countF_range; [exact Hf|]. pose proof u52_le. lra.
    - rewrite map_length. unfold weigh_unrepaired. cbv zeta.
      destruct (Nat.eqb (n_fixed arithF fixed) 0); rewrite map_length; exact Hlen. }
  rewrite <- Hst. unfold route_ring_unrepaired, route_status_unrepaired.
  destruct (Nat.eqb (n_fixed arithF fixed) 0); [reflexivity|].
  set (counts := map (slot_count arithF) (weigh_unrepaired arithF fixed)).
  pose proof (ring_status_correct counts (order (indexed counts)) (Hord _)) as H.
  destruct (ring_of_counts (order (indexed counts)) counts); cbn [bind status_of] in *; exact H.
Qed.

(* ====================================================================== *)
(* the binary64 weights on the sane input domain                          *)
(* ====================================================================== *)
Local Open Scope R_scope.

Lemma rnd_le x y : x <= y -> rnd64 x <= rnd64 y.
Proof. intros H. apply round_le; [apply FLT_exp_valid; reflexivity|apply valid_rnd_round_mode|exact H]. Qed.
Lemma rnd_id x : generic_format radix2 fexp64 x -> rnd64 x = x.
Proof. intros H. apply round_generic; [apply valid_rnd_round_mode|exact H]. Qed.
Lemma rnd_0 : rnd64 0 = 0.
Proof. apply round_0. apply valid_rnd_round_mode. Qed.
Lemma fmt_B2R (x : f64) : generic_format radix2 fexp64 (R64 x).
Proof. apply generic_format_B2R. Qed.
Lemma fmt_bpow e : (-1074 <= e)%Z -> generic_format radix2 fexp64 (bpow radix2 e).
Proof. intros H. apply generic_format_bpow. unfold FLT_exp. lia. Qed.

(** no overflow below 2^1023 *)
Lemma no_overflow x e : (-1074 <= e <= 1023)%Z -> Rabs x <= bpow radix2 e ->
  Rlt_bool (Rabs (rnd64 x)) (bpow radix2 1024) = true /\ Rabs (rnd64 x) <= bpow radix2 e.
Proof.
  intros He Hx.
  assert (H : Rabs (rnd64 x) <= bpow radix2 e).
  { apply abs_round_le_generic; [apply FLT_exp_valid; reflexivity|apply valid_rnd_round_mode|apply fmt_bpow; lia|exact Hx]. }
  split; [|exact H]. apply Rlt_bool_true. apply Rle_lt_trans with (1 := H). apply bpow_lt. lia.
Qed.

Definition fplus := b64_plus mode_NE.
Definition fminus := b64_minus mode_NE.
Definition fmult := b64_mult mode_NE.
Definition fdiv := b64_div mode_NE.

Lemma fplus_ok x y e : (-1074 <= e <= 1023)%Z -> fin64 x = true -> fin64 y = true ->
  Rabs (R64 x + R64 y) <= bpow radix2 e ->
  R64 (fplus x y) = rnd64 (R64 x + R64 y) /\ fin64 (fplus x y) = true.
Proof.
  intros He Hx Hy Hb.
  pose proof (Bplus_correct 53 1024 Hprec53 Hmax1024 binop_nan_pl64 mode_NE x y Hx Hy) as H.
  change (Bplus 53 1024 Hprec53 Hmax1024 binop_nan_pl64 mode_NE x y) with (fplus x y) in H.
  match type of H with context [Rlt_bool (Rabs ?r) _] => change r with (rnd64 (R64 x + R64 y)) in H end.
  destruct (no_overflow _ e He Hb) as [Ho _]. rewrite Ho in H. destruct H as (H1 & H2 & _). split; assumption.
Qed.

Lemma fminus_ok x y e : (-1074 <= e <= 1023)%Z -> fin64 x = true -> fin64 y = true ->
  Rabs (R64 x - R64 y) <= bpow radix2 e ->
  R64 (fminus x y) = rnd64 (R64 x - R64 y) /\ fin64 (fminus x y) = true.
Proof.
  intros He Hx Hy Hb.
  pose proof (Bminus_correct 53 1024 Hprec53 Hmax1024 binop_nan_pl64 mode_NE x y Hx Hy) as H.
  change (Bminus 53 1024 Hprec53 Hmax1024 binop_nan_pl64 mode_NE x y) with (fminus x y) in H.
  match type of H with context [Rlt_bool (Rabs ?r) _] => change r with (rnd64 (R64 x - R64 y)) in H end.
  destruct (no_overflow _ e He Hb) as [Ho _]. rewrite Ho in H. destruct H as (H1 & H2 & _). split; assumption.
Qed.

Lemma fmult_ok x y e : (-1074 <= e <= 1023)%Z -> fin64 x = true -> fin64 y = true ->
  Rabs (R64 x * R64 y) <= bpow radix2 e ->
  R64 (fmult x y) = rnd64 (R64 x * R64 y) /\ fin64 (fmult x y) = true.
Proof.
  intros He Hx Hy Hb.
  pose proof (Bmult_correct 53 1024 Hprec53 Hmax1024 binop_nan_pl64 mode_NE x y) as H.
  change (Bmult 53 1024 Hprec53 Hmax1024 binop_nan_pl64 mode_NE x y) with (fmult x y) in H.
  match type of H with context [Rlt_bool (Rabs ?r) _] => change r with (rnd64 (R64 x * R64 y)) in H end.
  destruct (no_overflow _ e He Hb) as [Ho _]. rewrite Ho in H. destruct H as (H1 & H2 & _).
  rewrite Hx, Hy in H2. split; assumption.
Qed.

Lemma fdiv_ok x y e : (-1074 <= e <= 1023)%Z -> fin64 x = true -> R64 y <> 0 ->
  Rabs (R64 x / R64 y) <= bpow radix2 e ->
  R64 (fdiv x y) = rnd64 (R64 x / R64 y) /\ fin64 (fdiv x y) = true.
Proof.
  intros He Hx Hy Hb.
  pose proof (Bdiv_correct 53 1024 Hprec53 Hmax1024 binop_nan_pl64 mode_NE x y Hy) as H.
  change (Bdiv 53 1024 Hprec53 Hmax1024 binop_nan_pl64 mode_NE x y) with (fdiv x y) in H.
  match type of H with context [Rlt_bool (Rabs ?r) _] => change r with (rnd64 (R64 x / R64 y)) in H end.
  destruct (no_overflow _ e He Hb) as [Ho _]. rewrite Ho in H. destruct H as (H1 & H2 & _).
  rewrite Hx in H2. split; assumption.
Qed.

Lemma f64_gt_spec x y : fin64 x = true -> fin64 y = true ->
  (f64_gt x y = true -> R64 y < R64 x) /\ (f64_gt x y = false -> R64 x <= R64 y).
Proof.
  intros Hx Hy. unfold f64_gt, b64_compare. rewrite (Bcompare_correct 53 1024 x y Hx Hy).
  destruct (Rcompare_spec (R64 x) (R64 y)); split; intros; try discriminate; lra.
Qed.
Lemma f64_lt_spec x y : fin64 x = true -> fin64 y = true ->
  (f64_lt x y = true -> R64 x < R64 y) /\ (f64_lt x y = false -> R64 y <= R64 x).
Proof.
  intros Hx Hy. unfold f64_lt, b64_compare. rewrite (Bcompare_correct 53 1024 x y Hx Hy).
  destruct (Rcompare_spec (R64 x) (R64 y)); split; intros; try discriminate; lra.
Qed.

(* ---------- the sane input domain ---------- *)
(** a FixedWeight is sane when it is finite and either not positive (dynamic) or
    within [2^-1000, 1] *)
Definition sane_fixed (f : f64) : Prop :=
  fin64 f = true /\ (R64 f <= 0 \/ bpow radix2 (-1000) <= R64 f <= 1).

Lemma zeroF_ok : R64 (f64_of_Z 0) = 0 /\ fin64 (f64_of_Z 0) = true.
Proof. apply (f64_of_Z_correct 0). cbn. lia. Qed.
Lemma oneF_ok : R64 (f64_of_Z 1) = 1 /\ fin64 (f64_of_Z 1) = true.
Proof. apply (f64_of_Z_correct 1). cbn. lia. Qed.

Lemma is_fixed_spec f : sane_fixed f ->
  (is_fixed arithF f = true -> bpow radix2 (-1000) <= R64 f <= 1)
  /\ (is_fixed arithF f = false -> R64 f <= 0).
Proof.
  intros [Hf Hr]. destruct zeroF_ok as [Hz Hzf].
  destruct (f64_gt_spec f (f64_of_Z 0) Hf Hzf) as [Ht Hfa]. rewrite Hz in *.
  change (is_fixed arithF f) with (f64_gt f (f64_of_Z 0)).
  pose proof (bpow_gt_0 radix2 (-1000)) as Hpos.
  split; intros Hx; [specialize (Ht Hx); destruct Hr; lra|now apply Hfa].
Qed.

Lemma bpow53 : bpow radix2 53 = IZR (2 ^ 53).
Proof. rewrite <- IZR_Zpower by lia. reflexivity. Qed.

Lemma sum_inv l : Forall sane_fixed l -> forall acc k,
  fin64 acc = true -> 0 <= R64 acc <= IZR k -> (0 <= k)%Z -> (k + Z.of_nat (length l) <= 2 ^ 53)%Z ->
  let s := fold_left (fun s f => if is_fixed arithF f then fplus s f else s) l acc in
  fin64 s = true /\ R64 acc <= R64 s <= IZR (k + Z.of_nat (length l))
  /\ (forall f, In f l -> is_fixed arithF f = true -> R64 f <= R64 s).
Proof.
  induction 1 as [|f l Hf Hl IH]; intros acc k Hfin Hacc Hk Hlen; cbn [fold_left length] in *.
  - rewrite Z.add_0_r. repeat split; try lra; try assumption. intros f [].
  - destruct (is_fixed_spec f Hf) as [Hfx Hnf]. destruct Hf as [Hff _].
    destruct (is_fixed arithF f) eqn:E.
    + specialize (Hfx eq_refl). pose proof (bpow_gt_0 radix2 (-1000)) as Hpos.
      assert (Hb : Rabs (R64 acc + R64 f) <= bpow radix2 53).
      { rewrite Rabs_pos_eq by lra. rewrite bpow53. apply Rle_trans with (IZR (k + 1)).
        - rewrite plus_IZR. lra.
        - apply IZR_le. lia. }
      destruct (fplus_ok acc f 53 ltac:(lia) Hfin Hff Hb) as [Hr Hrf].
      assert (Hlo1 : R64 acc <= R64 (fplus acc f)).
      { rewrite Hr. apply round_ge_generic; [apply FLT_exp_valid; reflexivity|apply valid_rnd_round_mode|apply fmt_B2R|lra]. }
      assert (Hlo2 : R64 f <= R64 (fplus acc f)).
      { rewrite Hr. apply round_ge_generic; [apply FLT_exp_valid; reflexivity|apply valid_rnd_round_mode|apply fmt_B2R|lra]. }
      assert (Hup : R64 (fplus acc f) <= IZR (k + 1)).
      { rewrite Hr. apply round_le_generic; [apply FLT_exp_valid; reflexivity|apply valid_rnd_round_mode| |rewrite plus_IZR; lra].
        apply format_IZR. lia. }
      destruct (IH (fplus acc f) (k + 1)%Z Hrf ltac:(lra) ltac:(lia) ltac:(lia)) as (H1 & H2 & H3).
      split; [exact H1|]. split.
      * replace (k + Z.of_nat (S (length l)))%Z with (k + 1 + Z.of_nat (length l))%Z by lia. lra.
      * intros g [<-|Hg] Hgf; [lra|now apply H3].
    + destruct (IH acc k Hfin Hacc Hk ltac:(lia)) as (H1 & H2 & H3).
      split; [exact H1|]. split.
      * split; [lra|]. apply Rle_trans with (IZR (k + Z.of_nat (length l))); [lra|apply IZR_le; lia].
      * intros g [<-|Hg] Hgf; [congruence|now apply H3].
Qed.

Lemma sum_fixed_ok l : Forall sane_fixed l -> (Z.of_nat (length l) <= 2 ^ 53)%Z ->
  let sf := sum_fixed arithF l in
  fin64 sf = true /\ 0 <= R64 sf <= IZR (Z.of_nat (length l))
  /\ (forall f, In f l -> is_fixed arithF f = true -> bpow radix2 (-1000) <= R64 f <= R64 sf).
Proof.
  intros Hl Hlen. destruct zeroF_ok as [Hz Hzf].
  destruct (sum_inv l Hl (f64_of_Z 0) 0%Z Hzf ltac:(rewrite Hz; lra) ltac:(lia) ltac:(lia)) as (H1 & H2 & H3).
  cbn zeta in *. rewrite Hz in H2. cbn [Z.add] in H2.
  change (sum_fixed arithF l) with (fold_left (fun s f => if is_fixed arithF f then fplus s f else s) l (f64_of_Z 0)).
  split; [exact H1|]. split; [exact H2|].
  intros f Hin Hfx. split; [|now apply H3].
  rewrite Forall_forall in Hl. destruct (is_fixed_spec f (Hl f Hin)) as [Hs _]. now apply Hs.
Qed.

Lemma filter_len_le {X} (p : X -> bool) l : (length (filter p l) <= length l)%nat.
Proof. induction l as [|x l IH]; cbn [filter length]; [lia|]. destruct (p x); cbn [length]; lia. Qed.

Lemma n_fixed_lt l f : In f l -> is_fixed arithF f = false -> (n_fixed arithF l < length l)%nat.
Proof.
  unfold n_fixed. induction l as [|g l IH]; intros Hin Hf; [destruct Hin|].
  cbn [filter length]. pose proof (filter_len_le (is_fixed arithF) l) as Hle.
  destruct Hin as [->|Hin].
  - rewrite Hf. lia.
  - specialize (IH Hin Hf). destruct (is_fixed arithF g); cbn [length]; lia.
Qed.

Lemma fmt_one_u52 : generic_format radix2 fexp64 (1 + bpow radix2 (-52)).
Proof.
  apply generic_format_FLT. exists (Float radix2 (2 ^ 52 + 1) (-52)).
  - unfold F2R. cbn [Fnum Fexp]. rewrite plus_IZR.
    replace (IZR (2 ^ 52)) with (bpow radix2 52) by (rewrite <- IZR_Zpower by lia; reflexivity).
    rewrite Rmult_plus_distr_r, <- bpow_plus. cbn [Z.add]. rewrite Z.pos_sub_diag. cbn [bpow]. lra.
  - cbn [Fnum]. change (radix2 ^ 53)%Z with (2 ^ 53)%Z. lia.
  - cbn. lia.
Qed.

Lemma rnd_rel y : bpow radix2 (-1022) <= Rabs y -> Rabs (rnd64 y - y) <= bpow radix2 (-53) * Rabs y.
Proof.
  intros Hy.
  pose proof (relative_error_N_FLT radix2 (-1074) 53 Hprec53 (fun x => negb (Z.even x)) y Hy) as H.
  eapply Rle_trans; [exact H|]. apply Req_le. f_equal.
  change (/ 2) with (bpow radix2 (-1)). rewrite <- bpow_plus. reflexivity.
Qed.

Lemma bpow_le_1 e : (e <= 0)%Z -> bpow radix2 e <= 1.
Proof. intros H. change 1 with (bpow radix2 0). now apply bpow_le. Qed.

(** on the sane domain every weight the binary64 instance computes is finite and
    within [0, 1 + 2^-52] *)
Theorem binary64_weights_on_domain_unrepaired l :
  Forall sane_fixed l -> (Z.of_nat (length l) <= 2 ^ 53)%Z ->
  forall w, In w (weigh_unrepaired arithF l) -> fin64 w = true /\ 0 <= R64 w <= 1 + bpow radix2 (-52).
Proof.
  intros Hl Hlen w Hin. unfold weigh_unrepaired in Hin. cbv zeta in Hin.
  destruct oneF_ok as [H1r H1f]. destruct zeroF_ok as [H0r H0f].
  pose proof (bpow_gt_0 radix2 (-52)) as Hu52. pose proof (bpow_gt_0 radix2 (-53)) as Hu53.
  assert (Hfmt1 : generic_format radix2 fexp64 1) by (apply (format_IZR 1); cbn; lia).
  assert (Hfmt0 : generic_format radix2 fexp64 0) by apply generic_format_0.
  destruct (Nat.eqb (n_fixed arithF l) 0) eqn:E0.
  - (* no fixed weight: 1 / float64(len) *)
    apply in_map_iff in Hin. destruct Hin as (f & <- & Hf).
    assert (Hlen1 : (1 <= Z.of_nat (length l))%Z) by (destruct l; [destruct Hf|cbn [length]; lia]).
    destruct (f64_of_Z_correct (Z.of_nat (length l)) ltac:(lia)) as [Hnr Hnf].
    cbn [a_div a_one a_of_nat arithF]. change (b64_div mode_NE) with fdiv.
    assert (Hn1 : 1 <= IZR (Z.of_nat (length l))) by (apply IZR_le; exact Hlen1).
    assert (Hq : 0 <= 1 / IZR (Z.of_nat (length l)) <= 1).
    { split; [apply Rlt_le, Rdiv_lt_0_compat; lra|].
      apply Rmult_le_reg_r with (IZR (Z.of_nat (length l))); [lra|]. unfold Rdiv.
      rewrite Rmult_assoc, Rinv_l by lra. lra. }
    destruct (fdiv_ok (f64_of_Z 1) (f64_of_Z (Z.of_nat (length l))) 0 ltac:(lia) H1f) as [Hr Hrf].
    { rewrite Hnr. lra. }
    { rewrite H1r, Hnr. rewrite Rabs_pos_eq by lra. cbn [bpow]. lra. }
    rewrite H1r, Hnr in Hr. split; [exact Hrf|].
    assert (Hgoal : 0 <= rnd64 (1 / IZR (Z.of_nat (length l))) <= 1 + bpow radix2 (-52)).
    { split.
      + apply round_ge_generic; [apply FLT_exp_valid; reflexivity|apply valid_rnd_round_mode|exact Hfmt0|lra].
      + apply Rle_trans with 1; [|lra].
        apply round_le_generic; [apply FLT_exp_valid; reflexivity|apply valid_rnd_round_mode|exact Hfmt1|lra]. }
    rewrite <- Hr in Hgoal. exact Hgoal.
  - apply Nat.eqb_neq in E0.
    destruct (sum_fixed_ok l Hl Hlen) as (Hsf & Hsr & Hsg). cbv zeta in *.
    set (sf := sum_fixed arithF l) in *.
    set (nf := n_fixed arithF l) in *. set (len := length l) in *.
    assert (HlenR : IZR (Z.of_nat len) <= bpow radix2 53) by (rewrite bpow53; apply IZR_le; exact Hlen).
    assert (Hb53 : 1 <= bpow radix2 53) by (change 1 with (bpow radix2 0); apply bpow_le; lia).
    (* some target is fixed, so sumFixed >= 2^-1000 *)
    assert (Hsfpos : bpow radix2 (-1000) <= R64 sf).
    { unfold nf, n_fixed in E0. destruct (filter (is_fixed arithF) l) as [|g gs] eqn:Eg; [cbn in E0; congruence|].
      assert (Hg : In g (filter (is_fixed arithF) l)) by (rewrite Eg; now left).
      apply filter_In in Hg. destruct Hg as [Hgin Hgf]. destruct (Hsg g Hgin Hgf). lra. }
    pose proof (bpow_gt_0 radix2 (-1000)) as Hm1000.
    (* the scale factor *)
    set (scale := scale_from arithF nf len sf) in *.
    assert (Hscale : fin64 scale = true /\ 0 <= R64 scale
              /\ forall g, In g l -> is_fixed arithF g = true -> R64 g * R64 scale <= 1 + bpow radix2 (-53)).
    { unfold scale, scale_from. cbn [a_gt a_lt a_div a_one arithF]. change (b64_div mode_NE) with fdiv.
      destruct (f64_gt_spec sf (f64_of_Z 1) Hsf H1f) as [Hgt Hngt].
      destruct (f64_lt_spec sf (f64_of_Z 1) Hsf H1f) as [Hlt Hnlt]. rewrite H1r in *.
      assert (Hinv : 0 < 1 / R64 sf) by (apply Rdiv_lt_0_compat; lra).
      destruct (f64_gt sf (f64_of_Z 1)) eqn:Eg; cbn [orb].
      - (* sumFixed > 1: scale = 1 / sumFixed <= 1 *)
        specialize (Hgt eq_refl).
        assert (Hq : 1 / R64 sf <= 1).
        { apply Rmult_le_reg_r with (R64 sf); [lra|]. unfold Rdiv. rewrite Rmult_assoc, Rinv_l by lra. lra. }
        destruct (fdiv_ok (f64_of_Z 1) sf 0 ltac:(lia) H1f ltac:(lra)) as [Hr Hrf].
        { rewrite H1r. rewrite Rabs_pos_eq by lra. cbn [bpow]. lra. }
        rewrite H1r in Hr. split; [exact Hrf|].
        assert (Hs0 : 0 <= R64 (fdiv (f64_of_Z 1) sf)).
        { rewrite Hr. apply round_ge_generic; [apply FLT_exp_valid; reflexivity|apply valid_rnd_round_mode|exact Hfmt0|lra]. }
        assert (Hs1 : R64 (fdiv (f64_of_Z 1) sf) <= 1).
        { rewrite Hr. apply round_le_generic; [apply FLT_exp_valid; reflexivity|apply valid_rnd_round_mode|exact Hfmt1|lra]. }
        split; [exact Hs0|]. intros g Hg Hgf. destruct (Hsg g Hg Hgf) as [Hg0 _].
        rewrite Forall_forall in Hl. destruct (is_fixed_spec g (Hl g Hg)) as [Hgs _]. specialize (Hgs Hgf). nra.
      - destruct (Nat.eqb nf len && f64_lt sf (f64_of_Z 1)) eqn:Ea.
        + (* all fixed, sumFixed < 1: scale = 1 / sumFixed, relative error 2^-53 *)
          apply andb_prop in Ea. destruct Ea as [_ Ea]. specialize (Hlt Ea).
          assert (Hq1 : 1 <= 1 / R64 sf).
          { apply Rmult_le_reg_r with (R64 sf); [lra|]. unfold Rdiv. rewrite Rmult_assoc, Rinv_l by lra. lra. }
          assert (Hq2 : 1 / R64 sf <= bpow radix2 1000).
          { apply Rmult_le_reg_r with (R64 sf); [lra|]. unfold Rdiv. rewrite Rmult_assoc, Rinv_l by lra.
            apply Rle_trans with (bpow radix2 1000 * bpow radix2 (-1000)).
            - rewrite <- bpow_plus. cbn [Z.add]. rewrite Z.pos_sub_diag. cbn [bpow]. lra.
            - apply Rmult_le_compat_l; [apply bpow_ge_0|lra]. }
          destruct (fdiv_ok (f64_of_Z 1) sf 1000 ltac:(lia) H1f ltac:(lra)) as [Hr Hrf].
          { rewrite H1r. rewrite Rabs_pos_eq by lra. exact Hq2. }
          rewrite H1r in Hr. split; [exact Hrf|].
          assert (Hs0 : 0 <= R64 (fdiv (f64_of_Z 1) sf)).
          { rewrite Hr. apply round_ge_generic; [apply FLT_exp_valid; reflexivity|apply valid_rnd_round_mode|exact Hfmt0|lra]. }
          split; [exact Hs0|]. intros g Hg Hgf. destruct (Hsg g Hg Hgf) as [Hg0 Hg1].
          pose proof (rnd_rel (1 / R64 sf)) as Hrel. rewrite (Rabs_pos_eq (1 / R64 sf)) in Hrel by lra.
          assert (Hy : bpow radix2 (-1022) <= 1 / R64 sf).
          { apply Rle_trans with 1; [apply bpow_le_1; lia|exact Hq1]. }
          specialize (Hrel Hy). apply Rabs_le_inv in Hrel. rewrite <- Hr in Hrel.
          set (y := 1 / R64 sf) in *. set (sc := R64 (fdiv (f64_of_Z 1) sf)) in *.
          assert (Hsy : R64 sf * y = 1) by (unfold y; field; lra).
          assert (Hsc : sc <= y * (1 + bpow radix2 (-53))) by lra.
          apply Rle_trans with (R64 sf * (y * (1 + bpow radix2 (-53)))).
          * apply Rmult_le_compat; lra.
          * rewrite <- Rmult_assoc, Hsy. lra.
        + (* scale = 1 *)
          split; [exact H1f|]. rewrite H1r. split; [lra|]. intros g Hg Hgf.
          rewrite Forall_forall in Hl. destruct (is_fixed_spec g (Hl g Hg)) as [Hgs _]. specialize (Hgs Hgf). lra. }
    destruct Hscale as (Hscf & Hsc0 & Hscg).
    apply in_map_iff in Hin. destruct Hin as (f & <- & Hf).
    destruct (is_fixed arithF f) eqn:Ef.
    + (* a fixed target: f * scale *)
      cbn [a_mul arithF]. change (b64_mult mode_NE) with fmult.
      destruct (Hsg f Hf Ef) as [Hf0 _]. specialize (Hscg f Hf Ef).
      rewrite Forall_forall in Hl. destruct (Hl f Hf) as [Hff _].
      assert (Hp0 : 0 <= R64 f * R64 scale) by (apply Rmult_le_pos; lra).
      assert (Hu : bpow radix2 (-53) <= bpow radix2 (-52)) by (apply bpow_le; lia).
      destruct (fmult_ok f scale 1 ltac:(lia) Hff Hscf) as [Hr Hrf].
      { rewrite Rabs_pos_eq by exact Hp0. pose proof (bpow_le_1 (-53) ltac:(lia)). cbn [bpow]. cbn. lra. }
      assert (Hgoal : 0 <= rnd64 (R64 f * R64 scale) <= 1 + bpow radix2 (-52)).
      { split.
        * apply round_ge_generic; [apply FLT_exp_valid; reflexivity|apply valid_rnd_round_mode|exact Hfmt0|exact Hp0].
        * apply round_le_generic; [apply FLT_exp_valid; reflexivity|apply valid_rnd_round_mode|exact fmt_one_u52|lra]. }
      rewrite <- Hr in Hgoal. exact (conj Hrf Hgoal).
    + (* a dynamic target: (1 - sumFixed) / float64(len - nFixed), clamped at 0 *)
      assert (Hk : (nf < len)%nat) by exact (n_fixed_lt l f Hf Ef).
      assert (Hlen' : (Z.of_nat len <= 2 ^ 53)%Z) by exact Hlen.
      unfold dynamic_from. cbv zeta. cbn [a_lt a_div a_sub a_one a_zero a_of_nat arithF].
      change (b64_div mode_NE) with fdiv. change (b64_minus mode_NE) with fminus.
      destruct (f64_of_Z_correct (Z.of_nat (len - nf)) ltac:(lia)) as [Hkr Hkf].
      set (kF := f64_of_Z (Z.of_nat (len - nf))) in *.
      assert (Hk1 : 1 <= R64 kF) by (rewrite Hkr; apply IZR_le; lia).
      assert (Hbm : Rabs (R64 (f64_of_Z 1) - R64 sf) <= bpow radix2 53).
      { rewrite H1r. apply Rabs_le. lra. }
      destruct (fminus_ok (f64_of_Z 1) sf 53 ltac:(lia) H1f Hsf Hbm) as [Hmr Hmf]. rewrite H1r in Hmr.
      set (m := fminus (f64_of_Z 1) sf) in *.
      assert (Hm1 : R64 m <= 1).
      { rewrite Hmr. apply round_le_generic; [apply FLT_exp_valid; reflexivity|apply valid_rnd_round_mode|exact Hfmt1|lra]. }
      assert (Hm0 : - bpow radix2 53 <= R64 m).
      { rewrite Hmr. apply round_ge_generic; [apply FLT_exp_valid; reflexivity|apply valid_rnd_round_mode| |lra].
        apply generic_format_opp. apply fmt_bpow. lia. }
      assert (Hik : 0 < / R64 kF <= 1).
      { split; [apply Rinv_0_lt_compat; lra|]. rewrite <- Rinv_1. apply Rinv_le_contravar; lra. }
      assert (Hq : - bpow radix2 53 <= R64 m / R64 kF <= 1).
      { unfold Rdiv. set (ik := / R64 kF) in *. destruct (Rle_dec 0 (R64 m)); split; nra. }
      destruct (fdiv_ok m kF 53 ltac:(lia) Hmf ltac:(lra)) as [Hdr Hdf].
      { apply Rabs_le. lra. }
      set (d := fdiv m kF) in *.
      assert (Hd1 : R64 d <= 1).
      { rewrite Hdr. apply round_le_generic; [apply FLT_exp_valid; reflexivity|apply valid_rnd_round_mode|exact Hfmt1|lra]. }
      destruct (f64_lt_spec d (f64_of_Z 0) Hdf H0f) as [_ Hnlt]. rewrite H0r in Hnlt.
      assert (Hgoal : let dv := if f64_lt d (f64_of_Z 0) then f64_of_Z 0 else d in
                      fin64 dv = true /\ 0 <= R64 dv <= 1 + bpow radix2 (-52)).
      { cbv zeta. destruct (f64_lt d (f64_of_Z 0)) eqn:Ed.
        * split; [exact H0f|]. rewrite H0r. lra.
        * specialize (Hnlt eq_refl). split; [exact Hdf|]. lra. }
      exact Hgoal.
Qed.

(** C04_binary64_no_panic_on_domain: for finite fixed weights that are not positive
    (dynamic) or within [2^-1000, 1], on routes with at most 3*10^9 targets, the binary64
    instance -- the arithmetic Go executes -- computes finite weights in [0, 1 + 2^-52], every
    slot count lies in [0, S], and weighTargets neither panics nor loops, whatever the sort
    does.  (The lower bound is necessary: 5e-324 is in [0, 1] and crashes, finding F-C04-1.) *)
Theorem binary64_slot_counts_on_domain_unrepaired (fixed : list f64) :
  Forall sane_fixed fixed -> (Z.of_nat (length fixed) <= 3000000000)%Z ->
  Forall (fun n => 0 <= n <= 10000)%Z (map (slot_count arithF) (weigh_unrepaired arithF fixed)).
Proof.
  intros Hs Hlen. apply Forall_forall. intros n Hn. apply in_map_iff in Hn. destruct Hn as (w & <- & Hin).
  destruct (binary64_weights_on_domain_unrepaired fixed Hs ltac:(lia) w Hin) as [Hf Hr].
  apply slot_countF_range; [exact Hf|]. pose proof u52_le. lra.
Qed.

Theorem binary64_no_panic_on_domain_unrepaired (fixed : list f64) order :
  Forall sane_fixed fixed -> (Z.of_nat (length fixed) <= 3000000000)%Z ->
  (forall s, Permutation (order s) s) ->
  status_of (route_ring_unrepaired arithF order fixed) = Ok tt.
Proof.
  intros Hs Hlen Hord. apply binary64_no_panic_partial_unrepaired; [exact Hlen|exact Hord|].
  intros w Hin. apply (binary64_weights_on_domain_unrepaired fixed Hs ltac:(lia) w Hin).
Qed.

Theorem binary64_on_domain_all_unrepaired :
  (forall l : list f64, Forall sane_fixed l -> (Z.of_nat (length l) <= 2 ^ 53)%Z ->
     forall w, In w (weigh_unrepaired arithF l) -> fin64 w = true /\ (0 <= R64 w <= 1 + bpow radix2 (-52))%R)
  /\ (forall fixed : list f64, Forall sane_fixed fixed -> (Z.of_nat (length fixed) <= 3000000000)%Z ->
       Forall (fun n => 0 <= n <= 10000)%Z (map (slot_count arithF) (weigh_unrepaired arithF fixed)))
  /\ (forall (fixed : list f64) order,
       Forall sane_fixed fixed -> (Z.of_nat (length fixed) <= 3000000000)%Z ->
       (forall s, Permutation (order s) s) ->
       status_of (route_ring_unrepaired arithF order fixed) = Ok tt)
  /\ (forall (fixed : list f64) order,
       (Z.of_nat (length fixed) <= 3000000000)%Z -> (forall s, Permutation (order s) s) ->
       (forall w, In w (weigh_unrepaired arithF fixed) -> fin64 w = true /\ (0 <= R64 w <= 1 + bpow radix2 (-52))%R) ->
       status_of (route_ring_unrepaired arithF order fixed) = Ok tt).
Proof.
  split; [exact binary64_weights_on_domain_unrepaired|]. split; [exact binary64_slot_counts_on_domain_unrepaired|].
  split; [exact binary64_no_panic_on_domain_unrepaired|exact binary64_no_panic_partial_unrepaired].
Qed.

(* non-vacuity: 0.3 (0x3FD3333333333333) is a sane fixed weight, 0 a sane dynamic one *)
Example sane_fixed_nonvacuous :
  sane_fixed (f64_of_bits 4599075939470750515) /\ sane_fixed (f64_of_bits 0).
Proof.
  split; (split; [reflexivity|]).
  - right. unfold f64_of_bits, b64_of_bits, binary_float_of_bits. cbn -[bpow IZR].
    unfold F2R. cbn [Fnum Fexp cond_Zopp]. pose proof (bpow_gt_0 radix2 (-1000)) as Hp.
    assert (H1 : bpow radix2 (-1000) <= bpow radix2 (-54)) by (apply bpow_le; lia).
    change (bpow radix2 (-54)) with (/ 18014398509481984)%R in *. lra.
  - left. cbn. lra.
Qed.

(* ====================================================================== *)
(* weighTargets since commit 290c777 on binary64: it never crashes         *)
(* ====================================================================== *)
Lemma wmax_R : R64 f64_wmax = 1 + 4503600 * bpow radix2 (-52).
Proof.
  unfold f64_wmax, B2R, F2R. cbn [Fnum Fexp cond_Zopp].
  replace 4503599631874096%Z with (2 ^ 52 + 4503600)%Z by reflexivity. rewrite plus_IZR.
  replace (IZR (2 ^ 52)) with (bpow radix2 52) by (rewrite <- IZR_Zpower by lia; reflexivity).
  rewrite Rmult_plus_distr_r, <- bpow_plus. cbn [Z.add]. rewrite Z.pos_sub_diag. cbn [bpow]. lra.
Qed.

Lemma wmax_bounds : 1 <= R64 f64_wmax <= 1 + / 65536.
Proof.
  rewrite wmax_R. pose proof (bpow_gt_0 radix2 (-52)) as Hp.
  change (bpow radix2 (-52)) with (/ 4503599627370496) in *. lra.
Qed.

Lemma f64_le_spec x y : fin64 x = true -> fin64 y = true ->
  (f64_le x y = true -> R64 x <= R64 y).
Proof.
  intros Hx Hy. unfold f64_le, b64_compare. rewrite (Bcompare_correct 53 1024 x y Hx Hy).
  destruct (Rcompare_spec (R64 x) (R64 y)); intros; try discriminate; lra.
Qed.

(** a weight that passes [t.Weight >= 0 && t.Weight <= 1+1e-9] is a finite binary64
    (NaN, +Inf, -Inf fail one of the comparisons) in [0, float64(1+1e-9)] *)
Lemma usable_spec (w : f64) : usable arithF w = true ->
  fin64 w = true /\ 0 <= R64 w <= R64 f64_wmax.
Proof.
  unfold usable. cbn [a_le a_zero a_wmax arithF]. intros H. apply andb_prop in H. destruct H as [H1 H2].
  assert (Hfin : fin64 w = true).
  { destruct w as [s|s|s pl e|s m e p]; try reflexivity; exfalso.
    - destruct s; [vm_compute in H1|vm_compute in H2]; discriminate.
    - vm_compute in H1. discriminate. }
  destruct zeroF_ok as [H0r H0f].
  pose proof (f64_le_spec _ _ H0f Hfin H1) as Ha. rewrite H0r in Ha.
  pose proof (f64_le_spec w f64_wmax Hfin (eq_refl : fin64 f64_wmax = true) H2) as Hb.
  split; [exact Hfin|]. split; assumption.
Qed.

(** weighEvenly: 1 / float64(len) is a finite weight in [0, 1] *)
Lemma even_weight_ok (n : nat) : (1 <= Z.of_nat n <= 2 ^ 53)%Z ->
  let w := fdiv (f64_of_Z 1) (f64_of_Z (Z.of_nat n)) in fin64 w = true /\ 0 <= R64 w <= 1.
Proof.
  intros Hn. cbv zeta. destruct oneF_ok as [H1r H1f].
  destruct (f64_of_Z_correct (Z.of_nat n) ltac:(lia)) as [Hnr Hnf].
  assert (Hn1 : 1 <= IZR (Z.of_nat n)) by (apply IZR_le; lia).
  assert (Hq : 0 <= 1 / IZR (Z.of_nat n) <= 1).
  { split; [apply Rlt_le, Rdiv_lt_0_compat; lra|].
    apply Rmult_le_reg_r with (IZR (Z.of_nat n)); [lra|]. unfold Rdiv.
    rewrite Rmult_assoc, Rinv_l by lra. lra. }
  destruct (fdiv_ok (f64_of_Z 1) (f64_of_Z (Z.of_nat n)) 0 ltac:(lia) H1f) as [Hr Hrf].
  { rewrite Hnr. lra. }
  { rewrite H1r, Hnr. rewrite Rabs_pos_eq by lra. cbn [bpow]. lra. }
  rewrite H1r, Hnr in Hr. split; [exact Hrf|]. rewrite Hr. split.
  - apply round_ge_generic; [apply FLT_exp_valid; reflexivity|apply valid_rnd_round_mode|apply generic_format_0|lra].
  - apply round_le_generic; [apply FLT_exp_valid; reflexivity|apply valid_rnd_round_mode|apply (format_IZR 1); cbn; lia|lra].
Qed.

Lemma weigh_even_F l w : In w (weigh_even arithF l) -> (Z.of_nat (length l) <= 2 ^ 53)%Z ->
  fin64 w = true /\ 0 <= R64 w <= 1.
Proof.
  unfold weigh_even. cbv zeta. intros Hin Hlen. apply in_map_iff in Hin. destruct Hin as (f & <- & Hf).
  assert (Hl1 : (1 <= Z.of_nat (length l))%Z) by (destruct l; [destruct Hf|cbn [length]; lia]).
  exact (even_weight_ok (length l) (conj Hl1 Hlen)).
Qed.

Lemma uses_fill_true (A : arith) l : uses_fill A l = true ->
  weigh A l = weigh_unrepaired A l /\ forallb (usable A) (weigh_unrepaired A l) = true
  /\ (0 < total_slots (map (slot_count A) (weigh_unrepaired A l)))%Z.
Proof.
  intros H. unfold weigh. rewrite H. split; [reflexivity|].
  unfold uses_fill in H. apply andb_prop in H. destruct H as [_ H]. apply negb_true_iff in H.
  unfold fallback in H. cbv zeta in H. apply orb_false_iff in H. destruct H as [Ha Hb].
  apply negb_false_iff in Ha. apply Z.leb_gt in Hb. split; assumption.
Qed.

(** for EVERY list of binary64 FixedWeights (any bit patterns) the weights weighTargets leaves
    behind are finite and within [0, float64(1+1e-9)] *)
Theorem binary64_final_weights (l : list f64) : (Z.of_nat (length l) <= 2 ^ 53)%Z ->
  forall w, In w (weigh arithF l) -> fin64 w = true /\ 0 <= R64 w <= R64 f64_wmax.
Proof.
  intros Hlen w Hin. destruct (uses_fill arithF l) eqn:E.
  - destruct (uses_fill_true arithF l E) as (Hw & Hu & _). rewrite Hw in Hin.
    rewrite forallb_forall in Hu. now apply usable_spec, Hu.
  - unfold weigh in Hin. rewrite E in Hin. destruct (weigh_even_F l w Hin Hlen) as [Hf Hr].
    pose proof wmax_bounds. split; [exact Hf|lra].
Qed.

Theorem binary64_final_slot_counts (l : list f64) : (Z.of_nat (length l) <= 2 ^ 53)%Z ->
  Forall (fun n => 0 <= n <= 10000)%Z (map (slot_count arithF) (weigh arithF l)).
Proof.
  intros Hlen. apply Forall_forall. intros n Hn. apply in_map_iff in Hn. destruct Hn as (w & <- & Hin).
  destruct (binary64_final_weights l Hlen w Hin) as [Hf Hr]. pose proof wmax_bounds.
  apply slot_countF_range; [exact Hf|lra].
Qed.

(** C04_binary64_never_panics: for every non-empty list of binary64 fixed weights -- NaN, +-Inf,
    subnormals, huge values, anything -- of at most 3*10^9 targets and whatever the unstable sort
    does, weighTargets returns (no panic, no endless probe loop), every slot count lies in
    [0, 10000], the ring is not empty and has no nil slot, and every later round-robin or random
    pick returns a target. *)
Theorem binary64_never_panics (l : list f64) order :
  (0 < length l)%nat -> (Z.of_nat (length l) <= 3000000000)%Z -> (forall s, Permutation (order s) s) ->
  exists r, route_ring arithF order l = Ok (weigh arithF l, r)
    /\ Forall (fun n => 0 <= n <= 10000)%Z (map (slot_count arithF) (weigh arithF l))
    /\ r <> [] /\ occupancy None r = 0%nat
    /\ (forall total, exists i c, rr_pick r total = Ok (Some i, c))
    /\ (forall k, (k < length r)%nat -> exists i, rnd_pick r k = Ok (Some i)).
Proof.
  intros Hpos Hlen Hord.
  pose proof (binary64_final_slot_counts l ltac:(lia)) as Hrange.
  assert (Hring : exists r, route_ring arithF order l = Ok (weigh arithF l, r) /\ r <> [] /\ occupancy None r = 0%nat).
  { unfold route_ring. destruct (uses_fill arithF l) eqn:E.
    - destruct (uses_fill_true arithF l E) as (Hw & _ & Htot). rewrite <- Hw in Htot.
      set (counts := map (slot_count arithF) (weigh arithF l)) in *.
      assert (Hnn : Forall (fun n => 0 <= n)%Z counts) by (eapply Forall_impl; [|exact Hrange]; cbn; intros; lia).
      assert (Hub : Forall (fun n => n <= 10000)%Z counts) by (eapply Forall_impl; [|exact Hrange]; cbn; intros; lia).
      pose proof (zsum_bound' counts 10000 Hub) as Hz.
      assert (Hlc : length counts = length l).
      { unfold counts. rewrite map_length, Hw. unfold weigh_unrepaired. cbv zeta.
        destruct (Nat.eqb (n_fixed arithF l) 0); apply map_length. }
      rewrite Hlc in Hz. assert (H45 : (2 ^ 45 = 35184372088832)%Z) by reflexivity.
      change (total_slots counts) with (used_slots counts) in Htot.
      rewrite used_slots_sum in Htot by (auto; lia).
      destruct (ring_of_counts_spec counts (order (indexed counts)) Hnn ltac:(lia) (Hord _)) as (r & Hr & Hl & Hn & _).
      rewrite Hr. cbn [bind]. exists r. split; [reflexivity|]. split; [|exact Hn].
      intros ->. cbn [length] in Hl. lia.
    - exists (map Some (seq 0 (length l))). split; [reflexivity|]. split.
      + destruct l; [cbn in Hpos; lia|]. cbn [length seq map]. discriminate.
      + apply occupancy_none_map_some. }
  destruct Hring as (r & Hr & Hne & Hnil). exists r. split; [exact Hr|]. split; [exact Hrange|].
  split; [exact Hne|]. split; [exact Hnil|]. split.
  - intros total. now apply rr_pick_total.
  - intros k Hk. now apply rnd_pick_total.
Qed.

(* ---------- the statements about the sane domain, for the code as it is ---------- *)
Theorem binary64_weights_on_domain l :
  Forall sane_fixed l -> (Z.of_nat (length l) <= 2 ^ 53)%Z ->
  forall w, In w (weigh arithF l) -> fin64 w = true /\ 0 <= R64 w <= 1 + bpow radix2 (-52).
Proof.
  intros Hs Hlen w Hin. destruct (uses_fill arithF l) eqn:E.
  - destruct (uses_fill_true arithF l E) as (Hw & _). rewrite Hw in Hin.
    now apply (binary64_weights_on_domain_unrepaired l Hs Hlen).
  - unfold weigh in Hin. rewrite E in Hin. destruct (weigh_even_F l w Hin Hlen) as [Hf Hr].
    pose proof (bpow_gt_0 radix2 (-52)). split; [exact Hf|lra].
Qed.

Theorem binary64_slot_counts_on_domain (fixed : list f64) :
  Forall sane_fixed fixed -> (Z.of_nat (length fixed) <= 3000000000)%Z ->
  Forall (fun n => 0 <= n <= 10000)%Z (map (slot_count arithF) (weigh arithF fixed)).
Proof. intros _ Hlen. apply binary64_final_slot_counts. lia. Qed.

Lemma binary64_status_ok (fixed : list f64) order :
  (Z.of_nat (length fixed) <= 3000000000)%Z -> (forall s, Permutation (order s) s) ->
  status_of (route_ring arithF order fixed) = Ok tt.
Proof.
  intros Hlen Hord. destruct fixed as [|f fixed]; [reflexivity|].
  destruct (binary64_never_panics (f :: fixed) order ltac:(cbn; lia) Hlen Hord) as (r & Hr & _).
  rewrite Hr. reflexivity.
Qed.

Theorem binary64_no_panic_on_domain (fixed : list f64) order :
  Forall sane_fixed fixed -> (Z.of_nat (length fixed) <= 3000000000)%Z ->
  (forall s, Permutation (order s) s) ->
  status_of (route_ring arithF order fixed) = Ok tt.
Proof. intros _. apply binary64_status_ok. Qed.

Theorem binary64_no_panic_partial (fixed : list f64) order :
  (Z.of_nat (length fixed) <= 3000000000)%Z ->
  (forall s, Permutation (order s) s) ->
  (forall w, In w (weigh arithF fixed) -> fin64 w = true /\ (0 <= R64 w <= 1 + bpow radix2 (-52))%R) ->
  status_of (route_ring arithF order fixed) = Ok tt.
Proof. intros Hlen Hord _. now apply binary64_status_ok. Qed.

Theorem binary64_on_domain_all :
  (forall l : list f64, Forall sane_fixed l -> (Z.of_nat (length l) <= 2 ^ 53)%Z ->
     forall w, In w (weigh arithF l) -> fin64 w = true /\ (0 <= R64 w <= 1 + bpow radix2 (-52))%R)
  /\ (forall fixed : list f64, Forall sane_fixed fixed -> (Z.of_nat (length fixed) <= 3000000000)%Z ->
       Forall (fun n => 0 <= n <= 10000)%Z (map (slot_count arithF) (weigh arithF fixed)))
  /\ (forall (fixed : list f64) order,
       Forall sane_fixed fixed -> (Z.of_nat (length fixed) <= 3000000000)%Z ->
       (forall s, Permutation (order s) s) ->
       status_of (route_ring arithF order fixed) = Ok tt)
  /\ (forall (fixed : list f64) order,
       (Z.of_nat (length fixed) <= 3000000000)%Z -> (forall s, Permutation (order s) s) ->
       (forall w, In w (weigh arithF fixed) -> fin64 w = true /\ (0 <= R64 w <= 1 + bpow radix2 (-52))%R) ->
       status_of (route_ring arithF order fixed) = Ok tt).
Proof.
  split; [exact binary64_weights_on_domain|]. split; [exact binary64_slot_counts_on_domain|].
  split; [exact binary64_no_panic_on_domain|exact binary64_no_panic_partial].
Qed.

(* ---------- the unrepaired code crashes: refutations (the defects 290c777 repaired) ---------- *)
(** F-C04-1: `weight Inf` (0x7FF0000000000000), `weight 5e-324` (bit pattern 1): a slot count of
    -2^63 and make() of a negative length *)
Theorem unrepaired_weight_inf_crashes :
  route_status_unrepaired arithF [f64_of_bits 9218868437227405312] = Panic
  /\ route_status_unrepaired arithF [f64_of_bits 1] = Panic.
Proof. split; vm_compute; reflexivity. Qed.

(** F-C04-2: two weights of 1e308 (0x7FE1CCF385EBC8A0): the table builds with an EMPTY ring and
    every pick divides by zero *)
Theorem unrepaired_weight_overflow_empty_ring :
  exists ws, route_ring_unrepaired arithF stable_order
               [f64_of_bits 9214871658872686752; f64_of_bits 9214871658872686752] = Ok (ws, [])
  /\ forall total, rr_pick [] total = Panic.
Proof.
  eexists. split; [|reflexivity].
  unfold route_ring_unrepaired. cbv zeta.
  replace (Nat.eqb (n_fixed arithF [f64_of_bits 9214871658872686752; f64_of_bits 9214871658872686752]) 0) with false
    by (vm_compute; reflexivity).
  replace (map (slot_count arithF) (weigh_unrepaired arithF [f64_of_bits 9214871658872686752; f64_of_bits 9214871658872686752]))
    with [0%Z; 0%Z] by (vm_compute; reflexivity).
  reflexivity.
Qed.

(** ... and the same inputs are harmless since 290c777 (corollaries of [binary64_never_panics],
    stated on the witnesses) *)
Theorem repaired_witnesses_ok :
  route_status arithF [f64_of_bits 9218868437227405312] = Ok tt
  /\ route_status arithF [f64_of_bits 1] = Ok tt
  /\ route_status arithF [f64_of_bits 9214871658872686752; f64_of_bits 9214871658872686752] = Ok tt.
Proof. repeat split; vm_compute; reflexivity. Qed.

(* ====================================================================== *)
(* where the even fallback of 290c777 replaces a proportional distribution *)
(* ====================================================================== *)
Lemma f64_le_true x y : fin64 x = true -> fin64 y = true -> R64 x <= R64 y -> f64_le x y = true.
Proof.
  intros Hx Hy H. unfold f64_le, b64_compare. rewrite (Bcompare_correct 53 1024 x y Hx Hy).
  destruct (Rcompare_spec (R64 x) (R64 y)); try reflexivity. lra.
Qed.

Lemma f64_gt_true x y : fin64 x = true -> fin64 y = true -> R64 y < R64 x -> f64_gt x y = true.
Proof.
  intros Hx Hy H. destruct (f64_gt_spec x y Hx Hy) as [_ Hf].
  destruct (f64_gt x y); [reflexivity|]. specialize (Hf eq_refl). lra.
Qed.

Lemma usable_of_range (w : f64) : fin64 w = true -> 0 <= R64 w <= 1 + / 65536 ->
  R64 w <= R64 f64_wmax -> usable arithF w = true.
Proof.
  intros Hf [H0 _] Hm. unfold usable. cbn [a_le a_zero a_wmax arithF].
  destruct zeroF_ok as [H0r H0f]. apply andb_true_iff. split.
  - apply f64_le_true; [exact H0f|exact Hf|rewrite H0r; exact H0].
  - apply f64_le_true; [exact Hf|reflexivity|exact Hm].
Qed.

(** never starved / never picked on binary64: a positive usable weight gets at least one slot,
    a zero weight none *)
Theorem slot_countF_pos (w : f64) : fin64 w = true -> 0 < R64 w <= 1 + / 65536 ->
  (1 <= slot_count arithF w <= 10000)%Z.
Proof.
  intros Hf [H0 H1]. pose proof (slot_countF_range w Hf ltac:(lra)) as Hr. split; [|lia].
  destruct zeroF_ok as [H0r H0f].
  assert (Hgt : f64_gt w (f64_of_Z 0) = true) by (apply f64_gt_true; [exact Hf|exact H0f|rewrite H0r; exact H0]).
  unfold slot_count in *. cbv zeta in *. cbn [a_trunc a_mul a_max_slots a_gt a_zero arithF] in *.
  rewrite Hgt in *. destruct (f64_trunc (b64_mult mode_NE (f64_of_Z 10000) w) =? 0)%Z eqn:E; cbn [andb] in *; [lia|].
  apply Z.eqb_neq in E. lia.
Qed.

Theorem slot_countF_zero (w : f64) : fin64 w = true -> R64 w = 0 -> slot_count arithF w = 0%Z.
Proof.
  intros Hf H0. destruct zeroF_ok as [H0r H0f].
  assert (Hgt : f64_gt w (f64_of_Z 0) = false).
  { destruct (f64_gt_spec w (f64_of_Z 0) Hf H0f) as [Ht _].
    destruct (f64_gt w (f64_of_Z 0)); [specialize (Ht eq_refl); lra|reflexivity]. }
  unfold slot_count. cbv zeta. cbn [a_trunc a_mul a_max_slots a_gt a_zero arithF]. rewrite Hgt, andb_false_r.
  destruct (f64_of_Z_correct 10000 ltac:(cbn; lia)) as [Hc Hcf].
  change (b64_mult mode_NE) with fmult.
  destruct (fmult_ok (f64_of_Z 10000) w 0 ltac:(lia) Hcf Hf) as [Hr Hrf].
  { rewrite Hc, H0, Rmult_0_r, Rabs_R0. apply bpow_ge_0. }
  rewrite Hc, H0, Rmult_0_r, rnd_0 in Hr.
  unfold f64_trunc. rewrite Hrf.
  assert (Hz : Binary.Btrunc 53 1024 (fmult (f64_of_Z 10000) w) = 0%Z).
  { pose proof (Btrunc_correct 53 1024 Hmax1024 (fmult (f64_of_Z 10000) w)) as Hb.
    rewrite round_FIX_IZR, Hr in Hb. apply eq_IZR in Hb. rewrite Hb. apply (Ztrunc_IZR 0). }
  rewrite Hz. reflexivity.
Qed.

(** on the sane domain the scale factor is a finite number in [2^-53, 2^1000] *)
Lemma scale_bounds l : Forall sane_fixed l -> (Z.of_nat (length l) <= 2 ^ 53)%Z -> n_fixed arithF l <> 0%nat ->
  let scale := scale_from arithF (n_fixed arithF l) (length l) (sum_fixed arithF l) in
  fin64 scale = true /\ bpow radix2 (-53) <= R64 scale <= bpow radix2 1000.
Proof.
  intros Hl Hlen E0. cbv zeta.
  destruct oneF_ok as [H1r H1f].
  destruct (sum_fixed_ok l Hl Hlen) as (Hsf & Hsr & Hsg). cbv zeta in *.
  set (sf := sum_fixed arithF l) in *.
  assert (HlenR : IZR (Z.of_nat (length l)) <= bpow radix2 53) by (rewrite bpow53; apply IZR_le; exact Hlen).
  assert (Hsfpos : bpow radix2 (-1000) <= R64 sf).
  { unfold n_fixed in E0. destruct (filter (is_fixed arithF) l) as [|g gs] eqn:Eg; [cbn in E0; congruence|].
    assert (Hg : In g (filter (is_fixed arithF) l)) by (rewrite Eg; now left).
    apply filter_In in Hg. destruct Hg as [Hgin Hgf]. destruct (Hsg g Hgin Hgf). lra. }
  pose proof (bpow_gt_0 radix2 (-1000)) as Hm1000. pose proof (bpow_gt_0 radix2 (-53)) as Hm53.
  assert (H53le1 : bpow radix2 (-53) <= 1) by (apply bpow_le_1; lia).
  assert (H1le : 1 <= bpow radix2 1000) by (change 1 with (bpow radix2 0); apply bpow_le; lia).
  assert (Hq2 : 1 / R64 sf <= bpow radix2 1000).
  { apply Rmult_le_reg_r with (R64 sf); [lra|]. unfold Rdiv. rewrite Rmult_assoc, Rinv_l by lra.
    apply Rle_trans with (bpow radix2 1000 * bpow radix2 (-1000)).
    - rewrite <- bpow_plus. cbn [Z.add]. rewrite Z.pos_sub_diag. cbn [bpow]. lra.
    - apply Rmult_le_compat_l; [apply bpow_ge_0|lra]. }
  assert (Hq1 : bpow radix2 (-53) <= 1 / R64 sf).
  { apply Rmult_le_reg_r with (R64 sf); [lra|]. unfold Rdiv. rewrite Rmult_assoc, Rinv_l by lra.
    apply Rle_trans with (bpow radix2 (-53) * bpow radix2 53).
    - apply Rmult_le_compat_l; lra.
    - rewrite <- bpow_plus. cbn [Z.add]. rewrite Z.pos_sub_diag. cbn [bpow]. lra. }
  assert (Hdiv : fin64 (fdiv (f64_of_Z 1) sf) = true
                 /\ bpow radix2 (-53) <= R64 (fdiv (f64_of_Z 1) sf) <= bpow radix2 1000).
  { destruct (fdiv_ok (f64_of_Z 1) sf 1000 ltac:(lia) H1f ltac:(lra)) as [Hr Hrf].
    { rewrite H1r. rewrite Rabs_pos_eq by lra. exact Hq2. }
    rewrite H1r in Hr. split; [exact Hrf|]. rewrite Hr. split.
    - apply round_ge_generic; [apply FLT_exp_valid; reflexivity|apply valid_rnd_round_mode|apply fmt_bpow; lia|exact Hq1].
    - apply round_le_generic; [apply FLT_exp_valid; reflexivity|apply valid_rnd_round_mode|apply fmt_bpow; lia|exact Hq2]. }
  unfold scale_from. cbn [a_gt a_lt a_div a_one arithF]. change (b64_div mode_NE) with fdiv.
  destruct (f64_gt sf (f64_of_Z 1) || (Nat.eqb (n_fixed arithF l) (length l) && f64_lt sf (f64_of_Z 1))).
  - exact Hdiv.
  - split; [exact H1f|]. rewrite H1r. lra.
Qed.

Lemma in_le_zsum counts n : Forall (fun n => 0 <= n)%Z counts -> In n counts -> (n <= zsum counts)%Z.
Proof.
  induction 1 as [|m counts Hm Hall IH]; intros Hin; [destruct Hin|].
  cbn [zsum fold_right]. fold (zsum counts). pose proof (zsum_nonneg counts Hall).
  destruct Hin as [<-|Hin]; [lia|specialize (IH Hin); lia].
Qed.

(** C04_binary64_no_fallback_on_domain: with sane fixed weights (finite; dynamic, or in [2^-1000, 1])
    the fallback of 290c777 is never taken: the ring is built from the computed weights *)
Theorem binary64_no_fallback_on_domain (l : list f64) :
  Forall sane_fixed l -> (Z.of_nat (length l) <= 3000000000)%Z -> n_fixed arithF l <> 0%nat ->
  uses_fill arithF l = true /\ weigh arithF l = weigh_unrepaired arithF l.
Proof.
  intros Hl Hlen E0.
  assert (Hu : uses_fill arithF l = true); [|split; [exact Hu|unfold weigh; now rewrite Hu]].
  unfold uses_fill. apply andb_true_iff. split; [apply negb_true_iff, Nat.eqb_neq, E0|].
  apply negb_true_iff. unfold fallback. cbv zeta. apply orb_false_iff.
  pose proof (binary64_weights_on_domain_unrepaired l Hl ltac:(lia)) as Hw.
  pose proof wmax_bounds as Hwm. pose proof u52_le as Hu52.
  assert (Hwm2 : 1 + bpow radix2 (-52) <= R64 f64_wmax).
  { rewrite wmax_R. pose proof (bpow_gt_0 radix2 (-52)). lra. }
  split.
  - apply negb_false_iff, forallb_forall. intros w Hin. destruct (Hw w Hin) as [Hf Hr].
    apply usable_of_range; [exact Hf|lra|lra].
  - apply Z.leb_gt.
    set (counts := map (slot_count arithF) (weigh_unrepaired arithF l)).
    assert (Hrange : Forall (fun n => 0 <= n <= 10000)%Z counts).
    { apply Forall_forall. intros n Hn. apply in_map_iff in Hn. destruct Hn as (w & <- & Hin).
      destruct (Hw w Hin) as [Hf Hr]. apply slot_countF_range; [exact Hf|lra]. }
    assert (Hnn : Forall (fun n => 0 <= n)%Z counts) by (eapply Forall_impl; [|exact Hrange]; cbn; intros; lia).
    assert (Hub : Forall (fun n => n <= 10000)%Z counts) by (eapply Forall_impl; [|exact Hrange]; cbn; intros; lia).
    pose proof (zsum_bound' counts 10000 Hub) as Hz.
    assert (Hlc : length counts = length l).
    { unfold counts. rewrite map_length. unfold weigh_unrepaired. cbv zeta.
      destruct (Nat.eqb (n_fixed arithF l) 0); apply map_length. }
    rewrite Hlc in Hz.
    change (total_slots counts) with (used_slots counts). rewrite used_slots_sum by (auto; lia).
    (* a fixed target has a positive weight, hence a slot *)
    assert (Hg : exists g, In g l /\ is_fixed arithF g = true).
    { unfold n_fixed in E0. destruct (filter (is_fixed arithF) l) as [|g gs] eqn:Eg; [cbn in E0; congruence|].
      assert (Hg : In g (filter (is_fixed arithF) l)) by (rewrite Eg; now left).
      apply filter_In in Hg. exists g. exact Hg. }
    destruct Hg as (g & Hgin & Hgf).
    destruct (scale_bounds l Hl ltac:(lia) E0) as (Hscf & Hsc0 & Hsc1). cbv zeta in *.
    set (scale := scale_from arithF (n_fixed arithF l) (length l) (sum_fixed arithF l)) in *.
    assert (Hgs : sane_fixed g) by (rewrite Forall_forall in Hl; now apply Hl).
    destruct (is_fixed_spec g Hgs) as [Hgr _]. specialize (Hgr Hgf). destruct Hgs as [Hgfin _].
    assert (Hwin : In (fmult g scale) (weigh_unrepaired arithF l)).
    { unfold weigh_unrepaired. cbv zeta.
      replace (Nat.eqb (n_fixed arithF l) 0) with false by (symmetry; apply Nat.eqb_neq; exact E0).
      apply in_map_iff. exists g. split; [|exact Hgin]. rewrite Hgf. reflexivity. }
    destruct (Hw _ Hwin) as [Hwf Hwr].
    assert (Hpos : 0 < R64 (fmult g scale)).
    { pose proof (bpow_gt_0 radix2 (-1000)) as Hm1000. pose proof (bpow_gt_0 radix2 (-53)) as Hm53.
      assert (Hprod : bpow radix2 (-1053) <= R64 g * R64 scale).
      { replace (-1053)%Z with (-1000 + -53)%Z by lia. rewrite bpow_plus. apply Rmult_le_compat; lra. }
      destruct (fmult_ok g scale 1000 ltac:(lia) Hgfin Hscf) as [Hr _].
      { rewrite Rabs_pos_eq by (apply Rmult_le_pos; lra).
        apply Rle_trans with (1 * bpow radix2 1000); [apply Rmult_le_compat; lra|lra]. }
      rewrite Hr. apply Rlt_le_trans with (bpow radix2 (-1053)); [apply bpow_gt_0|].
      apply round_ge_generic; [apply FLT_exp_valid; reflexivity|apply valid_rnd_round_mode|apply fmt_bpow; lia|exact Hprod]. }
    pose proof (slot_countF_pos (fmult g scale) Hwf ltac:(lra)) as Hslot.
    assert (Hin : In (slot_count arithF (fmult g scale)) counts) by (unfold counts; now apply in_map).
    pose proof (in_le_zsum counts _ Hnn Hin). lia.
Qed.

(** C04_binary64_fallback_refuted: two fixed weights of 1 and 2 units in the last place of the
    subnormal range (5e-324 and 1e-323), all targets fixed: 1/sumFixed = +Inf, the weights are unusable
    and weighTargets distributes evenly, 0.5 / 0.5 (0x3FE0000000000000), where the exact algorithm (and
    the property's "scaled up proportionally") gives 1/3 and 2/3.  Likewise 1e308 and 1.5e308
    (0x7FE1CCF385EBC8A0, 1.5e308): the sum is +Inf, even fallback instead of 0.4 / 0.6. *)
Theorem binary64_fallback_refuted :
  uses_fill arithF (map f64_of_bits [1; 2]%Z) = false
  /\ weighF [1; 2]%Z = [4602678819172646912; 4602678819172646912]%Z
  /\ map Qreduction.Qred (weighQ (map (fun b => f64_to_Q (f64_of_bits b)) [1; 2]%Z))
     = [QArith_base.Qmake 1 3; QArith_base.Qmake 2 3]
  /\ weighF [9214871658872686752; 9217376869322697968]%Z = [4602678819172646912; 4602678819172646912]%Z
  /\ map Qreduction.Qred (weighQ (map (fun b => f64_to_Q (f64_of_bits b)) [9214871658872686752; 9217376869322697968]%Z))
     = [QArith_base.Qmake 2 5; QArith_base.Qmake 3 5].
Proof. repeat split; vm_compute; reflexivity. Qed.
